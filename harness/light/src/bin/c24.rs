//! C24 correspondence harness: checked add/sub/mul/div/neg/abs of Decimal and PreciseDecimal and the
//! conversions (Decimal <-> PreciseDecimal, from primitive and bnum integers, to primitive integers)
//! on generated inputs; outputs go to Coq case files (model: coq/Model/C24_Dec.v).
//! Direct oracle: exact big-integer / rational arithmetic with num-bigint (truncation toward zero,
//! range test), independent of the code under test and of the Coq model.
use num_bigint::BigInt;
use num_traits::{One, Signed, Zero};
use radix_common::math::*;
use serde_json::json;
use std::panic::AssertUnwindSafe;
use vh_common::*;
use vh_light::dec::*;

#[derive(Clone, Debug)]
enum Op {
    Add(BigInt, BigInt),
    Sub(BigInt, BigInt),
    Mul(BigInt, BigInt),
    Div(BigInt, BigInt),
    Neg(BigInt),
    Abs(BigInt),
    DecToPdec(BigInt),
    PdecToDec(BigInt),
    FromPrim(usize, BigInt),   // index into PRIMS
    TryFromInt(usize, BigInt), // index into BNUMS
    ToPrim(usize, BigInt),
}

// (name, bits, signed)
const PRIMS: [(&str, u32, bool); 12] = [
    ("i8", 8, true),
    ("i16", 16, true),
    ("i32", 32, true),
    ("i64", 64, true),
    ("i128", 128, true),
    ("isize", 64, true),
    ("u8", 8, false),
    ("u16", 16, false),
    ("u32", 32, false),
    ("u64", 64, false),
    ("u128", 128, false),
    ("usize", 64, false),
];
const BNUMS: [(&str, u32, bool); 12] = [
    ("I192", 192, true),
    ("I256", 256, true),
    ("I320", 320, true),
    ("I384", 384, true), // PreciseDecimal only
    ("I448", 448, true),
    ("I512", 512, true),
    ("U192", 192, false),
    ("U256", 256, false),
    ("U320", 320, false),
    ("U384", 384, false), // PreciseDecimal only
    ("U448", 448, false),
    ("U512", 512, false),
];
fn ty_min(bits: u32, signed: bool) -> BigInt {
    if signed {
        -pow2(bits - 1)
    } else {
        BigInt::zero()
    }
}
fn ty_max(bits: u32, signed: bool) -> BigInt {
    if signed {
        pow2(bits - 1) - 1
    } else {
        pow2(bits) - 1
    }
}
fn ty_coq(bits: u32, signed: bool) -> String {
    format!("({} {})", if signed { "SI" } else { "UI" }, bits)
}

fn op_coq(op: &Op) -> String {
    match op {
        Op::Add(a, b) => format!("OAdd {} {}", cz(a), cz(b)),
        Op::Sub(a, b) => format!("OSub {} {}", cz(a), cz(b)),
        Op::Mul(a, b) => format!("OMul {} {}", cz(a), cz(b)),
        Op::Div(a, b) => format!("ODiv {} {}", cz(a), cz(b)),
        Op::Neg(a) => format!("ONeg {}", cz(a)),
        Op::Abs(a) => format!("OAbs {}", cz(a)),
        Op::DecToPdec(a) => format!("ODecToPdec {}", cz(a)),
        Op::PdecToDec(a) => format!("OPdecToDec {}", cz(a)),
        Op::FromPrim(t, v) => format!("OFromPrim {} {}", ty_coq(PRIMS[*t].1, PRIMS[*t].2), cz(v)),
        Op::TryFromInt(t, v) => format!("OTryFromInt {} {}", ty_coq(BNUMS[*t].1, BNUMS[*t].2), cz(v)),
        Op::ToPrim(t, v) => format!("OToPrim {} {}", ty_coq(PRIMS[*t].1, PRIMS[*t].2), cz(v)),
    }
}
fn op_kind(op: &Op) -> &'static str {
    match op {
        Op::Add(..) => "add",
        Op::Sub(..) => "sub",
        Op::Mul(..) => "mul",
        Op::Div(..) => "div",
        Op::Neg(..) => "neg",
        Op::Abs(..) => "abs",
        Op::DecToPdec(..) => "dec_to_pdec",
        Op::PdecToDec(..) => "pdec_to_dec",
        Op::FromPrim(..) => "from_prim",
        Op::TryFromInt(..) => "try_from_int",
        Op::ToPrim(..) => "to_prim",
    }
}

// ------------------------------------------------------------------------------------------------
// implementation side
// ------------------------------------------------------------------------------------------------

macro_rules! bin_op {
    ($f:expr, $a:expr, $b:expr, $m:ident) => {
        match $f {
            Fmt::Dec => Out::from_opt(catch(AssertUnwindSafe(|| dec($a).$m(dec($b)).map(dec_big)))),
            Fmt::PDec => Out::from_opt(catch(AssertUnwindSafe(|| pdec($a).$m(pdec($b)).map(pdec_big)))),
        }
    };
}
macro_rules! un_op {
    ($f:expr, $a:expr, $m:ident) => {
        match $f {
            Fmt::Dec => Out::from_opt(catch(AssertUnwindSafe(|| dec($a).$m().map(dec_big)))),
            Fmt::PDec => Out::from_opt(catch(AssertUnwindSafe(|| pdec($a).$m().map(pdec_big)))),
        }
    };
}

fn to_i128(z: &BigInt) -> i128 {
    let d = to_digits(z, 2);
    ((d[1] as u128) << 64 | d[0] as u128) as i128
}
fn to_u128(z: &BigInt) -> u128 {
    let d = to_digits(z, 2);
    (d[1] as u128) << 64 | d[0] as u128
}

fn from_prim(f: Fmt, t: usize, v: &BigInt) -> Out {
    macro_rules! go {
        ($x:expr) => {
            match f {
                Fmt::Dec => match catch(AssertUnwindSafe(|| dec_big(Decimal::from($x)))) {
                    Ok(z) => Out::Ok(z),
                    Err(_) => Out::Panic,
                },
                Fmt::PDec => match catch(AssertUnwindSafe(|| pdec_big(PreciseDecimal::from($x)))) {
                    Ok(z) => Out::Ok(z),
                    Err(_) => Out::Panic,
                },
            }
        };
    }
    let s = to_i128(v);
    let u = to_u128(v);
    match PRIMS[t].0 {
        "i8" => go!(s as i8),
        "i16" => go!(s as i16),
        "i32" => go!(s as i32),
        "i64" => go!(s as i64),
        "i128" => go!(s),
        "isize" => go!(s as isize),
        "u8" => go!(u as u8),
        "u16" => go!(u as u16),
        "u32" => go!(u as u32),
        "u64" => go!(u as u64),
        "u128" => go!(u),
        "usize" => go!(u as usize),
        _ => unreachable!(),
    }
}

fn try_from_int(f: Fmt, t: usize, v: &BigInt) -> Out {
    macro_rules! go {
        ($conv:ident) => {
            match f {
                Fmt::Dec => match catch(AssertUnwindSafe(|| Decimal::try_from($conv(v)))) {
                    Ok(Ok(d)) => Out::Ok(dec_big(d)),
                    Ok(Err(ParseDecimalError::Overflow)) => Out::Err("EOverflow"),
                    Ok(Err(_)) => Out::Err("EInvalidDigit"),
                    Err(_) => Out::Panic,
                },
                Fmt::PDec => match catch(AssertUnwindSafe(|| PreciseDecimal::try_from($conv(v)))) {
                    Ok(Ok(d)) => Out::Ok(pdec_big(d)),
                    Ok(Err(ParsePreciseDecimalError::Overflow)) => Out::Err("EOverflow"),
                    Ok(Err(_)) => Out::Err("EInvalidDigit"),
                    Err(_) => Out::Panic,
                },
            }
        };
    }
    macro_rules! go_p {
        ($conv:ident) => {
            match catch(AssertUnwindSafe(|| PreciseDecimal::try_from($conv(v)))) {
                Ok(Ok(d)) => Out::Ok(pdec_big(d)),
                Ok(Err(ParsePreciseDecimalError::Overflow)) => Out::Err("EOverflow"),
                Ok(Err(_)) => Out::Err("EInvalidDigit"),
                Err(_) => Out::Panic,
            }
        };
    }
    match BNUMS[t].0 {
        "I192" => go!(to_i192),
        "I256" => go!(to_i256),
        "I320" => go!(to_i320),
        "I384" => go_p!(to_i384),
        "I448" => go!(to_i448),
        "I512" => go!(to_i512),
        "U192" => go!(to_u192),
        "U256" => go!(to_u256),
        "U320" => go!(to_u320),
        "U384" => go_p!(to_u384),
        "U448" => go!(to_u448),
        "U512" => go!(to_u512),
        _ => unreachable!(),
    }
}

fn to_prim(f: Fmt, t: usize, v: &BigInt) -> Out {
    macro_rules! go {
        ($ty:ty) => {
            match f {
                Fmt::Dec => match catch(AssertUnwindSafe(|| <$ty>::try_from(dec(v)))) {
                    Ok(Ok(x)) => Out::Ok(BigInt::from(x)),
                    Ok(Err(ParseDecimalError::Overflow)) => Out::Err("EOverflow"),
                    Ok(Err(ParseDecimalError::InvalidDigit)) => Out::Err("EInvalidDigit"),
                    Ok(Err(_)) => Out::Err("EInvalidLength"),
                    Err(_) => Out::Panic,
                },
                Fmt::PDec => match catch(AssertUnwindSafe(|| <$ty>::try_from(pdec(v)))) {
                    Ok(Ok(x)) => Out::Ok(BigInt::from(x)),
                    Ok(Err(ParsePreciseDecimalError::Overflow)) => Out::Err("EOverflow"),
                    Ok(Err(ParsePreciseDecimalError::InvalidDigit)) => Out::Err("EInvalidDigit"),
                    Ok(Err(_)) => Out::Err("EInvalidLength"),
                    Err(_) => Out::Panic,
                },
            }
        };
    }
    match PRIMS[t].0 {
        "i8" => go!(i8),
        "i16" => go!(i16),
        "i32" => go!(i32),
        "i64" => go!(i64),
        "i128" => go!(i128),
        "isize" => go!(isize),
        "u8" => go!(u8),
        "u16" => go!(u16),
        "u32" => go!(u32),
        "u64" => go!(u64),
        "u128" => go!(u128),
        "usize" => go!(usize),
        _ => unreachable!(),
    }
}

fn run_impl(f: Fmt, op: &Op) -> Out {
    match op {
        Op::Add(a, b) => bin_op!(f, a, b, checked_add),
        Op::Sub(a, b) => bin_op!(f, a, b, checked_sub),
        Op::Mul(a, b) => bin_op!(f, a, b, checked_mul),
        Op::Div(a, b) => bin_op!(f, a, b, checked_div),
        Op::Neg(a) => un_op!(f, a, checked_neg),
        Op::Abs(a) => un_op!(f, a, checked_abs),
        Op::DecToPdec(a) => match catch(AssertUnwindSafe(|| pdec_big(PreciseDecimal::from(dec(a))))) {
            Ok(z) => Out::Ok(z),
            Err(_) => Out::Panic,
        },
        Op::PdecToDec(p) => match catch(AssertUnwindSafe(|| Decimal::try_from(pdec(p)))) {
            Ok(Ok(d)) => Out::Ok(dec_big(d)),
            Ok(Err(ParseDecimalError::Overflow)) => Out::Err("EOverflow"),
            Ok(Err(_)) => Out::Err("EInvalidDigit"),
            Err(_) => Out::Panic,
        },
        Op::FromPrim(t, v) => from_prim(f, *t, v),
        Op::TryFromInt(t, v) => try_from_int(f, *t, v),
        Op::ToPrim(t, v) => to_prim(f, *t, v),
    }
}

// ------------------------------------------------------------------------------------------------
// oracle: the property statement in exact arithmetic
// ------------------------------------------------------------------------------------------------

/// expected outcome: Some(exact value) if representable in `fits`, None = must report failure
fn expect(f: Fmt, op: &Op) -> (Option<BigInt>, &'static str) {
    let in_f = |z: BigInt| if f.fits(&z) { Some(z) } else { None };
    match op {
        Op::Add(a, b) => (in_f(a + b), "ENone"),
        Op::Sub(a, b) => (in_f(a - b), "ENone"),
        // (a/ONE)*(b/ONE) in units of 1/ONE = a*b/ONE, truncated toward zero
        Op::Mul(a, b) => (in_f(trunc_div(&(a * b), &f.one())), "ENone"),
        Op::Div(a, b) => {
            if b.is_zero() {
                (None, "ENone")
            } else {
                (in_f(trunc_div(&(a * f.one()), b)), "ENone")
            }
        }
        Op::Neg(a) => (in_f(-a), "ENone"),
        Op::Abs(a) => (in_f(a.abs()), "ENone"),
        Op::DecToPdec(a) => {
            let p = a * pow10(18);
            (if Fmt::PDec.fits(&p) { Some(p) } else { None }, "-")
        }
        Op::PdecToDec(p) => {
            let d = trunc_div(p, &pow10(18));
            (if Fmt::Dec.fits(&d) { Some(d) } else { None }, "EOverflow")
        }
        Op::FromPrim(_, v) => (in_f(v * f.one()), "-"),
        Op::TryFromInt(_, v) => (in_f(v * f.one()), "EOverflow"),
        Op::ToPrim(t, v) => {
            let (q, r) = (trunc_div(v, &f.one()), v % f.one());
            if !r.is_zero() {
                (None, "EInvalidDigit")
            } else if q >= ty_min(PRIMS[*t].1, PRIMS[*t].2) && q <= ty_max(PRIMS[*t].1, PRIMS[*t].2) {
                (Some(q), "")
            } else {
                (None, "EOverflow")
            }
        }
    }
}

// ------------------------------------------------------------------------------------------------
// generator
// ------------------------------------------------------------------------------------------------

fn nudge(rng: &mut Rng, z: BigInt) -> BigInt {
    z + BigInt::from(rng.range(0, 4) as i64 - 2)
}
fn clamp_or(f: Fmt, z: BigInt, alt: &BigInt) -> BigInt {
    if f.fits(&z) {
        z
    } else {
        alt.clone()
    }
}

fn gen_op(rng: &mut Rng, f: Fmt, bnd: &[BigInt], kind: u64) -> Op {
    let a = gen_value(rng, f, bnd);
    let b = gen_value(rng, f, bnd);
    let targets = [f.min(), f.max(), f.min() - 1, f.max() + 1, f.min() + 1, f.max() - 1, BigInt::zero(), f.one(), -f.one()];
    let aimed = rng.chance(1, 3);
    match kind {
        0 => {
            if aimed {
                let t = rng.pick(&targets).clone();
                let b2 = clamp_or(f, nudge(rng, t - &a), &b);
                Op::Add(a, b2)
            } else {
                Op::Add(a, b)
            }
        }
        1 => {
            if aimed {
                let t = rng.pick(&targets).clone();
                let b2 = clamp_or(f, nudge(rng, &a - t), &b);
                Op::Sub(a, b2)
            } else {
                Op::Sub(a, b)
            }
        }
        2 => {
            if aimed && !a.is_zero() {
                // b such that a*b/ONE lands on / next to a target
                let t = rng.pick(&targets).clone();
                let b2 = clamp_or(f, nudge(rng, trunc_div(&(t * f.one()), &a)), &b);
                Op::Mul(a, b2)
            } else if rng.chance(1, 3) {
                // magnitudes whose product is near the top of the range
                let ba = rng.range(1, (f.bits() + f.scale() * 10 / 3) as u64) as u32;
                let bb = (f.bits() - 1 + f.scale() * 10 / 3 + 2).saturating_sub(ba).min(f.bits() - 1);
                let x = rand_bits(rng, ba.min(f.bits() - 1)) * if rng.bool() { 1 } else { -1 };
                let yb = rng.range(bb.saturating_sub(3) as u64, bb as u64) as u32;
                let y = rand_bits(rng, yb) * if rng.bool() { 1 } else { -1 };
                Op::Mul(clamp_or(f, x, &a), clamp_or(f, y, &b))
            } else {
                Op::Mul(a, b)
            }
        }
        3 => {
            if aimed && !b.is_zero() {
                // a such that a*ONE/b lands on / next to a target
                let t = rng.pick(&targets).clone();
                let a2 = clamp_or(f, nudge(rng, trunc_div(&(t * &b), &f.one())), &a);
                Op::Div(a2, b)
            } else if rng.chance(1, 12) {
                Op::Div(a, BigInt::zero())
            } else if rng.chance(1, 3) {
                // small divisors: quotient near / above the range
                let bb = rng.range(1, (f.scale() * 10 / 3 + 4) as u64) as u32;
                let y = rand_bits(rng, bb) * if rng.bool() { 1 } else { -1 };
                Op::Div(a, y)
            } else {
                Op::Div(a, b)
            }
        }
        4 => Op::Neg(a),
        5 => Op::Abs(a),
        6 => Op::DecToPdec(gen_value(rng, Fmt::Dec, &boundaries(Fmt::Dec))),
        7 => {
            let p = if aimed {
                // around the Decimal range limits, in PreciseDecimal units
                let t = rng.pick(&[Fmt::Dec.min(), Fmt::Dec.max(), Fmt::Dec.min() - 1, Fmt::Dec.max() + 1]).clone();
                let off = rand_signed(rng, 61);
                t * pow10(18) + off
            } else {
                gen_value(rng, Fmt::PDec, &boundaries(Fmt::PDec))
            };
            Op::PdecToDec(clamp_or(Fmt::PDec, p, &BigInt::one()))
        }
        8 => {
            let t = rng.usize_below(PRIMS.len());
            let (_, bits, signed) = PRIMS[t];
            let v = match rng.below(4) {
                0 => ty_min(bits, signed),
                1 => ty_max(bits, signed),
                2 => BigInt::from(rng.range(0, 2) as i64 - if signed { 1 } else { 0 }),
                _ => {
                    let zb = rng.range(0, (bits - signed as u32) as u64) as u32;
                    let z = rand_bits(rng, zb);
                    if signed && rng.bool() {
                        -z
                    } else {
                        z
                    }
                }
            };
            Op::FromPrim(t, v)
        }
        9 => {
            let mut t = rng.usize_below(BNUMS.len());
            if f == Fmt::Dec && BNUMS[t].1 == 384 {
                t -= 1; // I384/U384 conversions exist for PreciseDecimal only
            }
            let (_, bits, signed) = BNUMS[t];
            let lim_hi = trunc_div(&f.max(), &f.one());
            let lim_lo = trunc_div(&f.min(), &f.one());
            let v = match rng.below(8) {
                0 => ty_min(bits, signed),
                1 => ty_max(bits, signed),
                2 => nudge(rng, lim_hi),
                3 => nudge(rng, lim_lo),
                4 => nudge(rng, pow2(f.bits() - 1)),
                5 => nudge(rng, -pow2(f.bits() - 1)),
                6 => BigInt::from(rng.range(0, 4) as i64 - 2),
                _ => {
                    let zb = rng.range(0, (bits - signed as u32) as u64) as u32;
                    let z = rand_bits(rng, zb);
                    if signed && rng.bool() {
                        -z
                    } else {
                        z
                    }
                }
            };
            let v = if v >= ty_min(bits, signed) && v <= ty_max(bits, signed) { v } else { BigInt::zero() };
            Op::TryFromInt(t, v)
        }
        _ => {
            let t = rng.usize_below(PRIMS.len());
            let (_, bits, signed) = PRIMS[t];
            let v = match rng.below(6) {
                0 => nudge(rng, ty_min(bits, signed)) * f.one(),
                1 => nudge(rng, ty_max(bits, signed)) * f.one(),
                2 => rand_signed(rng, bits) * f.one(),
                3 => {
                    let w = rand_signed(rng, bits) * f.one();
                    nudge(rng, w)
                }
                _ => a.clone(),
            };
            Op::ToPrim(t, clamp_or(f, v, &a))
        }
    }
}


// ------------------------------------------------------------------------------------------------
// deterministic boundary family (identical for every seed)
// ------------------------------------------------------------------------------------------------

fn limit_targets(f: Fmt) -> Vec<BigInt> {
    vec![f.min() - 1, f.min(), f.min() + 1, f.max() - 1, f.max(), f.max() + 1]
}

/// Every operation with results landing exactly on MIN / MAX and one unit beyond / inside, divisors and
/// multipliers of +-1 atto, zero divisors, conversions at the limits of every source / target type.
fn boundary_family() -> Vec<(Fmt, Op)> {
    let mut out: Vec<(Fmt, Op)> = Vec::new();
    for f in FMTS {
        let one = f.one();
        let t = limit_targets(f);
        // add / sub: a + b = target, a - b = target
        let firsts = [f.min(), f.max(), BigInt::zero(), BigInt::one(), -BigInt::one(), one.clone(), -one.clone(), f.min() / 2, f.max() / 2];
        for a in &firsts {
            for tg in &t {
                let b = tg - a;
                if f.fits(&b) {
                    out.push((f, Op::Add(a.clone(), b.clone())));
                    out.push((f, Op::Add(b, a.clone())));
                }
                let b = a - tg;
                if f.fits(&b) {
                    out.push((f, Op::Sub(a.clone(), b)));
                }
            }
        }
        // factors / divisors
        let mut facs: Vec<BigInt> = Vec::new();
        for m in [
            BigInt::one(),
            BigInt::from(2),
            one.clone(),
            &one * 2,
            &one / 2,
            &one * 3,
            &one / 10,
            &one * 10,
            &one + 1,
            &one - 1,
            pow2(f.bits() / 2),
        ] {
            facs.push(m.clone());
            facs.push(-m);
        }
        facs.push(f.max());
        facs.push(f.min());
        facs.push(f.min() + 1);
        for a in &facs {
            for tg in &t {
                // mul: b with a*b/ONE next to the target
                let b0 = trunc_div(&(tg * &one), a);
                for dl in -2..=2 {
                    let b = &b0 + dl;
                    if f.fits(&b) {
                        out.push((f, Op::Mul(a.clone(), b.clone())));
                        out.push((f, Op::Mul(b, a.clone())));
                    }
                }
                // div: numerator with num*ONE/a next to the target
                let n0 = trunc_div(&(tg * a), &one);
                for dl in -2..=2 {
                    let n = &n0 + dl;
                    if f.fits(&n) {
                        out.push((f, Op::Div(n, a.clone())));
                    }
                }
            }
            for x in [f.min(), f.max(), BigInt::zero(), BigInt::one(), -BigInt::one()] {
                out.push((f, Op::Mul(a.clone(), x.clone())));
                out.push((f, Op::Div(x.clone(), a.clone())));
                out.push((f, Op::Div(a.clone(), x)));
            }
        }
        for x in [f.min(), f.min() + 1, f.max(), f.max() - 1, BigInt::zero(), BigInt::one(), -BigInt::one()] {
            out.push((f, Op::Neg(x.clone())));
            out.push((f, Op::Abs(x.clone())));
            out.push((f, Op::Div(x, BigInt::zero())));
        }
        // conversions from / to every primitive type at its limits
        for (ti, (_, bits, signed)) in PRIMS.iter().enumerate() {
            let (lo, hi) = (ty_min(*bits, *signed), ty_max(*bits, *signed));
            for v in [lo.clone(), hi.clone(), BigInt::zero(), BigInt::one(), -BigInt::one()] {
                if v >= lo && v <= hi {
                    out.push((f, Op::FromPrim(ti, v)));
                }
            }
            for k in [&lo - 1, lo.clone(), &lo + 1, &hi - 1, hi.clone(), &hi + 1, BigInt::zero()] {
                for dl in -1..=1 {
                    let v = &k * &one + dl;
                    if f.fits(&v) {
                        out.push((f, Op::ToPrim(ti, v)));
                    }
                }
            }
        }
        // conversions from every big integer type at its own limits and at the limits of the format
        let lim_hi = trunc_div(&f.max(), &one);
        let lim_lo = trunc_div(&f.min(), &one);
        for (ti, (_, bits, signed)) in BNUMS.iter().enumerate() {
            if f == Fmt::Dec && *bits == 384 {
                continue;
            }
            let (lo, hi) = (ty_min(*bits, *signed), ty_max(*bits, *signed));
            let mut vs = vec![lo.clone(), hi.clone(), &lo + 1, &hi - 1, BigInt::zero(), BigInt::one(), -BigInt::one()];
            for c in [lim_hi.clone(), lim_lo.clone(), pow2(f.bits() - 1), -pow2(f.bits() - 1)] {
                for dl in -1..=1 {
                    vs.push(&c + dl);
                }
            }
            for v in vs {
                if v >= lo && v <= hi {
                    out.push((f, Op::TryFromInt(ti, v)));
                }
            }
        }
    }
    // between the two types
    for x in [Fmt::Dec.min(), Fmt::Dec.min() + 1, Fmt::Dec.max(), Fmt::Dec.max() - 1, BigInt::zero(), BigInt::one(), -BigInt::one()] {
        out.push((Fmt::Dec, Op::DecToPdec(x)));
    }
    let d18 = pow10(18);
    for tg in [Fmt::Dec.min() - 1, Fmt::Dec.min(), Fmt::Dec.min() + 1, Fmt::Dec.max() - 1, Fmt::Dec.max(), Fmt::Dec.max() + 1, BigInt::zero()] {
        let d18m: BigInt = &d18 - 1;
        for off in [BigInt::zero(), BigInt::one(), -BigInt::one(), d18m.clone(), -d18m.clone(), d18.clone(), -d18.clone()] {
            let p = &tg * &d18 + off;
            if Fmt::PDec.fits(&p) {
                out.push((Fmt::PDec, Op::PdecToDec(p)));
            }
        }
    }
    for p in [Fmt::PDec.min(), Fmt::PDec.min() + 1, Fmt::PDec.max(), Fmt::PDec.max() - 1] {
        out.push((Fmt::PDec, Op::PdecToDec(p)));
    }
    out
}

/// boundary class of a case (for the distribution and the floors)
fn boundary_class(f: Fmt, op: &Op) -> Vec<String> {
    let one = f.one();
    let mut v = Vec::new();
    let which = |e: &BigInt, lo: &BigInt, hi: &BigInt| -> Option<&'static str> {
        if *e == lo - 1 {
            Some("min_minus_1")
        } else if e == lo {
            Some("min")
        } else if *e == lo + 1 {
            Some("min_plus_1")
        } else if *e == hi - 1 {
            Some("max_minus_1")
        } else if e == hi {
            Some("max")
        } else if *e == hi + 1 {
            Some("max_plus_1")
        } else {
            None
        }
    };
    let exact = match op {
        Op::Add(a, b) => Some(a + b),
        Op::Sub(a, b) => Some(a - b),
        Op::Mul(a, b) => Some(trunc_div(&(a * b), &one)),
        Op::Div(a, b) if !b.is_zero() => Some(trunc_div(&(a * &one), b)),
        Op::Neg(a) => Some(-a),
        Op::Abs(a) => Some(a.abs()),
        _ => None,
    };
    if let Some(e) = exact {
        if let Some(w) = which(&e, &f.min(), &f.max()) {
            v.push(format!("lim_{}_{}_{}", f.name(), op_kind(op), w));
        }
    }
    match op {
        Op::Div(_, b) if b.is_zero() => v.push(format!("lim_{}_div_by_zero", f.name())),
        Op::Div(_, b) if b.abs().is_one() => v.push(format!("lim_{}_div_by_{}_atto", f.name(), if b.is_negative() { "minus_one" } else { "one" })),
        Op::Mul(a, b) if a.abs().is_one() || b.abs().is_one() => v.push(format!("lim_{}_mul_by_one_atto", f.name())),
        Op::PdecToDec(p) => {
            let e = trunc_div(p, &pow10(18));
            if let Some(w) = which(&e, &Fmt::Dec.min(), &Fmt::Dec.max()) {
                v.push(format!("lim_pdec_to_dec_{}", w));
            }
        }
        Op::TryFromInt(t, x) => {
            let e = x * &one;
            let cls = if f.fits(&e) && !f.fits(&(&e + &one)) {
                Some("largest_fitting")
            } else if f.fits(&e) && !f.fits(&(&e - &one)) {
                Some("smallest_fitting")
            } else if !f.fits(&e) && f.fits(&(&e - &one)) {
                Some("first_above")
            } else if !f.fits(&e) && f.fits(&(&e + &one)) {
                Some("first_below")
            } else {
                None
            };
            if let Some(c) = cls {
                v.push(format!("lim_{}_try_from_{}_{}", f.name(), BNUMS[*t].0, c));
            }
            if *x == ty_min(BNUMS[*t].1, BNUMS[*t].2) || *x == ty_max(BNUMS[*t].1, BNUMS[*t].2) {
                v.push(format!("lim_{}_try_from_{}_type_limit", f.name(), BNUMS[*t].0));
            }
        }
        Op::FromPrim(t, x) => {
            if *x == ty_min(PRIMS[*t].1, PRIMS[*t].2) || *x == ty_max(PRIMS[*t].1, PRIMS[*t].2) {
                v.push(format!("lim_{}_from_{}_type_limit", f.name(), PRIMS[*t].0));
            }
        }
        Op::ToPrim(t, x) => {
            if (x % &one).is_zero() {
                let q = x / &one;
                if let Some(w) = which(&q, &ty_min(PRIMS[*t].1, PRIMS[*t].2), &ty_max(PRIMS[*t].1, PRIMS[*t].2)) {
                    v.push(format!("lim_{}_to_{}_{}", f.name(), PRIMS[*t].0, w));
                }
            }
        }
        _ => {}
    }
    v
}

const FAMILY_FLOORS: &[(&str, u64)] = &include!("c24_family_floors.in");

fn main() {
    let args = Args::parse();
    let mut report = Report::new(
        "C24",
        args.seed,
        "deterministic boundary family (every seed): results landing exactly on MIN/MAX and +-1 unit for add/sub/mul/div with fixed operands and divisors (+-1 atto, +-ONE, ...), zero divisors, \
         conversions at the limits of every source/target integer type and of the other decimal type; then random: \
         checked add/sub/mul/div/neg/abs and conversions of Decimal and PreciseDecimal on values uniform in bit length, \
         boundary values and operands aimed at results next to MIN/MAX; non-trivial = binary operation or conversion whose \
         exact result is within 2^8 of a range limit or which is a mul/div with a non-zero truncated remainder; distinct by operation text",
    );
    let mut cw = CaseWriter::new("RV.Corr.C24_run RV.Lib.DecCore RV.Model.C25_Round RV.Model.C24_Dec", "check");
    let root = Rng::new(args.seed);
    let bnds = [boundaries(Fmt::Dec), boundaries(Fmt::PDec)];

    // fixed replay of the repaired defect (known_findings: fixed C24) first
    let mut fixed_ops: Vec<(Fmt, Op)> = Vec::new();
    for f in FMTS {
        fixed_ops.push((f, Op::Mul(f.min(), f.one())));
        fixed_ops.push((f, Op::Div(f.min(), f.one())));
        fixed_ops.push((f, Op::Mul(f.min() / 2, f.one() * 2)));
        fixed_ops.push((f, Op::Div(f.max(), -f.one())));
        fixed_ops.push((f, Op::Div(f.min(), -f.one())));
    }
    fixed_ops.push((Fmt::PDec, Op::PdecToDec(Fmt::Dec.min() * pow10(18))));
    fixed_ops.push((Fmt::PDec, Op::PdecToDec(Fmt::Dec.min() * pow10(18) - 1)));
    fixed_ops.push((Fmt::PDec, Op::PdecToDec(Fmt::Dec.min() * pow10(18) - pow10(18))));
    fixed_ops.push((Fmt::Dec, Op::TryFromInt(1, -pow2(191))));

    fixed_ops.extend(boundary_family());
    let nfam = fixed_ops.len();
    for i in 0..(nfam + args.cases) {
        let mut rng = root.fork(i as u64);
        let (f, op) = if i < fixed_ops.len() {
            fixed_ops[i].clone()
        } else {
            let f = FMTS[rng.usize_below(2)];
            // binary arithmetic gets 2/3 of the cases
            let kind = if rng.chance(2, 3) { rng.below(4) } else { rng.range(4, 10) };
            let f = match kind {
                6 => Fmt::Dec,
                7 => Fmt::PDec,
                _ => f,
            };
            (f, gen_op(&mut rng, f, &bnds[if f == Fmt::Dec { 0 } else { 1 }], kind))
        };
        let out = run_impl(f, &op);
        let (exp, err_kind) = expect(f, &op);
        let canon = format!("{} {}", f.name(), op_coq(&op));

        // distribution
        for c in boundary_class(f, &op) {
            report.count(&c);
        }
        report.count(&format!("op_{}", op_kind(&op)));
        report.count(match &out {
            Out::Ok(_) => "out_ok",
            Out::Err(_) => "out_fail",
            Out::Panic => "out_panic",
        });
        let near_limit = match &op {
            Op::Add(a, b) => Some(a + b),
            Op::Sub(a, b) => Some(a - b),
            Op::Mul(a, b) => Some(trunc_div(&(a * b), &f.one())),
            Op::Div(a, b) if !b.is_zero() => Some(trunc_div(&(a * f.one()), b)),
            Op::PdecToDec(p) => Some(trunc_div(p, &pow10(18)) * pow10(18)),
            Op::TryFromInt(_, v) => Some(v * f.one()),
            _ => None,
        }
        .map(|z| {
            let lim = if matches!(op, Op::PdecToDec(_)) { Fmt::Dec.max() * pow10(18) } else { f.max() };
            let slack = if matches!(op, Op::PdecToDec(_) | Op::TryFromInt(..)) { f.one() * 4 } else { BigInt::from(256) };
            (z.abs() - lim).abs() <= slack
        })
        .unwrap_or(false);
        let inexact = match &op {
            Op::Mul(a, b) => !((a * b) % f.one()).is_zero(),
            Op::Div(a, b) if !b.is_zero() => !((a * f.one()) % b).is_zero(),
            _ => false,
        };
        if near_limit {
            report.count("result_near_range_limit");
        }
        if inexact {
            report.count("mul_div_with_truncation");
        }
        if matches!(&op, Op::Mul(..) | Op::Div(..)) && exp.as_ref().map(|z| *z == f.min()).unwrap_or(false) {
            report.count("mul_div_result_exactly_min");
        }
        report.case(&canon, near_limit || inexact);

        // oracle
        let ok = match (&exp, &out) {
            (Some(e), Out::Ok(z)) => e == z,
            (None, Out::Err(k)) => err_kind == "-" || *k == err_kind || err_kind.is_empty(),
            _ => false,
        };
        if !ok {
            let what = format!(
                "{} {}: implementation returned {} but the exact result is {}",
                f.name(),
                op_kind(&op),
                out.short(),
                match &exp {
                    Some(e) => format!("representable: {}", e),
                    None => format!("not representable (expected failure {})", err_kind),
                }
            );
            report.oracle_failure(i, "", &what, json!({"format": f.name(), "op": op_coq(&op)}));
        }
        if i < 3 {
            report.sample(json!({"format": f.name(), "op": op_coq(&op), "out": out.short()}));
        }
        cw.push(format!("({}, {}, {})", f.coq(), op_coq(&op), out.coq()));
    }
    report.extra.insert("boundary_family_cases".into(), json!(nfam));
    for (k, m) in FAMILY_FLOORS {
        report.floor(k, *m);
    }
    let n = args.cases as u64;
    report.floor("result_near_range_limit", n / 40);
    report.floor("mul_div_with_truncation", n / 20);
    report.floor("out_ok", n / 5);
    report.floor("out_fail", n / 20);
    report.floor("mul_div_result_exactly_min", 4);
    if !args.oracle_only {
        cw.write(&args.out, args.shards).unwrap();
    }
    report.write(&args.out).unwrap();
}
