//! C18 correspondence harness: the same random histories as C17 (resets, deletion of whole
//! partitions/entities, re-creation), run on a TypedInMemoryTreeStore
//!  * with pruning enabled (even cases): after EVERY commit a walk from the current root through all
//!    three tiers must find every referenced node in `tree_nodes`, and the state must be listable;
//!  * with pruning disabled (odd cases): every part pushed to `stale_part_buffer` by commit i
//!    (Subtree expanded through the stored nodes) must be unreachable from the root of commit i and of
//!    every later commit.
//! The Coq side (Corr/C18_run.v) replays the model's store operations with the same pruning flag and
//! compares stale parts, final store contents and reachable nodes.
#[path = "../jmt_common.rs"]
mod jmt_common;
use jmt_common::*;
use radix_common::crypto::hash;
use serde_json::json;
use std::collections::BTreeMap;
use vh_common::*;

fn main() {
    let args = Args::parse();
    let mut report = Report::new(
        "C18",
        args.seed,
        "the C17 boundary family (each history once with pruning on and once off, identical for every seed) followed by random commit histories (as C17) on a store with pruning on (even cases) / off (odd cases); non-trivial = random history with >= 3 commits, \
         a reset or delete hit existing data and an entity or partition was re-created after having been emptied, or boundary history with >= 2 commits removing existing data; distinct by history text",
    );
    let mut cw = CaseWriter::new("RV.Corr.C18_run RV.Model.C17_Jmt RV.Model.C18_Store", "check18");
    let root = Rng::new(args.seed);
    let family = boundary_family();
    for i in 0..args.cases {
        let mut rng = root.fork(i as u64);
        let pruning = i % 2 == 0;
        // every boundary history is run once with pruning and once without
        let boundary = family.get(i / 2);
        let pools = gen_pools(&mut rng);
        let long_keys = pools.entities[0].len() > 8;
        let n = if let Some(b) = boundary {
            b.commits.len()
        } else if long_keys {
            rng.range(2, 3) as usize
        } else {
            rng.range(3, 9) as usize
        };
        let mut db: BTreeMap<SubKey, Vec<u8>> = BTreeMap::new();
        let mut commits = vec![];
        let mut removed_existing = false;
        let mut emptied: std::collections::BTreeSet<(Vec<u8>, u8)> = Default::default();
        let mut recreated = false;
        for j in 0..n {
            let c = match boundary {
                Some(b) => b.commits[j].clone(),
                None => gen_commit(&mut rng, &pools, &db),
            };
            let before = db.len();
            let parts_before: std::collections::BTreeSet<(Vec<u8>, u8)> = db.keys().map(|k| (k.0.clone(), k.1)).collect();
            apply_to_map(&mut db, &c);
            let parts_after: std::collections::BTreeSet<(Vec<u8>, u8)> = db.keys().map(|k| (k.0.clone(), k.1)).collect();
            for p in parts_after.difference(&parts_before) {
                if emptied.contains(p) {
                    recreated = true;
                }
            }
            for p in parts_before.difference(&parts_after) {
                emptied.insert(p.clone());
            }
            let (_, dels, resets, _) = count_ops(&c);
            if db.len() < before || (resets > 0 && before > 0) {
                removed_existing = true;
            }
            report.count_n("deletes", dels);
            report.count_n("resets", resets);
            commits.push(c);
        }
        if let Some(b) = boundary {
            report.count(&format!("boundary.{}.{}", b.class, if pruning { "pruned" } else { "kept" }));
        } else {
            report.count("random_histories");
        }
        if recreated {
            report.count("histories_recreating_an_emptied_partition");
        }
        report.count_n("commits", n as u64);
        let canon = coq_list(commits.iter().map(coq_commit));
        report.case(&format!("{}{}", pruning, canon), (n >= 3 && removed_existing && recreated) || (boundary.is_some() && n >= 2 && removed_existing));
        let input = json!({"pruning": pruning, "commits": canon});
        let out = match run_history(&commits, pruning, true) {
            Ok(o) => o,
            Err(e) => {
                report.oracle_failure(i, "", &format!("put_at_next_version panicked: {}", e), input);
                continue;
            }
        };
        if pruning {
            report.count("cases_pruning_on");
            // current tree intact after every commit
            let mut bad = None;
            for (j, r) in out.reach_per_commit.iter().enumerate() {
                if let Err(e) = r {
                    bad = Some(format!("after commit {}: {}", j + 1, e));
                    break;
                }
            }
            if bad.is_none() {
                // the current state can be fully read
                match listing(&out.store, out.version.unwrap()) {
                    Err(e) => bad = Some(format!("listing the current state panicked: {}", e)),
                    Ok(l) => {
                        let got: BTreeMap<SubKey, _> = l
                            .iter()
                            .flat_map(|(e, p, m)| m.iter().map(move |(k, h)| ((e.clone(), *p, k.clone()), *h)))
                            .collect();
                        let want: BTreeMap<SubKey, _> = db.iter().map(|(k, v)| (k.clone(), hash(v))).collect();
                        if got != want {
                            bad = Some("listing of the current state differs from the database".to_string());
                        }
                    }
                }
            }
            report.count_n("nodes_left_after_pruning", out.store.tree_nodes.borrow().len() as u64);
            if let Some(what) = bad {
                report.oracle_failure(i, "", &what, input.clone());
                continue;
            }
        } else {
            report.count("cases_pruning_off");
            report.count_n("stale_parts", out.stales.iter().map(|l| l.len() as u64).sum());
            report.count_n(
                "stale_subtrees",
                out.stales.iter().flatten().filter(|s| matches!(s, Stale::Subtree(_))).count() as u64,
            );
            if let Err(what) = oracle_c18_stale_dead(&out) {
                report.oracle_failure(i, "", &what, input.clone());
                continue;
            }
        }
        if i < 2 {
            report.sample(json!({"pruning": pruning, "commits": canon.chars().take(500).collect::<String>(),
                                 "nodes": out.store.tree_nodes.borrow().len()}));
        }
        if !args.oracle_only {
            match coq_case(pruning, &commits, &out) {
                Ok(t) => {
                    cw.push(t);
                }
                Err(e) => report.oracle_failure(i, "", &format!("dump failed: {}", e), input),
            }
        }
    }
    report.floor("resets", args.cases as u64 / 8);
    report.floor("stale_subtrees", args.cases as u64 / 40);
    if args.cases >= 2 * family.len() {
        for b in &family {
            report.floor(&format!("boundary.{}.pruned", b.class), 1);
            report.floor(&format!("boundary.{}.kept", b.class), 1);
        }
        report.floor("histories_recreating_an_emptied_partition", 4);
        let random = (args.cases - 2 * family.len()) as u64;
        if random > 0 {
            report.floor("random_histories", 1);
            let _ = random;
        }
    }
    if !args.oracle_only {
        cw.write(&args.out, args.shards).unwrap();
    }
    report.write(&args.out).unwrap();
}
