//! C21 correspondence harness: streaming traverser (VecTraverser) of the three flavours against
//! coq/Model/C21_Traverser.v, decoder outcome, and encoder/decoder/traverser depth consistency.
//! Direct oracle (no model): nothing panics; decoder accepts <=> traverser reaches End (same
//! limit, check_exact_end); for a value of depth D and any limit d: encoder, decoder and traverser
//! accept iff D <= d and reject with MaxDepthExceeded otherwise; RawValue (typed wrapper whose
//! decoder uses the traverser) accepts at the same limits as the Value decoder.
#[path = "../sborir.rs"]
mod sborir;
use radix_common::prelude::*;
use sbor::traversal::*;
use serde_json::json;
use sborir::*;
use vh_common::*;

const ZERO_CLASS: &str = "traverser_ignores_depth_limit_for_root";
const RAW_CLASS: &str = "raw_value_depth_off_by_one";

fn header_coq<F: Flavour>(h: &ContainerHeader<F::T>) -> String {
    match h {
        ContainerHeader::Tuple(t) => format!("(HTuple {})", t.length),
        ContainerHeader::EnumVariant(e) => format!("(HEnum {} {})", e.variant, e.length),
        ContainerHeader::Array(a) => {
            format!("(HArray {} {})", k_from::<F>(a.element_value_kind).coq(), a.length)
        }
        ContainerHeader::Map(m) => format!(
            "(HMap {} {} {})",
            k_from::<F>(m.key_value_kind).coq(),
            k_from::<F>(m.value_value_kind).coq(),
            m.length
        ),
    }
}
fn terminal_to_v<F: Flavour>(t: &TerminalValueRef<'_, F::T>) -> V {
    match t {
        TerminalValueRef::Bool(b) => V::Bool(*b),
        TerminalValueRef::I8(x) => V::Int(IK::I8, Z::S(*x as i128)),
        TerminalValueRef::I16(x) => V::Int(IK::I16, Z::S(*x as i128)),
        TerminalValueRef::I32(x) => V::Int(IK::I32, Z::S(*x as i128)),
        TerminalValueRef::I64(x) => V::Int(IK::I64, Z::S(*x as i128)),
        TerminalValueRef::I128(x) => V::Int(IK::I128, Z::S(*x)),
        TerminalValueRef::U8(x) => V::Int(IK::U8, Z::U(*x as u128)),
        TerminalValueRef::U16(x) => V::Int(IK::U16, Z::U(*x as u128)),
        TerminalValueRef::U32(x) => V::Int(IK::U32, Z::U(*x as u128)),
        TerminalValueRef::U64(x) => V::Int(IK::U64, Z::U(*x as u128)),
        TerminalValueRef::U128(x) => V::Int(IK::U128, Z::U(*x)),
        TerminalValueRef::String(s) => V::Str(s.to_string()),
        TerminalValueRef::Custom(c) => V::Custom(F::custom_ref_to_c(c)),
    }
}

struct TravOut {
    events: Vec<String>, // Coq `located` terms
    kinds: Vec<&'static str>,
    accepted: bool,
    last: String, // Coq tevent of the last event
    last_err: Option<DecodeError>,
}

/// drives the real traverser until End / DecodeError (as every caller does)
fn traverse<F: Flavour>(input: &[u8], md: usize, check_end: bool) -> TravOut {
    let mut t = VecTraverser::<F::T>::new(
        input,
        ExpectedStart::PayloadPrefix(F::FL.prefix()),
        VecTraverserConfig { max_depth: md, check_exact_end: check_end },
    );
    let mut out = TravOut { events: vec![], kinds: vec![], accepted: false, last: String::new(), last_err: None };
    for _ in 0..(2 * input.len() + 10) {
        let e = t.next_event();
        let path = coq_list(
            e.location
                .ancestor_path
                .iter()
                .map(|a| format!("({},{})", a.container_start_offset, a.current_child_index)),
        );
        let (term, kind, fin) = match &e.event {
            TraversalEvent::ContainerStart(h) => (format!("(EvContainerStart {})", header_coq::<F>(h)), "start", false),
            TraversalEvent::ContainerEnd(h) => (format!("(EvContainerEnd {})", header_coq::<F>(h)), "end", false),
            TraversalEvent::TerminalValue(v) => (format!("(EvTerminal {})", terminal_to_v::<F>(v).coq()), "terminal", false),
            TraversalEvent::TerminalValueBatch(TerminalValueBatchRef::U8(b)) => (format!("(EvBatch {})", coq_bytes(b)), "batch", false),
            TraversalEvent::End => {
                out.accepted = true;
                ("EvEnd".to_string(), "End", true)
            }
            TraversalEvent::DecodeError(err) => {
                out.last_err = Some(*err);
                (format!("(EvError {})", coq_dec_err(err)), "Error", true)
            }
        };
        out.events.push(format!("ev {} {} {} {}", term, e.location.start_offset, e.location.end_offset, path));
        out.kinds.push(kind);
        out.last = term;
        if fin {
            return out;
        }
    }
    panic!("traverser did not terminate");
}

struct Ctx<'a> {
    cw: &'a mut CaseWriter,
    report: &'a mut Report,
    oracle_only: bool,
}
fn push(ctx: &mut Ctx, term: String) {
    if !ctx.oracle_only {
        ctx.cw.push(term);
    }
}

fn case_trav<F: Flavour>(ctx: &mut Ctx, idx: usize, input: Vec<u8>, md: usize, check_end: bool, tag: &str) {
    let fl = F::FL;
    let dec = catch(std::panic::AssertUnwindSafe(|| F::decode(&input, md)));
    let tr = catch(std::panic::AssertUnwindSafe(|| traverse::<F>(&input, md, check_end)));
    let inj = json!({"stream": tag, "flavour": fl.coq(), "limit": md, "check_exact_end": check_end, "input_hex": hex(&input)});
    ctx.report.count(&format!("trav.stream.{}", tag));
    ctx.report.count(&format!("trav.{}", fl.coq()));
    let dec_s = coq_result(&dec, |x| v_from::<F>(x).coq(), coq_dec_err);
    let term = match &tr {
        Ok(t) => {
            ctx.report.count_n("trav.events", t.events.len() as u64);
            for k in &t.kinds {
                ctx.report.count(&format!("trav.event.{}", k));
            }
            if let Some(e) = &t.last_err {
                ctx.report.count(&format!("trav.err.{}", dec_err_class(e)));
            }
            format!(
                "CTrav {} {} {} {} {} {}",
                fl.coq(),
                md,
                coq_bool(check_end),
                coq_bytes(&input),
                coq_list(t.events.iter().map(|e| format!("({})", e))),
                dec_s
            )
        }
        Err(p) => {
            ctx.report.oracle_failure(idx, "", &format!("traverser panicked: {}", p), inj.clone());
            format!("CTrav {} {} {} {} [] {}", fl.coq(), md, coq_bool(check_end), coq_bytes(&input), dec_s)
        }
    };
    if let Err(p) = &dec {
        ctx.report.oracle_failure(idx, "", &format!("decoder panicked: {}", p), inj.clone());
    }
    // ---- direct oracle: acceptance agreement
    if let (Ok(Ok(_)) | Ok(Err(_)), Ok(t)) = (&dec, &tr) {
        let dec_ok = matches!(dec, Ok(Ok(_)));
        if dec_ok {
            ctx.report.count("trav.decoder_accepts");
        }
        if check_end {
            if dec_ok != t.accepted {
                let class = if md == 0 && t.accepted && matches!(dec, Ok(Err(DecodeError::MaxDepthExceeded(0)))) { ZERO_CLASS } else { "" };
                ctx.report.oracle_failure(
                    idx,
                    class,
                    &format!("decoder and traverser disagree on acceptance: decoder {:?}, traverser last event {}", dec.as_ref().map(|r| r.as_ref().map(|_| "Ok").map_err(|e| *e)), t.last),
                    inj.clone(),
                );
            } else {
                ctx.report.count(if dec_ok { "trav.agree_accept" } else { "trav.agree_reject" });
            }
        }
    }
    ctx.report.case(&term, true);
    push(ctx, term);
}

fn case_depth<F: Flavour>(ctx: &mut Ctx, idx: usize, rng: &mut Rng, thorough: bool) {
    let fl = F::FL;
    let mut cfg = GenCfg { fl, max_depth: if thorough { 14 } else { 9 }, budget: 80, allow_invalid_custom: false, allow_kind_mismatch: false };
    let v = if rng.chance(2, 3) {
        let d = rng.range(1, cfg.max_depth as u64) as usize;
        gen_chain(rng, &mut cfg, d)
    } else {
        gen_value(rng, &mut cfg)
    };
    let depth = v.depth();
    let md = match rng.below(6) {
        0 => depth.saturating_sub(1),
        1 => depth,
        2 => depth + 1,
        3 => rng.range(1, depth as u64 + 2) as usize,
        4 => 1,
        _ => depth.saturating_sub(2).max(1),
    };
    let iv = v_to::<F>(&v);
    let payload = match F::encode(&iv, 255) {
        Ok(p) => p,
        Err(e) => {
            ctx.report.oracle_failure(idx, "", &format!("valid generated value does not encode at limit 255: {:?}", e), json!({"value": v.coq()}));
            return;
        }
    };
    let enc = catch(std::panic::AssertUnwindSafe(|| F::encode(&iv, md)));
    let dec = catch(std::panic::AssertUnwindSafe(|| F::decode(&payload, md)));
    let tr = catch(std::panic::AssertUnwindSafe(|| traverse::<F>(&payload, md, true)));
    let inj = json!({"stream": "depth", "flavour": fl.coq(), "limit": md, "depth": depth, "value": v.coq(), "payload_hex": hex(&payload)});
    ctx.report.count("depth.cases");
    let fits = depth <= md;
    ctx.report.count(if fits { "depth.fits" } else { "depth.exceeds" });
    if depth == md {
        ctx.report.count("depth.exact");
    }
    if depth == md + 1 {
        ctx.report.count("depth.one_over");
    }
    // ---- direct oracle: all three accept iff depth <= md, else MaxDepthExceeded(md)
    let enc_ok = matches!(&enc, Ok(Ok(b)) if *b == payload);
    let enc_depth = matches!(&enc, Ok(Err(EncodeError::MaxDepthExceeded(m))) if *m == md);
    let dec_ok = matches!(&dec, Ok(Ok(x)) if v_from::<F>(x) == v);
    let dec_depth = matches!(&dec, Ok(Err(DecodeError::MaxDepthExceeded(m))) if *m == md);
    let (tr_ok, tr_depth) = match &tr {
        Ok(t) => (t.accepted, matches!(t.last_err, Some(DecodeError::MaxDepthExceeded(m)) if m == md)),
        Err(_) => (false, false),
    };
    if fits {
        if !(enc_ok && dec_ok && tr_ok) {
            ctx.report.oracle_failure(idx, "", &format!("value of depth {} within limit {} not accepted by all: encoder {} decoder {} traverser {}", depth, md, enc_ok, dec_ok, tr_ok), inj.clone());
        }
    } else if !(enc_depth && dec_depth && tr_depth) {
        let class = if md == 0 && enc_depth && dec_depth && tr_ok { ZERO_CLASS } else { "" };
        ctx.report.oracle_failure(idx, class, &format!("value of depth {} over limit {}: MaxDepthExceeded by encoder {} decoder {} traverser {}", depth, md, enc_depth, dec_depth, tr_depth), inj.clone());
    }
    let (ta, tl) = match &tr {
        Ok(t) => (t.accepted, t.last.clone()),
        Err(_) => (false, "EvEnd".to_string()),
    };
    let term = format!(
        "CDepth {} {} {} {} {} {} {} {}",
        fl.coq(),
        md,
        v.coq(),
        coq_result(&enc, |b| coq_bytes(b), coq_enc_err),
        coq_bytes(&payload),
        coq_result(&dec, |x| v_from::<F>(x).coq(), coq_dec_err),
        coq_bool(ta),
        tl
    );
    ctx.report.case(&term, true);
    push(ctx, term);
}

fn valid_payload<F: Flavour>(rng: &mut Rng, thorough: bool) -> (Vec<u8>, usize) {
    loop {
        let mut cfg = GenCfg { fl: F::FL, max_depth: if thorough { 10 } else { 7 }, budget: if rng.chance(1, 8) { 400 } else { 60 }, allow_invalid_custom: false, allow_kind_mismatch: false };
        let v = gen_value(rng, &mut cfg);
        if let Ok(b) = F::encode(&v_to::<F>(&v), 64) {
            return (b, v.depth());
        }
    }
}

fn one<F: Flavour>(ctx: &mut Ctx, idx: usize, rng: &mut Rng, thorough: bool) {
    match rng.below(10) {
        0..=2 => case_depth::<F>(ctx, idx, rng, thorough),
        3..=5 => {
            let (p, d) = valid_payload::<F>(rng, thorough);
            let md = *rng.pick(&[d, d, d + 1, d.saturating_sub(1).max(1), 64, 64, 1]);
            case_trav::<F>(ctx, idx, p, md, !rng.chance(1, 6), "valid");
        }
        6 => {
            let b = if rng.chance(1, 3) { gen_bad_string_payload(rng, F::FL) } else { gen_random_bytes(rng, F::FL) };
            case_trav::<F>(ctx, idx, b, *rng.pick(&[64usize, 64, 3, 1]), true, "random");
        }
        _ => {
            let (p, d) = valid_payload::<F>(rng, thorough);
            let (mut m, _) = mutate(rng, F::FL, &p);
            if rng.chance(1, 4) {
                m = mutate(rng, F::FL, &m).0;
            }
            let md = *rng.pick(&[64usize, 64, 64, d, d + 1, d.saturating_sub(1).max(1)]);
            case_trav::<F>(ctx, idx, m, md, !rng.chance(1, 8), "mutated");
        }
    }
}

/// recorded witnesses, replayed on every run
fn witnesses(ctx: &mut Ctx) {
    // (1) depth limit 0: decoder/encoder reject a leaf root, the traverser accepts it
    let idx = ctx.cw.len();
    case_trav::<FBasic>(ctx, idx, vec![0x5b, 0x07, 0x05], 0, true, "witness");
    let idx = ctx.cw.len();
    case_trav::<FBasic>(ctx, idx, vec![0x5b, 0x21, 0x00], 0, true, "witness");
    // (2) RawValue: typed decoder built on the traverser is one level stricter than the Value decoder
    // payload: Tuple[ Tuple[ U8 5 ] ]  (depth 3)
    let payload = vec![0x5b, 0x21, 0x01, 0x21, 0x01, 0x07, 0x05];
    let as_value = basic_decode_with_depth_limit::<BasicValue>(&payload, 3);
    let as_raw = catch(|| basic_decode_with_depth_limit::<(BasicRawValue<'static>,)>(&[0x5b, 0x21, 0x01, 0x21, 0x01, 0x07, 0x05], 3).map(|_| ()));
    let as_raw4 = catch(|| basic_decode_with_depth_limit::<(BasicRawValue<'static>,)>(&[0x5b, 0x21, 0x01, 0x21, 0x01, 0x07, 0x05], 4).map(|_| ()));
    ctx.report.notes.push(format!("RawValue probe: Value decode at limit 3: {:?}; (RawValue,) decode at 3: {:?}; at 4: {:?}", as_value.is_ok(), as_raw, as_raw4));
    if as_value.is_ok() && !matches!(as_raw, Ok(Ok(()))) {
        ctx.report.count("witness.raw_value_stricter");
        ctx.report.oracle_failure(
            idx,
            RAW_CLASS,
            &format!("payload of depth 3 is accepted by the Value decoder at limit 3 but (RawValue,) decode at limit 3 gives {:?}", as_raw),
            json!({"stream": "witness", "payload_hex": hex(&payload), "limit": 3}),
        );
    }
}

/// deterministic boundary stream: identical for every seed (see sborir::boundary_cases)
fn boundary_stream<F: Flavour>(ctx: &mut Ctx) {
    let v = boundary_value(F::FL);
    let (p, _) = payload_with_marks(F::FL, &v);
    assert_eq!(Ok(p), F::encode(&v_to::<F>(&v), 64), "harness IR encoder diverges from the implementation");
    for (input, md, class) in boundary_cases(F::FL) {
        if input.len() > 4000 && !class.contains(".w4.") {
            continue; // the 16 KiB string variants: keep only the maximum-width ones here (all are in c20)
        }
        let idx = ctx.cw.len();
        ctx.report.count(&format!("det.{}.{}", F::FL.coq(), class));
        case_trav::<F>(ctx, idx, input, md, true, "deterministic");
    }
}

fn main() {
    let args = Args::parse();
    let thorough = args.tier == "thorough";
    let mut cw = CaseWriter::new("RV.Corr.C21_run RV.Model.C20_Sbor RV.Model.C21_Traverser", "check");
    let mut report = Report::new(
        "C21",
        args.seed,
        "distinct = distinct case terms (input+limit+event list+decoder outcome, or value+limit+three outcomes); every case is nontrivial",
    );
    let root = Rng::new(args.seed);
    {
        let mut ctx = Ctx { cw: &mut cw, report: &mut report, oracle_only: args.oracle_only };
        witnesses(&mut ctx);
        boundary_stream::<FBasic>(&mut ctx);
        boundary_stream::<FScrypto>(&mut ctx);
        boundary_stream::<FManifest>(&mut ctx);
        for i in 0..args.cases {
            let mut rng = root.fork(i as u64);
            let idx = ctx.cw.len();
            match rng.below(3) {
                0 => one::<FBasic>(&mut ctx, idx, &mut rng, thorough),
                1 => one::<FScrypto>(&mut ctx, idx, &mut rng, thorough),
                _ => one::<FManifest>(&mut ctx, idx, &mut rng, thorough),
            }
        }
    }
    let n = args.cases as u64;
    report.floor("trav.agree_accept", n / 10);
    report.floor("trav.agree_reject", n / 10);
    report.floor("depth.fits", n / 20);
    report.floor("depth.exceeds", n / 40);
    report.floor("depth.exact", n / 100);
    report.floor("trav.event.batch", n / 200);
    report.floor("trav.err.MaxDepthExceeded", n / 200);
    for fl in [Fl::Basic, Fl::Scrypto, Fl::Manifest] {
        for c in expected_boundary_classes(fl) {
            if c.starts_with("leb.long16384") && !c.contains(".w4.") || c.starts_with("leb.long16383") {
                continue;
            }
            report.floor(&format!("det.{}.{}", fl.coq(), c), 1);
        }
    }
    if !args.oracle_only {
        cw.write(&args.out, args.shards).expect("write cases");
    }
    report.write(&args.out).expect("write report");
}
