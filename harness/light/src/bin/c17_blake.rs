//! C17 (Blake2b tie): radix_common::crypto::hash (Blake2b-256) on byte strings of every length
//! 0..=300 (block boundaries 127/128/129, 255/256/257 included), fixed test vectors and random
//! strings; the Coq side (Corr/C17_blake_run.v) evaluates Lib/Blake2b.v on the same strings.
//! Direct oracle: the two published test vectors (empty string, "abc").
#[path = "../jmt_common.rs"]
mod jmt_common;
use jmt_common::pk_bytes;
use radix_common::crypto::hash;
use serde_json::json;
use vh_common::*;

fn main() {
    let args = Args::parse();
    let mut report = Report::new(
        "C17",
        args.seed,
        "Blake2b-256: all lengths 0..=300 with random content, then random lengths up to 700; non-trivial = length > 0; distinct by content",
    );
    let mut cw = CaseWriter::new("RV.Corr.C17_blake_run", "check_blake");
    let root = Rng::new(args.seed);
    // published vectors
    let v0 = "0e5751c026e543b2e8ab2eb06099daa1d1e5df47778f7787faab45cdf12fe3a8";
    let v1 = "bddd813c634239723171ef3fee98579b94964e3bb1cb3e427262c8c068d52319";
    if vh_common::hex(&hash(b"").0) != v0 {
        report.oracle_failure(0, "", "hash(\"\") differs from the Blake2b-256 test vector", json!({"msg": ""}));
    }
    if vh_common::hex(&hash(b"abc").0) != v1 {
        report.oracle_failure(1, "", "hash(\"abc\") differs from the Blake2b-256 test vector", json!({"msg": "abc"}));
    }
    for i in 0..args.cases {
        let mut rng = root.fork(i as u64);
        let len = if i <= 300 { i } else { rng.range(0, 700) as usize };
        let msg = match i {
            3 if args.cases > 301 => b"abc".to_vec(),
            _ => rng.bytes(len),
        };
        let dig = hash(&msg);
        let with_ref = matches!(len, 0 | 1 | 3 | 64 | 127 | 128 | 129 | 256 | 257) && i <= 300;
        report.case(&vh_common::hex(&msg), !msg.is_empty());
        report.count(if msg.len() > 128 { "multi_block" } else { "single_block" });
        if with_ref {
            report.count("checked_against_reference_instance");
        }
        if i < 2 {
            report.sample(json!({"len": msg.len(), "digest": dig.to_string()}));
        }
        cw.push(format!("(({}, {}, {}) : bcase)", coq_bool(with_ref), pk_bytes(&msg), pk_bytes(&dig.0)));
    }
    report.floor("multi_block", args.cases as u64 / 4);
    if !args.oracle_only {
        cw.write(&args.out, args.shards).unwrap();
    }
    report.write(&args.out).unwrap();
}
