//! C32 correspondence harness: transaction identifiers commit to the whole transaction.
//!
//! Generates random V1 notarized transactions, V2 notarized transactions with 0-3 non-root
//! subintents and V2 signed partial transactions (typed models built field by field; signatures
//! are real for a part of the cases and random bytes otherwise — preparation does not verify them),
//! runs the real `to_raw` → `prepare(PreparationSettings::latest())` and records all identifiers.
//!
//! Coq side (model coq/Model/C32_TxHash.v): for every transaction the harness extracts the *leaves*
//! the model needs WITHOUT going through the preparation code: each leaf is `manifest_encode(field)`
//! of the typed field with the payload-prefix byte stripped (V1 leaves: the code hashes the full
//! SBOR value, value-kind byte included) or with prefix + value-kind byte stripped (V2 leaves: the
//! code hashes the value body); blobs are the raw blob contents; children are the 32 hash bytes.
//! This is independent of the code under test: the preparation slices these bytes out of the payload
//! by decoder offsets, here they come from encoding the field on its own.  The hash function is
//! passed to Coq as a finite table (input → radix_common::crypto::hash(input)); the table is built
//! by `Tab::h`, called on the inputs the documented structure says are hashed (a second,
//! straightforward copy of that structure).  The Coq check recomputes every identifier with the
//! model's own structure over table lookups and compares with the implementation's identifiers; an
//! input the model hashes that is not in the table fails the case.
//!
//! Direct oracle (independent of the model):
//!  1. decode(raw) → typed → re-encode gives the same bytes; preparing again gives the same hashes;
//!     the dispatching `RawNotarizedTransaction::prepare` agrees with the typed `prepare`.
//!  2. per-field perturbation: every header field, an instruction, a blob, the message, a child
//!     hash, a field of a non-root subintent, an intent signature, a subintent signature batch, the
//!     notary signature, the notary-is-signatory flag … is changed in the typed model; EXACTLY the
//!     identifiers that cover the field must change (expectation table keyed by the field kind).
//!  3. non-canonical payloads (trailing byte, wrong discriminator, wrong payload prefix, wrong value
//!     kind, wrong field count, non-canonical size encoding, truncation, over the size limit) must
//!     give Err — under `catch`, a panic is a failure.  These are also given to the Coq envelope model.
use radix_common::prelude::*;
use radix_transactions::manifest::*;
use radix_transactions::prelude::*;
use radix_engine_interface::prelude::LeaderProposalHistory;
use serde_json::json;
use std::collections::BTreeMap;
use std::panic::AssertUnwindSafe;
use vh_common::*;

// ------------------------------------------------------------------------------------------------
// generators
// ------------------------------------------------------------------------------------------------

fn gen_public_key(rng: &mut Rng) -> PublicKey {
    if rng.bool() {
        Secp256k1PrivateKey::from_u64(rng.range(1, 1000)).unwrap().public_key().into()
    } else {
        Ed25519PrivateKey::from_u64(rng.range(1, 1000)).unwrap().public_key().into()
    }
}

fn gen_sig_with_pk(rng: &mut Rng, msg: &Hash) -> SignatureWithPublicKeyV1 {
    match rng.below(4) {
        0 => Secp256k1PrivateKey::from_u64(rng.range(1, 1000)).unwrap().sign_with_public_key(msg),
        1 => Ed25519PrivateKey::from_u64(rng.range(1, 1000)).unwrap().sign_with_public_key(msg),
        2 => {
            let mut b = [0u8; 65];
            b.copy_from_slice(&rng.bytes(65));
            SignatureWithPublicKeyV1::Secp256k1 { signature: Secp256k1Signature(b) }
        }
        _ => {
            let mut pk = [0u8; 32];
            pk.copy_from_slice(&rng.bytes(32));
            let mut b = [0u8; 64];
            b.copy_from_slice(&rng.bytes(64));
            SignatureWithPublicKeyV1::Ed25519 { public_key: Ed25519PublicKey(pk), signature: Ed25519Signature(b) }
        }
    }
}

fn gen_sig(rng: &mut Rng, msg: &Hash) -> SignatureV1 {
    gen_sig_with_pk(rng, msg).signature()
}

fn gen_sigs(rng: &mut Rng, msg: &Hash, max: u64) -> Vec<IntentSignatureV1> {
    let n = if rng.chance(1, 4) { 0 } else { rng.range(1, max) };
    (0..n).map(|_| IntentSignatureV1(gen_sig_with_pk(rng, msg))).collect()
}

fn gen_decimal(rng: &mut Rng) -> Decimal {
    Decimal::from(rng.range(0, 100000))
}

fn gen_manifest_value(rng: &mut Rng) -> ManifestValue {
    match rng.below(3) {
        0 => ManifestValue::unit(),
        1 => manifest_decode(&manifest_encode(&(gen_decimal(rng),)).unwrap()).unwrap(),
        _ => manifest_decode(&manifest_encode(&(rng.next_u32(), "x".repeat(rng.usize_below(4)))).unwrap()).unwrap(),
    }
}

const METHODS: [&str; 4] = ["lock_fee", "free", "deposit_batch", "withdraw"];

fn gen_instr_v1(rng: &mut Rng) -> InstructionV1 {
    match rng.below(6) {
        0 => DropAuthZoneProofs.into(),
        1 => DropAllProofs.into(),
        2 => TakeAllFromWorktop { resource_address: XRD }.into(),
        3 => AssertWorktopContains { resource_address: XRD, amount: gen_decimal(rng) }.into(),
        _ => CallMethod {
            address: FAUCET.into(),
            method_name: rng.pick(&METHODS).to_string(),
            args: gen_manifest_value(rng),
        }
        .into(),
    }
}

fn gen_instr_v2(rng: &mut Rng, n_children: usize) -> InstructionV2 {
    match rng.below(8) {
        0 => DropAuthZoneProofs.into(),
        1 => DropAllProofs.into(),
        2 => TakeAllFromWorktop { resource_address: XRD }.into(),
        3 => AssertWorktopContains { resource_address: XRD, amount: gen_decimal(rng) }.into(),
        4 => YieldToParent { args: gen_manifest_value(rng) }.into(),
        5 if n_children > 0 => YieldToChild {
            child_index: ManifestNamedIntentIndex(rng.below(n_children as u64) as u32),
            args: gen_manifest_value(rng),
        }
        .into(),
        _ => CallMethod {
            address: FAUCET.into(),
            method_name: rng.pick(&METHODS).to_string(),
            args: gen_manifest_value(rng),
        }
        .into(),
    }
}

fn gen_blobs(rng: &mut Rng) -> BlobsV1 {
    let n = match rng.below(10) {
        0..=5 => 0,
        6..=8 => 1,
        _ => rng.range(2, 3),
    };
    BlobsV1 {
        blobs: (0..n)
            .map(|_| {
                let len = if rng.chance(1, 6) { 0 } else { rng.usize_below(24) };
                BlobV1(rng.bytes(len))
            })
            .collect(),
    }
}

fn gen_plaintext(rng: &mut Rng) -> PlaintextMessageV1 {
    if rng.bool() {
        PlaintextMessageV1::text("m".repeat(rng.usize_below(12)))
    } else {
        PlaintextMessageV1 {
            mime_type: "application/octet-stream".to_string(),
            message: MessageContentsV1::Bytes({ let n = rng.usize_below(12); rng.bytes(n) }),
        }
    }
}

fn gen_message_v1(rng: &mut Rng) -> MessageV1 {
    match rng.below(3) {
        0 => MessageV1::None,
        _ => MessageV1::Plaintext(gen_plaintext(rng)),
    }
}
fn gen_message_v2(rng: &mut Rng) -> MessageV2 {
    match rng.below(3) {
        0 => MessageV2::None,
        _ => MessageV2::Plaintext(gen_plaintext(rng)),
    }
}

fn gen_v1(rng: &mut Rng) -> NotarizedTransactionV1 {
    let start = rng.range(0, 1000);
    let header = TransactionHeaderV1 {
        network_id: rng.next_u64() as u8,
        start_epoch_inclusive: Epoch::of(start),
        end_epoch_exclusive: Epoch::of(start + rng.range(1, 100)),
        nonce: rng.next_u32(),
        notary_public_key: gen_public_key(rng),
        notary_is_signatory: rng.bool(),
        tip_percentage: rng.range(0, 500) as u16,
    };
    let n_instr = rng.range(0, 4);
    let intent = IntentV1 {
        header,
        instructions: InstructionsV1((0..n_instr).map(|_| gen_instr_v1(rng)).collect()),
        blobs: gen_blobs(rng),
        message: gen_message_v1(rng),
    };
    let some_hash = hash(rng.bytes(8));
    let signed_intent = SignedIntentV1 {
        intent,
        intent_signatures: IntentSignaturesV1 { signatures: gen_sigs(rng, &some_hash, 3) },
    };
    NotarizedTransactionV1 { signed_intent, notary_signature: NotarySignatureV1(gen_sig(rng, &some_hash)) }
}

fn gen_core_v2(rng: &mut Rng, children: Vec<SubintentHash>) -> IntentCoreV2 {
    let start = rng.range(0, 1000);
    let header = IntentHeaderV2 {
        network_id: rng.next_u64() as u8,
        start_epoch_inclusive: Epoch::of(start),
        end_epoch_exclusive: Epoch::of(start + rng.range(1, 100)),
        min_proposer_timestamp_inclusive: if rng.bool() { None } else { Some(Instant::new(rng.range(0, 1 << 40) as i64)) },
        max_proposer_timestamp_exclusive: if rng.bool() { None } else { Some(Instant::new(rng.range(0, 1 << 40) as i64)) },
        intent_discriminator: rng.next_u64(),
    };
    let n_instr = rng.range(0, 3);
    let n_children = children.len();
    let mut set = index_set_new();
    for c in children {
        set.insert(ChildSubintentSpecifier { hash: c });
    }
    IntentCoreV2 {
        header,
        blobs: gen_blobs(rng),
        message: gen_message_v2(rng),
        children: ChildSubintentSpecifiersV2 { children: set },
        instructions: InstructionsV2((0..n_instr).map(|_| gen_instr_v2(rng, n_children)).collect()),
    }
}

fn random_subintent_hash(rng: &mut Rng) -> SubintentHash {
    SubintentHash::from_hash(Hash(rng.bytes(32).try_into().unwrap()))
}

/// non-root subintents (a flat list; some reference later ones as children) and the children of the root
fn gen_subintents(rng: &mut Rng) -> (Vec<SubintentV2>, Vec<SubintentHash>) {
    let n = match rng.below(8) {
        0..=1 => 0,
        2..=4 => 1,
        5..=6 => 2,
        _ => 3,
    };
    let settings = PreparationSettings::latest();
    let mut subs: Vec<SubintentV2> = Vec::new();
    let mut hashes: Vec<SubintentHash> = Vec::new();
    // built back to front so that an earlier subintent can name a later one as its child
    for _ in 0..n {
        let mut children = Vec::new();
        if !hashes.is_empty() && rng.chance(1, 3) {
            children.push(hashes[rng.usize_below(hashes.len())]);
        }
        if rng.chance(1, 8) {
            children.push(random_subintent_hash(rng));
        }
        let s = SubintentV2 { intent_core: gen_core_v2(rng, children) };
        let h = s.prepare(&settings).expect("subintent prepares").subintent_hash();
        subs.insert(0, s);
        hashes.insert(0, h);
    }
    let mut root_children: Vec<SubintentHash> = Vec::new();
    for h in &hashes {
        if rng.chance(2, 3) {
            root_children.push(*h);
        }
    }
    if rng.chance(1, 8) {
        root_children.push(random_subintent_hash(rng));
    }
    (subs, root_children)
}

fn gen_v2(rng: &mut Rng) -> NotarizedTransactionV2 {
    let (subs, root_children) = gen_subintents(rng);
    let transaction_header = TransactionHeaderV2 {
        notary_public_key: gen_public_key(rng),
        notary_is_signatory: rng.bool(),
        tip_basis_points: rng.range(0, 20000) as u32,
    };
    let some_hash = hash(rng.bytes(8));
    let n_subs = subs.len();
    let transaction_intent = TransactionIntentV2 {
        transaction_header,
        root_intent_core: gen_core_v2(rng, root_children),
        non_root_subintents: NonRootSubintentsV2(subs),
    };
    // the number of signature batches normally equals the number of subintents; preparation does
    // not require it, so a few cases differ
    let n_batches = if rng.chance(1, 10) { rng.range(0, 3) as usize } else { n_subs };
    let signed = SignedTransactionIntentV2 {
        transaction_intent,
        transaction_intent_signatures: IntentSignaturesV2 { signatures: gen_sigs(rng, &some_hash, 2) },
        non_root_subintent_signatures: NonRootSubintentSignaturesV2 {
            by_subintent: (0..n_batches).map(|_| IntentSignaturesV2 { signatures: gen_sigs(rng, &some_hash, 2) }).collect(),
        },
    };
    NotarizedTransactionV2 { signed_transaction_intent: signed, notary_signature: NotarySignatureV2(gen_sig(rng, &some_hash)) }
}

fn gen_partial(rng: &mut Rng) -> SignedPartialTransactionV2 {
    let (subs, root_children) = gen_subintents(rng);
    let some_hash = hash(rng.bytes(8));
    let n_subs = subs.len();
    let partial_transaction = PartialTransactionV2 {
        root_subintent: SubintentV2 { intent_core: gen_core_v2(rng, root_children) },
        non_root_subintents: NonRootSubintentsV2(subs),
    };
    SignedPartialTransactionV2 {
        partial_transaction,
        root_subintent_signatures: IntentSignaturesV2 { signatures: gen_sigs(rng, &some_hash, 2) },
        non_root_subintent_signatures: NonRootSubintentSignaturesV2 {
            by_subintent: (0..n_subs).map(|_| IntentSignaturesV2 { signatures: gen_sigs(rng, &some_hash, 2) }).collect(),
        },
    }
}

#[derive(Clone, Debug, PartialEq)]
enum Tx {
    V1(NotarizedTransactionV1),
    V2(NotarizedTransactionV2),
    Partial(SignedPartialTransactionV2),
}

// ------------------------------------------------------------------------------------------------
// implementation side
// ------------------------------------------------------------------------------------------------

#[derive(Clone, Debug, PartialEq, Eq)]
struct Ids {
    intent: Hash,     // transaction intent hash / root subintent hash
    signed: Hash,     // signed intent hash / partial transaction hash
    notarized: Hash,  // notarized hash / signed partial transaction hash
    subs: Vec<Hash>,  // non-root subintent hashes
}

fn payload_of(tx: &Tx) -> Vec<u8> {
    match tx {
        Tx::V1(t) => t.to_raw().unwrap().to_vec(),
        Tx::V2(t) => t.to_raw().unwrap().to_vec(),
        Tx::Partial(t) => t.to_raw().unwrap().to_vec(),
    }
}

/// entry: 0 = RawNotarizedTransaction::prepare (dispatching), 1 = V1 notarized, 2 = V2 notarized,
/// 3 = signed partial transaction
fn prepare_payload(entry: u8, payload: &[u8], settings: &PreparationSettings) -> Result<Ids, PrepareError> {
    match entry {
        0 => {
            let p = RawNotarizedTransaction::from_slice(payload).prepare(settings)?;
            Ok(Ids {
                intent: p.transaction_intent_hash().into(),
                signed: p.signed_transaction_intent_hash().into(),
                notarized: p.notarized_transaction_hash().into(),
                subs: p.non_root_subintent_hashes().into_iter().map(|h| h.into()).collect(),
            })
        }
        1 => {
            let p = PreparedNotarizedTransactionV1::prepare(&RawNotarizedTransaction::from_slice(payload), settings)?;
            Ok(Ids {
                intent: p.transaction_intent_hash().into(),
                signed: p.signed_transaction_intent_hash().into(),
                notarized: p.notarized_transaction_hash().into(),
                subs: vec![],
            })
        }
        2 => {
            let p = PreparedNotarizedTransactionV2::prepare(&RawNotarizedTransaction::from_slice(payload), settings)?;
            Ok(Ids {
                intent: p.transaction_intent_hash().into(),
                signed: p.signed_transaction_intent_hash().into(),
                notarized: p.notarized_transaction_hash().into(),
                subs: p.non_root_subintent_hashes().into_iter().map(|h| h.into()).collect(),
            })
        }
        _ => {
            let p = PreparedSignedPartialTransactionV2::prepare(&RawSignedPartialTransaction::from_slice(payload), settings)?;
            Ok(Ids {
                intent: p.subintent_hash().into(),
                signed: p.partial_transaction.get_summary().hash,
                notarized: p.get_summary().hash,
                subs: p.non_root_subintent_hashes().map(|h| h.into()).collect(),
            })
        }
    }
}

fn typed_entry(tx: &Tx) -> u8 {
    match tx {
        Tx::V1(_) => 1,
        Tx::V2(_) => 2,
        Tx::Partial(_) => 3,
    }
}

fn ids_of(tx: &Tx) -> Result<Ids, String> {
    let payload = payload_of(tx);
    let settings = PreparationSettings::latest();
    let e = typed_entry(tx);
    match catch(AssertUnwindSafe(|| prepare_payload(e, &payload, &settings))) {
        Ok(Ok(ids)) => Ok(ids),
        Ok(Err(e)) => Err(format!("prepare error {:?}", e)),
        Err(p) => Err(format!("panic: {}", p)),
    }
}

fn error_class(e: &PrepareError) -> u8 {
    match e {
        PrepareError::TransactionTooLarge => 1,
        PrepareError::DecodeError(d) => match d {
            DecodeError::BufferUnderflow { .. } => 2,
            DecodeError::UnexpectedPayloadPrefix { .. } => 3,
            DecodeError::UnknownValueKind(_) | DecodeError::UnexpectedValueKind { .. } => 5,
            DecodeError::UnexpectedDiscriminator { .. } => 6,
            DecodeError::InvalidSize => 7,
            DecodeError::UnexpectedSize { .. } => 8,
            DecodeError::ExtraTrailingBytes(_) => 9,
            DecodeError::MaxDepthExceeded(_) => 13,
            DecodeError::DuplicateKey => 14,
            _ => 10,
        },
        PrepareError::UnexpectedTransactionDiscriminator { .. } => 4,
        PrepareError::TooManyValues { .. } => 11,
        PrepareError::TransactionTypeNotSupported => 12,
        PrepareError::EncodeError(_) | PrepareError::LengthOverflow => 10,
    }
}

// ------------------------------------------------------------------------------------------------
// leaves for the model + hash table
// ------------------------------------------------------------------------------------------------

/// full SBOR value of a field (value kind + body): manifest_encode output minus the payload prefix
fn full_value<T: ManifestEncode>(v: &T) -> Vec<u8> {
    let e = manifest_encode(v).unwrap();
    assert_eq!(e[0], MANIFEST_SBOR_V1_PAYLOAD_PREFIX);
    e[1..].to_vec()
}
/// value body of a field: manifest_encode output minus payload prefix and value-kind byte
fn value_body<T: ManifestEncode>(v: &T) -> Vec<u8> {
    let e = manifest_encode(v).unwrap();
    assert_eq!(e[0], MANIFEST_SBOR_V1_PAYLOAD_PREFIX);
    e[2..].to_vec()
}

#[derive(Default)]
struct Tab {
    entries: BTreeMap<Vec<u8>, Vec<u8>>,
}
impl Tab {
    fn h(&mut self, input: &[u8]) -> Vec<u8> {
        let d = hash(input).to_vec();
        self.entries.insert(input.to_vec(), d.clone());
        d
    }
    fn coq(&self) -> String {
        coq_list(self.entries.iter().map(|(k, v)| format!("({}, {})", coq_bytes(k), coq_bytes(v))))
    }
}

fn blist(xs: &[Vec<u8>]) -> String {
    coq_list(xs.iter().map(|b| coq_bytes(b)))
}

fn tab_array(tab: &mut Tab, digests: &[Vec<u8>]) -> Vec<u8> {
    let input: Vec<u8> = digests.concat();
    tab.h(&input)
}
fn tab_composite(tab: &mut Tab, disc: Option<u8>, digests: &[Vec<u8>]) -> Vec<u8> {
    let mut input = Vec::new();
    if let Some(d) = disc {
        input.push(0x54);
        input.push(d);
    }
    for d in digests {
        input.extend_from_slice(d);
    }
    tab.h(&input)
}
fn tab_blobs(tab: &mut Tab, blobs: &BlobsV1) -> (Vec<Vec<u8>>, Vec<u8>) {
    let contents: Vec<Vec<u8>> = blobs.blobs.iter().map(|b| b.0.clone()).collect();
    let ds: Vec<Vec<u8>> = contents.iter().map(|c| tab.h(c)).collect();
    let d = tab_array(tab, &ds);
    (contents, d)
}

/// returns (Coq term of core_v2, core hash)
fn core_coq(tab: &mut Tab, c: &IntentCoreV2) -> (String, Vec<u8>) {
    let header = value_body(&c.header);
    let message = value_body(&c.message);
    let instructions = value_body(&c.instructions);
    let children: Vec<Vec<u8>> = c.children.children.iter().map(|ch| ch.hash.as_hash().to_vec()).collect();
    let (blobs, blobs_d) = tab_blobs(tab, &c.blobs);
    let dh = tab.h(&header);
    let dm = tab.h(&message);
    let di = tab.h(&instructions);
    let dc = tab_array(tab, &children);
    let core_hash = tab_composite(tab, None, &[dh, blobs_d, dm, dc, di]);
    let term = format!(
        "{{| c_header := {}; c_blobs := {}; c_message := {}; c_children := {}; c_instructions := {} |}}",
        coq_bytes(&header),
        blist(&blobs),
        coq_bytes(&message),
        blist(&children),
        coq_bytes(&instructions)
    );
    (term, core_hash)
}

fn subintents_coq(tab: &mut Tab, subs: &NonRootSubintentsV2) -> (String, Vec<u8>) {
    let mut terms = Vec::new();
    let mut ds = Vec::new();
    for s in &subs.0 {
        let (t, ch) = core_coq(tab, &s.intent_core);
        ds.push(tab_composite(tab, Some(11), &[ch]));
        terms.push(t);
    }
    let d = tab_array(tab, &ds);
    (coq_list(terms), d)
}

fn sig_batches_coq(tab: &mut Tab, b: &NonRootSubintentSignaturesV2) -> (String, Vec<u8>) {
    let bodies: Vec<Vec<u8>> = b.by_subintent.iter().map(|s| value_body(s)).collect();
    let ds: Vec<Vec<u8>> = bodies.iter().map(|x| tab.h(x)).collect();
    let d = tab_array(tab, &ds);
    (blist(&bodies), d)
}

/// Coq term of type `tx` and the hash table covering the inputs hashed for it
fn tx_coq(tx: &Tx) -> (String, Tab) {
    let mut tab = Tab::default();
    let term = match tx {
        Tx::V1(n) => {
            let i = &n.signed_intent.intent;
            let header = full_value(&i.header);
            let instructions = full_value(&i.instructions);
            let message = full_value(&i.message);
            let sigs = full_value(&n.signed_intent.intent_signatures);
            let notary = full_value(&n.notary_signature);
            let (blobs, blobs_d) = tab_blobs(&mut tab, &i.blobs);
            let dh = tab.h(&header);
            let di = tab.h(&instructions);
            let dm = tab.h(&message);
            let ih = tab_composite(&mut tab, Some(1), &[dh, di, blobs_d, dm]);
            let ds = tab.h(&sigs);
            let sh = tab_composite(&mut tab, Some(2), &[ih, ds]);
            let dn = tab.h(&notary);
            tab_composite(&mut tab, Some(3), &[sh, dn]);
            format!(
                "TxV1 {{| n1_intent := {{| i1_header := {}; i1_instructions := {}; i1_blobs := {}; i1_message := {} |}}; n1_signatures := {}; n1_notary_signature := {} |}}",
                coq_bytes(&header), coq_bytes(&instructions), blist(&blobs), coq_bytes(&message), coq_bytes(&sigs), coq_bytes(&notary)
            )
        }
        Tx::V2(n) => {
            let s = &n.signed_transaction_intent;
            let t = &s.transaction_intent;
            let theader = value_body(&t.transaction_header);
            let dth = tab.h(&theader);
            let (root, root_h) = core_coq(&mut tab, &t.root_intent_core);
            let (subs, subs_d) = subintents_coq(&mut tab, &t.non_root_subintents);
            let ih = tab_composite(&mut tab, Some(9), &[dth, root_h, subs_d]);
            let sigs = value_body(&s.transaction_intent_signatures);
            let dsig = tab.h(&sigs);
            let (batches, batches_d) = sig_batches_coq(&mut tab, &s.non_root_subintent_signatures);
            let sh = tab_composite(&mut tab, Some(10), &[ih, dsig, batches_d]);
            let notary = value_body(&n.notary_signature);
            let dn = tab.h(&notary);
            tab_composite(&mut tab, Some(12), &[sh, dn]);
            format!(
                "TxV2 {{| n2_intent := {{| t_header := {}; t_root := {}; t_subintents := {} |}}; n2_signatures := {}; n2_sub_signatures := {}; n2_notary_signature := {} |}}",
                coq_bytes(&theader), root, subs, coq_bytes(&sigs), batches, coq_bytes(&notary)
            )
        }
        Tx::Partial(sp) => {
            let p = &sp.partial_transaction;
            let (root, root_h) = core_coq(&mut tab, &p.root_subintent.intent_core);
            let root_sub_h = tab_composite(&mut tab, Some(11), &[root_h]);
            let (subs, subs_d) = subintents_coq(&mut tab, &p.non_root_subintents);
            let ph = tab_composite(&mut tab, Some(13), &[root_sub_h, subs_d]);
            let sigs = value_body(&sp.root_subintent_signatures);
            let dsig = tab.h(&sigs);
            let (batches, batches_d) = sig_batches_coq(&mut tab, &sp.non_root_subintent_signatures);
            tab_composite(&mut tab, Some(14), &[ph, dsig, batches_d]);
            format!(
                "TxPartial {{| sp_partial := {{| p_root := {}; p_subintents := {} |}}; sp_root_signatures := {}; sp_sub_signatures := {} |}}",
                root, subs, coq_bytes(&sigs), batches
            )
        }
    };
    (term, tab)
}

fn ids_coq(ids: &Ids) -> String {
    format!(
        "{{| h_intent := {}; h_signed := {}; h_notarized := {}; h_subintents := {} |}}",
        coq_bytes(ids.intent.as_slice()),
        coq_bytes(ids.signed.as_slice()),
        coq_bytes(ids.notarized.as_slice()),
        coq_list(ids.subs.iter().map(|h| coq_bytes(h.as_slice())))
    )
}

fn hash_case(tx: &Tx, ids: &Ids) -> String {
    let (term, tab) = tx_coq(tx);
    format!("CHash ({}) {} {}", term, tab.coq(), ids_coq(ids))
}

// ------------------------------------------------------------------------------------------------
// perturbations
// ------------------------------------------------------------------------------------------------

/// which identifiers must change
#[derive(Clone, Copy, Debug, PartialEq)]
enum Cover {
    Intent,          // intent, signed, notarized change; non-root subintent hashes do not
    Sub(usize),      // as Intent, plus non-root subintent hash k
    Signed,          // signed and notarized only
    Notarized,       // notarized only
}

fn flip_sig(s: &mut SignatureWithPublicKeyV1, rng: &mut Rng) {
    match s {
        SignatureWithPublicKeyV1::Secp256k1 { signature } => signature.0[rng.usize_below(65)] ^= 1 << rng.below(8),
        SignatureWithPublicKeyV1::Ed25519 { public_key, signature } => {
            if rng.bool() {
                public_key.0[rng.usize_below(32)] ^= 1 << rng.below(8)
            } else {
                signature.0[rng.usize_below(64)] ^= 1 << rng.below(8)
            }
        }
    }
}
fn flip_notary(s: &mut SignatureV1, rng: &mut Rng) {
    match s {
        SignatureV1::Secp256k1(sig) => sig.0[rng.usize_below(65)] ^= 1 << rng.below(8),
        SignatureV1::Ed25519(sig) => sig.0[rng.usize_below(64)] ^= 1 << rng.below(8),
    }
}
fn change_sigs(v: &mut Vec<IntentSignatureV1>, rng: &mut Rng) -> &'static str {
    let some_hash = hash(rng.bytes(8));
    if v.is_empty() || rng.chance(1, 4) {
        v.push(IntentSignatureV1(gen_sig_with_pk(rng, &some_hash)));
        "signature_added"
    } else if rng.chance(1, 4) {
        v.remove(rng.usize_below(v.len()));
        "signature_removed"
    } else if v.len() >= 2 && v[0] != v[1] && rng.chance(1, 4) {
        v.swap(0, 1);
        "signatures_swapped"
    } else {
        let k = rng.usize_below(v.len());
        flip_sig(&mut v[k].0, rng);
        "signature_bit"
    }
}
fn change_public_key(pk: &mut PublicKey, rng: &mut Rng) {
    loop {
        let n = gen_public_key(rng);
        if n != *pk {
            *pk = n;
            return;
        }
    }
}
fn change_blobs(b: &mut BlobsV1, rng: &mut Rng) -> &'static str {
    if b.blobs.is_empty() || rng.chance(1, 4) {
        { let n = rng.usize_below(6); b.blobs.push(BlobV1(rng.bytes(n))); }
        "blob_added"
    } else if rng.chance(1, 4) {
        b.blobs.remove(rng.usize_below(b.blobs.len()));
        "blob_removed"
    } else {
        let k = rng.usize_below(b.blobs.len());
        if b.blobs[k].0.is_empty() || rng.chance(1, 3) {
            b.blobs[k].0.push(rng.next_u64() as u8);
            "blob_extended"
        } else {
            let j = rng.usize_below(b.blobs[k].0.len());
            b.blobs[k].0[j] ^= 1 << rng.below(8);
            "blob_bit"
        }
    }
}
fn change_plaintext(p: &mut PlaintextMessageV1, rng: &mut Rng) {
    if rng.bool() {
        p.mime_type.push('x');
    } else {
        match &mut p.message {
            MessageContentsV1::String(s) => s.push('y'),
            MessageContentsV1::Bytes(b) => b.push(rng.next_u64() as u8),
        }
    }
}
fn change_message_v1(m: &mut MessageV1, rng: &mut Rng) -> &'static str {
    match m {
        MessageV1::None => {
            *m = MessageV1::Plaintext(gen_plaintext(rng));
            "message_set"
        }
        MessageV1::Plaintext(p) => {
            if rng.chance(1, 4) {
                *m = MessageV1::None;
                "message_cleared"
            } else {
                change_plaintext(p, rng);
                "message_changed"
            }
        }
        _ => {
            *m = MessageV1::None;
            "message_cleared"
        }
    }
}
fn change_message_v2(m: &mut MessageV2, rng: &mut Rng) -> &'static str {
    match m {
        MessageV2::None => {
            *m = MessageV2::Plaintext(gen_plaintext(rng));
            "message_set"
        }
        MessageV2::Plaintext(p) => {
            if rng.chance(1, 4) {
                *m = MessageV2::None;
                "message_cleared"
            } else {
                change_plaintext(p, rng);
                "message_changed"
            }
        }
        _ => {
            *m = MessageV2::None;
            "message_cleared"
        }
    }
}
fn change_instrs_v1(v: &mut Vec<InstructionV1>, rng: &mut Rng) -> &'static str {
    if v.is_empty() || rng.chance(1, 3) {
        let at = rng.usize_below(v.len() + 1);
        v.insert(at, gen_instr_v1(rng));
        "instruction_inserted"
    } else if rng.chance(1, 3) {
        v.remove(rng.usize_below(v.len()));
        "instruction_removed"
    } else {
        let k = rng.usize_below(v.len());
        loop {
            let n = gen_instr_v1(rng);
            if n != v[k] {
                v[k] = n;
                break;
            }
        }
        "instruction_replaced"
    }
}
fn change_instrs_v2(v: &mut Vec<InstructionV2>, rng: &mut Rng) -> &'static str {
    if v.is_empty() || rng.chance(1, 3) {
        let at = rng.usize_below(v.len() + 1);
        v.insert(at, gen_instr_v2(rng, 1));
        "instruction_inserted"
    } else if rng.chance(1, 3) {
        v.remove(rng.usize_below(v.len()));
        "instruction_removed"
    } else {
        let k = rng.usize_below(v.len());
        loop {
            let n = gen_instr_v2(rng, 1);
            if n != v[k] {
                v[k] = n;
                break;
            }
        }
        "instruction_replaced"
    }
}

const CORE_FIELDS: usize = 10;
fn change_core(c: &mut IntentCoreV2, which: usize, rng: &mut Rng) -> &'static str {
    match which {
        0 => {
            c.header.network_id = c.header.network_id.wrapping_add(1);
            "network_id"
        }
        1 => {
            c.header.start_epoch_inclusive = Epoch::of(c.header.start_epoch_inclusive.number() + 1);
            "start_epoch"
        }
        2 => {
            c.header.end_epoch_exclusive = Epoch::of(c.header.end_epoch_exclusive.number() + 1);
            "end_epoch"
        }
        3 => {
            c.header.min_proposer_timestamp_inclusive = match c.header.min_proposer_timestamp_inclusive {
                None => Some(Instant::new(rng.range(0, 1000) as i64)),
                Some(i) => if rng.bool() { None } else { Some(Instant::new(i.seconds_since_unix_epoch + 1)) },
            };
            "min_proposer_timestamp"
        }
        4 => {
            c.header.max_proposer_timestamp_exclusive = match c.header.max_proposer_timestamp_exclusive {
                None => Some(Instant::new(rng.range(0, 1000) as i64)),
                Some(i) => if rng.bool() { None } else { Some(Instant::new(i.seconds_since_unix_epoch + 1)) },
            };
            "max_proposer_timestamp"
        }
        5 => {
            c.header.intent_discriminator ^= 1 << rng.below(64);
            "intent_discriminator"
        }
        6 => change_blobs(&mut c.blobs, rng),
        7 => change_message_v2(&mut c.message, rng),
        8 => {
            let ch = &mut c.children.children;
            if ch.is_empty() || rng.chance(1, 3) {
                ch.insert(ChildSubintentSpecifier { hash: random_subintent_hash(rng) });
                "child_added"
            } else if rng.chance(1, 3) {
                let k = rng.usize_below(ch.len());
                ch.shift_remove_index(k);
                "child_removed"
            } else if ch.len() >= 2 && rng.chance(1, 3) {
                ch.swap_indices(0, 1);
                "children_swapped"
            } else {
                let k = rng.usize_below(ch.len());
                let mut v: Vec<ChildSubintentSpecifier> = ch.iter().cloned().collect();
                let mut b = v[k].hash.as_hash().0;
                b[rng.usize_below(32)] ^= 1 << rng.below(8);
                v[k] = ChildSubintentSpecifier { hash: SubintentHash::from_hash(Hash(b)) };
                *ch = v.into_iter().collect();
                "child_bit"
            }
        }
        _ => change_instrs_v2(&mut c.instructions.0, rng),
    }
}

/// applies one random single-field change; returns (field kind, expected cover)
fn perturb(tx: &mut Tx, rng: &mut Rng) -> (String, Cover) {
    match tx {
        Tx::V1(n) => {
            let h = &mut n.signed_intent.intent.header;
            match rng.below(13) {
                0 => {
                    h.network_id = h.network_id.wrapping_add(1);
                    ("v1.network_id".into(), Cover::Intent)
                }
                1 => {
                    h.start_epoch_inclusive = Epoch::of(h.start_epoch_inclusive.number() + 1);
                    ("v1.start_epoch".into(), Cover::Intent)
                }
                2 => {
                    h.end_epoch_exclusive = Epoch::of(h.end_epoch_exclusive.number() + 1);
                    ("v1.end_epoch".into(), Cover::Intent)
                }
                3 => {
                    h.nonce ^= 1 << rng.below(32);
                    ("v1.nonce".into(), Cover::Intent)
                }
                4 => {
                    change_public_key(&mut h.notary_public_key, rng);
                    ("v1.notary_public_key".into(), Cover::Intent)
                }
                5 => {
                    h.notary_is_signatory = !h.notary_is_signatory;
                    ("v1.notary_is_signatory".into(), Cover::Intent)
                }
                6 => {
                    h.tip_percentage ^= 1 << rng.below(16);
                    ("v1.tip_percentage".into(), Cover::Intent)
                }
                7 => (format!("v1.{}", change_instrs_v1(&mut n.signed_intent.intent.instructions.0, rng)), Cover::Intent),
                8 => (format!("v1.{}", change_blobs(&mut n.signed_intent.intent.blobs, rng)), Cover::Intent),
                9 => (format!("v1.{}", change_message_v1(&mut n.signed_intent.intent.message, rng)), Cover::Intent),
                10 | 11 => (format!("v1.{}", change_sigs(&mut n.signed_intent.intent_signatures.signatures, rng)), Cover::Signed),
                _ => {
                    flip_notary(&mut n.notary_signature.0, rng);
                    ("v1.notary_signature".into(), Cover::Notarized)
                }
            }
        }
        Tx::V2(n) => {
            let s = &mut n.signed_transaction_intent;
            let t = &mut s.transaction_intent;
            let nsubs = t.non_root_subintents.0.len();
            let nb = s.non_root_subintent_signatures.by_subintent.len();
            match rng.below(12) {
                0 => {
                    change_public_key(&mut t.transaction_header.notary_public_key, rng);
                    ("v2.notary_public_key".into(), Cover::Intent)
                }
                1 => {
                    t.transaction_header.notary_is_signatory = !t.transaction_header.notary_is_signatory;
                    ("v2.notary_is_signatory".into(), Cover::Intent)
                }
                2 => {
                    t.transaction_header.tip_basis_points ^= 1 << rng.below(32);
                    ("v2.tip_basis_points".into(), Cover::Intent)
                }
                3 | 4 | 5 => {
                    let w = rng.usize_below(CORE_FIELDS);
                    (format!("v2.root.{}", change_core(&mut t.root_intent_core, w, rng)), Cover::Intent)
                }
                6 | 7 if nsubs > 0 => {
                    let k = rng.usize_below(nsubs);
                    let w = rng.usize_below(CORE_FIELDS);
                    (format!("v2.sub.{}", change_core(&mut t.non_root_subintents.0[k].intent_core, w, rng)), Cover::Sub(k))
                }
                8 => (format!("v2.{}", change_sigs(&mut s.transaction_intent_signatures.signatures, rng)), Cover::Signed),
                9 if nb > 0 => {
                    let k = rng.usize_below(nb);
                    (format!("v2.sub_batch.{}", change_sigs(&mut s.non_root_subintent_signatures.by_subintent[k].signatures, rng)), Cover::Signed)
                }
                10 => {
                    s.non_root_subintent_signatures.by_subintent.push(IntentSignaturesV2 { signatures: vec![] });
                    ("v2.sub_batch_added".into(), Cover::Signed)
                }
                _ => {
                    flip_notary(&mut n.notary_signature.0, rng);
                    ("v2.notary_signature".into(), Cover::Notarized)
                }
            }
        }
        Tx::Partial(sp) => {
            let p = &mut sp.partial_transaction;
            let nsubs = p.non_root_subintents.0.len();
            let nb = sp.non_root_subintent_signatures.by_subintent.len();
            match rng.below(8) {
                0 | 1 | 2 => {
                    let w = rng.usize_below(CORE_FIELDS);
                    (format!("partial.root.{}", change_core(&mut p.root_subintent.intent_core, w, rng)), Cover::Intent)
                }
                3 | 4 if nsubs > 0 => {
                    let k = rng.usize_below(nsubs);
                    let w = rng.usize_below(CORE_FIELDS);
                    // the root subintent hash does not cover the non-root subintents: only the
                    // partial transaction hash (and the signed partial hash) and subintent k change
                    (format!("partial.sub.{}", change_core(&mut p.non_root_subintents.0[k].intent_core, w, rng)), Cover::Sub(k))
                }
                5 if nb > 0 => {
                    let k = rng.usize_below(nb);
                    (format!("partial.sub_batch.{}", change_sigs(&mut sp.non_root_subintent_signatures.by_subintent[k].signatures, rng)), Cover::Notarized)
                }
                _ => (format!("partial.root_sigs.{}", change_sigs(&mut sp.root_subintent_signatures.signatures, rng)), Cover::Notarized),
            }
        }
    }
}

/// the expectation table: which identifiers differ between `a` (before) and `b` (after)
fn expected_change(tx: &Tx, cover: Cover, nsubs: usize) -> (bool, bool, bool, Vec<bool>) {
    let mut subs = vec![false; nsubs];
    match (tx, cover) {
        (_, Cover::Notarized) => (false, false, true, subs),
        (_, Cover::Signed) => (false, true, true, subs),
        (_, Cover::Intent) => (true, true, true, subs),
        (Tx::Partial(_), Cover::Sub(k)) => {
            subs[k] = true;
            (false, true, true, subs)
        }
        (_, Cover::Sub(k)) => {
            subs[k] = true;
            (true, true, true, subs)
        }
    }
}

// ------------------------------------------------------------------------------------------------
// non-canonical payloads
// ------------------------------------------------------------------------------------------------

struct EnvCase {
    name: &'static str,
    entry: u8,
    max_user: usize,
    payload: Vec<u8>,
    consumed: Option<usize>, // bytes the field decoder consumes after the 4 header bytes; None = it fails
    must_reject: bool,
}

fn env_mutations(tx: &Tx, payload: &[u8], rng: &mut Rng) -> Vec<EnvCase> {
    let typed = typed_entry(tx);
    let big = 1024 * 1024;
    let body_len = payload.len() - 4; // [prefix, enum value kind, discriminator, field count] ++ fields
    let mut v = Vec::new();
    let entry_for = |rng: &mut Rng| if typed != 3 && rng.bool() { 0 } else { typed };
    // valid
    v.push(EnvCase { name: "valid", entry: entry_for(rng), max_user: big, payload: payload.to_vec(), consumed: Some(body_len), must_reject: false });
    // trailing bytes
    let mut p = payload.to_vec();
    let extra = rng.range(1, 3) as usize;
    p.extend(rng.bytes(extra));
    v.push(EnvCase { name: "trailing_bytes", entry: entry_for(rng), max_user: big, payload: p, consumed: Some(body_len), must_reject: true });
    // discriminator
    let mut p = payload.to_vec();
    let other: [u8; 10] = [0, 1, 2, 3, 9, 10, 11, 12, 13, 14];
    loop {
        let d = if rng.chance(1, 3) { rng.next_u64() as u8 } else { *rng.pick(&other) };
        if d != p[2] {
            p[2] = d;
            break;
        }
    }
    // (with the dispatching entry a V1 payload relabelled V2 — or vice versa — is sent to the other
    //  preparation, which then fails in the fields: the field oracle says "fails")
    let e = entry_for(rng);
    let consumed = if e == 0 && (p[2] == 3 || p[2] == 12) { None } else { Some(body_len) };
    v.push(EnvCase { name: "discriminator", entry: e, max_user: big, payload: p, consumed, must_reject: true });
    // payload prefix
    let mut p = payload.to_vec();
    p[0] = if rng.bool() { 0x5c } else { p[0].wrapping_add(rng.range(1, 255) as u8) };
    v.push(EnvCase { name: "payload_prefix", entry: entry_for(rng), max_user: big, payload: p, consumed: Some(body_len), must_reject: true });
    // value kind of the envelope
    let mut p = payload.to_vec();
    p[1] = *rng.pick(&[0x21u8, 0x20, 0x23, 0x00, 0xff]);
    v.push(EnvCase { name: "value_kind", entry: entry_for(rng), max_user: big, payload: p, consumed: Some(body_len), must_reject: true });
    // declared field count
    let mut p = payload.to_vec();
    p[3] = if rng.bool() { p[3] + 1 } else { p[3] - 1 };
    v.push(EnvCase { name: "field_count", entry: entry_for(rng), max_user: big, payload: p, consumed: Some(body_len), must_reject: true });
    // non-canonical LEB128 size: n encoded as [n | 0x80, 0x00]
    let mut p = payload.to_vec();
    let n = p[3];
    p[3] = n | 0x80;
    p.insert(4, 0);
    v.push(EnvCase { name: "noncanonical_size", entry: entry_for(rng), max_user: big, payload: p, consumed: Some(body_len), must_reject: true });
    // truncation
    let cut = rng.range(1, (payload.len() - 1).min(40) as u64) as usize;
    let p = payload[..payload.len() - cut].to_vec();
    v.push(EnvCase { name: "truncated", entry: entry_for(rng), max_user: big, payload: p, consumed: None, must_reject: true });
    // size limit (user payloads only): limit = len - 1 rejects, limit = len accepts
    if typed != 3 {
        v.push(EnvCase { name: "over_limit", entry: entry_for(rng), max_user: payload.len() - 1, payload: payload.to_vec(), consumed: Some(body_len), must_reject: true });
        v.push(EnvCase { name: "at_limit", entry: entry_for(rng), max_user: payload.len(), payload: payload.to_vec(), consumed: Some(body_len), must_reject: false });
    }
    v
}

fn settings_with_max(max_user: usize) -> PreparationSettings {
    let mut s = PreparationSettings::latest();
    s.max_user_payload_length = max_user;
    s.max_ledger_payload_length = max_user + 10;
    s
}


// ------------------------------------------------------------------------------------------------
// deterministic boundary family (identical for every seed; runs before the random stream)
// ------------------------------------------------------------------------------------------------
fn det_rng(k: u64) -> Rng {
    Rng::new(0xC32_B0).fork(k)
}
fn det_sigs(r: &mut Rng, n: usize) -> Vec<IntentSignatureV1> {
    let h = hash([n as u8, 9]);
    let mut v: Vec<IntentSignatureV1> = vec![];
    while v.len() < n {
        let s = IntentSignatureV1(gen_sig_with_pk(r, &h));
        if !v.contains(&s) {
            v.push(s);
        }
    }
    v
}
fn det_blobs(n: usize, salt: u8) -> BlobsV1 {
    // distinct contents; the middle one is empty when there are three
    BlobsV1 { blobs: (0..n).map(|i| BlobV1(if n == 3 && i == 1 { vec![] } else { vec![salt, i as u8, 7] })).collect() }
}
fn det_children(r: &mut Rng, n: usize) -> ChildSubintentSpecifiersV2 {
    let mut set = index_set_new();
    while set.len() < n {
        set.insert(ChildSubintentSpecifier { hash: random_subintent_hash(r) });
    }
    ChildSubintentSpecifiersV2 { children: set }
}
/// n = number of elements in every list of the intent core (blobs, children, instructions)
fn det_core(r: &mut Rng, n: usize, salt: u8) -> IntentCoreV2 {
    let mut c = gen_core_v2(r, vec![]);
    c.blobs = det_blobs(n, salt);
    c.children = det_children(r, n);
    c.instructions = InstructionsV2((0..n).map(|k| if k % 2 == 0 { DropAuthZoneProofs.into() } else { DropAllProofs.into() }).collect());
    c.message = if n == 0 { MessageV2::None } else { MessageV2::Plaintext(PlaintextMessageV1::text("hello")) };
    c.header.min_proposer_timestamp_inclusive = if n == 0 { None } else { Some(Instant::new(10)) };
    c.header.max_proposer_timestamp_exclusive = if n == 0 { None } else { Some(Instant::new(20)) };
    c
}
fn det_v1(n: usize) -> Tx {
    let mut r = det_rng(100 + n as u64);
    let mut t = gen_v1(&mut r);
    t.signed_intent.intent.blobs = det_blobs(n, 1);
    t.signed_intent.intent.instructions = InstructionsV1((0..n).map(|k| if k % 2 == 0 { DropAuthZoneProofs.into() } else { DropAllProofs.into() }).collect());
    t.signed_intent.intent.message = if n == 0 { MessageV1::None } else { MessageV1::Plaintext(PlaintextMessageV1::text("hello")) };
    t.signed_intent.intent_signatures.signatures = det_sigs(&mut r, n);
    Tx::V1(t)
}
fn det_v2(n: usize) -> Tx {
    let mut r = det_rng(200 + n as u64);
    let mut t = gen_v2(&mut r);
    let s = &mut t.signed_transaction_intent;
    s.transaction_intent.root_intent_core = det_core(&mut r, n, 2);
    s.transaction_intent.non_root_subintents = NonRootSubintentsV2((0..n).map(|k| SubintentV2 { intent_core: det_core(&mut r, n.min(2), 10 + k as u8) }).collect());
    s.transaction_intent_signatures.signatures = det_sigs(&mut r, n);
    s.non_root_subintent_signatures.by_subintent = (0..n).map(|_| IntentSignaturesV2 { signatures: det_sigs(&mut r, n.min(2)) }).collect();
    Tx::V2(t)
}
fn det_partial(n: usize) -> Tx {
    let mut r = det_rng(300 + n as u64);
    let mut t = gen_partial(&mut r);
    t.partial_transaction.root_subintent = SubintentV2 { intent_core: det_core(&mut r, n, 3) };
    t.partial_transaction.non_root_subintents = NonRootSubintentsV2((0..n).map(|k| SubintentV2 { intent_core: det_core(&mut r, n.min(2), 20 + k as u8) }).collect());
    t.root_subintent_signatures.signatures = det_sigs(&mut r, n);
    t.non_root_subintent_signatures.by_subintent = (0..n).map(|_| IntentSignaturesV2 { signatures: det_sigs(&mut r, n.min(2)) }).collect();
    Tx::Partial(t)
}
/// the root intent core of a V2 / partial transaction
fn root_core(tx: &mut Tx) -> &mut IntentCoreV2 {
    match tx {
        Tx::V2(t) => &mut t.signed_transaction_intent.transaction_intent.root_intent_core,
        Tx::Partial(t) => &mut t.partial_transaction.root_subintent.intent_core,
        Tx::V1(_) => panic!("no core in V1"),
    }
}
fn sub_core(tx: &mut Tx, k: usize) -> &mut IntentCoreV2 {
    match tx {
        Tx::V2(t) => &mut t.signed_transaction_intent.transaction_intent.non_root_subintents.0[k].intent_core,
        Tx::Partial(t) => &mut t.partial_transaction.non_root_subintents.0[k].intent_core,
        Tx::V1(_) => panic!("no subintents in V1"),
    }
}
fn subs_mut(tx: &mut Tx) -> &mut Vec<SubintentV2> {
    match tx {
        Tx::V2(t) => &mut t.signed_transaction_intent.transaction_intent.non_root_subintents.0,
        Tx::Partial(t) => &mut t.partial_transaction.non_root_subintents.0,
        Tx::V1(_) => panic!("no subintents in V1"),
    }
}
fn root_sigs(tx: &mut Tx) -> &mut Vec<IntentSignatureV1> {
    match tx {
        Tx::V1(t) => &mut t.signed_intent.intent_signatures.signatures,
        Tx::V2(t) => &mut t.signed_transaction_intent.transaction_intent_signatures.signatures,
        Tx::Partial(t) => &mut t.root_subintent_signatures.signatures,
    }
}
fn batches_mut(tx: &mut Tx) -> &mut Vec<IntentSignaturesV2> {
    match tx {
        Tx::V2(t) => &mut t.signed_transaction_intent.non_root_subintent_signatures.by_subintent,
        Tx::Partial(t) => &mut t.non_root_subintent_signatures.by_subintent,
        Tx::V1(_) => panic!("no batches in V1"),
    }
}
fn flip_first_byte(s: &mut IntentSignatureV1) {
    match &mut s.0 {
        SignatureWithPublicKeyV1::Secp256k1 { signature } => signature.0[64] ^= 1,
        SignatureWithPublicKeyV1::Ed25519 { signature, .. } => signature.0[63] ^= 1,
    }
}
fn set_children(c: &mut IntentCoreV2, v: Vec<ChildSubintentSpecifier>) {
    c.children.children = v.into_iter().collect();
}
type Pert = (&'static str, Box<dyn Fn(&mut Tx)>, Cover);
/// position-specific single changes on the three-element shapes: first / middle / last element of every
/// hashed list, removal of the first / last element, append, swap of the outer elements
fn positional(kind: &str) -> Vec<Pert> {
    let mut v: Vec<Pert> = vec![];
    let sig_cover = if kind == "partial" { Cover::Notarized } else { Cover::Signed };
    for (name, k) in [("first", 0usize), ("middle", 1), ("last", 2)] {
        let nm: &'static str = Box::leak(format!("root_signature_{}_bit", name).into_boxed_str());
        v.push((nm, Box::new(move |t: &mut Tx| flip_first_byte(&mut root_sigs(t)[k])), sig_cover));
    }
    v.push(("root_signature_first_removed", Box::new(|t: &mut Tx| { root_sigs(t).remove(0); }), sig_cover));
    v.push(("root_signature_last_removed", Box::new(|t: &mut Tx| { root_sigs(t).pop(); }), sig_cover));
    v.push(("root_signatures_outer_swapped", Box::new(|t: &mut Tx| root_sigs(t).swap(0, 2)), sig_cover));
    v.push(("root_signature_last_duplicated", Box::new(|t: &mut Tx| { let s = root_sigs(t)[2].clone(); root_sigs(t).push(s); }), sig_cover));
    if kind == "v1" {
        for (name, k) in [("first", 0usize), ("middle_empty", 1), ("last", 2)] {
            let nm: &'static str = Box::leak(format!("blob_{}_extended", name).into_boxed_str());
            v.push((nm, Box::new(move |t: &mut Tx| if let Tx::V1(n) = t { n.signed_intent.intent.blobs.blobs[k].0.push(0) }), Cover::Intent));
        }
        v.push(("blob_first_removed", Box::new(|t: &mut Tx| if let Tx::V1(n) = t { n.signed_intent.intent.blobs.blobs.remove(0); }), Cover::Intent));
        v.push(("blob_last_removed", Box::new(|t: &mut Tx| if let Tx::V1(n) = t { n.signed_intent.intent.blobs.blobs.pop(); }), Cover::Intent));
        v.push(("blobs_outer_swapped", Box::new(|t: &mut Tx| if let Tx::V1(n) = t { n.signed_intent.intent.blobs.blobs.swap(0, 2) }), Cover::Intent));
        v.push(("blob_empty_appended", Box::new(|t: &mut Tx| if let Tx::V1(n) = t { n.signed_intent.intent.blobs.blobs.push(BlobV1(vec![])) }), Cover::Intent));
        v.push(("instruction_last_removed", Box::new(|t: &mut Tx| if let Tx::V1(n) = t { n.signed_intent.intent.instructions.0.pop(); }), Cover::Intent));
        v.push(("instructions_outer_swapped", Box::new(|t: &mut Tx| if let Tx::V1(n) = t { n.signed_intent.intent.instructions.0.swap(0, 1) }), Cover::Intent));
        v.push(("message_cleared", Box::new(|t: &mut Tx| if let Tx::V1(n) = t { n.signed_intent.intent.message = MessageV1::None }), Cover::Intent));
        v.push(("notary_signature_last_byte", Box::new(|t: &mut Tx| if let Tx::V1(n) = t {
            match &mut n.notary_signature.0 { SignatureV1::Secp256k1(x) => x.0[64] ^= 1, SignatureV1::Ed25519(x) => x.0[63] ^= 1 }
        }), Cover::Notarized));
        v.push(("notary_signature_first_byte", Box::new(|t: &mut Tx| if let Tx::V1(n) = t {
            match &mut n.notary_signature.0 { SignatureV1::Secp256k1(x) => x.0[0] ^= 1, SignatureV1::Ed25519(x) => x.0[0] ^= 1 }
        }), Cover::Notarized));
        return v;
    }
    // V2 / partial: root core lists
    for (name, k) in [("first", 0usize), ("middle_empty", 1), ("last", 2)] {
        let nm: &'static str = Box::leak(format!("root_blob_{}_extended", name).into_boxed_str());
        v.push((nm, Box::new(move |t: &mut Tx| root_core(t).blobs.blobs[k].0.push(0)), Cover::Intent));
    }
    v.push(("root_blob_first_removed", Box::new(|t: &mut Tx| { root_core(t).blobs.blobs.remove(0); }), Cover::Intent));
    v.push(("root_blob_last_removed", Box::new(|t: &mut Tx| { root_core(t).blobs.blobs.pop(); }), Cover::Intent));
    v.push(("root_blobs_outer_swapped", Box::new(|t: &mut Tx| root_core(t).blobs.blobs.swap(0, 2)), Cover::Intent));
    for (name, k) in [("first", 0usize), ("middle", 1), ("last", 2)] {
        let nm: &'static str = Box::leak(format!("root_child_{}_bit", name).into_boxed_str());
        v.push((nm, Box::new(move |t: &mut Tx| {
            let c = root_core(t);
            let mut l: Vec<ChildSubintentSpecifier> = c.children.children.iter().cloned().collect();
            let mut b = l[k].hash.as_hash().0;
            b[31] ^= 1;
            l[k] = ChildSubintentSpecifier { hash: SubintentHash::from_hash(Hash(b)) };
            set_children(c, l);
        }), Cover::Intent));
    }
    v.push(("root_child_first_removed", Box::new(|t: &mut Tx| { let c = root_core(t); let mut l: Vec<_> = c.children.children.iter().cloned().collect(); l.remove(0); set_children(c, l); }), Cover::Intent));
    v.push(("root_child_last_removed", Box::new(|t: &mut Tx| { let c = root_core(t); let mut l: Vec<_> = c.children.children.iter().cloned().collect(); l.pop(); set_children(c, l); }), Cover::Intent));
    v.push(("root_children_outer_swapped", Box::new(|t: &mut Tx| { let c = root_core(t); let mut l: Vec<_> = c.children.children.iter().cloned().collect(); l.swap(0, 2); set_children(c, l); }), Cover::Intent));
    v.push(("root_instruction_last_removed", Box::new(|t: &mut Tx| { root_core(t).instructions.0.pop(); }), Cover::Intent));
    v.push(("root_message_cleared", Box::new(|t: &mut Tx| root_core(t).message = MessageV2::None), Cover::Intent));
    v.push(("root_min_timestamp_cleared", Box::new(|t: &mut Tx| root_core(t).header.min_proposer_timestamp_inclusive = None), Cover::Intent));
    v.push(("root_max_timestamp_plus_one", Box::new(|t: &mut Tx| root_core(t).header.max_proposer_timestamp_exclusive = Some(Instant::new(21))), Cover::Intent));
    // non-root subintents: a field of the first / middle / last one; its blob; removal; swap
    for (name, k) in [("first", 0usize), ("middle", 1), ("last", 2)] {
        let nm: &'static str = Box::leak(format!("subintent_{}_discriminator", name).into_boxed_str());
        v.push((nm, Box::new(move |t: &mut Tx| sub_core(t, k).header.intent_discriminator ^= 1), Cover::Sub(k)));
        let nm: &'static str = Box::leak(format!("subintent_{}_last_blob_extended", name).into_boxed_str());
        v.push((nm, Box::new(move |t: &mut Tx| sub_core(t, k).blobs.blobs.last_mut().unwrap().0.push(5)), Cover::Sub(k)));
        let nm: &'static str = Box::leak(format!("subintent_{}_last_child_removed", name).into_boxed_str());
        v.push((nm, Box::new(move |t: &mut Tx| { let c = sub_core(t, k); let mut l: Vec<_> = c.children.children.iter().cloned().collect(); l.pop(); set_children(c, l); }), Cover::Sub(k)));
    }
    // signature batches of the non-root subintents
    for (name, k) in [("first", 0usize), ("middle", 1), ("last", 2)] {
        let nm: &'static str = Box::leak(format!("batch_{}_last_signature_bit", name).into_boxed_str());
        v.push((nm, Box::new(move |t: &mut Tx| flip_first_byte(batches_mut(t)[k].signatures.last_mut().unwrap())), sig_cover));
        let nm: &'static str = Box::leak(format!("batch_{}_emptied", name).into_boxed_str());
        v.push((nm, Box::new(move |t: &mut Tx| batches_mut(t)[k].signatures.clear()), sig_cover));
    }
    v.push(("batch_last_removed", Box::new(|t: &mut Tx| { batches_mut(t).pop(); }), sig_cover));
    v.push(("batch_first_removed", Box::new(|t: &mut Tx| { batches_mut(t).remove(0); }), sig_cover));
    v.push(("batch_empty_appended", Box::new(|t: &mut Tx| batches_mut(t).push(IntentSignaturesV2 { signatures: vec![] })), sig_cover));
    v.push(("batches_outer_swapped", Box::new(|t: &mut Tx| batches_mut(t).swap(0, 2)), sig_cover));
    if kind == "v2" {
        v.push(("notary_signature_last_byte", Box::new(|t: &mut Tx| if let Tx::V2(n) = t {
            match &mut n.notary_signature.0 { SignatureV1::Secp256k1(x) => x.0[64] ^= 1, SignatureV1::Ed25519(x) => x.0[63] ^= 1 }
        }), Cover::Notarized));
        v.push(("tip_plus_one", Box::new(|t: &mut Tx| if let Tx::V2(n) = t { n.signed_transaction_intent.transaction_intent.transaction_header.tip_basis_points += 1 }), Cover::Intent));
    }
    v
}
/// changes of the *number* of non-root subintents (every subintent hash list changes length: checked separately)
fn subintent_count_changes() -> Vec<(&'static str, Box<dyn Fn(&mut Tx)>)> {
    vec![
        ("subintent_last_removed", Box::new(|t: &mut Tx| { subs_mut(t).pop(); })),
        ("subintent_first_removed", Box::new(|t: &mut Tx| { subs_mut(t).remove(0); })),
        ("subintents_outer_swapped", Box::new(|t: &mut Tx| subs_mut(t).swap(0, 2))),
        ("subintent_last_duplicated", Box::new(|t: &mut Tx| { let s = subs_mut(t)[2].clone(); subs_mut(t).push(s); })),
    ]
}
fn diff_ids(tx: &Tx, ids: &Ids, ids2: &Ids, cover: Cover) -> Vec<String> {
    let nsubs = ids.subs.len();
    let (e_i, e_s, e_n, e_subs) = expected_change(tx, cover, nsubs);
    let mut bad = Vec::new();
    if (ids.intent != ids2.intent) != e_i {
        bad.push(format!("intent hash changed={} expected={}", ids.intent != ids2.intent, e_i));
    }
    if (ids.signed != ids2.signed) != e_s {
        bad.push(format!("signed hash changed={} expected={}", ids.signed != ids2.signed, e_s));
    }
    if (ids.notarized != ids2.notarized) != e_n {
        bad.push(format!("notarized hash changed={} expected={}", ids.notarized != ids2.notarized, e_n));
    }
    if ids2.subs.len() != nsubs {
        bad.push("number of subintent hashes changed".to_string());
    } else {
        for k in 0..nsubs {
            if (ids.subs[k] != ids2.subs[k]) != e_subs[k] {
                bad.push(format!("subintent {} hash changed={} expected={}", k, ids.subs[k] != ids2.subs[k], e_subs[k]));
            }
        }
    }
    bad
}
/// every field kind the random perturbation can produce on the three-element shapes (floors)
const SWEEP_FIELDS_V1: [&str; 20] = [
    "v1.network_id", "v1.start_epoch", "v1.end_epoch", "v1.nonce", "v1.notary_public_key", "v1.notary_is_signatory",
    "v1.tip_percentage", "v1.notary_signature", "v1.signature_added", "v1.signature_removed", "v1.signatures_swapped",
    "v1.signature_bit", "v1.blob_added", "v1.blob_removed", "v1.blob_extended", "v1.blob_bit", "v1.message_changed",
    "v1.message_cleared", "v1.instruction_inserted", "v1.instruction_removed",
];
const SWEEP_CORE_FIELDS: [&str; 18] = [
    "network_id", "start_epoch", "end_epoch", "min_proposer_timestamp", "max_proposer_timestamp", "intent_discriminator",
    "blob_added", "blob_removed", "blob_extended", "blob_bit", "message_changed", "message_cleared", "child_added",
    "child_removed", "children_swapped", "child_bit", "instruction_inserted", "instruction_removed",
];

fn boundary_block(report: &mut Report, cw: &mut CaseWriter, oracle_only: bool) {
    let latest = PreparationSettings::latest();
    // ---- shapes: every hashed list empty / single / three elements, for the three transaction kinds
    let shapes: Vec<(&'static str, Tx)> = vec![
        ("v1_empty_lists", det_v1(0)), ("v1_single_elements", det_v1(1)), ("v1_three_elements", det_v1(3)),
        ("v2_empty_lists", det_v2(0)), ("v2_single_elements", det_v2(1)), ("v2_three_elements", det_v2(3)),
        ("partial_empty_lists", det_partial(0)), ("partial_single_elements", det_partial(1)), ("partial_three_elements", det_partial(3)),
    ];
    for (name, tx) in shapes.iter() {
        let class = format!("b_shape_{}", name);
        report.floor(&class, 1);
        let payload = payload_of(tx);
        let pj = json!({"boundary": name, "payload_hex": vh_common::hex(&payload)});
        let ids = match ids_of(tx) {
            Ok(x) => x,
            Err(e) => {
                report.oracle_failure(0, "", &format!("boundary shape {} does not prepare: {}", name, e), pj);
                continue;
            }
        };
        report.count(&class);
        report.case(&vh_common::hex(&payload), true);
        if !oracle_only {
            cw.push(hash_case(tx, &ids));
        }
        // every envelope mutation of every shape goes to the Coq envelope model (not a random pick)
        let mut r = det_rng(7);
        for ec in env_mutations(tx, &payload, &mut r) {
            let settings = settings_with_max(ec.max_user);
            let class_e = format!("b_env_{}_{}", name, ec.name);
            report.floor(&class_e, 1);
            match catch(AssertUnwindSafe(|| prepare_payload(ec.entry, &ec.payload, &settings))) {
                Err(p) => report.oracle_failure(0, "", &format!("{} {}: prepare panicked: {}", name, ec.name, p), pj.clone()),
                Ok(r) => {
                    let c = match &r { Ok(_) => 0u8, Err(e) => error_class(e) };
                    report.count(&class_e);
                    if ec.must_reject != (c != 0) {
                        report.oracle_failure(0, "", &format!("{} {}: must_reject={} class={}", name, ec.name, ec.must_reject, c), pj.clone());
                    }
                    if !oracle_only {
                        cw.push(format!("CEnv {} {} {} {} {}", ec.entry, ec.max_user, coq_bytes(&ec.payload), coq_option(ec.consumed.map(|n| n.to_string())), c));
                    }
                }
            }
        }
        // headers inside the payload (first field): value kind, declared field count, non-minimal size;
        // the envelope model treats them as a failing field decoder (any error class)
        if payload.len() > 8 {
            let inner: Vec<(&'static str, Vec<u8>)> = vec![
                ("inner_value_kind", { let mut p = payload.clone(); p[4] = 0x20; p }),
                ("inner_field_count_plus", { let mut p = payload.clone(); p[5] += 1; p }),
                ("inner_field_count_minus", { let mut p = payload.clone(); p[5] -= 1; p }),
                ("inner_noncanonical_size", { let mut p = payload.clone(); let n = p[5]; p[5] = n | 0x80; p.insert(6, 0); p }),
                ("inner_noncanonical_size_4_bytes", { let mut p = payload.clone(); let n = p[5]; p[5] = n | 0x80; p.insert(6, 0x80); p.insert(7, 0x80); p.insert(8, 0x00); p }),
                ("last_byte_dropped", payload[..payload.len() - 1].to_vec()),
                ("one_zero_byte_appended", { let mut p = payload.clone(); p.push(0); p }),
            ];
            for (iname, pl) in inner {
                let class_e = format!("b_env_{}_{}", name, iname);
                report.floor(&class_e, 1);
                let e = typed_entry(tx);
                match catch(AssertUnwindSafe(|| prepare_payload(e, &pl, &latest))) {
                    Err(p) => report.oracle_failure(0, "", &format!("{} {}: prepare panicked: {}", name, iname, p), pj.clone()),
                    Ok(r) => {
                        report.count(&class_e);
                        let c = match &r { Ok(_) => 0u8, Err(e) => error_class(e) };
                        if c == 0 {
                            report.oracle_failure(0, "", &format!("{} {}: non-canonical payload accepted", name, iname), pj.clone());
                        }
                        if !oracle_only {
                            let consumed = if iname == "one_zero_byte_appended" { Some(payload.len() - 4) } else { None };
                            cw.push(format!("CEnv {} {} {} {} {}", e, 1024 * 1024, coq_bytes(&pl), coq_option(consumed.map(|n| n.to_string())), c));
                        }
                    }
                }
            }
        }
    }
    // ---- positional perturbations on the three-element shapes
    for (kind, base) in [("v1", det_v1(3)), ("v2", det_v2(3)), ("partial", det_partial(3))] {
        let ids = ids_of(&base).expect("base prepares");
        let payload = payload_of(&base);
        for (name, f, cover) in positional(kind) {
            let class = format!("b_pos_{}_{}", kind, name);
            report.floor(&class, 1);
            let mut t2 = base.clone();
            f(&mut t2);
            let p2 = payload_of(&t2);
            let pj = json!({"boundary": class, "payload_hex": vh_common::hex(&payload), "perturbed_payload_hex": vh_common::hex(&p2)});
            if p2 == payload {
                report.oracle_failure(0, "", &format!("harness: {} did not change the encoding", class), pj);
                continue;
            }
            match ids_of(&t2) {
                Err(e) => report.oracle_failure(0, "", &format!("{}: perturbed transaction does not prepare: {}", class, e), pj),
                Ok(ids2) => {
                    report.count(&class);
                    let bad = diff_ids(&base, &ids, &ids2, cover);
                    if !bad.is_empty() {
                        report.oracle_failure(0, "", &format!("{}: {}", class, bad.join("; ")), pj);
                    }
                    if !oracle_only {
                        cw.push(hash_case(&t2, &ids2));
                    }
                }
            }
        }
        if kind != "v1" {
            for (name, f) in subintent_count_changes() {
                let class = format!("b_pos_{}_{}", kind, name);
                report.floor(&class, 1);
                let mut t2 = base.clone();
                f(&mut t2);
                let p2 = payload_of(&t2);
                let pj = json!({"boundary": class, "payload_hex": vh_common::hex(&payload), "perturbed_payload_hex": vh_common::hex(&p2)});
                match ids_of(&t2) {
                    Err(e) => report.oracle_failure(0, "", &format!("{}: does not prepare: {}", class, e), pj),
                    Ok(ids2) => {
                        report.count(&class);
                        // the root subintent hash of a partial transaction does not cover the other subintents
                        let intent_changes = kind == "v2";
                        if (ids.intent != ids2.intent) != intent_changes || ids.signed == ids2.signed || ids.notarized == ids2.notarized {
                            report.oracle_failure(0, "", &format!("{}: identifiers do not reflect the changed subintent list", class), pj);
                        }
                        if !oracle_only {
                            cw.push(hash_case(&t2, &ids2));
                        }
                    }
                }
            }
        }
    }
    // ---- every field kind of the random perturbation, found with fixed generator forks
    for (kind, base) in [("v1", det_v1(3)), ("v2", det_v2(3)), ("partial", det_partial(3))] {
        let ids = ids_of(&base).expect("base prepares");
        let payload = payload_of(&base);
        let mut seen = std::collections::BTreeSet::new();
        for t in 0..1500u64 {
            let mut r = det_rng(10_000 + t);
            let mut t2 = base.clone();
            let (field, cover) = perturb(&mut t2, &mut r);
            if !seen.insert(field.clone()) {
                continue;
            }
            let class = format!("b_field_{}", field);
            let p2 = payload_of(&t2);
            if p2 == payload {
                continue;
            }
            if let Ok(ids2) = ids_of(&t2) {
                report.count(&class);
                let bad = diff_ids(&base, &ids, &ids2, cover);
                if !bad.is_empty() {
                    report.oracle_failure(0, "", &format!("{}: {}", class, bad.join("; ")), json!({"boundary": class, "payload_hex": vh_common::hex(&payload), "perturbed_payload_hex": vh_common::hex(&p2)}));
                }
                if !oracle_only && kind == "v1" {
                    cw.push(hash_case(&t2, &ids2));
                }
            }
        }
        match kind {
            "v1" => {
                for f in SWEEP_FIELDS_V1 {
                    report.floor(&format!("b_field_{}", f), 1);
                }
            }
            _ => {
                for part in ["root", "sub"] {
                    for f in SWEEP_CORE_FIELDS {
                        report.floor(&format!("b_field_{}.{}.{}", kind, part, f), 1);
                    }
                }
            }
        }
    }
    // ---- array limits of the preparation (oracle only; modelled in C34): limit accepted, limit + 1 rejected
    let limit_cases: Vec<(&'static str, Tx, bool)> = {
        let mut v: Vec<(&'static str, Tx, bool)> = vec![];
        for (n, ok) in [(64usize, true), (65, false)] {
            let mut t = det_v1(1);
            if let Tx::V1(x) = &mut t {
                x.signed_intent.intent.blobs = BlobsV1 { blobs: (0..n).map(|i| BlobV1(vec![i as u8])).collect() };
            }
            v.push((if ok { "v1_blobs_64" } else { "v1_blobs_65" }, t, ok));
            let mut t = det_v2(1);
            sub_core(&mut t, 0).blobs = BlobsV1 { blobs: (0..n).map(|i| BlobV1(vec![i as u8])).collect() };
            v.push((if ok { "v2_subintent_blobs_64" } else { "v2_subintent_blobs_65" }, t, ok));
        }
        for (n, ok) in [(32usize, true), (33, false)] {
            let mut r = det_rng(55);
            let mut t = det_v2(1);
            root_core(&mut t).children = det_children(&mut r, n);
            v.push((if ok { "v2_children_32" } else { "v2_children_33" }, t, ok));
            let mut t = det_partial(1);
            let s = subs_mut(&mut t)[0].clone();
            *subs_mut(&mut t) = (0..n).map(|k| { let mut x = s.clone(); x.intent_core.header.intent_discriminator = k as u64; x }).collect();
            v.push((if ok { "partial_subintents_32" } else { "partial_subintents_33" }, t, ok));
            let mut t = det_v2(1);
            *batches_mut(&mut t) = (0..n).map(|_| IntentSignaturesV2 { signatures: vec![] }).collect();
            v.push((if ok { "v2_batches_32" } else { "v2_batches_33" }, t, ok));
        }
        v
    };
    for (name, tx, ok) in limit_cases {
        let class = format!("b_limit_{}", name);
        report.floor(&class, 1);
        let payload = payload_of(&tx);
        let e = typed_entry(&tx);
        match catch(AssertUnwindSafe(|| prepare_payload(e, &payload, &latest))) {
            Err(p) => report.oracle_failure(0, "", &format!("{}: prepare panicked: {}", class, p), json!({"boundary": class})),
            Ok(r) => {
                report.count(&class);
                let c = match &r { Ok(_) => 0u8, Err(e) => error_class(e) };
                if (c == 0) != ok || (!ok && c != 11) {
                    report.oracle_failure(0, "", &format!("{}: expected {} got class {}", class, if ok { "accepted" } else { "TooManyValues" }, c), json!({"boundary": class, "payload_hex": vh_common::hex(&payload)}));
                }
            }
        }
    }
}


// ------------------------------------------------------------------------------------------------
// ledger transaction payloads (LedgerTransaction: Genesis / UserV1 / RoundUpdateV1 / FlashV1 / UserV2)
// ------------------------------------------------------------------------------------------------
/// (variant code, name, typed transaction): codes 0 = genesis flash, 1 = genesis system transaction,
/// 2 = UserV1, 3 = RoundUpdateV1, 4 = FlashV1, 5 = UserV2
fn ledger_variants(k: usize) -> Vec<(u8, &'static str, LedgerTransaction)> {
    let v1 = match det_v1(k) { Tx::V1(t) => t, _ => unreachable!() };
    let v2 = match det_v2(k) { Tx::V2(t) => t, _ => unreachable!() };
    vec![
        (0, "genesis_flash", LedgerTransaction::Genesis(Box::new(GenesisTransaction::Flash))),
        (1, "genesis_transaction", LedgerTransaction::Genesis(Box::new(GenesisTransaction::Transaction(Box::new(SystemTransactionV1 {
            instructions: InstructionsV1((0..k).map(|_| DropAuthZoneProofs.into()).collect()),
            blobs: det_blobs(k, 40),
            pre_allocated_addresses: vec![],
            hash_for_execution: hash([k as u8, 1, 2]),
        }))))),
        (2, "user_v1", LedgerTransaction::UserV1(Box::new(v1))),
        (3, "round_update_v1", LedgerTransaction::RoundUpdateV1(Box::new(RoundUpdateTransactionV1 {
            proposer_timestamp_ms: 1_700_000_000_000 + k as i64,
            epoch: Epoch::of(5 + k as u64),
            round: Round::of(3),
            leader_proposal_history: LeaderProposalHistory { gap_round_leaders: (0..k).map(|i| i as u8).collect(), current_leader: 3, is_fallback: k == 0 },
        }))),
        (4, "flash_v1", LedgerTransaction::FlashV1(Box::new(FlashTransactionV1 { name: "f".repeat(k), state_updates: StateUpdates::default() }))),
        (5, "user_v2", LedgerTransaction::UserV2(Box::new(v2))),
    ]
}
fn ledger_settings(max_ledger: usize) -> PreparationSettings {
    let mut s = PreparationSettings::latest();
    s.max_ledger_payload_length = max_ledger;
    s
}
/// Ok((ledger hash, hash of the inner transaction)) or the error class
fn prepare_ledger(payload: &[u8], max_ledger: usize) -> Result<Result<(Hash, Hash), u8>, String> {
    let p = payload.to_vec();
    catch(AssertUnwindSafe(move || {
        match RawLedgerTransaction::from_vec(p).prepare(&ledger_settings(max_ledger)) {
            Ok(pl) => Ok((pl.ledger_transaction_hash().0, pl.inner.get_summary().hash)),
            Err(PrepareError::DecodeError(DecodeError::UnknownDiscriminator(_))) => Err(15u8),
            Err(e) => Err(error_class(&e)),
        }
    }))
}
/// length of the ledger envelope header in front of the nested transaction's own tuple header
fn ledger_header_len(code: u8) -> usize {
    if code <= 1 { 10 } else { 7 }
}
fn ledger_block(report: &mut Report, cw: &mut CaseWriter, oracle_only: bool) {
    let big = 1024 * 1024 + 10;
    // accepted payloads by ledger hash: two accepted payloads with equal hashes must be byte-equal
    let mut by_hash: BTreeMap<Vec<u8>, Vec<u8>> = BTreeMap::new();
    for k in [0usize, 1, 3] {
        for (code, name, tx) in ledger_variants(k) {
            if code == 0 && k > 0 {
                continue;
            }
            let payload = tx.to_raw().expect("encode").to_vec();
            let hlen = ledger_header_len(code);
            let base_class = format!("b_ledger_{}_{}", name, k);
            report.floor(&base_class, 1);
            let pj = json!({"ledger": name, "shape": k, "payload_hex": vh_common::hex(&payload)});
            let (lh, ih) = match prepare_ledger(&payload, big) {
                Ok(Ok(x)) => x,
                other => {
                    report.oracle_failure(0, "", &format!("canonical ledger payload {} does not prepare: {:?}", base_class, other), pj);
                    continue;
                }
            };
            report.count(&base_class);
            report.case(&vh_common::hex(&payload), true);
            // decode -> re-encode reproduces the bytes
            match LedgerTransaction::from_raw(&RawLedgerTransaction::from_vec(payload.clone())) {
                Ok(t) => {
                    if t.to_raw().unwrap().to_vec() != payload {
                        report.oracle_failure(0, "", &format!("{}: decode then encode differs", base_class), pj.clone());
                    }
                }
                Err(e) => report.oracle_failure(0, "", &format!("{}: accepted payload does not decode: {:?}", base_class, e), pj.clone()),
            }
            by_hash.insert(lh.as_slice().to_vec(), payload.clone());
            let body_len = payload.len() - hlen;
            if !oracle_only {
                cw.push(format!("CLedger {} {} {} 0 {}", big, coq_bytes(&payload), coq_option(Some(body_len.to_string())), code));
                // the ledger hash: H([prefix, Ledger, kind] ++ inner hash)
                let kind = match code { 0 | 1 => 0u8, 2 | 5 => 1, 3 => 2, _ => 3 };
                let mut input = vec![0x54u8, 7, kind];
                input.extend_from_slice(ih.as_slice());
                let digest = radix_common::crypto::hash(&input);
                cw.push(format!("CLedgerHash {} {} [({}, {})] {}", code, coq_bytes(ih.as_slice()), coq_bytes(&input), coq_bytes(digest.as_slice()), coq_bytes(lh.as_slice())));
            }
            // ---- mutations at every header position
            let size_pos: Vec<usize> = if code <= 1 { vec![3, 6, 9] } else { vec![3, 6] };
            let mut muts: Vec<(String, Vec<u8>, Option<usize>, usize, bool)> = vec![]; // name, payload, consumed, max, must_reject
            let inner_hdr = if code == 0 { 0 } else { 2 }; // the nested transaction's tuple value kind + field count
            for pos in 0..(hlen + inner_hdr) {
                let in_header = pos < hlen;
                let consumed = if in_header { Some(body_len) } else { None };
                let mut p = payload.clone();
                p[pos] = p[pos].wrapping_add(1);
                muts.push((format!("pos{}_plus1", pos), p, if pos == 5 || pos == 8 { None } else { consumed }, big, true));
                let mut p = payload.clone();
                p[pos] ^= 0x80;
                muts.push((format!("pos{}_high_bit", pos), p, if pos == 5 || pos == 8 { None } else { consumed }, big, true));
                if size_pos.contains(&pos) || pos == hlen + 1 {
                    let v = payload[pos];
                    for (nm, bytes) in [
                        ("size_zero", vec![if v == 0 { 1 } else { 0 }]),
                        ("size_plus2", vec![v + 2]),
                        ("size_nonminimal_2", vec![v | 0x80, 0x00]),
                        ("size_nonminimal_4", vec![v | 0x80, 0x80, 0x80, 0x00]),
                        ("size_5_bytes", vec![v | 0x80, 0x80, 0x80, 0x80, 0x00]),
                        ("size_multibyte_129", vec![0x81, 0x01]),
                    ] {
                        let mut p = payload[..pos].to_vec();
                        p.extend(bytes);
                        p.extend_from_slice(&payload[pos + 1..]);
                        muts.push((format!("pos{}_{}", pos, nm), p, consumed, big, true));
                    }
                }
                muts.push((format!("truncated_at_{}", pos), payload[..pos].to_vec(), None, big, true));
            }
            muts.push(("one_zero_byte_appended".into(), { let mut p = payload.clone(); p.push(0); p }, Some(body_len), big, true));
            muts.push(("three_bytes_appended".into(), { let mut p = payload.clone(); p.extend([1, 2, 3]); p }, Some(body_len), big, true));
            if body_len > 0 {
                muts.push(("last_byte_dropped".into(), payload[..payload.len() - 1].to_vec(), None, big, true));
            }
            muts.push(("over_limit".into(), payload.clone(), Some(body_len), payload.len() - 1, true));
            muts.push(("at_limit".into(), payload.clone(), Some(body_len), payload.len(), false));
            muts.push(("payload_prefix_scrypto".into(), { let mut p = payload.clone(); p[0] = 0x5c; p }, Some(body_len), big, true));
            for (mname, mp, consumed, max, must_reject) in muts {
                let class = format!("{}_{}", base_class, mname);
                report.floor(&class, 1);
                let mj = json!({"ledger": name, "shape": k, "mutation": mname, "payload_hex": vh_common::hex(&mp), "canonical_payload_hex": vh_common::hex(&payload)});
                match prepare_ledger(&mp, max) {
                    Err(pn) => report.oracle_failure(0, "", &format!("{}: prepare panicked: {}", class, pn), mj),
                    Ok(r) => {
                        report.count(&class);
                        let c = match &r { Ok(_) => 0u8, Err(c) => *c };
                        if must_reject && c == 0 {
                            report.oracle_failure(0, "", &format!("{}: non-canonical ledger payload accepted", class), mj.clone());
                        }
                        if !must_reject && c != 0 {
                            report.oracle_failure(0, "", &format!("{}: canonical ledger payload rejected (class {})", class, c), mj.clone());
                        }
                        if let Ok((h, _)) = &r {
                            // accepted: it must re-encode to itself, and no other accepted byte string may share its hash
                            if let Ok(t) = LedgerTransaction::from_raw(&RawLedgerTransaction::from_vec(mp.clone())) {
                                if t.to_raw().unwrap().to_vec() != mp {
                                    report.oracle_failure(0, "", &format!("{}: accepted payload does not re-encode to the same bytes", class), mj.clone());
                                }
                            }
                            if let Some(prev) = by_hash.get(h.as_slice()) {
                                if *prev != mp {
                                    report.oracle_failure(0, "", &format!("{}: two different accepted payloads share the ledger hash", class), mj.clone());
                                }
                            }
                        }
                        if !oracle_only {
                            cw.push(format!("CLedger {} {} {} {} {}", max, coq_bytes(&mp), coq_option(consumed.map(|n| n.to_string())), c, if c == 0 { code } else { 99 }));
                        }
                    }
                }
            }
        }
    }
}

fn main() {
    let args = Args::parse();
    let mut report = Report::new(
        "C32",
        args.seed,
        "random V1 notarized / V2 notarized (0-3 subintents) / V2 signed partial transactions built field by field; \
         each: prepare -> identifiers, re-encode round trip, 6 single-field perturbations with an expectation table, \
         ~10 non-canonical payload mutations; non-trivial = base transaction prepared and at least one perturbation \
         of each applicable cover class evaluated; distinct by payload bytes",
    );
    let mut cw = CaseWriter::new("RV.Corr.C32_run RV.Model.C32_TxHash", "check");
    let root = Rng::new(args.seed);
    let latest = PreparationSettings::latest();
    boundary_block(&mut report, &mut cw, args.oracle_only);
    ledger_block(&mut report, &mut cw, args.oracle_only);
    for i in 0..args.cases {
        let mut rng = root.fork(i as u64);
        let tx = match i % 5 {
            0 | 1 => Tx::V1(gen_v1(&mut rng)),
            2 | 3 => Tx::V2(gen_v2(&mut rng)),
            _ => Tx::Partial(gen_partial(&mut rng)),
        };
        let kind = match &tx {
            Tx::V1(_) => "v1",
            Tx::V2(_) => "v2",
            Tx::Partial(_) => "partial",
        };
        report.count(&format!("tx_{}", kind));
        let payload = payload_of(&tx);
        let input_json = json!({"kind": kind, "payload_hex": vh_common::hex(&payload)});
        let ids = match ids_of(&tx) {
            Ok(ids) => ids,
            Err(e) => {
                report.case(&vh_common::hex(&payload), false);
                report.oracle_failure(i, "", &format!("generated transaction does not prepare: {}", e), input_json);
                continue;
            }
        };
        let nsubs = ids.subs.len();
        report.count(&format!("subintents_{}", nsubs));
        if !args.oracle_only {
            cw.push(hash_case(&tx, &ids));
        }

        // ---- oracle 1: decode / re-encode / prepare again ----
        let rt: Result<(), String> = (|| {
            let re = match &tx {
                Tx::V1(_) => NotarizedTransactionV1::from_raw(&RawNotarizedTransaction::from_slice(&payload)).map_err(|e| format!("{:?}", e))?.to_raw().unwrap().to_vec(),
                Tx::V2(_) => NotarizedTransactionV2::from_raw(&RawNotarizedTransaction::from_slice(&payload)).map_err(|e| format!("{:?}", e))?.to_raw().unwrap().to_vec(),
                Tx::Partial(_) => SignedPartialTransactionV2::from_raw(&RawSignedPartialTransaction::from_slice(&payload)).map_err(|e| format!("{:?}", e))?.to_raw().unwrap().to_vec(),
            };
            if re != payload {
                return Err("decode then encode does not reproduce the payload bytes".into());
            }
            let again = prepare_payload(typed_entry(&tx), &re, &latest).map_err(|e| format!("{:?}", e))?;
            if again != ids {
                return Err("re-encoded payload prepares to different hashes".into());
            }
            if !matches!(tx, Tx::Partial(_)) {
                let typed = RawNotarizedTransaction::from_slice(&payload).into_typed().map_err(|e| format!("{:?}", e))?;
                if manifest_encode(&typed).unwrap() != payload {
                    return Err("UserTransaction decode then encode differs".into());
                }
                let disp = prepare_payload(0, &payload, &latest).map_err(|e| format!("{:?}", e))?;
                if disp != ids {
                    return Err("dispatching prepare gives different hashes".into());
                }
            }
            Ok(())
        })();
        if let Err(what) = rt {
            report.oracle_failure(i, "", &format!("round trip: {}", what), input_json.clone());
        }

        // ---- oracle 2: per-field perturbation ----
        let mut covers_seen = std::collections::BTreeSet::new();
        let n_pert = 6;
        let coq_pick = rng.usize_below(n_pert);
        for j in 0..n_pert {
            let mut t2 = tx.clone();
            let (field, cover) = perturb(&mut t2, &mut rng);
            // (compare encodings, not the typed values: IndexSet equality ignores the order of children)
            let p2 = payload_of(&t2);
            if p2 == payload {
                report.oracle_failure(i, "", &format!("harness: perturbation {} did not change the encoding", field), input_json.clone());
                continue;
            }
            report.count(&format!("perturb_{}", field));
            let pj = json!({"kind": kind, "field": field, "payload_hex": vh_common::hex(&payload), "perturbed_payload_hex": vh_common::hex(&p2)});
            let ids2 = match ids_of(&t2) {
                Ok(x) => x,
                Err(e) => {
                    // a perturbed transaction may legitimately fail to prepare only for duplicate
                    // children (DuplicateKey); the generators avoid that, so anything here is a failure
                    report.oracle_failure(i, "", &format!("perturbed ({}) transaction does not prepare: {}", field, e), pj);
                    continue;
                }
            };
            covers_seen.insert(format!("{:?}", std::mem::discriminant(&cover)));
            let (e_i, e_s, e_n, e_subs) = expected_change(&tx, cover, nsubs);
            let mut bad = Vec::new();
            if (ids.intent != ids2.intent) != e_i {
                bad.push(format!("intent hash changed={} expected={}", ids.intent != ids2.intent, e_i));
            }
            if (ids.signed != ids2.signed) != e_s {
                bad.push(format!("signed hash changed={} expected={}", ids.signed != ids2.signed, e_s));
            }
            if (ids.notarized != ids2.notarized) != e_n {
                bad.push(format!("notarized hash changed={} expected={}", ids.notarized != ids2.notarized, e_n));
            }
            if ids2.subs.len() != nsubs {
                bad.push("number of subintent hashes changed".to_string());
            } else {
                for k in 0..nsubs {
                    if (ids.subs[k] != ids2.subs[k]) != e_subs[k] {
                        bad.push(format!("subintent {} hash changed={} expected={}", k, ids.subs[k] != ids2.subs[k], e_subs[k]));
                    }
                }
            }
            if !bad.is_empty() {
                report.oracle_failure(i, "", &format!("field {}: {}", field, bad.join("; ")), pj);
            }
            if j == coq_pick && !args.oracle_only {
                cw.push(hash_case(&t2, &ids2));
            }
        }

        // ---- oracle 3: non-canonical payloads ----
        let envs = env_mutations(&tx, &payload, &mut rng);
        let n_env = envs.len();
        let coq_env: Vec<usize> = vec![rng.usize_below(n_env), rng.usize_below(n_env)];
        for (k, ec) in envs.iter().enumerate() {
            let settings = settings_with_max(ec.max_user);
            let r = catch(AssertUnwindSafe(|| prepare_payload(ec.entry, &ec.payload, &settings)));
            let pj = json!({"mutation": ec.name, "entry": ec.entry, "max_user_payload_length": ec.max_user, "payload_hex": vh_common::hex(&ec.payload)});
            let class = match &r {
                Err(p) => {
                    report.oracle_failure(i, "", &format!("{}: prepare panicked: {}", ec.name, p), pj.clone());
                    continue;
                }
                Ok(Ok(_)) => 0u8,
                Ok(Err(e)) => error_class(e),
            };
            report.count(&format!("env_{}_{}", ec.name, if class == 0 { "accepted" } else { "rejected" }));
            if ec.must_reject && class == 0 {
                report.oracle_failure(i, "", &format!("non-canonical payload ({}) accepted", ec.name), pj.clone());
            }
            if !ec.must_reject && class != 0 {
                report.oracle_failure(i, "", &format!("canonical payload ({}) rejected, class {}", ec.name, class), pj.clone());
            }
            if coq_env.contains(&k) && !args.oracle_only {
                cw.push(format!(
                    "CEnv {} {} {} {} {}",
                    ec.entry,
                    ec.max_user,
                    coq_bytes(&ec.payload),
                    coq_option(ec.consumed.map(|n| n.to_string())),
                    class
                ));
            }
        }

        report.case(&vh_common::hex(&payload), covers_seen.len() >= 2);
        if i < 3 {
            report.sample(json!({"kind": kind, "payload_len": payload.len(), "subintents": nsubs,
                "intent_hash": vh_common::hex(ids.intent.as_slice()), "notarized_hash": vh_common::hex(ids.notarized.as_slice())}));
        }
    }
    let n = args.cases as u64;
    report.floor("tx_v1", n / 4);
    report.floor("tx_v2", n / 4);
    report.floor("tx_partial", n / 10);
    report.floor("env_trailing_bytes_rejected", n / 2);
    report.floor("env_valid_accepted", n / 2);
    report.extra.insert("coq_cases".into(), json!(cw.len()));
    if !args.oracle_only {
        cw.write(&args.out, args.shards).expect("write cases");
    }
    report.write(&args.out).expect("write report");
}
