//! C20 correspondence harness: SBOR `Value` encode/decode of the three flavours
//! (basic / scrypto / manifest) against coq/Model/C20_Sbor.v.
//! Streams: (1) random value trees -> encode -> decode; (2) random structured bytes -> decode ->
//! re-encode; (3) mutations of valid payloads -> decode -> re-encode.
//! Direct oracle (no model involved): decode(encode v) == v and encode(decode bs) == bs on the
//! implementation, with the same depth limit on both sides.
#[path = "../sborir.rs"]
mod sborir;
use radix_common::prelude::*;
use serde_json::json;
use sborir::*;
use vh_common::*;

const KNOWN_CLASS: &str = "manifest_custom_value_invalid_by_construction";

struct Ctx<'a> {
    cw: &'a mut CaseWriter,
    report: &'a mut Report,
    oracle_only: bool,
}

fn push(ctx: &mut Ctx, term: String) -> usize {
    if ctx.oracle_only {
        0
    } else {
        ctx.cw.push(term)
    }
}

/// stream 1
fn case_value<F: Flavour>(ctx: &mut Ctx, idx: usize, rng: &mut Rng, thorough: bool) {
    let fl = F::FL;
    let mut cfg = GenCfg {
        fl,
        max_depth: if thorough { 14 } else { 10 },
        budget: if rng.chance(1, 10) { 600 } else { 120 },
        allow_invalid_custom: fl == Fl::Manifest,
        allow_kind_mismatch: true,
    };
    let v = gen_value(rng, &mut cfg);
    let depth = v.depth();
    // depth limits around the value depth, the flavour default, and 0
    let me = match rng.below(10) {
        0 => depth.saturating_sub(1),
        1 => depth + 1,
        2 => 0,
        3..=5 => depth,
        _ => 64,
    };
    let mdd = match rng.below(8) {
        0 => depth.saturating_sub(1),
        1 => depth + 1,
        2 => depth,
        _ => me,
    };
    let iv = v_to::<F>(&v);
    let enc = catch(std::panic::AssertUnwindSafe(|| F::encode(&iv, me)));
    let dec = match &enc {
        Ok(Ok(bs)) => Some(catch(std::panic::AssertUnwindSafe(|| F::decode(bs, mdd)))),
        _ => None,
    };
    let enc_s = coq_result(&enc, |b| coq_bytes(b), coq_enc_err);
    let dec_s = coq_option(dec.as_ref().map(|d| coq_result(d, |x| v_from::<F>(x).coq(), coq_dec_err)));
    let term = format!("CValue {} {} {} {} {} {}", fl.coq(), me, mdd, v.coq(), enc_s, dec_s);
    ctx.report.count(&format!("value.{}", fl.coq()));
    match &enc {
        Ok(Ok(bs)) => {
            ctx.report.count("value.encode_ok");
            ctx.report.count_n("value.encoded_bytes", bs.len() as u64);
        }
        Ok(Err(e)) => ctx.report.count(&format!("value.encode_err.{}", enc_err_class(e))),
        Err(_) => ctx.report.count("value.encode_panic"),
    }
    if depth >= 6 {
        ctx.report.count("value.depth_ge_6");
    }
    if v.nodes() >= 50 {
        ctx.report.count("value.nodes_ge_50");
    }
    let invalid = v.any_custom(&|c| c.invalid_by_construction());
    if invalid {
        ctx.report.count("value.invalid_custom");
    }
    // ---- direct oracle: decode(encode v) == v (same limit)
    let input = json!({"stream": "value", "flavour": fl.coq(), "encode_limit": me, "decode_limit": mdd,
                       "value": v.coq()});
    match (&enc, &dec) {
        (Err(p), _) => ctx.report.oracle_failure(idx, "", &format!("encode panicked: {}", p), input),
        (Ok(Ok(bs)), Some(d)) => match d {
            Err(p) => ctx.report.oracle_failure(idx, "", &format!("decode panicked: {}", p), input),
            Ok(Ok(back)) => {
                ctx.report.count("value.roundtrip_ok");
                if v_from::<F>(back) != v {
                    ctx.report.oracle_failure(idx, "", "decode(encode v) != v", input);
                }
            }
            Ok(Err(e)) => {
                ctx.report.count(&format!("value.decode_err.{}", dec_err_class(e)));
                // a smaller decode limit may legitimately reject for depth
                let depth_reject = matches!(e, DecodeError::MaxDepthExceeded(_)) && mdd < depth;
                if !depth_reject {
                    let class = if invalid && matches!(e, DecodeError::InvalidCustomValue) { KNOWN_CLASS } else { "" };
                    ctx.report.oracle_failure(
                        idx,
                        class,
                        &format!("value encodes ({} bytes) but its encoding does not decode: {:?}", bs.len(), e),
                        input,
                    );
                }
            }
        },
        _ => {}
    }
    let nontrivial = matches!(enc, Ok(Ok(_)));
    ctx.report.case(&term, nontrivial);
    if idx < 3 {
        ctx.report.sample(json!({"case": idx, "term": term.chars().take(400).collect::<String>()}));
    }
    push(ctx, term);
}

/// streams 2 and 3
fn case_bytes<F: Flavour>(ctx: &mut Ctx, idx: usize, input: Vec<u8>, md: usize, tag: &str) {
    let fl = F::FL;
    let dec = catch(std::panic::AssertUnwindSafe(|| F::decode(&input, md)));
    let reenc = match &dec {
        Ok(Ok(v)) => Some(catch(std::panic::AssertUnwindSafe(|| F::encode(v, md)))),
        _ => None,
    };
    let dec_s = coq_result(&dec, |x| v_from::<F>(x).coq(), coq_dec_err);
    let re_s = coq_option(reenc.as_ref().map(|r| coq_result(r, |b| coq_bytes(b), coq_enc_err)));
    let term = format!("CBytes {} {} {} {} {}", fl.coq(), md, coq_bytes(&input), dec_s, re_s);
    ctx.report.count(&format!("bytes.{}", fl.coq()));
    ctx.report.count(&format!("bytes.stream.{}", tag));
    let inj = json!({"stream": tag, "flavour": fl.coq(), "limit": md, "input_hex": hex(&input)});
    match &dec {
        Ok(Ok(_)) => {
            ctx.report.count("bytes.decode_ok");
            ctx.report.count(&format!("bytes.decode_ok.{}", tag));
        }
        Ok(Err(e)) => ctx.report.count(&format!("bytes.decode_err.{}", dec_err_class(e))),
        Err(p) => ctx.report.oracle_failure(idx, "", &format!("decode panicked: {}", p), inj.clone()),
    }
    // ---- direct oracle: encode(decode bs) == bs
    if let Some(r) = &reenc {
        match r {
            Ok(Ok(b)) if *b == input => {}
            Ok(Ok(_)) => ctx.report.oracle_failure(idx, "", "accepted payload re-encodes to different bytes (non-canonical encoding accepted)", inj),
            Ok(Err(e)) => ctx.report.oracle_failure(idx, "", &format!("accepted payload does not re-encode: {:?}", e), inj),
            Err(p) => ctx.report.oracle_failure(idx, "", &format!("encode panicked: {}", p), inj),
        }
    }
    ctx.report.case(&term, true);
    push(ctx, term);
}

fn valid_payload<F: Flavour>(rng: &mut Rng, thorough: bool) -> (Vec<u8>, usize) {
    loop {
        let mut cfg = GenCfg {
            fl: F::FL,
            max_depth: if thorough { 10 } else { 7 },
            budget: 60,
            allow_invalid_custom: false,
            allow_kind_mismatch: false,
        };
        let v = gen_value(rng, &mut cfg);
        if let Ok(b) = F::encode(&v_to::<F>(&v), 64) {
            return (b, v.depth());
        }
    }
}

fn one<F: Flavour>(ctx: &mut Ctx, idx: usize, rng: &mut Rng, thorough: bool) {
    match rng.below(10) {
        0..=4 => case_value::<F>(ctx, idx, rng, thorough),
        5 => {
            let b = gen_random_bytes(rng, F::FL);
            case_bytes::<F>(ctx, idx, b, *rng.pick(&[64usize, 64, 3, 1, 0]), "random");
        }
        6 => {
            if rng.chance(1, 3) {
                let b = gen_bad_string_payload(rng, F::FL);
                case_bytes::<F>(ctx, idx, b, 64, "utf8");
            } else {
                // unmodified valid payload at a limit around its depth
                let (p, d) = valid_payload::<F>(rng, thorough);
                let md = *rng.pick(&[d, d, d + 1, d.saturating_sub(1), 64]);
                case_bytes::<F>(ctx, idx, p, md, "valid");
            }
        }
        _ => {
            let (p, d) = valid_payload::<F>(rng, thorough);
            let (mut m, _tag) = mutate(rng, F::FL, &p);
            if rng.chance(1, 4) {
                m = mutate(rng, F::FL, &m).0;
            }
            let md = *rng.pick(&[64usize, 64, 64, d, d + 1]);
            case_bytes::<F>(ctx, idx, m, md, "mutated");
        }
    }
}

/// the recorded witnesses of the known finding, replayed on every run
fn known_witnesses(ctx: &mut Ctx) {
    let ws = vec![
        V::Custom(C::MAddressStatic([0xff; 30])),
        V::Custom(C::MNf(Nf::Str(vec![]))),
        V::Custom(C::MNf(Nf::Bytes(vec![]))),
        V::Tuple(vec![V::Custom(C::MNf(Nf::Str(b"a-b".to_vec())))]),
    ];
    for v in ws {
        let iv = v_to::<FManifest>(&v);
        let enc = catch(std::panic::AssertUnwindSafe(|| FManifest::encode(&iv, 64)));
        let dec = match &enc {
            Ok(Ok(bs)) => Some(catch(std::panic::AssertUnwindSafe(|| FManifest::decode(bs, 64)))),
            _ => None,
        };
        let enc_s = coq_result(&enc, |b| coq_bytes(b), coq_enc_err);
        let dec_s = coq_option(dec.as_ref().map(|d| coq_result(d, |x| v_from::<FManifest>(x).coq(), coq_dec_err)));
        let term = format!("CValue Manifest 64 64 {} {} {}", v.coq(), enc_s, dec_s);
        let idx = ctx.cw.len();
        if let (Ok(Ok(bs)), Some(Ok(Err(e)))) = (&enc, &dec) {
            ctx.report.count("witness.known_finding_reproduced");
            ctx.report.oracle_failure(
                idx,
                KNOWN_CLASS,
                &format!("manifest value built from public enum variants encodes ({} bytes) but its encoding is rejected: {:?}", bs.len(), e),
                json!({"stream": "witness", "value": v.coq(), "encoded_hex": hex(bs)}),
            );
        } else {
            ctx.report.count("witness.known_finding_not_reproduced");
        }
        ctx.report.case(&term, true);
        push(ctx, term);
    }
}

/// deterministic boundary stream: identical for every seed (see sborir::boundary_cases)
fn boundary_stream<F: Flavour>(ctx: &mut Ctx) {
    let v = boundary_value(F::FL);
    let (p, _) = payload_with_marks(F::FL, &v);
    assert_eq!(Ok(p), F::encode(&v_to::<F>(&v), 64), "harness IR encoder diverges from the implementation");
    for (input, md, class) in boundary_cases(F::FL) {
        let idx = ctx.cw.len();
        ctx.report.count(&format!("det.{}.{}", F::FL.coq(), class));
        case_bytes::<F>(ctx, idx, input, md, "deterministic");
    }
}

/// the size codec on its own, on every boundary size / width / padding variant
fn size_codec_stream(ctx: &mut Ctx) {
    use sbor::{Decoder, Encoder};
    for n in [0usize, 1, 127, 128, 16383, 16384, 2097151, 2097152, 0x0FFFFFFF, 0x10000000, 0x10000001, u32::MAX as usize, usize::MAX] {
        let mut buf = Vec::new();
        let r = catch(std::panic::AssertUnwindSafe(|| {
            let mut e = BasicEncoder::new(&mut buf, 1);
            e.write_size(n)
        }));
        let r2 = r.map(|x| x.map(|_| buf.clone()));
        ctx.report.count(if matches!(r2, Ok(Ok(_))) { "det.writesize.ok" } else { "det.writesize.too_large" });
        let term = format!("CWriteSize {} {}", n, coq_result(&r2, |b| coq_bytes(b), coq_enc_err));
        ctx.report.case(&term, true);
        push(ctx, term);
    }
    for (input, class) in read_size_inputs() {
        let idx = ctx.cw.len();
        let r = catch(std::panic::AssertUnwindSafe(|| {
            let mut d = BasicDecoder::new(&input, 1);
            d.read_size().map(|n| (n, input.len() - d.get_offset()))
        }));
        ctx.report.count(&format!("det.{}", class));
        // ---- direct oracle: whatever read_size accepts is what write_size produces
        match &r {
            Ok(Ok((n, left))) => {
                ctx.report.count("det.readsize.accepted");
                let mut buf = Vec::new();
                let w = BasicEncoder::new(&mut buf, 1).write_size(*n);
                let consumed = &input[..input.len() - left];
                if w.is_err() || buf != consumed {
                    ctx.report.oracle_failure(idx, "", &format!("read_size accepts a non-canonical size prefix: {} decodes to {} whose encoding is {}", hex(consumed), n, hex(&buf)), json!({"stream": "size_codec", "input_hex": hex(&input)}));
                }
            }
            Ok(Err(_)) => ctx.report.count("det.readsize.rejected"),
            Err(p) => ctx.report.oracle_failure(idx, "", &format!("read_size panicked: {}", p), json!({"input_hex": hex(&input)})),
        }
        let term = format!("CReadSize {} {}", coq_bytes(&input), coq_result(&r, |(n, l)| format!("({}, {})", n, l), coq_dec_err));
        ctx.report.case(&term, true);
        push(ctx, term);
    }
}

fn main() {
    let args = Args::parse();
    let thorough = args.tier == "thorough";
    let mut cw = CaseWriter::new("RV.Corr.C20_run RV.Model.C20_Sbor", "check");
    let mut report = Report::new(
        "C20",
        args.seed,
        "distinct = distinct case terms (value+limits+outcome or input bytes+outcome); nontrivial = encode succeeded (value stream) or any byte-stream case",
    );
    let root = Rng::new(args.seed);
    {
        let mut ctx = Ctx { cw: &mut cw, report: &mut report, oracle_only: args.oracle_only };
        known_witnesses(&mut ctx);
        size_codec_stream(&mut ctx);
        boundary_stream::<FBasic>(&mut ctx);
        boundary_stream::<FScrypto>(&mut ctx);
        boundary_stream::<FManifest>(&mut ctx);
        for i in 0..args.cases {
            let mut rng = root.fork(i as u64);
            let idx = ctx.cw.len();
            match rng.below(3) {
                0 => one::<FBasic>(&mut ctx, idx, &mut rng, thorough),
                1 => one::<FScrypto>(&mut ctx, idx, &mut rng, thorough),
                _ => one::<FManifest>(&mut ctx, idx, &mut rng, thorough),
            }
        }
    }
    let n = args.cases as u64;
    report.floor("value.roundtrip_ok", n / 8);
    report.floor("bytes.decode_ok", n / 60);
    report.floor("bytes.decode_ok.mutated", n / 300);
    report.floor("bytes.decode_err.InvalidSize", n / 600);
    report.floor("bytes.decode_err.BufferUnderflow", n / 100);
    report.floor("value.depth_ge_6", n / 60);
    report.floor("value.Basic", n / 12);
    report.floor("value.Scrypto", n / 12);
    report.floor("value.Manifest", n / 12);
    for fl in [Fl::Basic, Fl::Scrypto, Fl::Manifest] {
        for c in expected_boundary_classes(fl) {
            report.floor(&format!("det.{}.{}", fl.coq(), c), 1);
        }
    }
    for c in expected_read_size_classes() {
        report.floor(&format!("det.{}", c), 1);
    }
    report.floor("det.writesize.ok", 9);
    report.floor("det.writesize.too_large", 4);
    report.floor("det.readsize.accepted", 10);
    report.floor("det.readsize.rejected", 50);
    if !args.oracle_only {
        cw.write(&args.out, args.shards).expect("write cases");
    }
    report.write(&args.out).expect("write report");
}
