//! C35 correspondence harness: drives the real `TransactionValidator::validate_intents_and_structure`
//! (and through it the private `validate_intent_relationships`) with a stub implementation of the
//! public traits `IntentTreeStructure` / `IntentStructure` and writes the trees + observed results as
//! Coq cases (model: coq/Model/C35_IntentTree.v).
//! Direct oracle (independent of the Coq model and of the code's algorithm): the property statement
//! evaluated on hashes with sets and a breadth-first search.
use radix_common::prelude::*;
use radix_transactions::errors::*;
use radix_transactions::manifest::ManifestValidationError;
use radix_transactions::model::*;
use radix_transactions::validation::*;
use serde_json::json;
use std::collections::{BTreeMap, BTreeSet, VecDeque};
use vh_common::*;

#[derive(Clone, Debug, PartialEq, Eq)]
enum IH {
    Tx(u64),
    Sub(u64),
}

#[derive(Clone, Debug)]
struct Intent {
    children: Vec<u64>,
    parent_yields: u64,
    child_yields: Vec<(u64, u64)>, // insertion-ordered, distinct keys
    refs: u64,                     // what the stub's validate_intent records with the aggregation
    fail: Option<u8>,              // and the other error it then returns (code), if any
}
#[derive(Clone, Debug)]
struct Tree {
    root_hash: IH,
    root: Intent,
    subs: Vec<(u64, Intent)>,
    max_depth: u64,
    per_intent: u64,  // config.max_references_per_intent
    total_limit: u64, // config.max_total_references
}

fn hash_of(id: u64) -> Hash {
    let mut b = [0u8; 32];
    b[24..].copy_from_slice(&id.to_be_bytes());
    Hash(b)
}
fn id_of(h: &Hash) -> u64 {
    assert!(h.0[..24].iter().all(|x| *x == 0));
    u64::from_be_bytes(h.0[24..].try_into().unwrap())
}
fn ih_real(h: &IH) -> IntentHash {
    match h {
        IH::Tx(i) => IntentHash::Transaction(TransactionIntentHash::from(hash_of(*i))),
        IH::Sub(i) => IntentHash::Subintent(SubintentHash::from(hash_of(*i))),
    }
}
fn ih_back(h: &IntentHash) -> IH {
    match h {
        IntentHash::Transaction(t) => IH::Tx(id_of(t.as_hash())),
        IntentHash::Subintent(s) => IH::Sub(id_of(s.as_hash())),
    }
}

fn err_of(code: u8) -> IntentValidationError {
    match code {
        0 => IntentValidationError::HeaderValidationError(HeaderValidationError::InvalidEpochRange),
        1 => IntentValidationError::HeaderValidationError(HeaderValidationError::InvalidNetwork),
        2 => IntentValidationError::InvalidMessage(InvalidMessageError::NoDecryptors),
        _ => IntentValidationError::ManifestValidationError(ManifestValidationError::TooManyInstructions),
    }
}
fn code_of(e: &IntentValidationError) -> Option<String> {
    Some(match e {
        IntentValidationError::HeaderValidationError(HeaderValidationError::InvalidEpochRange) => "(IntentFailed 0)".into(),
        IntentValidationError::HeaderValidationError(HeaderValidationError::InvalidNetwork) => "(IntentFailed 1)".into(),
        IntentValidationError::InvalidMessage(InvalidMessageError::NoDecryptors) => "(IntentFailed 2)".into(),
        IntentValidationError::ManifestValidationError(ManifestValidationError::TooManyInstructions) => "(IntentFailed 3)".into(),
        IntentValidationError::TooManyReferences { total, limit } => format!("(TooManyReferences {} {})", total, limit),
        _ => return None,
    })
}
// ---- the stub handed to the implementation -------------------------------------------------------
struct StubIntent {
    hash: IntentHash,
    intent: Intent,
}
impl IntentStructure for StubIntent {
    fn intent_hash(&self) -> IntentHash {
        self.hash
    }
    fn children(&self) -> impl ExactSizeIterator<Item = SubintentHash> {
        self.intent.children.iter().map(|c| SubintentHash::from(hash_of(*c)))
    }
    fn validate_intent(
        &self,
        validator: &TransactionValidator,
        aggregation: &mut AcrossIntentAggregation,
    ) -> Result<ManifestYieldSummary, IntentValidationError> {
        aggregation.record_reference_count(self.intent.refs as usize, validator.config())?;
        if let Some(code) = self.intent.fail {
            return Err(err_of(code));
        }
        Ok(ManifestYieldSummary {
            parent_yields: self.intent.parent_yields as usize,
            child_yields: self
                .intent
                .child_yields
                .iter()
                .map(|(c, n)| (SubintentHash::from(hash_of(*c)), *n as usize))
                .collect(),
        })
    }
}
impl HasSubintentHash for StubIntent {
    fn subintent_hash(&self) -> SubintentHash {
        match self.hash {
            IntentHash::Subintent(s) => s,
            IntentHash::Transaction(_) => unreachable!(),
        }
    }
}
struct StubTree {
    root: StubIntent,
    subs: Vec<StubIntent>,
}
impl IntentTreeStructure for StubTree {
    type RootIntentStructure = StubIntent;
    type SubintentStructure = StubIntent;
    fn root(&self) -> &StubIntent {
        &self.root
    }
    fn non_root_subintents(&self) -> impl ExactSizeIterator<Item = &StubIntent> {
        self.subs.iter()
    }
}

#[derive(Clone, Debug, PartialEq)]
enum Out {
    Accept(Vec<usize>, Vec<IH>, Vec<u64>, Vec<Vec<usize>>),
    Reject(String, Option<(usize, u64)>),
    Intent(String, String), // location and error as Coq terms
    Panic,
    Unexpected(String),
}

fn run_impl(t: &Tree) -> Out {
    let config = TransactionValidationConfig {
        max_subintent_depth: t.max_depth as usize,
        max_references_per_intent: t.per_intent as usize,
        max_total_references: t.total_limit as usize,
        ..TransactionValidationConfig::latest()
    };
    let validator = TransactionValidator::new_with_static_config_network_agnostic(config);
    let stub = StubTree {
        root: StubIntent { hash: ih_real(&t.root_hash), intent: t.root.clone() },
        subs: t
            .subs
            .iter()
            .map(|(h, i)| StubIntent { hash: ih_real(&IH::Sub(*h)), intent: i.clone() })
            .collect(),
    };
    let r = catch(std::panic::AssertUnwindSafe(|| validator.validate_intents_and_structure(&stub)));
    match r {
        Err(_) => Out::Panic,
        Ok(Ok(info)) => {
            let rel = info.intent_relationships;
            let rootch = rel.root_intent.children.iter().map(|i| i.0).collect();
            let mut ps = vec![];
            let mut ds = vec![];
            let mut chs = vec![];
            for (pos, (h, d)) in rel.non_root_subintents.iter().enumerate() {
                // the model's abstraction: insertion order = input order, details.index = position
                if d.index.0 != pos || pos >= t.subs.len() || id_of(h.as_hash()) != t.subs[pos].0 {
                    return Out::Unexpected("index map order / index field differs from input order".into());
                }
                ps.push(ih_back(&d.parent));
                ds.push(d.depth as u64);
                chs.push(d.children.iter().map(|i| i.0).collect());
            }
            if ps.len() != t.subs.len() {
                return Out::Unexpected("fewer details than subintents".into());
            }
            Out::Accept(rootch, ps, ds, chs)
        }
        Ok(Err(TransactionValidationError::SubintentStructureError(loc, e))) => {
            let l = match loc {
                TransactionValidationErrorLocation::NonRootSubintent(i, h) => Some((i.0, id_of(h.as_hash()))),
                TransactionValidationErrorLocation::Unlocatable => None,
                other => return Out::Unexpected(format!("location {:?}", other)),
            };
            let k = match e {
                SubintentStructureError::DuplicateSubintent => "DuplicateSubintent".to_string(),
                SubintentStructureError::SubintentHasMultipleParents => "SubintentHasMultipleParents".to_string(),
                SubintentStructureError::ChildSubintentNotIncludedInTransaction(c) => {
                    format!("(ChildSubintentNotIncluded {})", id_of(c.as_hash()))
                }
                SubintentStructureError::SubintentExceedsMaxDepth => "SubintentExceedsMaxDepth".to_string(),
                SubintentStructureError::SubintentIsNotReachableFromTheTransactionIntent => "SubintentIsNotReachable".to_string(),
                SubintentStructureError::MismatchingYieldChildAndYieldParentCountsForSubintent => "MismatchingYield".to_string(),
            };
            Out::Reject(k, l)
        }
        Ok(Err(TransactionValidationError::IntentValidationError(loc, e))) => {
            let l = match loc {
                TransactionValidationErrorLocation::RootTransactionIntent(_) | TransactionValidationErrorLocation::RootSubintent(_) => "FRoot".to_string(),
                TransactionValidationErrorLocation::NonRootSubintent(i, h) => format!("(FNonRoot {}%nat {})", i.0, id_of(h.as_hash())),
                TransactionValidationErrorLocation::AcrossTransaction => "FAcross".to_string(),
                other => return Out::Unexpected(format!("location {:?}", other)),
            };
            match code_of(&e) {
                Some(c) => Out::Intent(l, c),
                None => Out::Unexpected(format!("{:?}", e)),
            }
        }
        Ok(Err(other)) => Out::Unexpected(format!("{:?}", other)),
    }
}

// ---- direct oracle: the property statement on hashes ---------------------------------------------
#[derive(Debug, Default)]
struct Shape {
    distinct: bool,
    children_present: bool,
    one_parent: bool,
    all_reachable: bool,
    depth_ok: bool,
    yields_ok: bool,
}
impl Shape {
    fn well_formed(&self) -> bool {
        self.distinct && self.children_present && self.one_parent && self.all_reachable && self.depth_ok && self.yields_ok
    }
}
/// `None` when the case lies outside the hypotheses of the theorem (root hash colliding with the
/// placeholder or with a subintent, inconsistent stub summaries, depth configuration 0 with a subintent root).
fn oracle_shape(t: &Tree) -> Option<Shape> {
    let hashes: Vec<u64> = t.subs.iter().map(|s| s.0).collect();
    let set: BTreeSet<u64> = hashes.iter().cloned().collect();
    if t.root_hash == IH::Tx(0) {
        return None;
    }
    if let IH::Sub(r) = t.root_hash {
        if set.contains(&r) || t.max_depth == 0 {
            return None;
        }
    }
    let consistent = |i: &Intent| i.children.iter().all(|c| i.child_yields.iter().any(|(k, _)| k == c));
    if !consistent(&t.root) || !t.subs.iter().all(|s| consistent(&s.1)) {
        return None;
    }
    let max_eff = if matches!(t.root_hash, IH::Sub(_)) { t.max_depth - 1 } else { t.max_depth };
    let mut sh = Shape::default();
    sh.distinct = set.len() == hashes.len();
    let mut declared: BTreeMap<u64, usize> = BTreeMap::new();
    for c in t.root.children.iter().chain(t.subs.iter().flat_map(|s| s.1.children.iter())) {
        *declared.entry(*c).or_insert(0) += 1;
    }
    sh.children_present = declared.keys().all(|c| set.contains(c));
    sh.one_parent = hashes.iter().all(|h| declared.get(h).cloned().unwrap_or(0) == 1);
    // breadth first search over the declared-children relation (first subintent with a hash wins;
    // irrelevant when distinct)
    let by_hash: BTreeMap<u64, &Intent> = t.subs.iter().rev().map(|s| (s.0, &s.1)).collect();
    let mut depth: BTreeMap<u64, u64> = BTreeMap::new();
    let mut q: VecDeque<(u64, u64)> = t.root.children.iter().map(|c| (*c, 1)).collect();
    while let Some((h, d)) = q.pop_front() {
        if depth.contains_key(&h) {
            continue;
        }
        depth.insert(h, d);
        if let Some(i) = by_hash.get(&h) {
            for c in &i.children {
                q.push_back((*c, d + 1));
            }
        }
    }
    sh.all_reachable = hashes.iter().all(|h| depth.contains_key(h));
    sh.depth_ok = hashes.iter().all(|h| depth.get(h).map(|d| *d <= max_eff).unwrap_or(true));
    // yields: each child yields to its parent as often as the parent yields to it
    let mut ok = true;
    let mut check = |p: &Intent| {
        for c in &p.children {
            if let Some(ci) = by_hash.get(c) {
                let pc = p.child_yields.iter().find(|(k, _)| k == c).map(|x| x.1);
                if pc != Some(ci.parent_yields) {
                    ok = false;
                }
            }
        }
    };
    check(&t.root);
    for s in &t.subs {
        check(&s.1);
    }
    sh.yields_ok = ok;
    Some(sh)
}


// ---- deterministic boundary family (identical for every seed; runs before the random stream) --------
/// consistent yields: every child c is yielded to (c % 3) times, and yields to its parent (c % 3) times
fn bt(root: IH, depth: u64, rootch: &[u64], subs: &[(u64, &[u64])]) -> Tree {
    let mk = |me_py: u64, ch: &[u64]| {
        let mut seen = BTreeSet::new();
        Intent {
            children: ch.to_vec(),
            parent_yields: me_py,
            child_yields: ch.iter().filter(|c| seen.insert(**c)).map(|c| (*c, *c % 3)).collect(),
            refs: 0,
            fail: None,
        }
    };
    Tree {
        root_hash: root.clone(),
        root: mk(if matches!(root, IH::Sub(_)) { 1 } else { 0 }, rootch),
        subs: subs.iter().map(|(h, ch)| (*h, mk(*h % 3, ch))).collect(),
        max_depth: depth,
        per_intent: u64::MAX,
        total_limit: u64::MAX,
    }
}
fn out_tag(o: &Out) -> String {
    match o {
        Out::Accept(..) => "accept".into(),
        Out::Panic => "panic".into(),
        Out::Unexpected(_) => "unexpected".into(),
        Out::Intent(l, e) => format!("{} {}", l, e),
        Out::Reject(k, l) => {
            let k = k.trim_start_matches('(').trim_end_matches(')');
            let short = if k.starts_with("ChildSubintentNotIncluded") {
                format!("NotIncluded:{}", k.split(' ').nth(1).unwrap())
            } else {
                match k {
                    "DuplicateSubintent" => "Duplicate",
                    "SubintentHasMultipleParents" => "MultipleParents",
                    "SubintentExceedsMaxDepth" => "Exceeds",
                    "SubintentIsNotReachable" => "NotReachable",
                    "MismatchingYield" => "Yield",
                    other => other,
                }
                .to_string()
            };
            match l {
                Some((i, _)) => format!("{}@{}", short, i),
                None => short,
            }
        }
    }
}
/// (class name, tree, expected verdict) — every comparison of the modelled function on both sides and at equality
fn boundary_family() -> Vec<(&'static str, Tree, &'static str)> {
    let tx = || IH::Tx(800);
    let sb = || IH::Sub(900);
    let mut v: Vec<(&'static str, Tree, &'static str)> = vec![];
    // empty / single / depth configuration (max_depth vs max_depth-1 for a subintent root)
    v.push(("empty_tx", bt(tx(), 3, &[], &[]), "accept"));
    v.push(("empty_partial", bt(sb(), 3, &[], &[]), "accept"));
    v.push(("single_tx", bt(tx(), 3, &[1], &[(1, &[])]), "accept"));
    v.push(("single_partial", bt(sb(), 3, &[1], &[(1, &[])]), "accept"));
    v.push(("depth0_tx_no_subs", bt(tx(), 0, &[], &[]), "accept"));
    v.push(("depth0_tx_one_sub", bt(tx(), 0, &[1], &[(1, &[])]), "Exceeds@0"));
    v.push(("depth0_partial_underflow", bt(sb(), 0, &[], &[]), "panic"));
    v.push(("depth1_partial_no_subs", bt(sb(), 1, &[], &[]), "accept"));
    v.push(("depth1_partial_one_sub", bt(sb(), 1, &[1], &[(1, &[])]), "Exceeds@0"));
    v.push(("depth2_partial_one_sub", bt(sb(), 2, &[1], &[(1, &[])]), "accept"));
    v.push(("depth2_partial_chain2", bt(sb(), 2, &[1], &[(1, &[2]), (2, &[])]), "Exceeds@1"));
    v.push(("depth1_tx_wide3", bt(tx(), 1, &[1, 2, 3], &[(1, &[]), (2, &[]), (3, &[])]), "accept"));
    v.push(("depth1_tx_chain2", bt(tx(), 1, &[1], &[(1, &[2]), (2, &[])]), "Exceeds@1"));
    v.push(("depth3_tx_chain3_at_limit", bt(tx(), 3, &[1], &[(1, &[2]), (2, &[3]), (3, &[])]), "accept"));
    v.push(("depth3_tx_chain4_over", bt(tx(), 3, &[1], &[(1, &[2]), (2, &[4]), (4, &[5]), (5, &[])]), "Exceeds@3"));
    v.push(("depth3_partial_chain2_at_limit", bt(sb(), 3, &[1], &[(1, &[2]), (2, &[])]), "accept"));
    v.push(("depth3_partial_chain3_over", bt(sb(), 3, &[1], &[(1, &[2]), (2, &[4]), (4, &[])]), "Exceeds@2"));
    v.push(("depth4_tx_chain4", bt(tx(), 4, &[1], &[(1, &[2]), (2, &[4]), (4, &[5]), (5, &[])]), "accept"));
    // two too-deep branches: the work list is a stack (last root child first)
    v.push(("two_deep_branches_lifo", bt(tx(), 1, &[1, 2], &[(1, &[4]), (2, &[5]), (4, &[]), (5, &[])]), "Exceeds@3"));
    v.push(("deep_branch_first_child_only", bt(tx(), 1, &[1, 2], &[(1, &[4]), (2, &[]), (4, &[])]), "Exceeds@2"));
    v.push(("children_listed_before_parents", bt(tx(), 3, &[1], &[(4, &[]), (2, &[4]), (1, &[2])]), "accept"));
    v.push(("wide_and_deep", bt(tx(), 3, &[1, 2], &[(1, &[4, 5]), (2, &[7]), (4, &[8]), (5, &[]), (7, &[]), (8, &[])]), "accept"));
    // STEP 1 duplicates: adjacent, first/last, with another defect present
    v.push(("dup_adjacent", bt(tx(), 3, &[1], &[(1, &[]), (1, &[])]), "Duplicate@1"));
    v.push(("dup_first_last", bt(tx(), 3, &[1, 2], &[(1, &[]), (2, &[]), (1, &[])]), "Duplicate@2"));
    v.push(("dup_last_two", bt(tx(), 3, &[1, 2], &[(1, &[]), (2, &[]), (2, &[])]), "Duplicate@2"));
    v.push(("dup_before_missing_child", bt(tx(), 3, &[9], &[(1, &[]), (1, &[])]), "Duplicate@1"));
    // STEP 2A / 2B: missing child
    v.push(("missing_root_child", bt(tx(), 3, &[5], &[(1, &[])]), "NotIncluded:5"));
    v.push(("missing_root_child_second", bt(tx(), 3, &[1, 5], &[(1, &[])]), "NotIncluded:5"));
    v.push(("missing_sub_child", bt(tx(), 3, &[1], &[(1, &[7])]), "NotIncluded:7"));
    v.push(("missing_child_no_subs", bt(tx(), 3, &[5], &[]), "NotIncluded:5"));
    v.push(("missing_before_multiple_parents", bt(tx(), 3, &[1], &[(1, &[7, 1])]), "NotIncluded:7"));
    // multiple parents
    v.push(("mp_root_declares_twice", bt(tx(), 3, &[1, 1], &[(1, &[])]), "MultipleParents@0"));
    v.push(("mp_root_and_sub", bt(tx(), 3, &[1, 2], &[(1, &[2]), (2, &[])]), "MultipleParents@1"));
    v.push(("mp_sub_and_sub", bt(tx(), 3, &[1, 2], &[(1, &[4]), (2, &[4]), (4, &[])]), "MultipleParents@2"));
    v.push(("mp_self_child_with_parent", bt(tx(), 3, &[1], &[(1, &[1])]), "MultipleParents@0"));
    v.push(("mp_dup_child_in_sub", bt(tx(), 3, &[1], &[(1, &[2, 2]), (2, &[])]), "MultipleParents@1"));
    v.push(("mp_two_cycle_reachable", bt(tx(), 3, &[1], &[(1, &[2]), (2, &[1])]), "MultipleParents@0"));
    v.push(("mp_partial_root_declares_twice", bt(sb(), 3, &[1, 1], &[(1, &[])]), "MultipleParents@0"));
    v.push(("mp_before_missing", bt(tx(), 3, &[1], &[(1, &[1, 7])]), "MultipleParents@0"));
    // STEP 4 unreachable
    v.push(("orphan_single", bt(tx(), 3, &[], &[(1, &[])]), "NotReachable@0"));
    v.push(("orphan_second", bt(tx(), 3, &[1], &[(1, &[]), (2, &[])]), "NotReachable@1"));
    v.push(("island_self_loop", bt(tx(), 3, &[], &[(1, &[1])]), "NotReachable@0"));
    v.push(("island_two_cycle", bt(tx(), 3, &[], &[(1, &[2]), (2, &[1])]), "NotReachable@0"));
    v.push(("island_two_cycle_beside_tree", bt(tx(), 3, &[4], &[(4, &[]), (1, &[2]), (2, &[1])]), "NotReachable@1"));
    v.push(("orphan_with_subtree", bt(tx(), 3, &[1], &[(1, &[]), (2, &[4]), (4, &[])]), "NotReachable@1"));
    v.push(("orphan_subtree_listed_first", bt(tx(), 3, &[1], &[(2, &[4]), (4, &[]), (1, &[])]), "NotReachable@0"));
    v.push(("island_cycle_with_tail", bt(tx(), 3, &[7], &[(7, &[]), (1, &[2]), (2, &[1, 4]), (4, &[])]), "NotReachable@1"));
    v.push(("orphan_partial", bt(sb(), 3, &[], &[(1, &[])]), "NotReachable@0"));
    // yields: equal at zero, parent > child, parent < child, root edge / sub edge, first of two mismatches, last index
    v.push(("yield_all_zero", bt(tx(), 3, &[3], &[(3, &[6]), (6, &[])]), "accept"));
    let mut t = bt(tx(), 3, &[1, 2], &[(1, &[]), (2, &[])]);
    t.root.child_yields[0].1 += 1;
    v.push(("yield_root_edge_parent_more", t, "Yield@0"));
    let mut t = bt(tx(), 3, &[1, 2], &[(1, &[]), (2, &[])]);
    t.subs[1].1.parent_yields += 1;
    v.push(("yield_root_edge_child_more_last", t, "Yield@1"));
    let mut t = bt(tx(), 3, &[1], &[(1, &[2]), (2, &[])]);
    t.subs[0].1.child_yields[0].1 -= 1;
    v.push(("yield_sub_edge_parent_less", t, "Yield@1"));
    let mut t = bt(tx(), 3, &[1, 2], &[(1, &[]), (2, &[])]);
    t.subs[0].1.parent_yields += 1;
    t.subs[1].1.parent_yields += 1;
    v.push(("yield_two_mismatches_first_reported", t, "Yield@0"));
    let mut t = bt(sb(), 3, &[1], &[(1, &[])]);
    t.root.parent_yields = 5; // the root's own parent yields are not compared with anything
    v.push(("yield_partial_root_parent_yields_free", t, "accept"));
    let mut t = bt(tx(), 3, &[3], &[(3, &[])]);
    t.root.child_yields[0].1 = 1;
    v.push(("yield_zero_vs_one", t, "Yield@0"));
    // structure errors come before yield errors
    let mut t = bt(tx(), 3, &[1], &[(1, &[]), (2, &[])]);
    t.root.child_yields[0].1 += 1;
    v.push(("unreachable_before_yield", t, "NotReachable@1"));
    // the placeholder parent: IntentHash::Transaction(0) is "no parent yet"; Subintent(0) is not
    v.push(("placeholder_root_single", bt(IH::Tx(0), 3, &[1], &[(1, &[])]), "accept"));
    v.push(("placeholder_root_declares_twice", bt(IH::Tx(0), 3, &[1, 1], &[(1, &[])]), "accept"));
    v.push(("placeholder_root_cycle_ends_by_depth", bt(IH::Tx(0), 3, &[1], &[(1, &[2]), (2, &[1])]), "Exceeds@1"));
    v.push(("subintent_zero_root_declares_twice", bt(IH::Sub(0), 3, &[1, 1], &[(1, &[])]), "MultipleParents@0"));
    v.push(("tx_one_root_declares_twice", bt(IH::Tx(1), 3, &[1, 1], &[(1, &[])]), "MultipleParents@0"));
    v.push(("subintent_zero_as_parent", bt(tx(), 3, &[0, 7], &[(0, &[5]), (5, &[]), (7, &[5])]), "MultipleParents@1"));
    v.push(("subintent_zero_leaf", bt(tx(), 3, &[0], &[(0, &[])]), "accept"));
    // ---- intents whose own validation fails / reference totals (validate_intents_and_structure around the structure check)
    // base: root -> {3, 1}; 3 -> {2}; listed 1, 2, 3
    let base = || bt(tx(), 3, &[3, 1], &[(1, &[]), (2, &[]), (3, &[2])]);
    let with = |f: &dyn Fn(&mut Tree)| {
        let mut t = base();
        t.per_intent = 4;
        t.total_limit = 9;
        f(&mut t);
        t
    };
    v.push(("full_all_pass", with(&|_| {}), "accept"));
    v.push(("full_root_fails", with(&|t| t.root.fail = Some(0)), "FRoot (IntentFailed 0)"));
    v.push(("full_partial_root_fails", { let mut t = with(&|t| t.root.fail = Some(1)); t.root_hash = sb(); t }, "FRoot (IntentFailed 1)"));
    v.push(("full_first_sub_fails", with(&|t| t.subs[0].1.fail = Some(2)), "(FNonRoot 0%nat 1) (IntentFailed 2)"));
    v.push(("full_last_sub_fails", with(&|t| t.subs[2].1.fail = Some(3)), "(FNonRoot 2%nat 3) (IntentFailed 3)"));
    v.push(("full_two_subs_fail_list_order", with(&|t| { t.subs[2].1.fail = Some(3); t.subs[1].1.fail = Some(0); }), "(FNonRoot 1%nat 2) (IntentFailed 0)"));
    v.push(("full_root_before_sub", with(&|t| { t.root.fail = Some(1); t.subs[0].1.fail = Some(0); }), "FRoot (IntentFailed 1)"));
    v.push(("full_structure_before_intent", { let mut t = with(&|t| t.root.fail = Some(0)); t.subs.push((9, bt(tx(), 3, &[], &[]).root)); t }, "NotReachable@3"));
    v.push(("full_intent_before_yield", with(&|t| { t.subs[1].1.fail = Some(0); t.root.child_yields[0].1 += 1; }), "(FNonRoot 1%nat 2) (IntentFailed 0)"));
    v.push(("full_refs_per_intent_at_limit", with(&|t| t.subs[1].1.refs = 4), "accept"));
    v.push(("full_refs_per_intent_over_root", with(&|t| t.root.refs = 5), "FRoot (TooManyReferences 5 4)"));
    v.push(("full_refs_per_intent_over_last_sub", with(&|t| t.subs[2].1.refs = 5), "(FNonRoot 2%nat 3) (TooManyReferences 5 4)"));
    v.push(("full_refs_over_before_fail_code", with(&|t| { t.subs[0].1.refs = 5; t.subs[0].1.fail = Some(0); }), "(FNonRoot 0%nat 1) (TooManyReferences 5 4)"));
    v.push(("full_refs_total_at_limit", with(&|t| { t.root.refs = 4; t.subs[0].1.refs = 3; t.subs[2].1.refs = 2; }), "accept"));
    v.push(("full_refs_total_over", with(&|t| { t.root.refs = 4; t.subs[0].1.refs = 3; t.subs[2].1.refs = 3; }), "FAcross (TooManyReferences 10 9)"));
    v.push(("full_refs_total_over_by_last", with(&|t| { t.root.refs = 3; t.subs[0].1.refs = 3; t.subs[1].1.refs = 3; t.subs[2].1.refs = 1; }), "FAcross (TooManyReferences 10 9)"));
    v.push(("full_total_before_yield", with(&|t| { t.root.refs = 4; t.subs[0].1.refs = 3; t.subs[2].1.refs = 3; t.root.child_yields[0].1 += 1; }), "FAcross (TooManyReferences 10 9)"));
    v.push(("full_fail_before_total", with(&|t| { t.root.refs = 4; t.subs[0].1.refs = 4; t.subs[1].1.refs = 4; t.subs[2].1.fail = Some(1); }), "(FNonRoot 2%nat 3) (IntentFailed 1)"));
    v.push(("full_zero_limits_zero_refs", with(&|t| { t.per_intent = 0; t.total_limit = 0; }), "accept"));
    v.push(("full_zero_per_intent_one_ref", with(&|t| { t.per_intent = 0; t.subs[1].1.refs = 1; }), "(FNonRoot 1%nat 2) (TooManyReferences 1 0)"));
    // usize::saturating_add: the total sticks at usize::MAX
    let m = u64::MAX;
    v.push(("full_saturation_exact_max", with(&|t| { t.per_intent = m; t.total_limit = m; t.root.refs = m - 1; t.subs[0].1.refs = 1; }), "accept"));
    v.push(("full_saturation_over_max_accepted", with(&|t| { t.per_intent = m; t.total_limit = m; t.root.refs = m; t.subs[0].1.refs = 5; }), "accept"));
    v.push(("full_saturation_twice", with(&|t| { t.per_intent = m; t.total_limit = m; t.root.refs = m - 1; t.subs[0].1.refs = 2; t.subs[2].1.refs = m; }), "accept"));
    v.push(("full_saturation_limit_below_max", with(&|t| { t.per_intent = m; t.total_limit = m - 1; t.root.refs = m - 1; t.subs[0].1.refs = 7; }), "FAcross (TooManyReferences 18446744073709551615 18446744073709551614)"));
    v.push(("full_below_saturation_at_limit", with(&|t| { t.per_intent = m; t.total_limit = m - 1; t.root.refs = m - 2; t.subs[0].1.refs = 1; }), "accept"));
    // outside the hypotheses: root listed among the subintents, summary lacking a declared child
    v.push(("root_collides_with_subintent", bt(IH::Sub(1), 3, &[1], &[(1, &[])]), "panic"));
    let mut t = bt(tx(), 3, &[1], &[(1, &[])]);
    t.root.child_yields.clear();
    v.push(("summary_lacks_child", t, "panic"));
    v
}

// ---- generator -------------------------------------------------------------------------------
fn gen_tree(rng: &mut Rng, tags: &mut Vec<&'static str>) -> Tree {
    let n = match rng.below(10) {
        0 => 0,
        1 => 1,
        2..=7 => rng.range(2, 7),
        _ => rng.range(8, 14),
    } as usize;
    let root_is_sub = rng.chance(1, 3);
    let max_depth = match rng.below(10) {
        0 => rng.range(0, 1),
        1 => 2,
        2 => 4,
        _ => 3,
    };
    let root_hash = if root_is_sub { IH::Sub(900) } else { IH::Tx(800) };
    let max_eff = if root_is_sub { max_depth.saturating_sub(1) } else { max_depth };
    // ids 1..=n in random order
    let mut ids: Vec<u64> = (1..=n as u64).collect();
    rng.shuffle(&mut ids);
    // parent of each: 0 = root or an earlier id in `ids`; depth steering
    let mode = rng.below(6); // 0: random, 1: stay within the limit, 2: chain at limit, 3: chain limit+1, 4: wide, 5: random deep
    let mut parent: BTreeMap<u64, u64> = BTreeMap::new();
    let mut depth: BTreeMap<u64, u64> = BTreeMap::new();
    depth.insert(0, 0);
    for (k, id) in ids.iter().enumerate() {
        let cands: Vec<u64> = std::iter::once(0).chain(ids[..k].iter().cloned()).collect();
        let p = match mode {
            1 => {
                let ok: Vec<u64> = cands.iter().cloned().filter(|c| depth[c] < max_eff.max(1)).collect();
                *rng.pick(&ok)
            }
            2 | 3 => {
                let target = if mode == 2 { max_eff } else { max_eff + 1 };
                // build a chain until the target depth is reached, then attach within limit
                let deepest = *cands.iter().max_by_key(|c| depth[c]).unwrap();
                if depth[&deepest] < target {
                    deepest
                } else {
                    let ok: Vec<u64> = cands.iter().cloned().filter(|c| depth[c] < max_eff.max(1)).collect();
                    *rng.pick(&ok)
                }
            }
            4 => 0,
            _ => *rng.pick(&cands),
        };
        parent.insert(*id, p);
        depth.insert(*id, depth[&p] + 1);
    }
    let mut children: BTreeMap<u64, Vec<u64>> = BTreeMap::new();
    for id in &ids {
        children.entry(parent[id]).or_default().push(*id);
    }
    for v in children.values_mut() {
        rng.shuffle(v);
    }
    let mut pyield: BTreeMap<u64, u64> = BTreeMap::new();
    for id in &ids {
        pyield.insert(*id, rng.range(0, 3));
    }
    let mk = |me: u64, children: &BTreeMap<u64, Vec<u64>>, pyield: &BTreeMap<u64, u64>| {
        let ch = children.get(&me).cloned().unwrap_or_default();
        Intent {
            parent_yields: if me == 0 { 0 } else { pyield[&me] },
            child_yields: ch.iter().map(|c| (*c, pyield[c])).collect(),
            children: ch,
            refs: 0,
            fail: None,
        }
    };
    let mut order = ids.clone();
    rng.shuffle(&mut order);
    let mut t = Tree {
        root_hash,
        root: mk(0, &children, &pyield),
        subs: order.iter().map(|id| (*id, mk(*id, &children, &pyield))).collect(),
        max_depth,
        per_intent: u64::MAX,
        total_limit: u64::MAX,
    };
    // what the intents' own validation does: mostly passes with a few references each
    if rng.chance(2, 3) {
        t.per_intent = rng.range(2, 6);
        t.total_limit = rng.range(4, 20);
        let n_int = t.subs.len() + 1;
        for k in 0..n_int {
            let per = t.per_intent;
            let i = intent_mut(&mut t, k);
            i.refs = match rng.below(12) {
                0 => per + 1,
                1 => per,
                _ => rng.range(0, 2),
            };
            if rng.chance(1, 12) {
                i.fail = Some(rng.below(4) as u8);
            }
        }
        if rng.chance(1, 10) {
            // around usize::MAX: saturating_add
            t.per_intent = u64::MAX;
            t.total_limit = u64::MAX - rng.below(2);
            t.root.refs = u64::MAX - rng.below(3);
        }
        tags.push("verdicts");
    }
    if root_is_sub {
        t.root.parent_yields = rng.range(0, 2);
    }
    // mutations
    let nmut = match rng.below(10) {
        0..=3 => 0,
        4..=7 => 1,
        8 => 2,
        _ => 3,
    };
    if nmut == 0 {
        tags.push("unmutated");
    }
    for _ in 0..nmut {
        mutate(rng, &mut t, tags);
    }
    t
}

fn fix_summary(i: &mut Intent) {
    // keep `child_yields` keys = distinct children (what new_with_children produces), preserving counts
    let old: BTreeMap<u64, u64> = i.child_yields.iter().cloned().collect();
    let mut seen = BTreeSet::new();
    i.child_yields = i
        .children
        .iter()
        .filter(|c| seen.insert(**c))
        .map(|c| (*c, old.get(c).cloned().unwrap_or(0)))
        .collect();
}

fn intent_mut<'a>(t: &'a mut Tree, k: usize) -> &'a mut Intent {
    if k == 0 {
        &mut t.root
    } else {
        &mut t.subs[k - 1].1
    }
}

fn mutate(rng: &mut Rng, t: &mut Tree, tags: &mut Vec<&'static str>) {
    let n = t.subs.len();
    let who = rng.usize_below(n + 1); // 0 = root
    match rng.below(14) {
        0 if n > 0 => {
            // duplicate subintent (same hash twice)
            let s = t.subs[rng.usize_below(n)].clone();
            let at = rng.usize_below(n + 1);
            t.subs.insert(at, s);
            tags.push("dup_subintent");
        }
        1 => {
            // child that is not included
            let i = intent_mut(t, who);
            let at = rng.usize_below(i.children.len() + 1);
            i.children.insert(at, 500 + rng.below(3));
            fix_summary(i);
            tags.push("missing_child");
        }
        2 if n > 0 => {
            // a second parent for an existing subintent (DAG / cycle / self-child as it falls)
            let c = t.subs[rng.usize_below(n)].0;
            let i = intent_mut(t, who);
            let at = rng.usize_below(i.children.len() + 1);
            i.children.insert(at, c);
            fix_summary(i);
            tags.push("extra_parent");
        }
        3 if n > 0 => {
            // self child
            let k = rng.usize_below(n);
            let h = t.subs[k].0;
            t.subs[k].1.children.push(h);
            fix_summary(&mut t.subs[k].1);
            tags.push("self_child");
        }
        4 => {
            // duplicate child inside one list
            let i = intent_mut(t, who);
            if !i.children.is_empty() {
                let c = *rng.pick(&i.children);
                let at = rng.usize_below(i.children.len() + 1);
                i.children.insert(at, c);
                tags.push("dup_child");
            }
        }
        5 => {
            // orphan: remove one child declaration (subtree becomes an island)
            let i = intent_mut(t, who);
            if !i.children.is_empty() {
                let at = rng.usize_below(i.children.len());
                i.children.remove(at);
                fix_summary(i);
                tags.push("orphan");
            }
        }
        6 if n >= 2 => {
            // island cycle: detach a node from its parent and make it the child of one of its descendants
            let k = rng.usize_below(n);
            let h = t.subs[k].0;
            for j in 0..=n {
                let i = intent_mut(t, j);
                if let Some(p) = i.children.iter().position(|c| *c == h) {
                    i.children.remove(p);
                    fix_summary(i);
                }
            }
            // descendant (or itself when it is a leaf)
            let mut cur = k;
            loop {
                let ch = t.subs[cur].1.children.clone();
                if ch.is_empty() || rng.chance(1, 3) {
                    break;
                }
                let c = *rng.pick(&ch);
                match t.subs.iter().position(|s| s.0 == c) {
                    Some(p) => cur = p,
                    None => break,
                }
            }
            t.subs[cur].1.children.push(h);
            fix_summary(&mut t.subs[cur].1);
            tags.push("island_cycle");
        }
        7 | 8 => {
            // yield mismatch
            let i = intent_mut(t, who);
            if !i.child_yields.is_empty() && rng.bool() {
                let k = rng.usize_below(i.child_yields.len());
                i.child_yields[k].1 += 1;
            } else if who > 0 {
                i.parent_yields += 1;
            }
            tags.push("yield_mismatch");
        }
        9 => {
            t.max_depth = match rng.below(4) {
                0 => 0,
                1 => 1,
                2 => t.max_depth + 1,
                _ => t.max_depth.saturating_sub(1),
            };
            tags.push("depth_config");
        }
        10 if rng.chance(1, 3) => {
            // outside the hypotheses: root hash = placeholder / = a subintent's hash
            if rng.bool() || n == 0 {
                t.root_hash = IH::Tx(0);
                tags.push("root_is_placeholder");
            } else {
                t.root_hash = IH::Sub(t.subs[rng.usize_below(n)].0);
                tags.push("root_collides");
            }
        }
        11 if rng.chance(1, 3) => {
            // outside the hypotheses: a summary that lacks a declared child
            let i = intent_mut(t, who);
            if !i.child_yields.is_empty() {
                let k = rng.usize_below(i.child_yields.len());
                i.child_yields.remove(k);
                tags.push("inconsistent_summary");
            }
        }
        12 if n > 0 => {
            // swap two subintents' positions (order of the index map)
            let a = rng.usize_below(n);
            let b = rng.usize_below(n);
            t.subs.swap(a, b);
            tags.push("reorder");
        }
        _ => {
            // move a subtree under another node (may create depth overflow or a cycle with multiple parents)
            if n >= 2 {
                let c = t.subs[rng.usize_below(n)].0;
                for j in 0..=n {
                    let i = intent_mut(t, j);
                    if let Some(p) = i.children.iter().position(|x| *x == c) {
                        i.children.remove(p);
                        fix_summary(i);
                        break;
                    }
                }
                let i = intent_mut(t, who);
                i.children.push(c);
                fix_summary(i);
                tags.push("move_subtree");
            }
        }
    }
}

// ---- printing --------------------------------------------------------------------------------
fn ih_coq(h: &IH) -> String {
    match h {
        IH::Tx(i) => format!("(ITx {})", i),
        IH::Sub(i) => format!("(ISub {})", i),
    }
}
fn nat_list(xs: &[usize]) -> String {
    coq_list(xs.iter().map(|x| format!("{}%nat", x)))
}
fn intent_coq(i: &Intent) -> String {
    format!(
        "(Build_intent {} (Build_summary {} {}))",
        coq_list(i.children.iter().map(|c| c.to_string())),
        i.parent_yields,
        coq_list(i.child_yields.iter().map(|(k, v)| format!("({},{})", k, v)))
    )
}
fn tree_coq(t: &Tree) -> String {
    format!(
        "(Build_tree {} {} {} {})",
        ih_coq(&t.root_hash),
        intent_coq(&t.root),
        coq_list(t.subs.iter().map(|(h, i)| format!("(Build_sub {} {})", h, intent_coq(i)))),
        t.max_depth
    )
}
fn out_coq(o: &Out) -> String {
    match o {
        Out::Accept(r, p, d, c) => format!(
            "(FStructure (Accept {} {} {} {}))",
            nat_list(r),
            coq_list(p.iter().map(ih_coq)),
            coq_list(d.iter().map(|x| x.to_string())),
            coq_list(c.iter().map(|x| nat_list(x)))
        ),
        Out::Reject(k, Some((i, h))) => format!("(FStructure (Reject {} (NonRoot {}%nat {})))", k, i, h),
        Out::Reject(k, None) => format!("(FStructure (Reject {} Unlocatable))", k),
        Out::Intent(l, e) => format!("(FIntent {} {})", l, e),
        Out::Panic => "(FStructure Panic)".to_string(),
        // never equal to a model outcome of a terminating run: shows up as a disagreement
        Out::Unexpected(_) => "(FStructure OutOfFuel)".to_string(),
    }
}
fn verdict_coq(i: &Intent) -> String {
    format!("(Build_iverdict {} {})", i.refs, match i.fail { Some(c) => format!("(Some {})", c), None => "None".to_string() })
}
fn full_coq(t: &Tree) -> String {
    format!(
        "(Build_full {} {} {} {} {})",
        tree_coq(t),
        verdict_coq(&t.root),
        coq_list(t.subs.iter().map(|(_, i)| verdict_coq(i))),
        t.per_intent,
        t.total_limit
    )
}
fn tree_json(t: &Tree) -> serde_json::Value {
    let ij = |i: &Intent| json!({"children": i.children, "parent_yields": i.parent_yields, "child_yields": i.child_yields, "refs": i.refs.to_string(), "fail": i.fail});
    json!({"root_hash": format!("{:?}", t.root_hash), "root": ij(&t.root),
           "subs": t.subs.iter().map(|(h, i)| json!({"hash": h, "intent": ij(i)})).collect::<Vec<_>>(),
           "max_subintent_depth": t.max_depth, "max_references_per_intent": t.per_intent.to_string(), "max_total_references": t.total_limit.to_string()})
}

fn main() {
    let args = Args::parse();
    let mut report = Report::new(
        "C35",
        args.seed,
        "random intent trees (0..14 subintents, root = transaction intent or subintent, configured depth 0..4) built as valid trees \
         (random / within limit / chain at limit / chain at limit+1 / wide) then 0-3 mutations (duplicate subintent, missing child, \
         second parent, self child, duplicate child, orphan, island cycle, yield mismatch, depth config, moved subtree, reorder, \
         root-hash collisions, inconsistent summary); non-trivial = at least 2 subintents; distinct by canonical tree text",
    );
    let mut cw = CaseWriter::new("RV.Corr.C35_run RV.Model.C35_IntentTree", "check");
    let root = Rng::new(args.seed);
    let family = boundary_family();
    for (name, _, _) in family.iter() {
        report.floor(&format!("b_{}", name), 1);
    }
    for i in 0..args.cases {
        let mut rng = root.fork(i as u64);
        let mut tags = vec![];
        let t = if i < family.len() {
            tags.push("boundary_family");
            family[i].1.clone()
        } else {
            gen_tree(&mut rng, &mut tags)
        };
        let out = run_impl(&t);
        if i < family.len() {
            report.count(&format!("b_{}", family[i].0));
            if out_tag(&out) != family[i].2 {
                report.oracle_failure(
                    i,
                    "",
                    &format!("boundary case {}: expected {} got {}", family[i].0, family[i].2, out_tag(&out)),
                    tree_json(&t),
                );
            }
        }
        let canon = tree_coq(&t);
        report.case(&canon, t.subs.len() >= 2);
        for tag in &tags {
            report.count(&format!("mut_{}", tag));
        }
        let kind = match &out {
            Out::Accept(..) => "accept".to_string(),
            Out::Reject(k, _) => format!("reject_{}", k.trim_start_matches('(').split(' ').next().unwrap()),
            Out::Intent(l, e) => format!(
                "intent_{}_{}",
                l.trim_start_matches('(').split(' ').next().unwrap(),
                e.trim_start_matches('(').split(' ').next().unwrap()
            ),
            Out::Panic => "panic".to_string(),
            Out::Unexpected(_) => "unexpected".to_string(),
        };
        report.count(&format!("out_{}", kind));
        if let Out::Accept(_, _, ds, _) = &out {
            let md = ds.iter().cloned().max().unwrap_or(0);
            report.count(&format!("accepted_max_depth_{}", md));
        }
        // direct oracle
        if let Out::Unexpected(what) = &out {
            report.oracle_failure(i, "", &format!("unexpected result from the implementation: {}", what), tree_json(&t));
        }
        match oracle_shape(&t) {
            None => report.count("outside_hypotheses"),
            Some(sh) => {
                let wf = sh.well_formed();
                report.count(if wf { "oracle_well_formed" } else { "oracle_ill_formed" });
                // the intents' own verdicts and the (saturating) reference total
                let all: Vec<&Intent> = std::iter::once(&t.root).chain(t.subs.iter().map(|s| &s.1)).collect();
                let intents_ok = all.iter().all(|x| x.refs <= t.per_intent && x.fail.is_none());
                let total = all.iter().map(|x| x.refs as u128).sum::<u128>().min(u64::MAX as u128);
                let refs_ok = total <= t.total_limit as u128;
                match &out {
                    Out::Accept(..) if !(intents_ok && refs_ok) => report.oracle_failure(
                        i, "", "accepted although an intent's own validation fails or the reference total is over its limit", tree_json(&t)),
                    Out::Intent(l, e) if intents_ok && refs_ok => report.oracle_failure(
                        i, "", &format!("rejected with {} {} although every intent passes and the total is within its limit", l, e), tree_json(&t)),
                    Out::Intent(..) if !(sh.distinct && sh.children_present && sh.one_parent && sh.all_reachable && sh.depth_ok) => report.oracle_failure(
                        i, "", "intent error reported although the structure is not well formed (structure errors come first)", tree_json(&t)),
                    Out::Reject(k, _) if k == "MismatchingYield" && !(intents_ok && refs_ok) => report.oracle_failure(
                        i, "", "yield mismatch reported although an intent fails or the reference total is over (those come first)", tree_json(&t)),
                    Out::Accept(..) if !wf => report.oracle_failure(
                        i, "", &format!("accepted but not a well-formed tree: {:?}", sh), tree_json(&t)),
                    Out::Reject(k, _) if wf && intents_ok && refs_ok => report.oracle_failure(
                        i, "", &format!("well-formed tree rejected with {}", k), tree_json(&t)),
                    Out::Panic => report.oracle_failure(i, "", "panic inside the hypotheses", tree_json(&t)),
                    _ => {}
                }
            }
        }
        if i < 3 {
            report.sample(json!({"tree": tree_json(&t), "out": out_coq(&out), "mutations": tags}));
        }
        cw.push(format!("({}, {})", full_coq(&t), out_coq(&out)));
    }
    let n = args.cases as u64;
    report.floor("out_accept", n / 10);
    report.floor("oracle_ill_formed", n / 10);
    report.floor("out_reject_SubintentHasMultipleParents", n / 100);
    report.floor("out_reject_SubintentExceedsMaxDepth", n / 100);
    report.floor("out_reject_SubintentIsNotReachable", n / 100);
    report.floor("out_reject_MismatchingYield", n / 100);
    report.floor("out_reject_ChildSubintentNotIncluded", n / 200);
    report.floor("out_reject_DuplicateSubintent", n / 200);
    for k in ["out_intent_FRoot_IntentFailed", "out_intent_FNonRoot_IntentFailed", "out_intent_FNonRoot_TooManyReferences", "out_intent_FAcross_TooManyReferences"] {
        report.floor(k, n / 200);
    }
    cw.write(&args.out, args.shards).unwrap();
    report.write(&args.out).unwrap();
}
