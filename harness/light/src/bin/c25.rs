//! C25 correspondence harness: checked_round / checked_floor / checked_ceiling / for_withdrawal /
//! checked_truncate of Decimal and PreciseDecimal for all seven rounding modes and all decimal-place
//! counts (model: coq/Model/C25_Round.v).
//! Direct oracle: the rounding prescribed by the mode computed with exact big integers
//! (floor multiple, next multiple, exact comparison with the midpoint), range test.
use num_bigint::BigInt;
use num_traits::{Signed, Zero};
use radix_common::math::*;
use radix_engine_interface::blueprints::resource::{ForWithdrawal, WithdrawStrategy};
use serde_json::json;
use std::panic::AssertUnwindSafe;
use vh_common::*;
use vh_light::dec::*;

#[derive(Clone, Debug)]
enum Op {
    Round(BigInt, i32, usize),
    Floor(BigInt),
    Ceil(BigInt),
    Withdraw(BigInt, u8, Option<usize>),
    Truncate(BigInt, usize),
}

fn op_coq(op: &Op) -> String {
    match op {
        Op::Round(x, dp, m) => format!("RRound {} {} {}", cz(x), coq_z(*dp), MODES[*m].1),
        Op::Floor(x) => format!("RFloor {}", cz(x)),
        Op::Ceil(x) => format!("RCeil {}", cz(x)),
        Op::Withdraw(x, d, None) => format!("RWithdraw {} {} WExact", cz(x), coq_z(*d)),
        Op::Withdraw(x, d, Some(m)) => format!("RWithdraw {} {} (WRounded {})", cz(x), coq_z(*d), MODES[*m].1),
        Op::Truncate(p, m) => format!("RTruncate {} {}", cz(p), MODES[*m].1),
    }
}

fn run_impl(f: Fmt, op: &Op) -> Out {
    match (f, op) {
        (Fmt::Dec, Op::Round(x, dp, m)) => Out::from_opt(catch(AssertUnwindSafe(|| dec(x).checked_round(*dp, MODES[*m].0).map(dec_big)))),
        (Fmt::PDec, Op::Round(x, dp, m)) => Out::from_opt(catch(AssertUnwindSafe(|| pdec(x).checked_round(*dp, MODES[*m].0).map(pdec_big)))),
        (Fmt::Dec, Op::Floor(x)) => Out::from_opt(catch(AssertUnwindSafe(|| dec(x).checked_floor().map(dec_big)))),
        (Fmt::PDec, Op::Floor(x)) => Out::from_opt(catch(AssertUnwindSafe(|| pdec(x).checked_floor().map(pdec_big)))),
        (Fmt::Dec, Op::Ceil(x)) => Out::from_opt(catch(AssertUnwindSafe(|| dec(x).checked_ceiling().map(dec_big)))),
        (Fmt::PDec, Op::Ceil(x)) => Out::from_opt(catch(AssertUnwindSafe(|| pdec(x).checked_ceiling().map(pdec_big)))),
        (_, Op::Withdraw(x, d, w)) => {
            let ws = match w {
                None => WithdrawStrategy::Exact,
                Some(m) => WithdrawStrategy::Rounded(MODES[*m].0),
            };
            Out::from_opt(catch(AssertUnwindSafe(|| dec(x).for_withdrawal(*d, ws).map(dec_big))))
        }
        (_, Op::Truncate(p, m)) => Out::from_opt(catch(AssertUnwindSafe(|| pdec(p).checked_truncate(MODES[*m].0).map(dec_big)))),
    }
}

/// the multiple of `d` prescribed by mode `m` for the exact value `x` (d > 0)
fn round_exact(x: &BigInt, d: &BigInt, m: usize) -> BigInt {
    let lo = floor_div(x, d) * d; // largest multiple <= x
    if &lo == x {
        return x.clone();
    }
    let hi = &lo + d; // smallest multiple >= x
    let toward_zero = if x.is_negative() { hi.clone() } else { lo.clone() };
    let away = if x.is_negative() { lo.clone() } else { hi.clone() };
    let twice_dist_lo = (x - &lo) * 2; // compare with d: distance to lo vs distance to hi
    let nearest = |tie: BigInt| -> BigInt {
        if &twice_dist_lo < d {
            lo.clone()
        } else if &twice_dist_lo > d {
            hi.clone()
        } else {
            tie
        }
    };
    match m {
        0 => hi,
        1 => lo,
        2 => toward_zero,
        3 => away,
        4 => nearest(toward_zero),
        5 => nearest(away),
        _ => {
            let q = floor_div(&lo, d);
            let even = if (&q % BigInt::from(2)).is_zero() { lo.clone() } else { hi.clone() };
            nearest(even)
        }
    }
}

/// expected: Ok(Some(v)) value, Ok(None) must fail, Err(()) documented panic
fn expect(f: Fmt, op: &Op) -> Result<Option<BigInt>, ()> {
    let in_f = |ff: Fmt, z: BigInt| if ff.fits(&z) { Some(z) } else { None };
    match op {
        Op::Round(x, dp, m) => {
            if *dp < 0 || *dp > f.scale() as i32 {
                return Err(());
            }
            Ok(in_f(f, round_exact(x, &pow10(f.scale() - *dp as u32), *m)))
        }
        Op::Floor(x) => Ok(in_f(f, round_exact(x, &f.one(), 1))),
        Op::Ceil(x) => Ok(in_f(f, round_exact(x, &f.one(), 0))),
        Op::Withdraw(x, _, None) => Ok(Some(x.clone())),
        Op::Withdraw(x, d, Some(m)) => {
            if *d > 18 {
                return Err(());
            }
            Ok(in_f(Fmt::Dec, round_exact(x, &pow10(18 - *d as u32), *m)))
        }
        Op::Truncate(p, m) => {
            let r = round_exact(p, &pow10(18), *m);
            // the rounded PreciseDecimal must exist, then it is a Decimal iff in range
            if !Fmt::PDec.fits(&r) {
                return Ok(None);
            }
            Ok(in_f(Fmt::Dec, trunc_div(&r, &pow10(18))))
        }
    }
}

fn gen_x(rng: &mut Rng, f: Fmt, bnd: &[BigInt], d: &BigInt) -> BigInt {
    let half: BigInt = d / BigInt::from(2);
    let z = match rng.below(10) {
        // exact ties k*d + d/2 (and one off), also at the extremes of the range
        0 | 1 => {
            let k = match rng.below(4) {
                0 => floor_div(&f.max(), d) - BigInt::from(rng.below(3)),
                1 => floor_div(&f.min(), d) + BigInt::from(rng.below(3)),
                2 => BigInt::from(rng.range(0, 6) as i64 - 3),
                _ => floor_div(&rand_signed(rng, f.bits() - 1), d),
            };
            k * d + &half + BigInt::from(if rng.bool() { 0 } else { rng.range(0, 2) as i64 - 1 })
        }
        // multiples and multiples +- 1
        2 => floor_div(&rand_signed(rng, f.bits() - 1), d) * d + BigInt::from(rng.range(0, 2) as i64 - 1),
        // next to the range limits
        3 => {
            let off = rand_signed(rng, 8) + if rng.bool() { half.clone() } else { BigInt::zero() };
            if rng.bool() {
                f.max() - off.abs()
            } else {
                f.min() + off.abs()
            }
        }
        _ => gen_value(rng, f, bnd),
    };
    if f.fits(&z) {
        z
    } else {
        gen_value(rng, f, bnd)
    }
}

fn main() {
    let args = Args::parse();
    let mut report = Report::new(
        "C25",
        args.seed,
        "checked_round over all 7 modes x all decimal-place counts (plus out-of-range counts), floor, ceiling, for_withdrawal, \
         checked_truncate; values: ties, multiples +-1, range limits, uniform bit length; non-trivial = value not already at the \
         requested precision; distinct by operation text",
    );
    let mut cw = CaseWriter::new("RV.Corr.C25_run RV.Lib.DecCore RV.Model.C25_Round", "check");
    let root = Rng::new(args.seed);
    let bnds = [boundaries(Fmt::Dec), boundaries(Fmt::PDec)];
    for i in 0..args.cases {
        let mut rng = root.fork(i as u64);
        let f = FMTS[rng.usize_below(2)];
        let bnd = &bnds[if f == Fmt::Dec { 0 } else { 1 }];
        let m = (i + rng.usize_below(7)) % 7;
        let kind = rng.below(12);
        let (f, op) = match kind {
            0 => {
                let x = gen_x(&mut rng, f, bnd, &f.one());
                (f, if rng.bool() { Op::Floor(x) } else { Op::Ceil(x) })
            }
            1 => {
                let d = rng.range(0, 18) as u8;
                let d = if rng.chance(1, 10) { rng.range(19, 255) as u8 } else { d };
                let step = pow10(18 - (d.min(18)) as u32);
                let x = gen_x(&mut rng, Fmt::Dec, &bnds[0], &step);
                (Fmt::Dec, Op::Withdraw(x, d, if rng.chance(1, 6) { None } else { Some(m) }))
            }
            2 => {
                let p = if rng.chance(1, 3) {
                    // around the Decimal limits
                    let t = rng.pick(&[Fmt::Dec.min(), Fmt::Dec.max()]).clone();
                    t * pow10(18) + rand_signed(&mut rng, 62)
                } else {
                    gen_x(&mut rng, Fmt::PDec, &bnds[1], &pow10(18))
                };
                let p = if Fmt::PDec.fits(&p) { p } else { BigInt::from(5) * pow10(17) };
                (Fmt::PDec, Op::Truncate(p, m))
            }
            _ => {
                let dp: i32 = if rng.chance(1, 25) {
                    *rng.pick(&[-1, f.scale() as i32 + 1, i32::MIN, i32::MAX, -18, 37, 19])
                } else {
                    ((i / 7) as u32 % (f.scale() + 1)) as i32
                };
                let dpc = dp.clamp(0, f.scale() as i32) as u32;
                let x = gen_x(&mut rng, f, bnd, &pow10(f.scale() - dpc));
                (f, Op::Round(x, dp, m))
            }
        };
        let out = run_impl(f, &op);
        let exp = expect(f, &op);
        let canon = format!("{} {}", f.name(), op_coq(&op));
        let changed = match (&op, &out) {
            (Op::Round(x, ..), Out::Ok(r)) | (Op::Floor(x), Out::Ok(r)) | (Op::Ceil(x), Out::Ok(r)) | (Op::Withdraw(x, ..), Out::Ok(r)) => x != r,
            (Op::Truncate(p, _), Out::Ok(r)) => &(r * pow10(18)) != p,
            (_, Out::Err(_)) => true,
            _ => false,
        };
        report.case(&canon, changed);
        report.count(match &op {
            Op::Round(..) => "op_round",
            Op::Floor(_) => "op_floor",
            Op::Ceil(_) => "op_ceiling",
            Op::Withdraw(..) => "op_for_withdrawal",
            Op::Truncate(..) => "op_truncate",
        });
        report.count(match &out {
            Out::Ok(_) => "out_ok",
            Out::Err(_) => "out_overflow",
            Out::Panic => "out_panic_bad_places",
        });
        if changed {
            report.count("value_changed_by_rounding");
        }
        if let Op::Round(x, dp, mm) = &op {
            if *dp >= 0 && *dp <= f.scale() as i32 {
                report.count(&format!("mode_{}", MODES[*mm].1));
                let d = pow10(f.scale() - *dp as u32);
                let lo = floor_div(x, &d) * &d;
                if (x - &lo) * 2 == d {
                    report.count("exact_tie");
                }
            }
        }
        let ok = match (&exp, &out) {
            (Ok(Some(e)), Out::Ok(z)) => e == z,
            (Ok(None), Out::Err(_)) => true,
            (Err(()), Out::Panic) => true,
            _ => false,
        };
        if !ok {
            let what = format!("{} {}: implementation returned {} but the mode prescribes {:?}", f.name(), op_coq(&op), out.short(), exp);
            report.oracle_failure(i, "", &what, json!({"format": f.name(), "op": op_coq(&op)}));
        }
        if i < 3 {
            report.sample(json!({"format": f.name(), "op": op_coq(&op), "out": out.short()}));
        }
        cw.push(format!("({}, {}, {})", f.coq(), op_coq(&op), out.coq()));
    }
    let n = args.cases as u64;
    report.floor("value_changed_by_rounding", n / 4);
    report.floor("exact_tie", n / 40);
    report.floor("out_overflow", n / 200);
    for (_, name) in MODES.iter() {
        report.floor(&format!("mode_{}", name), n / 30);
    }
    if !args.oracle_only {
        cw.write(&args.out, args.shards).unwrap();
    }
    report.write(&args.out).unwrap();
}
