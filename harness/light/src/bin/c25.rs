//! C25 correspondence harness: checked_round / checked_floor / checked_ceiling / for_withdrawal /
//! checked_truncate of Decimal and PreciseDecimal for all seven rounding modes and all decimal-place
//! counts (model: coq/Model/C25_Round.v).
//! Direct oracle: the rounding prescribed by the mode computed with exact big integers
//! (floor multiple, next multiple, exact comparison with the midpoint), range test.
use num_bigint::BigInt;
use num_traits::{Signed, Zero};
use radix_common::math::*;
use radix_engine_interface::blueprints::resource::{ForWithdrawal, WithdrawStrategy};
use serde_json::json;
use std::panic::AssertUnwindSafe;
use vh_common::*;
use vh_light::dec::*;

#[derive(Clone, Debug)]
enum Op {
    Round(BigInt, i32, usize),
    Floor(BigInt),
    Ceil(BigInt),
    Withdraw(BigInt, u8, Option<usize>),
    Truncate(BigInt, usize),
}

fn op_coq(op: &Op) -> String {
    match op {
        Op::Round(x, dp, m) => format!("RRound {} {} {}", cz(x), coq_z(*dp), MODES[*m].1),
        Op::Floor(x) => format!("RFloor {}", cz(x)),
        Op::Ceil(x) => format!("RCeil {}", cz(x)),
        Op::Withdraw(x, d, None) => format!("RWithdraw {} {} WExact", cz(x), coq_z(*d)),
        Op::Withdraw(x, d, Some(m)) => format!("RWithdraw {} {} (WRounded {})", cz(x), coq_z(*d), MODES[*m].1),
        Op::Truncate(p, m) => format!("RTruncate {} {}", cz(p), MODES[*m].1),
    }
}

fn run_impl(f: Fmt, op: &Op) -> Out {
    match (f, op) {
        (Fmt::Dec, Op::Round(x, dp, m)) => Out::from_opt(catch(AssertUnwindSafe(|| dec(x).checked_round(*dp, MODES[*m].0).map(dec_big)))),
        (Fmt::PDec, Op::Round(x, dp, m)) => Out::from_opt(catch(AssertUnwindSafe(|| pdec(x).checked_round(*dp, MODES[*m].0).map(pdec_big)))),
        (Fmt::Dec, Op::Floor(x)) => Out::from_opt(catch(AssertUnwindSafe(|| dec(x).checked_floor().map(dec_big)))),
        (Fmt::PDec, Op::Floor(x)) => Out::from_opt(catch(AssertUnwindSafe(|| pdec(x).checked_floor().map(pdec_big)))),
        (Fmt::Dec, Op::Ceil(x)) => Out::from_opt(catch(AssertUnwindSafe(|| dec(x).checked_ceiling().map(dec_big)))),
        (Fmt::PDec, Op::Ceil(x)) => Out::from_opt(catch(AssertUnwindSafe(|| pdec(x).checked_ceiling().map(pdec_big)))),
        (_, Op::Withdraw(x, d, w)) => {
            let ws = match w {
                None => WithdrawStrategy::Exact,
                Some(m) => WithdrawStrategy::Rounded(MODES[*m].0),
            };
            Out::from_opt(catch(AssertUnwindSafe(|| dec(x).for_withdrawal(*d, ws).map(dec_big))))
        }
        (_, Op::Truncate(p, m)) => Out::from_opt(catch(AssertUnwindSafe(|| pdec(p).checked_truncate(MODES[*m].0).map(dec_big)))),
    }
}

/// the multiple of `d` prescribed by mode `m` for the exact value `x` (d > 0)
fn round_exact(x: &BigInt, d: &BigInt, m: usize) -> BigInt {
    let lo = floor_div(x, d) * d; // largest multiple <= x
    if &lo == x {
        return x.clone();
    }
    let hi = &lo + d; // smallest multiple >= x
    let toward_zero = if x.is_negative() { hi.clone() } else { lo.clone() };
    let away = if x.is_negative() { lo.clone() } else { hi.clone() };
    let twice_dist_lo = (x - &lo) * 2; // compare with d: distance to lo vs distance to hi
    let nearest = |tie: BigInt| -> BigInt {
        if &twice_dist_lo < d {
            lo.clone()
        } else if &twice_dist_lo > d {
            hi.clone()
        } else {
            tie
        }
    };
    match m {
        0 => hi,
        1 => lo,
        2 => toward_zero,
        3 => away,
        4 => nearest(toward_zero),
        5 => nearest(away),
        _ => {
            let q = floor_div(&lo, d);
            let even = if (&q % BigInt::from(2)).is_zero() { lo.clone() } else { hi.clone() };
            nearest(even)
        }
    }
}

/// expected: Ok(Some(v)) value, Ok(None) must fail, Err(()) documented panic
fn expect(f: Fmt, op: &Op) -> Result<Option<BigInt>, ()> {
    let in_f = |ff: Fmt, z: BigInt| if ff.fits(&z) { Some(z) } else { None };
    match op {
        Op::Round(x, dp, m) => {
            if *dp < 0 || *dp > f.scale() as i32 {
                return Err(());
            }
            Ok(in_f(f, round_exact(x, &pow10(f.scale() - *dp as u32), *m)))
        }
        Op::Floor(x) => Ok(in_f(f, round_exact(x, &f.one(), 1))),
        Op::Ceil(x) => Ok(in_f(f, round_exact(x, &f.one(), 0))),
        Op::Withdraw(x, _, None) => Ok(Some(x.clone())),
        Op::Withdraw(x, d, Some(m)) => {
            if *d > 18 {
                return Err(());
            }
            Ok(in_f(Fmt::Dec, round_exact(x, &pow10(18 - *d as u32), *m)))
        }
        Op::Truncate(p, m) => {
            let r = round_exact(p, &pow10(18), *m);
            // the rounded PreciseDecimal must exist, then it is a Decimal iff in range
            if !Fmt::PDec.fits(&r) {
                return Ok(None);
            }
            Ok(in_f(Fmt::Dec, trunc_div(&r, &pow10(18))))
        }
    }
}


/// points within `span` steps of `anchor` on the grid of step d: exact multiples, multiples +-1,
/// exact ties, ties +-1 (only those inside the range of f)
fn family_points(f: Fmt, d: &BigInt, anchor: &BigInt, span: i64) -> Vec<BigInt> {
    let base = floor_div(anchor, d);
    let half: BigInt = d / BigInt::from(2);
    let mut v: Vec<BigInt> = Vec::new();
    for j in -span..=span {
        let m = (&base + BigInt::from(j)) * d;
        for p in [m.clone(), &m + 1, &m - 1, &m + &half, &m + &half + 1, &m + &half - 1] {
            if f.fits(&p) && !v.contains(&p) {
                v.push(p);
            }
        }
    }
    // the limits themselves and their neighbours
    for p in [anchor.clone(), anchor + 1, anchor - 1] {
        if f.fits(&p) && !v.contains(&p) {
            v.push(p);
        }
    }
    v
}

/// The deterministic boundary family (identical for every seed): for both types, every number of
/// decimal places and every mode, values within two steps of MIN and of MAX and one step of 0 (exact
/// multiples, multiples +-1, exact ties, ties +-1) - this contains every case where exactly one of the
/// two neighbouring multiples is unrepresentable - and the same around the limits for floor, ceiling,
/// for_withdrawal and checked_truncate.
fn boundary_family() -> Vec<(Fmt, Op)> {
    let mut out = Vec::new();
    for f in FMTS {
        for dp in 0..=f.scale() {
            let d = pow10(f.scale() - dp);
            let mut pts = family_points(f, &d, &f.min(), 2);
            pts.extend(family_points(f, &d, &f.max(), 2));
            pts.extend(family_points(f, &d, &BigInt::zero(), 1));
            for m in 0..7 {
                for x in &pts {
                    out.push((f, Op::Round(x.clone(), dp as i32, m)));
                }
            }
        }
        let one = f.one();
        let mut pts = family_points(f, &one, &f.min(), 2);
        pts.extend(family_points(f, &one, &f.max(), 2));
        pts.extend(family_points(f, &one, &BigInt::zero(), 1));
        for x in &pts {
            out.push((f, Op::Floor(x.clone())));
            out.push((f, Op::Ceil(x.clone())));
        }
    }
    // for_withdrawal (Decimal): every divisibility, every mode, one step around the limits
    for dv in 0..=18u8 {
        let d = pow10(18 - dv as u32);
        let mut pts = family_points(Fmt::Dec, &d, &Fmt::Dec.min(), 1);
        pts.extend(family_points(Fmt::Dec, &d, &Fmt::Dec.max(), 1));
        for m in 0..7 {
            for x in &pts {
                out.push((Fmt::Dec, Op::Withdraw(x.clone(), dv, Some(m))));
            }
        }
        out.push((Fmt::Dec, Op::Withdraw(Fmt::Dec.min(), dv, None)));
    }
    // checked_truncate: around the PreciseDecimal limits (rounding overflows) and around the images of the
    // Decimal limits (narrowing overflows), and around 0
    let d18 = pow10(18);
    let mut pts = family_points(Fmt::PDec, &d18, &Fmt::PDec.min(), 2);
    pts.extend(family_points(Fmt::PDec, &d18, &Fmt::PDec.max(), 2));
    pts.extend(family_points(Fmt::PDec, &d18, &(Fmt::Dec.min() * &d18), 2));
    pts.extend(family_points(Fmt::PDec, &d18, &(Fmt::Dec.max() * &d18), 2));
    pts.extend(family_points(Fmt::PDec, &d18, &BigInt::zero(), 1));
    for m in 0..7 {
        for p in &pts {
            out.push((Fmt::PDec, Op::Truncate(p.clone(), m)));
        }
    }
    out
}

/// class of a rounding case for the distribution / floors: which limit it is next to, what kind of
/// point it is, whether exactly one neighbouring multiple is unrepresentable, and the expected answer
fn family_class(f: Fmt, x: &BigInt, d: &BigInt, m: usize, expect_some: bool) -> Option<String> {
    let lo = floor_div(x, d) * d;
    let hi = if &lo == x { lo.clone() } else { &lo + d };
    let two_d = d * 2;
    let side = if (x - f.min()) <= two_d {
        "min"
    } else if (f.max() - x) <= two_d {
        "max"
    } else if x.abs() <= *d {
        "zero"
    } else {
        return None;
    };
    let kind = if &lo == x {
        "multiple"
    } else if (x - &lo) * 2 == *d {
        "tie"
    } else if { let t: BigInt = (x - &lo) * 2 - d; t.abs() <= BigInt::from(2) } {
        "neartie"
    } else {
        "other"
    };
    let rep = match (f.fits(&lo), f.fits(&hi)) {
        (true, true) => "bothrep",
        (false, true) => "lounrep",
        (true, false) => "hiunrep",
        (false, false) => "nonerep",
    };
    Some(format!("fam_{}_{}_{}_{}_{}", side, kind, rep, MODES[m].1, if expect_some { "some" } else { "none" }))
}

/// floors for the boundary classes: the counts the deterministic family alone produces (seed independent;
/// regenerate with `c25 --cases 0` and tools in the comment of c25_family_floors.in)
const FAMILY_FLOORS: &[(&str, u64)] = &include!("c25_family_floors.in");
fn family_floors(report: &mut Report) {
    for (k, m) in FAMILY_FLOORS {
        report.floor(k, *m);
    }
}

fn gen_x(rng: &mut Rng, f: Fmt, bnd: &[BigInt], d: &BigInt) -> BigInt {
    let half: BigInt = d / BigInt::from(2);
    let z = match rng.below(10) {
        // exact ties k*d + d/2 (and one off), also at the extremes of the range
        0 | 1 => {
            let k = match rng.below(4) {
                0 => floor_div(&f.max(), d) - BigInt::from(rng.below(3)),
                1 => floor_div(&f.min(), d) + BigInt::from(rng.below(3)),
                2 => BigInt::from(rng.range(0, 6) as i64 - 3),
                _ => floor_div(&rand_signed(rng, f.bits() - 1), d),
            };
            k * d + &half + BigInt::from(if rng.bool() { 0 } else { rng.range(0, 2) as i64 - 1 })
        }
        // multiples and multiples +- 1
        2 => floor_div(&rand_signed(rng, f.bits() - 1), d) * d + BigInt::from(rng.range(0, 2) as i64 - 1),
        // next to the range limits
        3 => {
            let off = rand_signed(rng, 8) + if rng.bool() { half.clone() } else { BigInt::zero() };
            if rng.bool() {
                f.max() - off.abs()
            } else {
                f.min() + off.abs()
            }
        }
        _ => gen_value(rng, f, bnd),
    };
    if f.fits(&z) {
        z
    } else {
        gen_value(rng, f, bnd)
    }
}

fn main() {
    let args = Args::parse();
    let mut report = Report::new(
        "C25",
        args.seed,
        "deterministic boundary family (every seed): both types x every decimal-place count x all 7 modes x values within 2 steps of MIN and MAX and 1 step of 0 \
         (multiples, multiples +-1, exact ties, ties +-1; includes every case where exactly one neighbouring multiple is unrepresentable), same around the limits for \
         floor/ceiling/for_withdrawal/checked_truncate; then random: checked_round over all modes x all places (plus out-of-range counts), floor, ceiling, for_withdrawal, \
         checked_truncate on ties, multiples +-1, range limits, uniform bit length; non-trivial = value not already at the requested precision; distinct by operation text",
    );
    let mut cw = CaseWriter::new("RV.Corr.C25_run RV.Lib.DecCore RV.Model.C25_Round", "check");
    let root = Rng::new(args.seed);
    let bnds = [boundaries(Fmt::Dec), boundaries(Fmt::PDec)];
    let family = boundary_family();
    let nfam = family.len();
    for i in 0..(nfam + args.cases) {
        let mut rng = root.fork(i as u64);
        let f = FMTS[rng.usize_below(2)];
        let bnd = &bnds[if f == Fmt::Dec { 0 } else { 1 }];
        let m = (i + rng.usize_below(7)) % 7;
        let kind = rng.below(12);
        let (f, op) = if i < nfam { family[i].clone() } else { match kind {
            0 => {
                let x = gen_x(&mut rng, f, bnd, &f.one());
                (f, if rng.bool() { Op::Floor(x) } else { Op::Ceil(x) })
            }
            1 => {
                let d = rng.range(0, 18) as u8;
                let d = if rng.chance(1, 10) { rng.range(19, 255) as u8 } else { d };
                let step = pow10(18 - (d.min(18)) as u32);
                let x = gen_x(&mut rng, Fmt::Dec, &bnds[0], &step);
                (Fmt::Dec, Op::Withdraw(x, d, if rng.chance(1, 6) { None } else { Some(m) }))
            }
            2 => {
                let p = if rng.chance(1, 3) {
                    // around the Decimal limits
                    let t = rng.pick(&[Fmt::Dec.min(), Fmt::Dec.max()]).clone();
                    t * pow10(18) + rand_signed(&mut rng, 62)
                } else {
                    gen_x(&mut rng, Fmt::PDec, &bnds[1], &pow10(18))
                };
                let p = if Fmt::PDec.fits(&p) { p } else { BigInt::from(5) * pow10(17) };
                (Fmt::PDec, Op::Truncate(p, m))
            }
            _ => {
                let dp: i32 = if rng.chance(1, 25) {
                    *rng.pick(&[-1, f.scale() as i32 + 1, i32::MIN, i32::MAX, -18, 37, 19])
                } else {
                    ((i / 7) as u32 % (f.scale() + 1)) as i32
                };
                let dpc = dp.clamp(0, f.scale() as i32) as u32;
                let x = gen_x(&mut rng, f, bnd, &pow10(f.scale() - dpc));
                (f, Op::Round(x, dp, m))
            }
        } };
        let out = run_impl(f, &op);
        let exp = expect(f, &op);
        let canon = format!("{} {}", f.name(), op_coq(&op));
        // boundary classes (counted for every case, family or random)
        {
            let some = matches!(exp, Ok(Some(_)));
            let cls = match &op {
                Op::Round(x, dp, mm) if *dp >= 0 && *dp <= f.scale() as i32 => family_class(f, x, &pow10(f.scale() - *dp as u32), *mm, some),
                Op::Floor(x) => family_class(f, x, &f.one(), 1, some).map(|c| format!("floor_{}", c)),
                Op::Ceil(x) => family_class(f, x, &f.one(), 0, some).map(|c| format!("ceiling_{}", c)),
                Op::Withdraw(x, dv, Some(mm)) if *dv <= 18 => family_class(Fmt::Dec, x, &pow10(18 - *dv as u32), *mm, some).map(|c| format!("withdraw_{}", c)),
                Op::Truncate(p, mm) => {
                    // next to the PreciseDecimal limits or to the images of the Decimal limits
                    let d18 = pow10(18);
                    let near = |lim: BigInt| (p - lim).abs() <= &d18 * 2;
                    let side = if near(Fmt::PDec.min()) || near(Fmt::PDec.max()) {
                        Some("pdeclimit")
                    } else if near(Fmt::Dec.min() * &d18) || near(Fmt::Dec.max() * &d18) {
                        Some("declimit")
                    } else {
                        None
                    };
                    side.map(|sd| format!("truncate_{}_{}_{}", sd, MODES[*mm].1, if some { "some" } else { "none" }))
                }
                _ => None,
            };
            if let Some(c) = cls {
                report.count(&c);
            }
        }
        let changed = match (&op, &out) {
            (Op::Round(x, ..), Out::Ok(r)) | (Op::Floor(x), Out::Ok(r)) | (Op::Ceil(x), Out::Ok(r)) | (Op::Withdraw(x, ..), Out::Ok(r)) => x != r,
            (Op::Truncate(p, _), Out::Ok(r)) => &(r * pow10(18)) != p,
            (_, Out::Err(_)) => true,
            _ => false,
        };
        report.case(&canon, changed);
        report.count(match &op {
            Op::Round(..) => "op_round",
            Op::Floor(_) => "op_floor",
            Op::Ceil(_) => "op_ceiling",
            Op::Withdraw(..) => "op_for_withdrawal",
            Op::Truncate(..) => "op_truncate",
        });
        report.count(match &out {
            Out::Ok(_) => "out_ok",
            Out::Err(_) => "out_overflow",
            Out::Panic => "out_panic_bad_places",
        });
        if changed {
            report.count("value_changed_by_rounding");
        }
        if let Op::Round(x, dp, mm) = &op {
            if *dp >= 0 && *dp <= f.scale() as i32 {
                report.count(&format!("mode_{}", MODES[*mm].1));
                let d = pow10(f.scale() - *dp as u32);
                let lo = floor_div(x, &d) * &d;
                if (x - &lo) * 2 == d {
                    report.count("exact_tie");
                }
            }
        }
        let ok = match (&exp, &out) {
            (Ok(Some(e)), Out::Ok(z)) => e == z,
            (Ok(None), Out::Err(_)) => true,
            (Err(()), Out::Panic) => true,
            _ => false,
        };
        if !ok {
            let what = format!("{} {}: implementation returned {} but the mode prescribes {:?}", f.name(), op_coq(&op), out.short(), exp);
            report.oracle_failure(i, "", &what, json!({"format": f.name(), "op": op_coq(&op)}));
        }
        if i < 3 {
            report.sample(json!({"format": f.name(), "op": op_coq(&op), "out": out.short()}));
        }
        cw.push(format!("({}, {}, {})", f.coq(), op_coq(&op), out.coq()));
    }
    report.extra.insert("boundary_family_cases".into(), json!(nfam));
    family_floors(&mut report);
    let n = args.cases as u64;
    report.floor("value_changed_by_rounding", n / 4);
    report.floor("exact_tie", n / 40);
    report.floor("out_overflow", n / 200);
    for (_, name) in MODES.iter() {
        report.floor(&format!("mode_{}", name), n / 30);
    }
    if !args.oracle_only {
        cw.write(&args.out, args.shards).unwrap();
    }
    report.write(&args.out).unwrap();
}
