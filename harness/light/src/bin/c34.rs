//! C34 correspondence harness: builds real V1 notarized, V2 notarized and V2 signed-partial
//! transactions (model structs filled directly, manifests from the ManifestBuilder, genuine ed25519
//! signatures) in which chosen fields sit at limit-1 / limit / limit+1 of the configuration under
//! test, runs the real `prepare` + `validate`, and writes (config read from the real struct, required
//! network, transaction summary, canonical verdict) as Coq cases (model: coq/Model/C34_Validate.v).
//! Direct oracle (independent of the Coq model): the property statement — "accepted iff every field
//! is within its configured limit and the overall window is the non-empty intersection" — evaluated
//! as one flat conjunction on the summary.
use radix_common::prelude::*;
use radix_transactions::errors::*;
use radix_transactions::manifest::*;
use radix_transactions::prelude::*;
use radix_transactions::validation::*;
use serde_json::json;
use vh_common::*;
#[path = "../c34_common.rs"]
mod c34_common;
use c34_common::config_coq;

// ------------------------------------------------------------------------------------------------
// case description
// ------------------------------------------------------------------------------------------------
#[derive(Clone, Debug)]
enum Msg {
    None,
    Plain { mime: usize, msg: usize, bytes: bool },
    Enc { enc: usize, decs: Vec<(u8, u8, usize)> }, // (key curve, actual curve, decryptors)
}
#[derive(Clone, Debug)]
struct IntentSpec {
    network: u8,
    start: u64,
    end: u64,
    min_ts: Option<i64>,
    max_ts: Option<i64>,
    msg: Msg,
    refs: usize,
    fillers: usize, // extra no-op instructions
    blobs: usize,
    parent: Option<usize>, // for non-root subintents: None = child of the root, Some(j) = child of subintent j < own index
    sigs: usize,
}
#[derive(Clone, Debug, PartialEq)]
enum Kind {
    V1,
    V2,
    Partial,
    PreviewV1, // validate_preview_intent_v1 (intent + signer public keys)
    PreviewV2, // PreviewTransactionV2 (transaction intent + public key lists)
}
#[derive(Clone, Debug)]
struct TxSpec {
    kind: Kind,
    tip: u32, // V1: tip_percentage (u16 range), V2: basis points
    root: IntentSpec,
    subs: Vec<IntentSpec>,
    batch_delta: i32,     // number of signature batches - number of subintents
    payload_target: Option<usize>, // pad the root with a blob so that the raw payload has exactly this length
}

/// the summary handed to the model (and to the oracle)
#[derive(Clone, Debug)]
struct IntentSum {
    network: u8,
    start: u64,
    end: u64,
    min_ts: Option<i64>,
    max_ts: Option<i64>,
    msg: Msg,
    refs: usize,
    instrs: usize,
    blobs: usize,
    children: usize,
}
#[derive(Clone, Debug)]
struct TxSum {
    kind: Kind,
    payload_len: usize,
    tip: u32,
    root: IntentSum,
    root_sigs: usize,
    subs: Vec<IntentSum>,
    batches: Vec<usize>,
}

#[derive(Clone, Debug, PartialEq)]
enum Loc {
    Root,
    NonRoot(usize),
    Across,
}
#[derive(Clone, Debug, PartialEq)]
enum Out {
    AcceptV1,
    AcceptV2 { start: u64, end: u64, min_ts: Option<i64>, max_ts: Option<i64> },
    Reject(String), // Coq term of type err
    Panic,
    Unexpected(String),
}

// ------------------------------------------------------------------------------------------------
// building real transactions
// ------------------------------------------------------------------------------------------------
const NET: u8 = 0xf2; // simulator

fn key(i: usize) -> Ed25519PrivateKey {
    Ed25519PrivateKey::from_u64(31000 + i as u64).unwrap()
}
fn permissive() -> PreparationSettings {
    PreparationSettings {
        v2_transactions_permitted: true,
        max_user_payload_length: usize::MAX / 4,
        max_ledger_payload_length: usize::MAX / 4,
        max_child_subintents_per_intent: usize::MAX / 4,
        max_subintents_per_transaction: usize::MAX / 4,
        max_blobs: usize::MAX / 4,
    }
}
fn address(salt: u64, k: usize) -> ComponentAddress {
    let mut b = [0u8; NodeId::LENGTH];
    b[0] = EntityType::GlobalGenericComponent as u8;
    b[1..9].copy_from_slice(&salt.to_be_bytes());
    b[9..17].copy_from_slice(&(k as u64).to_be_bytes());
    ComponentAddress::new_or_panic(b)
}
fn text(n: usize) -> String {
    "a".repeat(n)
}
fn fingerprint(i: usize) -> PublicKeyFingerprint {
    let mut b = [0u8; PublicKeyFingerprint::LENGTH];
    b.copy_from_slice(&(i as u64).to_be_bytes());
    PublicKeyFingerprint(b)
}
fn curve(c: u8) -> CurveType {
    if c == 0 {
        CurveType::Ed25519
    } else {
        CurveType::Secp256k1
    }
}
fn plain(mime: usize, msg: usize, bytes: bool) -> PlaintextMessageV1 {
    PlaintextMessageV1 {
        mime_type: text(mime),
        message: if bytes { MessageContentsV1::Bytes(vec![7u8; msg]) } else { MessageContentsV1::String(text(msg)) },
    }
}
fn message_v1(m: &Msg) -> MessageV1 {
    match m {
        Msg::None => MessageV1::None,
        Msg::Plain { mime, msg, bytes } => MessageV1::Plaintext(plain(*mime, *msg, *bytes)),
        Msg::Enc { enc, decs } => MessageV1::Encrypted(EncryptedMessageV1 {
            encrypted: AesGcmPayload(vec![1u8; *enc]),
            decryptors_by_curve: decs
                .iter()
                .map(|(k, a, n)| {
                    let d: IndexMap<PublicKeyFingerprint, AesWrapped128BitKey> =
                        (0..*n).map(|i| (fingerprint(i), AesWrapped128BitKey([3u8; AesWrapped128BitKey::LENGTH]))).collect();
                    let v = if *a == 0 {
                        DecryptorsByCurve::Ed25519 { dh_ephemeral_public_key: key(0).public_key(), decryptors: d }
                    } else {
                        DecryptorsByCurve::Secp256k1 {
                            dh_ephemeral_public_key: Secp256k1PrivateKey::from_u64(5).unwrap().public_key(),
                            decryptors: d,
                        }
                    };
                    (curve(*k), v)
                })
                .collect(),
        }),
    }
}
fn message_v2(m: &Msg) -> MessageV2 {
    match m {
        Msg::None => MessageV2::None,
        Msg::Plain { mime, msg, bytes } => MessageV2::Plaintext(plain(*mime, *msg, *bytes)),
        Msg::Enc { enc, decs } => MessageV2::Encrypted(EncryptedMessageV2 {
            encrypted: AesGcmPayload(vec![1u8; *enc]),
            decryptors_by_curve: decs
                .iter()
                .map(|(k, a, n)| {
                    let d: IndexMap<PublicKeyFingerprint, AesWrapped256BitKey> =
                        (0..*n).map(|i| (fingerprint(i), AesWrapped256BitKey([3u8; AesWrapped256BitKey::LENGTH]))).collect();
                    let v = if *a == 0 {
                        DecryptorsByCurveV2::Ed25519 { dh_ephemeral_public_key: key(0).public_key(), decryptors: d }
                    } else {
                        DecryptorsByCurveV2::Secp256k1 {
                            dh_ephemeral_public_key: Secp256k1PrivateKey::from_u64(5).unwrap().public_key(),
                            decryptors: d,
                        }
                    };
                    (curve(*k), v)
                })
                .collect(),
        }),
    }
}
fn blobs(n: usize, salt: u64, pad: Option<usize>) -> BlobsV1 {
    let mut v: Vec<BlobV1> = (0..n).map(|i| BlobV1(vec![i as u8, (i >> 8) as u8, salt as u8, (salt >> 8) as u8])).collect();
    if let Some(p) = pad {
        v.push(BlobV1(vec![0x5au8; p]));
    }
    BlobsV1 { blobs: v }
}
fn header_v2(s: &IntentSpec, salt: u64) -> IntentHeaderV2 {
    IntentHeaderV2 {
        network_id: s.network,
        start_epoch_inclusive: Epoch::of(s.start),
        end_epoch_exclusive: Epoch::of(s.end),
        min_proposer_timestamp_inclusive: s.min_ts.map(Instant::new),
        max_proposer_timestamp_exclusive: s.max_ts.map(Instant::new),
        intent_discriminator: salt,
    }
}
fn sign_list(h: &Hash, n: usize, offset: usize) -> Vec<IntentSignatureV1> {
    (0..n).map(|i| IntentSignatureV1(key(1 + ((offset + i) % 60)).sign_with_public_key(h))).collect()
}

/// core of a V2 intent: children hashes are given (already built)
fn core_v2(s: &IntentSpec, salt: u64, children: &[SubintentHash], is_sub: bool, pad: Option<usize>) -> IntentCoreV2 {
    let (instructions, child_set) = if is_sub {
        let mut b = ManifestBuilder::new_subintent_v2();
        for (i, c) in children.iter().enumerate() {
            b = b.use_child(format!("c{}", i), *c);
        }
        for k in 0..s.refs {
            b = b.call_method(address(salt, k), "f", ());
        }
        for _ in 0..s.fillers {
            b = b.drop_auth_zone_proofs();
        }
        for i in 0..children.len() {
            b = b.yield_to_child(format!("c{}", i), ());
        }
        let m = b.yield_to_parent(()).build_no_validate();
        (m.instructions, m.children)
    } else {
        let mut b = ManifestBuilder::new_v2();
        for (i, c) in children.iter().enumerate() {
            b = b.use_child(format!("c{}", i), *c);
        }
        for k in 0..s.refs {
            b = b.call_method(address(salt, k), "f", ());
        }
        for _ in 0..s.fillers {
            b = b.drop_auth_zone_proofs();
        }
        for i in 0..children.len() {
            b = b.yield_to_child(format!("c{}", i), ());
        }
        let m = b.build_no_validate();
        (m.instructions, m.children)
    };
    IntentCoreV2 {
        header: header_v2(s, salt),
        blobs: blobs(s.blobs, salt, pad),
        message: message_v2(&s.msg),
        children: ChildSubintentSpecifiersV2 { children: child_set },
        instructions: InstructionsV2(instructions),
    }
}

struct BuiltV2 {
    root_core: IntentCoreV2,
    subs: Vec<SubintentV2>,
    sub_hashes: Vec<SubintentHash>,
}
fn build_tree(spec: &TxSpec, salt: u64, pad: Option<usize>) -> BuiltV2 {
    let n = spec.subs.len();
    let mut built: Vec<Option<SubintentV2>> = vec![None; n];
    let mut hashes: Vec<Option<SubintentHash>> = vec![None; n];
    let settings = permissive();
    for i in (0..n).rev() {
        let ch: Vec<SubintentHash> = (0..n).filter(|j| spec.subs[*j].parent == Some(i)).map(|j| hashes[j].unwrap()).collect();
        let s = SubintentV2 { intent_core: core_v2(&spec.subs[i], salt.wrapping_add(1 + i as u64), &ch, true, None) };
        let h = s.prepare(&settings).expect("subintent prepare").subintent_hash();
        built[i] = Some(s);
        hashes[i] = Some(h);
    }
    let root_children: Vec<SubintentHash> = (0..n).filter(|j| spec.subs[*j].parent.is_none()).map(|j| hashes[j].unwrap()).collect();
    let root_core = core_v2(&spec.root, salt, &root_children, spec.kind == Kind::Partial, pad);
    BuiltV2 {
        root_core,
        subs: built.into_iter().map(|x| x.unwrap()).collect(),
        sub_hashes: hashes.into_iter().map(|x| x.unwrap()).collect(),
    }
}
fn batches_for(spec: &TxSpec, hashes: &[SubintentHash]) -> Vec<IntentSignaturesV2> {
    let n = spec.subs.len() as i32 + spec.batch_delta;
    (0..n.max(0) as usize)
        .map(|i| {
            if i < spec.subs.len() {
                IntentSignaturesV2 { signatures: sign_list(hashes[i].as_hash(), spec.subs[i].sigs, 7 * i) }
            } else {
                IntentSignaturesV2 { signatures: vec![] }
            }
        })
        .collect()
}

fn build_raw(spec: &TxSpec, salt: u64, pad: Option<usize>) -> Vec<u8> {
    let settings = permissive();
    match spec.kind {
        Kind::V1 | Kind::PreviewV1 => {
            let s = &spec.root;
            let mut b = ManifestBuilder::new();
            for k in 0..s.refs {
                b = b.call_method(address(salt, k), "f", ());
            }
            for _ in 0..s.fillers {
                b = b.drop_auth_zone_proofs();
            }
            let manifest = b.build_no_validate();
            let intent = IntentV1 {
                header: TransactionHeaderV1 {
                    network_id: s.network,
                    start_epoch_inclusive: Epoch::of(s.start),
                    end_epoch_exclusive: Epoch::of(s.end),
                    nonce: salt as u32,
                    notary_public_key: key(0).public_key().into(),
                    notary_is_signatory: false,
                    tip_percentage: spec.tip as u16,
                },
                instructions: InstructionsV1(manifest.instructions),
                blobs: blobs(s.blobs, salt, pad),
                message: message_v1(&s.msg),
            };
            if spec.kind == Kind::PreviewV1 {
                let pi = PreviewIntentV1 {
                    intent,
                    signer_public_keys: (0..s.sigs).map(|i| key(1 + (i % 60)).public_key().into()).collect(),
                    flags: PreviewFlags { use_free_credit: true, assume_all_signature_proofs: false, skip_epoch_check: false, disable_auth: false },
                };
                return manifest_encode(&pi).expect("encode");
            }
            let ih = intent.prepare(&settings).expect("intent prepare").transaction_intent_hash();
            let signed = SignedIntentV1 {
                intent,
                intent_signatures: IntentSignaturesV1 { signatures: sign_list(ih.as_hash(), s.sigs, 0) },
            };
            let sh = signed.prepare(&settings).expect("signed prepare").signed_transaction_intent_hash();
            let tx = NotarizedTransactionV1 {
                signed_intent: signed,
                notary_signature: NotarySignatureV1(key(0).sign_without_public_key(sh.as_hash())),
            };
            tx.to_raw().expect("encode").to_vec()
        }
        Kind::V2 | Kind::PreviewV2 => {
            let t = build_tree(spec, salt, pad);
            let intent = TransactionIntentV2 {
                transaction_header: TransactionHeaderV2 {
                    notary_public_key: key(0).public_key().into(),
                    notary_is_signatory: false,
                    tip_basis_points: spec.tip,
                },
                root_intent_core: t.root_core,
                non_root_subintents: NonRootSubintentsV2(t.subs),
            };
            if spec.kind == Kind::PreviewV2 {
                let keys = |n: usize, off: usize| -> Vec<PublicKey> { (0..n).map(|i| key(1 + ((off + i) % 60)).public_key().into()).collect() };
                let nb = (spec.subs.len() as i32 + spec.batch_delta).max(0) as usize;
                let pv = PreviewTransactionV2 {
                    transaction_intent: intent,
                    root_signer_public_keys: keys(spec.root.sigs, 3).into_iter().collect(),
                    non_root_subintent_signer_public_keys: (0..nb).map(|i| if i < spec.subs.len() { keys(spec.subs[i].sigs, 7 * i) } else { vec![] }).collect(),
                };
                return pv.to_raw().expect("encode").to_vec();
            }
            let ih = intent.prepare(&settings).expect("intent prepare").transaction_intent_hash();
            let signed = SignedTransactionIntentV2 {
                transaction_intent: intent,
                transaction_intent_signatures: IntentSignaturesV2 { signatures: sign_list(ih.as_hash(), spec.root.sigs, 3) },
                non_root_subintent_signatures: NonRootSubintentSignaturesV2 { by_subintent: batches_for(spec, &t.sub_hashes) },
            };
            let sh = signed.prepare(&settings).expect("signed prepare").signed_transaction_intent_hash();
            let tx = NotarizedTransactionV2 {
                signed_transaction_intent: signed,
                notary_signature: NotarySignatureV2(key(0).sign_without_public_key(sh.as_hash())),
            };
            tx.to_raw().expect("encode").to_vec()
        }
        Kind::Partial => {
            let t = build_tree(spec, salt, pad);
            let root = SubintentV2 { intent_core: t.root_core };
            let rh = root.prepare(&settings).expect("root prepare").subintent_hash();
            let tx = SignedPartialTransactionV2 {
                partial_transaction: PartialTransactionV2 { root_subintent: root, non_root_subintents: NonRootSubintentsV2(t.subs) },
                root_subintent_signatures: IntentSignaturesV2 { signatures: sign_list(rh.as_hash(), spec.root.sigs, 3) },
                non_root_subintent_signatures: NonRootSubintentSignaturesV2 { by_subintent: batches_for(spec, &t.sub_hashes) },
            };
            tx.to_raw().expect("encode").to_vec()
        }
    }
}

/// builds the payload; with a payload target, pads the root with one extra blob so that the raw
/// length is exactly the target (the blob count of the root grows by one: reflected by the caller)
fn build_with_target(spec: &TxSpec, salt: u64) -> (Vec<u8>, bool) {
    match spec.payload_target {
        None => (build_raw(spec, salt, None), false),
        Some(target) => {
            let base = build_raw(spec, salt, Some(0)).len();
            if target <= base + 8 {
                return (build_raw(spec, salt, None), false);
            }
            let mut pad = target - base;
            for _ in 0..6 {
                let raw = build_raw(spec, salt, Some(pad));
                if raw.len() == target {
                    return (raw, true);
                }
                pad = (pad as i64 + target as i64 - raw.len() as i64) as usize;
            }
            (build_raw(spec, salt, Some(pad)), true)
        }
    }
}

// ------------------------------------------------------------------------------------------------
// running the implementation
// ------------------------------------------------------------------------------------------------
fn loc_of(l: &TransactionValidationErrorLocation) -> Option<Loc> {
    Some(match l {
        TransactionValidationErrorLocation::RootTransactionIntent(_) | TransactionValidationErrorLocation::RootSubintent(_) => Loc::Root,
        TransactionValidationErrorLocation::NonRootSubintent(i, _) => Loc::NonRoot(i.0),
        TransactionValidationErrorLocation::AcrossTransaction => Loc::Across,
        TransactionValidationErrorLocation::Unlocatable => return None,
    })
}
fn loc_coq(l: &Loc) -> String {
    match l {
        Loc::Root => "Root".into(),
        Loc::NonRoot(i) => format!("(NonRoot {})", i),
        Loc::Across => "Across".into(),
    }
}
fn prepare_err(e: PrepareError) -> Out {
    match e {
        PrepareError::TransactionTooLarge => Out::Reject("PrepareTransactionTooLarge".into()),
        PrepareError::TransactionTypeNotSupported => Out::Reject("PrepareTransactionTypeNotSupported".into()),
        PrepareError::TooManyValues { value_type, actual, max } => {
            let v = match value_type {
                ValueType::Blob => "VBlob",
                ValueType::Subintent => "VSubintent",
                ValueType::ChildSubintentSpecifier => "VChildSubintentSpecifier",
                ValueType::SubintentSignatureBatches => "VSubintentSignatureBatches",
            };
            Out::Reject(format!("(PrepareTooManyValues {} {} {})", v, actual, max))
        }
        other => Out::Unexpected(format!("PrepareError {:?}", other)),
    }
}
fn classify(e: TransactionValidationError) -> Out {
    use TransactionValidationError as E;
    match e {
        E::PrepareError(p) => prepare_err(p),
        E::TransactionVersionNotPermitted(_) => Out::Reject("TransactionVersionNotPermitted".into()),
        E::SignatureValidationError(l, SignatureValidationError::TooManySignatures { total, limit }) => match loc_of(&l) {
            Some(l) => Out::Reject(format!("(TooManySignatures {} {} {})", loc_coq(&l), total, limit)),
            None => Out::Unexpected("unlocatable".into()),
        },
        E::SignatureValidationError(_, SignatureValidationError::IncorrectNumberOfSubintentSignatureBatches) => {
            Out::Reject("IncorrectNumberOfSubintentSignatureBatches".into())
        }
        E::IntentValidationError(l, ie) => {
            let l = match loc_of(&l) {
                Some(l) => l,
                None => return Out::Unexpected("unlocatable".into()),
            };
            match ie {
                IntentValidationError::HeaderValidationError(h) => Out::Reject(format!("(HeaderError {} {:?})", loc_coq(&l), h)),
                IntentValidationError::InvalidMessage(m) => {
                    let k = match m {
                        InvalidMessageError::PlaintextMessageTooLong { .. } => "PlaintextMessageTooLong",
                        InvalidMessageError::MimeTypeTooLong { .. } => "MimeTypeTooLong",
                        InvalidMessageError::EncryptedMessageTooLong { .. } => "EncryptedMessageTooLong",
                        InvalidMessageError::NoDecryptors => "NoDecryptors",
                        InvalidMessageError::MismatchingDecryptorCurves { .. } => "MismatchingDecryptorCurves",
                        InvalidMessageError::TooManyDecryptors { .. } => "TooManyDecryptors",
                        InvalidMessageError::NoDecryptorsForCurveType { .. } => "NoDecryptorsForCurveType",
                    };
                    Out::Reject(format!("(MessageError {} {})", loc_coq(&l), k))
                }
                IntentValidationError::TooManyReferences { total, limit } => {
                    Out::Reject(format!("(TooManyReferences {} {} {})", loc_coq(&l), total, limit))
                }
                IntentValidationError::ManifestValidationError(ManifestValidationError::TooManyInstructions) => {
                    Out::Reject(format!("(TooManyInstructions {})", loc_coq(&l)))
                }
                other => Out::Unexpected(format!("{:?}", other)),
            }
        }
        other => Out::Unexpected(format!("{:?}", other)),
    }
}
fn range_out(r: &OverallValidityRangeV2) -> Out {
    Out::AcceptV2 {
        start: r.epoch_range.start_epoch_inclusive.number(),
        end: r.epoch_range.end_epoch_exclusive.number(),
        min_ts: r.proposer_timestamp_range.start_timestamp_inclusive.map(|i| i.seconds_since_unix_epoch),
        max_ts: r.proposer_timestamp_range.end_timestamp_exclusive.map(|i| i.seconds_since_unix_epoch),
    }
}
/// returns the verdict and, when preparation succeeded, the reference counts per intent (root first)
fn run_impl(kind: &Kind, raw: &[u8], validator: &TransactionValidator) -> (Out, Option<Vec<usize>>) {
    let r = catch(std::panic::AssertUnwindSafe(|| match kind {
        Kind::V1 => {
            let raw = RawNotarizedTransaction::from_vec(raw.to_vec());
            match PreparedNotarizedTransactionV1::prepare(&raw, validator.preparation_settings()) {
                Err(e) => (prepare_err(e), None),
                Ok(p) => {
                    #[allow(deprecated)]
                    let refs = vec![p.signed_intent.intent.instructions.references.len()];
                    match p.validate(validator) {
                        Ok(_) => (Out::AcceptV1, Some(refs)),
                        Err(e) => (classify(e), Some(refs)),
                    }
                }
            }
        }
        Kind::V2 => {
            let raw = RawNotarizedTransaction::from_vec(raw.to_vec());
            match PreparedNotarizedTransactionV2::prepare(&raw, validator.preparation_settings()) {
                Err(e) => (prepare_err(e), None),
                Ok(p) => {
                    let ti = &p.signed_intent.transaction_intent;
                    let mut refs = vec![ti.root_intent_core.instructions.references.len()];
                    refs.extend(ti.non_root_subintents.subintents.iter().map(|s| s.intent_core.instructions.references.len()));
                    match p.validate(validator) {
                        Ok(v) => (range_out(&v.overall_validity_range), Some(refs)),
                        Err(e) => (classify(e), Some(refs)),
                    }
                }
            }
        }
        Kind::PreviewV1 => {
            let pi: PreviewIntentV1 = manifest_decode(raw).expect("decode preview intent");
            #[allow(deprecated)]
            match validator.validate_preview_intent_v1(pi) {
                Ok(v) => {
                    let refs = vec![v.intent.instructions.references.len()];
                    (Out::AcceptV1, Some(refs))
                }
                Err(e) => (classify(e), None),
            }
        }
        Kind::PreviewV2 => {
            let raw = RawPreviewTransaction::from_vec(raw.to_vec());
            match PreparedPreviewTransactionV2::prepare(&raw, validator.preparation_settings()) {
                Err(e) => (prepare_err(e), None),
                Ok(p) => {
                    let ti = &p.transaction_intent;
                    let mut refs = vec![ti.root_intent_core.instructions.references.len()];
                    refs.extend(ti.non_root_subintents.subintents.iter().map(|s| s.intent_core.instructions.references.len()));
                    match p.validate(validator) {
                        Ok(v) => (range_out(&v.overall_validity_range), Some(refs)),
                        Err(e) => (classify(e), Some(refs)),
                    }
                }
            }
        }
        Kind::Partial => {
            let raw = RawSignedPartialTransaction::from_vec(raw.to_vec());
            match PreparedSignedPartialTransactionV2::prepare(&raw, validator.preparation_settings()) {
                Err(e) => (prepare_err(e), None),
                Ok(p) => {
                    let pt = &p.partial_transaction;
                    let mut refs = vec![pt.root_subintent.intent_core.instructions.references.len()];
                    refs.extend(pt.non_root_subintents.subintents.iter().map(|s| s.intent_core.instructions.references.len()));
                    match p.validate(validator) {
                        Ok(v) => (range_out(&v.overall_validity_range), Some(refs)),
                        Err(e) => (classify(e), Some(refs)),
                    }
                }
            }
        }
    }));
    match r {
        Ok(x) => x,
        Err(_) => (Out::Panic, None),
    }
}

// ------------------------------------------------------------------------------------------------
// summary
// ------------------------------------------------------------------------------------------------
fn summarize(spec: &TxSpec, payload_len: usize, padded: bool) -> TxSum {
    let n = spec.subs.len();
    let children_of = |me: Option<usize>| (0..n).filter(|j| spec.subs[*j].parent == me).count();
    let isum = |s: &IntentSpec, me: Option<usize>, is_sub: bool, extra_blob: bool| {
        let ch = children_of(me);
        IntentSum {
            network: s.network,
            start: s.start,
            end: s.end,
            min_ts: s.min_ts,
            max_ts: s.max_ts,
            msg: s.msg.clone(),
            refs: s.refs,
            instrs: s.refs + s.fillers + ch + if is_sub { 1 } else { 0 },
            blobs: s.blobs + if extra_blob { 1 } else { 0 },
            children: ch,
        }
    };
    let nb = (n as i32 + spec.batch_delta).max(0) as usize;
    TxSum {
        kind: spec.kind.clone(),
        payload_len,
        tip: spec.tip,
        root: match spec.kind {
            Kind::V1 | Kind::PreviewV1 => {
                let mut r = isum(&spec.root, None, false, padded);
                r.children = 0;
                r.instrs = spec.root.refs + spec.root.fillers;
                r
            }
            Kind::V2 | Kind::PreviewV2 => isum(&spec.root, None, false, padded),
            Kind::Partial => isum(&spec.root, None, true, padded),
        },
        root_sigs: spec.root.sigs,
        subs: (0..n).map(|i| isum(&spec.subs[i], Some(i), true, false)).collect(),
        batches: (0..nb).map(|i| if i < n { spec.subs[i].sigs } else { 0 }).collect(),
    }
}

fn optz(x: &Option<i64>) -> String {
    match x {
        Some(v) => format!("(Some {})", coq_z(v)),
        None => "None".into(),
    }
}
fn msg_coq(m: &Msg) -> String {
    match m {
        Msg::None => "MNone".into(),
        Msg::Plain { mime, msg, .. } => format!("(MPlaintext {} {})", mime, msg),
        Msg::Enc { enc, decs } => format!(
            "(MEncrypted {} {})",
            enc,
            coq_list(decs.iter().map(|(k, a, n)| format!("({},{},{})", k, a, n)))
        ),
    }
}
fn intent_coq(i: &IntentSum) -> String {
    format!(
        "(Build_intent_v2 (Build_header_v2 {} {} {} {} {}) {} {} {} {} {})",
        i.network, i.start, i.end, optz(&i.min_ts), optz(&i.max_ts), msg_coq(&i.msg), i.refs, i.instrs, i.blobs, i.children
    )
}
fn sum_coq(s: &TxSum) -> String {
    match s.kind {
        Kind::V1 | Kind::PreviewV1 => format!(
            "({} (Build_tx_v1 {} (Build_header_v1 {} {} {} {}) {} {} {} {} {}))",
            if s.kind == Kind::V1 { "T1" } else { "T1P" },
            s.payload_len, s.root.network, s.root.start, s.root.end, s.tip, msg_coq(&s.root.msg), s.root.refs, s.root.instrs, s.root.blobs, s.root_sigs
        ),
        _ => format!(
            "(T2 (Build_tx_v2 {} {} {} {} {} {} {}))",
            s.payload_len,
            if s.kind != Kind::Partial { format!("(Some {})", s.tip) } else { "None".to_string() },
            intent_coq(&s.root),
            s.root_sigs,
            coq_list(s.subs.iter().map(intent_coq)),
            coq_list(s.batches.iter().map(|b| b.to_string())),
            coq_bool(s.kind == Kind::PreviewV2)
        ),
    }
}
fn out_coq(o: &Out) -> String {
    match o {
        Out::AcceptV1 => "AcceptV1".into(),
        Out::AcceptV2 { start, end, min_ts, max_ts } => format!("(AcceptV2 (Build_range {} {} {} {}))", start, end, optz(min_ts), optz(max_ts)),
        Out::Reject(e) => format!("(Reject {})", e),
        Out::Panic => "PanicDepthUnderflow".into(),
        // never produced by the model on a case the oracle accepts as in-model: shows as disagreement
        Out::Unexpected(_) => "(Reject (TooManyInstructions (NonRoot 999999)))".into(),
    }
}

// ------------------------------------------------------------------------------------------------
// direct oracle: the property statement as a flat conjunction
// ------------------------------------------------------------------------------------------------
fn msg_within(c: &TransactionValidationConfig, m: &Msg) -> bool {
    let v = &c.message_validation;
    match m {
        Msg::None => true,
        Msg::Plain { mime, msg, .. } => *mime <= v.max_mime_type_length && *msg <= v.max_plaintext_message_length,
        Msg::Enc { enc, decs } => {
            *enc <= v.max_encrypted_message_length
                && !decs.is_empty()
                && decs.iter().all(|(k, a, n)| k == a && *n >= 1)
                && decs.iter().map(|d| d.2).sum::<usize>() <= v.max_decryptors
        }
    }
}
fn epoch_within(c: &TransactionValidationConfig, s: u64, e: u64) -> bool {
    s < e && (e as u128) <= s as u128 + c.max_epoch_range as u128 && s as u128 + c.max_epoch_range as u128 <= u64::MAX as u128
}
fn within(c: &TransactionValidationConfig, net: Option<u8>, t: &TxSum) -> (bool, Option<(u64, u64, Option<i64>, Option<i64>)>) {
    let p = &c.preparation_settings;
    let net_ok = |n: u8| net.map(|r| r == n).unwrap_or(true);
    match t.kind {
        Kind::V1 | Kind::PreviewV1 => {
            let r = &t.root;
            let pv = t.kind == Kind::PreviewV1; // preview: nothing about the payload length or signatures
            let ok = (pv || t.payload_len <= p.max_user_payload_length)
                && r.blobs <= p.max_blobs
                && (pv || t.root_sigs <= c.max_signer_signatures_per_intent)
                && net_ok(r.network)
                && epoch_within(c, r.start, r.end)
                && (c.min_tip_percentage as u32) <= t.tip
                && t.tip <= c.max_tip_percentage as u32
                && msg_within(c, &r.msg)
                && r.refs <= c.max_references_per_intent
                && r.instrs <= c.max_instructions
                && r.refs <= c.max_total_references
                && (pv || t.root_sigs + 1 <= c.max_total_signature_validations);
            (ok, None)
        }
        _ => {
            let all: Vec<&IntentSum> = std::iter::once(&t.root).chain(t.subs.iter()).collect();
            let is_tx = t.kind != Kind::Partial;
            let pv = t.kind == Kind::PreviewV2;
            let start = all.iter().map(|i| i.start).max().unwrap();
            let end = all.iter().map(|i| i.end).min().unwrap().min(u64::MAX);
            let min_ts = all.iter().filter_map(|i| i.min_ts).max();
            let max_ts = all.iter().filter_map(|i| i.max_ts).min();
            let ok = (!is_tx || pv || t.payload_len <= p.max_user_payload_length)
                && (is_tx || c.max_subintent_depth != 0)
                && p.v2_transactions_permitted
                && all.iter().all(|i| i.blobs <= p.max_blobs && i.children <= p.max_child_subintents_per_intent)
                && t.subs.len() <= p.max_subintents_per_transaction
                && (pv || t.batches.len() <= p.max_subintents_per_transaction)
                && c.v2_transactions_allowed
                && t.root_sigs <= c.max_signer_signatures_per_intent
                && t.subs.len() == t.batches.len()
                && t.batches.iter().all(|b| *b <= c.max_signer_signatures_per_intent)
                && (!is_tx || (c.min_tip_basis_points <= t.tip && t.tip <= c.max_tip_basis_points))
                && all.iter().all(|i| {
                    net_ok(i.network)
                        && epoch_within(c, i.start, i.end)
                        && match (i.min_ts, i.max_ts) {
                            (Some(a), Some(b)) => a < b,
                            _ => true,
                        }
                        && msg_within(c, &i.msg)
                        && i.refs <= c.max_references_per_intent
                        && i.instrs <= c.max_instructions
                })
                && start < end
                && match (min_ts, max_ts) {
                    (Some(a), Some(b)) => a < b,
                    _ => true,
                }
                && all.iter().map(|i| i.refs).sum::<usize>() <= c.max_total_references
                && t.root_sigs + if is_tx { 1 } else { 0 } + t.batches.iter().sum::<usize>() <= c.max_total_signature_validations;
            (ok, Some((start, end, min_ts, max_ts)))
        }
    }
}


// ------------------------------------------------------------------------------------------------
// deterministic boundary family (identical for every seed; runs before the random stream)
// ------------------------------------------------------------------------------------------------
struct BCase {
    class: String,
    cfg_name: &'static str,
    net: Option<u8>,
    spec: TxSpec,
    expect: &'static str,
}
/// verdict without the reported numbers: "accept" | "<Constructor> <location / sub-kind>"
fn verdict_tag(o: &Out) -> String {
    match o {
        Out::AcceptV1 | Out::AcceptV2 { .. } => "accept".into(),
        Out::Unexpected(w) => format!("unexpected {}", w),
        Out::Panic => "panic".into(),
        Out::Reject(e) => {
            let inner = e.trim_start_matches('(').trim_end_matches(')').replace("(NonRoot ", "NonRoot_").replace(')', "");
            let toks: Vec<&str> = inner.split(' ').filter(|t| !t.is_empty() && !t.chars().all(|c| c.is_ascii_digit())).collect();
            toks.join(" ")
        }
    }
}
fn ispec(start: u64, end: u64) -> IntentSpec {
    IntentSpec { network: NET, start, end, min_ts: None, max_ts: None, msg: Msg::None, refs: 0, fillers: 1, blobs: 0, parent: None, sigs: 0 }
}
fn tspec(kind: Kind, tip: u32, root: IntentSpec, subs: Vec<IntentSpec>) -> TxSpec {
    TxSpec { kind, tip, root, subs, batch_delta: 0, payload_target: None }
}
const MAXE: u64 = u64::MAX;

fn boundary_family() -> Vec<BCase> {
    let mut v: Vec<BCase> = vec![];
    let mut add = |class: &str, cfg_name: &'static str, net: Option<u8>, spec: TxSpec, expect: &'static str| {
        v.push(BCase { class: format!("b_{}_{}", cfg_name, class), cfg_name, net, spec, expect });
    };
    let n = Some(NET);
    let s = "variant_small";
    let st = "variant_small_tight_totals";
    let plain = |mime: usize, msg: usize, bytes: bool| Msg::Plain { mime, msg, bytes };
    let enc = |e: usize, d: Vec<(u8, u8, usize)>| Msg::Enc { enc: e, decs: d };

    // ======================= V1 under the small configuration =======================
    let v1 = |f: &dyn Fn(&mut IntentSpec)| {
        let mut r = ispec(100, 105);
        r.sigs = 1;
        f(&mut r);
        tspec(Kind::V1, 2, r, vec![])
    };
    add("v1_base", s, n, v1(&|_| {}), "accept");
    for (k, e) in [(2usize, "accept"), (3, "accept"), (4, "TooManySignatures Root")] {
        add(&format!("v1_sigs_{}", k), s, n, v1(&|r| r.sigs = k), e);
    }
    add("v1_sigs_total_at", st, n, v1(&|r| r.sigs = 2), "accept");
    add("v1_sigs_total_over", st, n, v1(&|r| r.sigs = 3), "TooManySignatures Across");
    add("v1_network_wrong", s, n, v1(&|r| r.network = 7), "HeaderError Root InvalidNetwork");
    add("v1_network_wrong_agnostic", s, None, v1(&|r| r.network = 7), "accept");
    for (name, st_, en, e) in [
        ("empty", 100u64, 100u64, "HeaderError Root InvalidEpochRange"),
        ("negative", 100, 99, "HeaderError Root InvalidEpochRange"),
        ("one", 100, 101, "accept"),
        ("range_minus1", 100, 149, "accept"),
        ("range_at", 100, 150, "accept"),
        ("range_plus1", 100, 151, "HeaderError Root InvalidEpochRange"),
        ("zero_start", 0, 50, "accept"),
        ("max_end_at_u64max", MAXE - 50, MAXE, "accept"),
        ("checked_add_overflow", MAXE - 49, MAXE, "HeaderError Root InvalidEpochRange"),
        ("checked_add_overflow_short", MAXE - 49, MAXE - 48, "HeaderError Root InvalidEpochRange"),
        ("below_u64max_over_range", MAXE - 51, MAXE, "HeaderError Root InvalidEpochRange"),
        ("start_u64max", MAXE, MAXE, "HeaderError Root InvalidEpochRange"),
    ] {
        add(&format!("v1_epoch_{}", name), s, n, v1(&|r| { r.start = st_; r.end = en; }), e);
    }
    for (t, e) in [(1u32, "HeaderError Root InvalidTip"), (2, "accept"), (9, "accept"), (10, "HeaderError Root InvalidTip")] {
        let mut x = v1(&|_| {});
        x.tip = t;
        add(&format!("v1_tip_{}", t), s, n, x, e);
    }
    add("v1_order_network_before_epoch", s, n, v1(&|r| { r.network = 7; r.end = 100; }), "HeaderError Root InvalidNetwork");
    let mut x = v1(&|r| r.end = 100);
    x.tip = 10;
    add("v1_order_epoch_before_tip", s, n, x, "HeaderError Root InvalidEpochRange");
    add("v1_order_sigs_before_header", s, n, v1(&|r| { r.sigs = 4; r.network = 7; }), "TooManySignatures Root");
    for (name, m, e) in [
        ("mime_5", plain(5, 0, false), "accept"),
        ("mime_6", plain(6, 0, false), "accept"),
        ("mime_7", plain(7, 0, false), "MessageError Root MimeTypeTooLong"),
        ("plain_19", plain(0, 19, false), "accept"),
        ("plain_20", plain(0, 20, false), "accept"),
        ("plain_21", plain(0, 21, false), "MessageError Root PlaintextMessageTooLong"),
        ("plain_bytes_20", plain(0, 20, true), "accept"),
        ("plain_bytes_21", plain(0, 21, true), "MessageError Root PlaintextMessageTooLong"),
        ("mime_before_plain", plain(7, 21, false), "MessageError Root MimeTypeTooLong"),
        ("plain_empty", plain(0, 0, false), "accept"),
        ("enc_29", enc(29, vec![(0, 0, 1)]), "accept"),
        ("enc_30", enc(30, vec![(0, 0, 1)]), "accept"),
        ("enc_31", enc(31, vec![(0, 0, 1)]), "MessageError Root EncryptedMessageTooLong"),
        ("enc_len_before_no_decryptors", enc(31, vec![]), "MessageError Root EncryptedMessageTooLong"),
        ("enc_no_decryptors", enc(1, vec![]), "MessageError Root NoDecryptors"),
        ("enc_curve_mismatch_first", enc(1, vec![(0, 1, 1)]), "MessageError Root MismatchingDecryptorCurves"),
        ("enc_curve_mismatch_second", enc(1, vec![(0, 0, 1), (1, 0, 1)]), "MessageError Root MismatchingDecryptorCurves"),
        ("enc_zero_decryptors_first", enc(1, vec![(0, 0, 0)]), "MessageError Root NoDecryptorsForCurveType"),
        ("enc_zero_decryptors_second", enc(1, vec![(0, 0, 1), (1, 1, 0)]), "MessageError Root NoDecryptorsForCurveType"),
        ("enc_mismatch_before_zero", enc(1, vec![(1, 0, 0)]), "MessageError Root MismatchingDecryptorCurves"),
        ("enc_zero_before_too_many", enc(1, vec![(0, 0, 5), (1, 1, 0)]), "MessageError Root NoDecryptorsForCurveType"),
        ("enc_decryptors_3", enc(1, vec![(0, 0, 3)]), "accept"),
        ("enc_decryptors_4", enc(1, vec![(0, 0, 4)]), "accept"),
        ("enc_decryptors_5", enc(1, vec![(0, 0, 5)]), "MessageError Root TooManyDecryptors"),
        ("enc_decryptors_secp_4", enc(1, vec![(1, 1, 4)]), "accept"),
        ("enc_decryptors_2_plus_2", enc(1, vec![(0, 0, 2), (1, 1, 2)]), "accept"),
        ("enc_decryptors_2_plus_3", enc(1, vec![(1, 1, 2), (0, 0, 3)]), "MessageError Root TooManyDecryptors"),
        ("enc_empty_payload", enc(0, vec![(0, 0, 1)]), "accept"),
    ] {
        let m2 = m.clone();
        add(&format!("v1_msg_{}", name), s, n, v1(&|r| r.msg = m2.clone()), e);
    }
    add("v1_order_header_before_message", s, n, v1(&|r| { r.end = 100; r.msg = Msg::Plain { mime: 7, msg: 0, bytes: false }; }), "HeaderError Root InvalidEpochRange");
    add("v1_order_message_before_refs", s, n, v1(&|r| { r.refs = 5; r.msg = Msg::Plain { mime: 7, msg: 0, bytes: false }; }), "MessageError Root MimeTypeTooLong");
    for (k, e) in [(3usize, "accept"), (4, "accept"), (5, "TooManyReferences Root")] {
        add(&format!("v1_refs_{}", k), s, n, v1(&|r| r.refs = k), e);
    }
    add("v1_refs_total_at", st, n, v1(&|r| r.refs = 3), "accept");
    add("v1_refs_total_over", st, n, v1(&|r| r.refs = 4), "TooManyReferences Across");
    add("v1_order_refs_total_before_sigs_total", st, n, v1(&|r| { r.refs = 4; r.sigs = 3; }), "TooManyReferences Across");
    for (k, e) in [(0usize, "accept"), (11, "accept"), (12, "accept"), (13, "TooManyInstructions Root")] {
        add(&format!("v1_instructions_{}", k), s, n, v1(&|r| r.fillers = k), e);
    }
    add("v1_order_refs_before_instructions", s, n, v1(&|r| { r.refs = 5; r.fillers = 8; }), "TooManyReferences Root");
    add("v1_instructions_at_with_refs", s, n, v1(&|r| { r.refs = 4; r.fillers = 8; }), "accept");
    for (k, e) in [(1usize, "accept"), (2, "accept"), (3, "PrepareTooManyValues VBlob")] {
        add(&format!("v1_blobs_{}", k), s, n, v1(&|r| r.blobs = k), e);
    }
    for (t, e) in [(5999usize, "accept"), (6000, "accept"), (6001, "PrepareTransactionTooLarge")] {
        let mut x = v1(&|_| {});
        x.payload_target = Some(t);
        add(&format!("v1_payload_{}", t), s, n, x, e);
    }
    let mut x = v1(&|r| r.blobs = 3);
    x.payload_target = Some(6001);
    add("v1_order_payload_before_blobs", s, n, x, "PrepareTransactionTooLarge");
    add("v1_order_blobs_before_sigs", s, n, v1(&|r| { r.blobs = 3; r.sigs = 4; }), "PrepareTooManyValues VBlob");

    // ======================= V1 under the shipped configurations =======================
    for cfgn in ["latest", "babylon"] {
        let w = |f: &dyn Fn(&mut IntentSpec)| {
            let mut r = ispec(100, 105);
            r.sigs = 1;
            f(&mut r);
            tspec(Kind::V1, 0, r, vec![])
        };
        add("v1_base", cfgn, n, w(&|_| {}), "accept");
        add("v1_sigs_16", cfgn, n, w(&|r| r.sigs = 16), "accept");
        add("v1_sigs_17", cfgn, n, w(&|r| r.sigs = 17), "TooManySignatures Root");
        add("v1_blobs_64", cfgn, n, w(&|r| r.blobs = 64), "accept");
        add("v1_blobs_65", cfgn, n, w(&|r| r.blobs = 65), "PrepareTooManyValues VBlob");
        add("v1_epoch_8640", cfgn, n, w(&|r| r.end = 100 + 8640), "accept");
        add("v1_epoch_8641", cfgn, n, w(&|r| r.end = 100 + 8641), "HeaderError Root InvalidEpochRange");
        add("v1_mime_128", cfgn, n, w(&|r| r.msg = Msg::Plain { mime: 128, msg: 1, bytes: false }), "accept");
        add("v1_mime_129", cfgn, n, w(&|r| r.msg = Msg::Plain { mime: 129, msg: 1, bytes: false }), "MessageError Root MimeTypeTooLong");
        add("v1_plain_2048", cfgn, n, w(&|r| r.msg = Msg::Plain { mime: 1, msg: 2048, bytes: true }), "accept");
        add("v1_plain_2049", cfgn, n, w(&|r| r.msg = Msg::Plain { mime: 1, msg: 2049, bytes: true }), "MessageError Root PlaintextMessageTooLong");
        add("v1_enc_2076", cfgn, n, w(&|r| r.msg = Msg::Enc { enc: 2076, decs: vec![(0, 0, 1)] }), "accept");
        add("v1_enc_2077", cfgn, n, w(&|r| r.msg = Msg::Enc { enc: 2077, decs: vec![(0, 0, 1)] }), "MessageError Root EncryptedMessageTooLong");
        add("v1_decryptors_20", cfgn, n, w(&|r| r.msg = Msg::Enc { enc: 1, decs: vec![(0, 0, 12), (1, 1, 8)] }), "accept");
        add("v1_decryptors_21", cfgn, n, w(&|r| r.msg = Msg::Enc { enc: 1, decs: vec![(0, 0, 12), (1, 1, 9)] }), "MessageError Root TooManyDecryptors");
        let mut x = w(&|_| {});
        x.tip = 65535;
        add("v1_tip_u16_max", cfgn, n, x, "accept");
        let mut x = w(&|_| {});
        x.payload_target = Some(1024 * 1024);
        add("v1_payload_1mib", cfgn, n, x, "accept");
        let mut x = w(&|_| {});
        x.payload_target = Some(1024 * 1024 + 1);
        add("v1_payload_1mib_plus1", cfgn, n, x, "PrepareTransactionTooLarge");
    }
    {
        let w = |f: &dyn Fn(&mut IntentSpec)| {
            let mut r = ispec(100, 105);
            f(&mut r);
            tspec(Kind::V1, 0, r, vec![])
        };
        add("v1_refs_512", "latest", n, w(&|r| r.refs = 512), "accept");
        add("v1_refs_513", "latest", n, w(&|r| r.refs = 513), "TooManyReferences Root");
        add("v1_instructions_1000", "latest", n, w(&|r| r.fillers = 1000), "accept");
        add("v1_instructions_1001", "latest", n, w(&|r| r.fillers = 1001), "TooManyInstructions Root");
        add("v1_refs_513_unbounded", "babylon", n, w(&|r| r.refs = 513), "accept");
        add("v1_instructions_1001_unbounded", "babylon", n, w(&|r| r.fillers = 1001), "accept");
    }

    // ======================= V2 / partial under the small configuration =======================
    let sub = |f: &dyn Fn(&mut IntentSpec)| {
        let mut r = ispec(100, 105);
        r.fillers = 0;
        f(&mut r);
        r
    };
    let v2 = |f: &dyn Fn(&mut TxSpec)| {
        let mut r = ispec(100, 105);
        r.sigs = 1;
        let mut t = tspec(Kind::V2, 3, r, vec![]);
        f(&mut t);
        t
    };
    let pt = |f: &dyn Fn(&mut TxSpec)| {
        let mut r = ispec(100, 105);
        r.sigs = 1;
        let mut t = tspec(Kind::Partial, 0, r, vec![]);
        f(&mut t);
        t
    };
    add("v2_base", s, n, v2(&|_| {}), "accept");
    add("v2_base_one_sub", s, n, v2(&|t| t.subs = vec![sub(&|_| {})]), "accept");
    add("partial_base", s, n, pt(&|_| {}), "accept");
    add("partial_base_one_sub", s, n, pt(&|t| t.subs = vec![sub(&|_| {})]), "accept");
    for (tip, e) in [(2u32, "HeaderError Root InvalidTip"), (3, "accept"), (40, "accept"), (41, "HeaderError Root InvalidTip")] {
        add(&format!("v2_tip_{}", tip), s, n, v2(&|t| t.tip = tip), e);
    }
    add("v2_order_tip_before_network", s, n, v2(&|t| { t.tip = 41; t.root.network = 7; }), "HeaderError Root InvalidTip");
    add("v2_network_wrong_root", s, n, v2(&|t| t.root.network = 7), "HeaderError Root InvalidNetwork");
    add("v2_network_wrong_sub1", s, n, v2(&|t| t.subs = vec![sub(&|_| {}), sub(&|x| x.network = 7)]), "HeaderError NonRoot_1 InvalidNetwork");
    add("v2_network_wrong_agnostic", s, None, v2(&|t| t.subs = vec![sub(&|x| x.network = 7)]), "accept");
    add("v2_root_sigs_3", s, n, v2(&|t| t.root.sigs = 3), "accept");
    add("v2_root_sigs_4", s, n, v2(&|t| t.root.sigs = 4), "TooManySignatures Root");
    add("partial_root_sigs_4", s, n, pt(&|t| t.root.sigs = 4), "TooManySignatures Root");
    add("v2_batch_sigs_3", s, n, v2(&|t| t.subs = vec![sub(&|x| x.sigs = 3)]), "accept");
    add("v2_batch_sigs_4_first", s, n, v2(&|t| t.subs = vec![sub(&|x| x.sigs = 4), sub(&|_| {})]), "TooManySignatures NonRoot_0");
    add("v2_batch_sigs_4_last", s, n, v2(&|t| t.subs = vec![sub(&|_| {}), sub(&|x| x.sigs = 4)]), "TooManySignatures NonRoot_1");
    add("v2_batches_one_missing", s, n, v2(&|t| { t.subs = vec![sub(&|_| {})]; t.batch_delta = -1; }), "IncorrectNumberOfSubintentSignatureBatches");
    add("v2_batches_one_extra", s, n, v2(&|t| { t.subs = vec![sub(&|_| {})]; t.batch_delta = 1; }), "IncorrectNumberOfSubintentSignatureBatches");
    add("v2_batches_extra_without_subs", s, n, v2(&|t| t.batch_delta = 1), "IncorrectNumberOfSubintentSignatureBatches");
    add("partial_batches_one_missing", s, n, pt(&|t| { t.subs = vec![sub(&|_| {})]; t.batch_delta = -1; }), "IncorrectNumberOfSubintentSignatureBatches");
    add("v2_order_root_sigs_before_batches", s, n, v2(&|t| { t.root.sigs = 4; t.subs = vec![sub(&|_| {})]; t.batch_delta = -1; }), "TooManySignatures Root");
    add("v2_order_batches_before_batch_sigs", s, n, v2(&|t| { t.subs = vec![sub(&|x| x.sigs = 4), sub(&|_| {})]; t.batch_delta = 1; }), "IncorrectNumberOfSubintentSignatureBatches");
    add("v2_order_batch_sigs_before_header", s, n, v2(&|t| { t.root.network = 7; t.subs = vec![sub(&|x| x.sigs = 4)]; }), "TooManySignatures NonRoot_0");
    // total signature validations (limit 8): the notary counts for a transaction intent only
    add("v2_sigs_total_at", s, n, v2(&|t| { t.root.sigs = 3; t.subs = vec![sub(&|x| x.sigs = 3), sub(&|x| x.sigs = 1)]; }), "accept");
    add("v2_sigs_total_over", s, n, v2(&|t| { t.root.sigs = 3; t.subs = vec![sub(&|x| x.sigs = 3), sub(&|x| x.sigs = 2)]; }), "TooManySignatures Across");
    add("partial_sigs_total_at", s, n, pt(&|t| { t.root.sigs = 3; t.subs = vec![sub(&|x| x.sigs = 3), sub(&|x| x.sigs = 2)]; }), "accept");
    add("partial_sigs_total_over", s, n, pt(&|t| { t.root.sigs = 3; t.subs = vec![sub(&|x| x.sigs = 3), sub(&|x| x.sigs = 3)]; }), "TooManySignatures Across");
    // per-intent epoch window at a subintent
    add("v2_sub_epoch_empty", s, n, v2(&|t| t.subs = vec![sub(&|x| x.end = 100)]), "HeaderError NonRoot_0 InvalidEpochRange");
    add("v2_sub_epoch_range_at", s, n, v2(&|t| { t.root.end = 150; t.subs = vec![sub(&|x| x.end = 150)]; }), "accept");
    add("v2_sub_epoch_range_plus1", s, n, v2(&|t| { t.root.end = 150; t.subs = vec![sub(&|x| x.end = 151)]; }), "HeaderError NonRoot_0 InvalidEpochRange");
    add("v2_root_epoch_overflow_at", s, n, v2(&|t| { t.root.start = MAXE - 50; t.root.end = MAXE; }), "accept");
    add("v2_root_epoch_overflow", s, n, v2(&|t| { t.root.start = MAXE - 49; t.root.end = MAXE; }), "HeaderError Root InvalidEpochRange");
    // per-intent timestamp window
    for (name, lo, hi, e) in [
        ("lt", Some(5i64), Some(6i64), "accept"),
        ("eq", Some(6), Some(6), "HeaderError Root InvalidTimestampRange"),
        ("gt", Some(7), Some(6), "HeaderError Root InvalidTimestampRange"),
        ("min_only", Some(7), None, "accept"),
        ("max_only", None, Some(-7), "accept"),
        ("negative_lt", Some(-6), Some(-5), "accept"),
    ] {
        add(&format!("v2_ts_{}", name), s, n, v2(&|t| { t.root.min_ts = lo; t.root.max_ts = hi; }), e);
    }
    add("v2_sub_ts_eq", s, n, v2(&|t| t.subs = vec![sub(&|x| { x.min_ts = Some(6); x.max_ts = Some(6); })]), "HeaderError NonRoot_0 InvalidTimestampRange");
    add("v2_order_epoch_before_ts", s, n, v2(&|t| { t.root.end = 100; t.root.min_ts = Some(6); t.root.max_ts = Some(6); }), "HeaderError Root InvalidEpochRange");
    add("v2_order_ts_before_across_epochs", s, n, v2(&|t| t.subs = vec![sub(&|x| { x.start = 105; x.end = 110; x.min_ts = Some(6); x.max_ts = Some(6); })]), "HeaderError NonRoot_0 InvalidTimestampRange");
    // across-intent epoch window: touching / overlapping by one / nested / who is narrower / third intent
    for (name, rs, re, subs_w, e) in [
        ("overlap_one", 100u64, 105u64, vec![(104u64, 109u64)], "accept"),
        ("touching", 100, 105, vec![(105, 110)], "HeaderError NonRoot_0 NoValidEpochRangeAcrossAllIntents"),
        ("disjoint", 100, 105, vec![(106, 110)], "HeaderError NonRoot_0 NoValidEpochRangeAcrossAllIntents"),
        ("sub_wider", 100, 105, vec![(99, 106)], "accept"),
        ("sub_narrower", 100, 110, vec![(103, 104)], "accept"),
        ("sub_earlier_overlap_one", 104, 109, vec![(100, 105)], "accept"),
        ("sub_earlier_touching", 104, 109, vec![(100, 104)], "HeaderError NonRoot_0 NoValidEpochRangeAcrossAllIntents"),
        ("equal_windows", 100, 105, vec![(100, 105)], "accept"),
        ("third_narrows_to_one", 100, 110, vec![(102, 108), (107, 112)], "accept"),
        ("third_empties", 100, 110, vec![(102, 108), (108, 112)], "HeaderError NonRoot_1 NoValidEpochRangeAcrossAllIntents"),
        ("second_empties_before_third", 100, 105, vec![(105, 110), (100, 105)], "HeaderError NonRoot_0 NoValidEpochRangeAcrossAllIntents"),
        ("max_of_starts_not_last", 100, 110, vec![(107, 112), (102, 108)], "accept"),
        ("min_of_ends_not_last", 100, 110, vec![(100, 103), (102, 108)], "accept"),
        ("max_start_first_then_short", 100, 110, vec![(107, 112), (100, 107)], "HeaderError NonRoot_1 NoValidEpochRangeAcrossAllIntents"),
    ] {
        let sw = subs_w.clone();
        add(&format!("v2_across_epochs_{}", name), s, n, v2(&|t| {
            t.root.start = rs;
            t.root.end = re;
            t.subs = sw.iter().map(|(a, b)| sub(&|x| { x.start = *a; x.end = *b; })).collect();
        }), e);
    }
    add("partial_across_epochs_touching", s, n, pt(&|t| t.subs = vec![sub(&|x| { x.start = 105; x.end = 110; })]), "HeaderError NonRoot_0 NoValidEpochRangeAcrossAllIntents");
    // across-intent timestamp window (root, sub0, sub1): (min,max) per intent
    type W = (Option<i64>, Option<i64>);
    let ts_cases: Vec<(&str, W, Vec<W>, &'static str)> = vec![
        ("min_then_max_lt", (Some(5), None), vec![(None, Some(6))], "accept"),
        ("min_then_max_eq", (Some(5), None), vec![(None, Some(5))], "HeaderError NonRoot_0 NoValidTimestampRangeAcrossAllIntents"),
        ("max_then_min_lt", (None, Some(6)), vec![(Some(5), None)], "accept"),
        ("max_then_min_eq", (None, Some(6)), vec![(Some(6), None)], "HeaderError NonRoot_0 NoValidTimestampRangeAcrossAllIntents"),
        ("larger_min_replaces", (Some(5), None), vec![(Some(7), None), (None, Some(7))], "HeaderError NonRoot_1 NoValidTimestampRangeAcrossAllIntents"),
        ("larger_min_replaces_ok", (Some(5), None), vec![(Some(7), None), (None, Some(8))], "accept"),
        ("smaller_min_ignored", (Some(7), None), vec![(Some(5), None), (None, Some(6))], "HeaderError NonRoot_1 NoValidTimestampRangeAcrossAllIntents"),
        ("smaller_min_ignored_ok", (Some(7), None), vec![(Some(5), None), (None, Some(8))], "accept"),
        ("equal_min_kept", (Some(7), None), vec![(Some(7), None), (None, Some(8))], "accept"),
        ("smaller_max_replaces", (None, Some(9)), vec![(None, Some(6)), (Some(6), None)], "HeaderError NonRoot_1 NoValidTimestampRangeAcrossAllIntents"),
        ("smaller_max_replaces_ok", (None, Some(9)), vec![(None, Some(6)), (Some(5), None)], "accept"),
        ("larger_max_ignored", (None, Some(6)), vec![(None, Some(9)), (Some(6), None)], "HeaderError NonRoot_1 NoValidTimestampRangeAcrossAllIntents"),
        ("larger_max_ignored_ok", (None, Some(6)), vec![(None, Some(9)), (Some(5), None)], "accept"),
        ("nested_windows", (Some(5), Some(9)), vec![(Some(6), Some(8))], "accept"),
        ("both_sides_touching", (Some(5), Some(7)), vec![(Some(7), Some(9))], "HeaderError NonRoot_0 NoValidTimestampRangeAcrossAllIntents"),
        ("both_sides_overlap_one", (Some(5), Some(8)), vec![(Some(7), Some(9))], "accept"),
        ("none_everywhere_but_last", (None, None), vec![(None, None), (Some(1), Some(2))], "accept"),
    ];
    for (name, rw, sws, e) in ts_cases {
        add(&format!("v2_across_ts_{}", name), s, n, v2(&|t| {
            t.root.min_ts = rw.0;
            t.root.max_ts = rw.1;
            t.subs = sws.iter().map(|w| sub(&|x| { x.min_ts = w.0; x.max_ts = w.1; })).collect();
        }), e);
    }
    // messages at a subintent (V2 message types)
    add("v2_sub_mime_7", s, n, v2(&|t| t.subs = vec![sub(&|x| x.msg = Msg::Plain { mime: 7, msg: 0, bytes: false })]), "MessageError NonRoot_0 MimeTypeTooLong");
    add("v2_root_plain_21", s, n, v2(&|t| t.root.msg = Msg::Plain { mime: 0, msg: 21, bytes: true }), "MessageError Root PlaintextMessageTooLong");
    add("v2_root_enc_30", s, n, v2(&|t| t.root.msg = Msg::Enc { enc: 30, decs: vec![(1, 1, 1)] }), "accept");
    add("v2_root_enc_31", s, n, v2(&|t| t.root.msg = Msg::Enc { enc: 31, decs: vec![(1, 1, 1)] }), "MessageError Root EncryptedMessageTooLong");
    add("v2_sub_decryptors_2_plus_2", s, n, v2(&|t| t.subs = vec![sub(&|x| x.msg = Msg::Enc { enc: 1, decs: vec![(0, 0, 2), (1, 1, 2)] })]), "accept");
    add("v2_sub_decryptors_2_plus_3", s, n, v2(&|t| t.subs = vec![sub(&|x| x.msg = Msg::Enc { enc: 1, decs: vec![(0, 0, 2), (1, 1, 3)] })]), "MessageError NonRoot_0 TooManyDecryptors");
    add("v2_sub_no_decryptors", s, n, v2(&|t| t.subs = vec![sub(&|x| x.msg = Msg::Enc { enc: 1, decs: vec![] })]), "MessageError NonRoot_0 NoDecryptors");
    add("v2_root_curve_mismatch", s, n, v2(&|t| t.root.msg = Msg::Enc { enc: 1, decs: vec![(1, 0, 1)] }), "MessageError Root MismatchingDecryptorCurves");
    add("v2_root_zero_decryptors", s, n, v2(&|t| t.root.msg = Msg::Enc { enc: 1, decs: vec![(1, 1, 0)] }), "MessageError Root NoDecryptorsForCurveType");
    // references: per intent (4) and in total (6)
    add("v2_sub_refs_4", s, n, v2(&|t| t.subs = vec![sub(&|x| x.refs = 4)]), "accept");
    add("v2_sub_refs_5", s, n, v2(&|t| t.subs = vec![sub(&|x| x.refs = 5)]), "TooManyReferences NonRoot_0");
    add("v2_refs_total_4_plus_2", s, n, v2(&|t| { t.root.refs = 4; t.subs = vec![sub(&|x| x.refs = 2)]; }), "accept");
    add("v2_refs_total_4_plus_3", s, n, v2(&|t| { t.root.refs = 4; t.subs = vec![sub(&|x| x.refs = 3)]; }), "TooManyReferences Across");
    add("v2_refs_total_2_2_2", s, n, v2(&|t| { t.root.refs = 2; t.subs = vec![sub(&|x| x.refs = 2), sub(&|x| x.refs = 2)]; }), "accept");
    add("v2_refs_total_2_2_3", s, n, v2(&|t| { t.root.refs = 2; t.subs = vec![sub(&|x| x.refs = 2), sub(&|x| x.refs = 3)]; }), "TooManyReferences Across");
    add("partial_refs_total_4_plus_3", s, n, pt(&|t| { t.root.refs = 4; t.subs = vec![sub(&|x| x.refs = 3)]; }), "TooManyReferences Across");
    add("v2_order_refs_total_before_sigs_total", s, n, v2(&|t| { t.root.refs = 4; t.root.sigs = 3; t.subs = vec![sub(&|x| { x.refs = 3; x.sigs = 3; }), sub(&|x| x.sigs = 2)]; }), "TooManyReferences Across");
    // instruction count (12): root has `children` yields, a subintent additionally its final yield
    add("v2_root_instructions_12", s, n, v2(&|t| t.root.fillers = 12), "accept");
    add("v2_root_instructions_13", s, n, v2(&|t| t.root.fillers = 13), "TooManyInstructions Root");
    add("v2_sub1_instructions_12", s, n, v2(&|t| t.subs = vec![sub(&|_| {}), sub(&|x| x.fillers = 11)]), "accept");
    add("v2_sub1_instructions_13", s, n, v2(&|t| t.subs = vec![sub(&|_| {}), sub(&|x| x.fillers = 12)]), "TooManyInstructions NonRoot_1");
    add("partial_root_instructions_13", s, n, pt(&|t| t.root.fillers = 12), "TooManyInstructions Root");
    add("partial_root_instructions_12", s, n, pt(&|t| t.root.fillers = 11), "accept");
    add("v2_order_root_instructions_before_sub_header", s, n, v2(&|t| { t.root.fillers = 13; t.subs = vec![sub(&|x| x.network = 7)]; }), "TooManyInstructions Root");
    add("v2_order_sub0_header_before_sub1_message", s, n, v2(&|t| t.subs = vec![sub(&|x| x.end = 100), sub(&|x| x.msg = Msg::Plain { mime: 7, msg: 0, bytes: false })]), "HeaderError NonRoot_0 InvalidEpochRange");
    // preparation limits: blobs (2), children (2), subintents (3), signature batches (3), payload (6000)
    add("v2_root_blobs_2", s, n, v2(&|t| t.root.blobs = 2), "accept");
    add("v2_root_blobs_3", s, n, v2(&|t| t.root.blobs = 3), "PrepareTooManyValues VBlob");
    add("v2_sub_blobs_2", s, n, v2(&|t| t.subs = vec![sub(&|x| x.blobs = 2)]), "accept");
    add("v2_sub_blobs_3", s, n, v2(&|t| t.subs = vec![sub(&|x| x.blobs = 3)]), "PrepareTooManyValues VBlob");
    add("v2_children_2", s, n, v2(&|t| t.subs = vec![sub(&|_| {}), sub(&|_| {})]), "accept");
    add("v2_children_3", s, n, v2(&|t| t.subs = vec![sub(&|_| {}), sub(&|_| {}), sub(&|_| {})]), "PrepareTooManyValues VChildSubintentSpecifier");
    add("partial_children_3", s, n, pt(&|t| t.subs = vec![sub(&|_| {}), sub(&|_| {}), sub(&|_| {})]), "PrepareTooManyValues VChildSubintentSpecifier");
    add("v2_sub_children_3", s, n, v2(&|t| t.subs = vec![sub(&|_| {}), sub(&|x| x.parent = Some(0)), sub(&|x| x.parent = Some(0)), sub(&|x| x.parent = Some(0))]), "PrepareTooManyValues VSubintent");
    add("v2_subintents_3_nested", s, n, v2(&|t| t.subs = vec![sub(&|_| {}), sub(&|_| {}), sub(&|x| x.parent = Some(0))]), "accept");
    add("v2_subintents_4_nested", s, n, v2(&|t| t.subs = vec![sub(&|_| {}), sub(&|_| {}), sub(&|x| x.parent = Some(0)), sub(&|x| x.parent = Some(0))]), "PrepareTooManyValues VSubintent");
    add("v2_batches_4_over_limit", s, n, v2(&|t| { t.subs = vec![sub(&|_| {}), sub(&|_| {}), sub(&|x| x.parent = Some(0))]; t.batch_delta = 1; }), "PrepareTooManyValues VSubintentSignatureBatches");
    add("v2_order_blobs_before_children", s, n, v2(&|t| { t.root.blobs = 3; t.subs = vec![sub(&|_| {}), sub(&|_| {}), sub(&|_| {})]; }), "PrepareTooManyValues VBlob");
    add("v2_order_subintent_count_before_sub_blobs", s, n, v2(&|t| t.subs = vec![sub(&|x| x.blobs = 3), sub(&|_| {}), sub(&|x| x.parent = Some(0)), sub(&|x| x.parent = Some(0))]), "PrepareTooManyValues VSubintent");
    add("v2_order_prepare_before_sigs", s, n, v2(&|t| { t.root.sigs = 4; t.root.blobs = 3; }), "PrepareTooManyValues VBlob");
    for (tg, e) in [(5999usize, "accept"), (6000, "accept"), (6001, "PrepareTransactionTooLarge")] {
        add(&format!("v2_payload_{}", tg), s, n, v2(&|t| t.payload_target = Some(tg)), e);
    }
    add("partial_payload_not_limited", s, n, pt(&|t| t.payload_target = Some(7000)), "accept");
    // V2 switched off
    add("v2_not_permitted_at_prepare", "babylon", n, v2(&|t| t.tip = 0), "PrepareTransactionTypeNotSupported");
    add("partial_not_permitted_at_prepare", "babylon", n, pt(&|_| {}), "PrepareTransactionTypeNotSupported");
    add("v2_not_allowed_at_validation", "variant_babylon_v2_disallowed", n, v2(&|t| t.tip = 0), "TransactionVersionNotPermitted");
    add("v2_order_not_allowed_before_sigs", "variant_babylon_v2_disallowed", n, v2(&|t| { t.tip = 0; t.root.sigs = 17; }), "TransactionVersionNotPermitted");
    add("v2_allowed_babylon_limits", "variant_babylon_v2", n, v2(&|t| t.tip = 0), "accept");
    add("v2_babylon_limits_tip_1000", "variant_babylon_v2", n, v2(&|t| t.tip = 1000), "accept");
    add("v2_babylon_limits_tip_1001", "variant_babylon_v2", n, v2(&|t| t.tip = 1001), "HeaderError Root InvalidTip");

    // ======================= V2 / partial under the shipped (latest) configuration =======================
    let l = "latest";
    let v2l = |f: &dyn Fn(&mut TxSpec)| {
        let mut r = ispec(100, 105);
        r.sigs = 1;
        let mut t = tspec(Kind::V2, 0, r, vec![]);
        f(&mut t);
        t
    };
    add("v2_base", l, n, v2l(&|_| {}), "accept");
    add("v2_tip_1000000", l, n, v2l(&|t| t.tip = 1_000_000), "accept");
    add("v2_tip_1000001", l, n, v2l(&|t| t.tip = 1_000_001), "HeaderError Root InvalidTip");
    add("v2_root_sigs_16", l, n, v2l(&|t| t.root.sigs = 16), "accept");
    add("v2_root_sigs_17", l, n, v2l(&|t| t.root.sigs = 17), "TooManySignatures Root");
    add("v2_batch_sigs_16", l, n, v2l(&|t| t.subs = vec![sub(&|x| x.sigs = 16)]), "accept");
    add("v2_batch_sigs_17", l, n, v2l(&|t| t.subs = vec![sub(&|x| x.sigs = 17)]), "TooManySignatures NonRoot_0");
    add("v2_sigs_total_64", l, n, v2l(&|t| { t.root.sigs = 16; t.subs = vec![sub(&|x| x.sigs = 16), sub(&|x| x.sigs = 16), sub(&|x| x.sigs = 15)]; }), "accept");
    add("v2_sigs_total_65", l, n, v2l(&|t| { t.root.sigs = 16; t.subs = vec![sub(&|x| x.sigs = 16), sub(&|x| x.sigs = 16), sub(&|x| x.sigs = 16)]; }), "TooManySignatures Across");
    add("partial_sigs_total_64", l, n, {
        let mut t = v2l(&|t| { t.root.sigs = 16; t.subs = vec![sub(&|x| x.sigs = 16), sub(&|x| x.sigs = 16), sub(&|x| x.sigs = 16)]; });
        t.kind = Kind::Partial;
        t
    }, "accept");
    add("partial_sigs_total_65", l, n, {
        let mut t = v2l(&|t| { t.root.sigs = 16; t.subs = vec![sub(&|x| x.sigs = 16), sub(&|x| x.sigs = 16), sub(&|x| x.sigs = 16), sub(&|x| x.sigs = 1)]; });
        t.kind = Kind::Partial;
        t
    }, "TooManySignatures Across");
    add("v2_children_32", l, n, v2l(&|t| t.subs = (0..32).map(|_| sub(&|_| {})).collect()), "accept");
    add("v2_children_33", l, n, v2l(&|t| t.subs = (0..33).map(|_| sub(&|_| {})).collect()), "PrepareTooManyValues VChildSubintentSpecifier");
    add("v2_subintents_33_nested", l, n, v2l(&|t| t.subs = (0..33).map(|i| sub(&|x| x.parent = if i == 32 { Some(0) } else { None })).collect()), "PrepareTooManyValues VSubintent");
    add("v2_sub_refs_512", l, n, v2l(&|t| t.subs = vec![sub(&|x| x.refs = 512)]), "accept");
    add("v2_sub_refs_513", l, n, v2l(&|t| t.subs = vec![sub(&|x| x.refs = 513)]), "TooManyReferences NonRoot_0");
    add("v2_refs_total_513", l, n, v2l(&|t| { t.root.refs = 512; t.subs = vec![sub(&|x| x.refs = 1)]; }), "TooManyReferences Across");
    add("v2_refs_total_512", l, n, v2l(&|t| { t.root.refs = 511; t.subs = vec![sub(&|x| x.refs = 1)]; }), "accept");
    add("v2_root_instructions_1000", l, n, v2l(&|t| t.root.fillers = 1000), "accept");
    add("v2_root_instructions_1001", l, n, v2l(&|t| t.root.fillers = 1001), "TooManyInstructions Root");
    add("v2_epoch_8640", l, n, v2l(&|t| t.root.end = 100 + 8640), "accept");
    add("v2_epoch_8641", l, n, v2l(&|t| t.root.end = 100 + 8641), "HeaderError Root InvalidEpochRange");
    add("v2_payload_1mib", l, n, v2l(&|t| t.payload_target = Some(1024 * 1024)), "accept");
    add("v2_payload_1mib_plus1", l, n, v2l(&|t| t.payload_target = Some(1024 * 1024 + 1)), "PrepareTransactionTooLarge");
    add("v2_blobs_64", l, n, v2l(&|t| t.root.blobs = 64), "accept");
    add("v2_blobs_65", l, n, v2l(&|t| t.root.blobs = 65), "PrepareTooManyValues VBlob");

    // ======================= configured subintent depth 0 with V2 enabled =======================
    let d0 = "variant_depth0";
    add("depth0_v2_without_subintents", d0, n, v2l(&|_| {}), "accept");
    add("depth0_partial_underflow", d0, n, { let mut t = v2l(&|_| {}); t.kind = Kind::Partial; t }, "panic");
    add("depth0_partial_underflow_after_counts", d0, n, { let mut t = v2l(&|t| t.root.sigs = 17); t.kind = Kind::Partial; t }, "TooManySignatures Root");
    add("depth0_partial_underflow_before_header", d0, n, { let mut t = v2l(&|t| t.root.network = 7); t.kind = Kind::Partial; t }, "panic");
    add("depth0_preview_without_subintents", d0, n, { let mut t = v2l(&|_| {}); t.kind = Kind::PreviewV2; t }, "accept");
    add("depth0_babylon_partial_not_permitted", "babylon", n, { let mut t = v2l(&|_| {}); t.kind = Kind::Partial; t }, "PrepareTransactionTypeNotSupported");

    // ======================= preview entry points =======================
    // validate_preview_intent_v1: no payload limit, nothing about signer keys; the intent's own limits apply
    let pv1 = |f: &dyn Fn(&mut IntentSpec)| {
        let mut r = ispec(100, 105);
        r.sigs = 1;
        f(&mut r);
        tspec(Kind::PreviewV1, 2, r, vec![])
    };
    add("preview_v1_base", s, n, pv1(&|_| {}), "accept");
    add("preview_v1_signer_keys_over_limit_ignored", s, n, pv1(&|r| r.sigs = 9), "accept");
    add("preview_v1_no_signer_keys", s, n, pv1(&|r| r.sigs = 0), "accept");
    add("preview_v1_totals_ignore_signers", st, n, pv1(&|r| r.sigs = 3), "accept");
    add("preview_v1_payload_over_limit_ignored", s, n, { let mut t = pv1(&|_| {}); t.payload_target = Some(7000); t }, "accept");
    add("preview_v1_blobs_2", s, n, pv1(&|r| r.blobs = 2), "accept");
    add("preview_v1_blobs_3", s, n, pv1(&|r| r.blobs = 3), "PrepareTooManyValues VBlob");
    add("preview_v1_network_wrong", s, n, pv1(&|r| r.network = 7), "HeaderError Root InvalidNetwork");
    add("preview_v1_epoch_range_at", s, n, pv1(&|r| r.end = 150), "accept");
    add("preview_v1_epoch_range_plus1", s, n, pv1(&|r| r.end = 151), "HeaderError Root InvalidEpochRange");
    add("preview_v1_tip_10", s, n, { let mut t = pv1(&|_| {}); t.tip = 10; t }, "HeaderError Root InvalidTip");
    add("preview_v1_mime_7", s, n, pv1(&|r| r.msg = Msg::Plain { mime: 7, msg: 0, bytes: false }), "MessageError Root MimeTypeTooLong");
    add("preview_v1_refs_4", s, n, pv1(&|r| r.refs = 4), "accept");
    add("preview_v1_refs_5", s, n, pv1(&|r| r.refs = 5), "TooManyReferences Root");
    add("preview_v1_refs_total_over", st, n, pv1(&|r| r.refs = 4), "TooManyReferences Across");
    add("preview_v1_instructions_12", s, n, pv1(&|r| r.fillers = 12), "accept");
    add("preview_v1_instructions_13", s, n, pv1(&|r| r.fillers = 13), "TooManyInstructions Root");
    add("preview_v1_latest_base", l, n, { let mut t = pv1(&|_| {}); t.tip = 0; t }, "accept");
    add("preview_v1_babylon_base", "babylon", n, { let mut t = pv1(&|_| {}); t.tip = 0; t }, "accept");
    // PreviewTransactionV2: key counts are limited like signatures, the notary counts 1, no payload / batch-array limit at preparation
    let pv2 = |f: &dyn Fn(&mut TxSpec)| {
        let mut t = v2(&|_| {});
        t.kind = Kind::PreviewV2;
        f(&mut t);
        t
    };
    add("preview_v2_base", s, n, pv2(&|_| {}), "accept");
    add("preview_v2_root_keys_3", s, n, pv2(&|t| t.root.sigs = 3), "accept");
    add("preview_v2_root_keys_4", s, n, pv2(&|t| t.root.sigs = 4), "TooManySignatures Root");
    add("preview_v2_batch_keys_4", s, n, pv2(&|t| t.subs = vec![sub(&|_| {}), sub(&|x| x.sigs = 4)]), "TooManySignatures NonRoot_1");
    add("preview_v2_total_at", s, n, pv2(&|t| { t.root.sigs = 3; t.subs = vec![sub(&|x| x.sigs = 3), sub(&|x| x.sigs = 1)]; }), "accept");
    add("preview_v2_total_over", s, n, pv2(&|t| { t.root.sigs = 3; t.subs = vec![sub(&|x| x.sigs = 3), sub(&|x| x.sigs = 2)]; }), "TooManySignatures Across");
    add("preview_v2_batches_one_missing", s, n, pv2(&|t| { t.subs = vec![sub(&|_| {})]; t.batch_delta = -1; }), "IncorrectNumberOfSubintentSignatureBatches");
    add("preview_v2_batches_4_not_limited_at_prepare", s, n, pv2(&|t| { t.subs = vec![sub(&|_| {}), sub(&|_| {}), sub(&|x| x.parent = Some(0))]; t.batch_delta = 1; }), "IncorrectNumberOfSubintentSignatureBatches");
    add("preview_v2_payload_over_limit_ignored", s, n, pv2(&|t| t.payload_target = Some(7000)), "accept");
    add("preview_v2_tip_41", s, n, pv2(&|t| t.tip = 41), "HeaderError Root InvalidTip");
    add("preview_v2_subintents_4", s, n, pv2(&|t| t.subs = vec![sub(&|_| {}), sub(&|_| {}), sub(&|x| x.parent = Some(0)), sub(&|x| x.parent = Some(0))]), "PrepareTooManyValues VSubintent");
    add("preview_v2_across_epochs_touching", s, n, pv2(&|t| t.subs = vec![sub(&|x| { x.start = 105; x.end = 110; })]), "HeaderError NonRoot_0 NoValidEpochRangeAcrossAllIntents");
    add("preview_v2_not_permitted", "babylon", n, pv2(&|t| t.tip = 0), "PrepareTransactionTypeNotSupported");
    add("preview_v2_not_allowed", "variant_babylon_v2_disallowed", n, pv2(&|t| t.tip = 0), "TransactionVersionNotPermitted");
    v
}

// ------------------------------------------------------------------------------------------------
// generator
// ------------------------------------------------------------------------------------------------
fn config_named(name: &str) -> TransactionValidationConfig {
    match name {
        "babylon" => TransactionValidationConfig::babylon(),
        "latest" => TransactionValidationConfig::latest(),
        "variant_small" | "variant_small_tight_totals" => {
            // small limits so that every branch is cheap to reach
            let mut c = TransactionValidationConfig::latest();
            c.max_signer_signatures_per_intent = 3;
            c.max_references_per_intent = 4;
            c.min_tip_percentage = 2;
            c.max_tip_percentage = 9;
            c.max_epoch_range = 50;
            c.max_instructions = 12;
            c.message_validation = MessageValidationConfig {
                max_plaintext_message_length: 20,
                max_encrypted_message_length: 30,
                max_mime_type_length: 6,
                max_decryptors: 4,
            };
            c.min_tip_basis_points = 3;
            c.max_tip_basis_points = 40;
            c.max_subintent_depth = 2;
            c.max_total_signature_validations = 8;
            c.max_total_references = 6;
            c.preparation_settings.max_child_subintents_per_intent = 2;
            c.preparation_settings.max_subintents_per_transaction = 3;
            c.preparation_settings.max_blobs = 2;
            c.preparation_settings.max_user_payload_length = 6000;
            if name == "variant_small_tight_totals" {
                // totals below the per-intent limits: the across-transaction checks become reachable for V1
                c.max_total_signature_validations = 3;
                c.max_total_references = 3;
            }
            c
        }
        "variant_babylon_v2" | "variant_babylon_v2_disallowed" => {
            // babylon limits, but V2 reachable
            let mut c = TransactionValidationConfig::babylon();
            c.preparation_settings = PreparationSettings::latest();
            c.max_subintent_depth = 2;
            c.max_tip_basis_points = 1000;
            if name == "variant_babylon_v2_disallowed" {
                c.v2_transactions_allowed = false;
            }
            c
        }
        "variant_depth0" => {
            // V2 enabled with a configured subintent depth of 0 (no shipped configuration has this)
            let mut c = TransactionValidationConfig::latest();
            c.max_subintent_depth = 0;
            c
        }
        other => panic!("unknown config {}", other),
    }
}
fn configs(rng: &mut Rng) -> (TransactionValidationConfig, &'static str) {
    let name = match rng.below(10) {
        0 | 1 => "babylon",
        2..=5 => "latest",
        6..=8 => "variant_small",
        _ => {
            if rng.chance(1, 4) {
                "variant_babylon_v2_disallowed"
            } else {
                "variant_babylon_v2"
            }
        }
    };
    (config_named(name), name)
}

/// limit-1 / limit / limit+1, or a moderate value when the limit is out of reach
fn around(rng: &mut Rng, limit: usize, reach: usize) -> usize {
    if limit > reach {
        rng.usize_below(4)
    } else {
        match rng.below(3) {
            0 => limit.saturating_sub(1),
            1 => limit,
            _ => limit + 1,
        }
    }
}

fn base_intent(rng: &mut Rng, c: &TransactionValidationConfig) -> IntentSpec {
    let start = rng.range(0, 1000);
    let span = rng.range(1, c.max_epoch_range.min(40));
    IntentSpec {
        network: NET,
        start,
        end: start + span,
        min_ts: None,
        max_ts: None,
        msg: Msg::None,
        refs: 0,
        fillers: rng.usize_below(3),
        blobs: 0,
        parent: None,
        sigs: rng.usize_below(2),
    }
}

fn gen_spec(rng: &mut Rng, c: &TransactionValidationConfig, tags: &mut Vec<String>) -> TxSpec {
    let kind = match rng.below(13) {
        0..=3 => Kind::V1,
        4..=7 => Kind::V2,
        8 | 9 => Kind::Partial,
        10 => Kind::PreviewV1,
        _ => Kind::PreviewV2,
    };
    let p = c.preparation_settings;
    let mut root = base_intent(rng, c);
    let mut subs: Vec<IntentSpec> = vec![];
    if kind != Kind::V1 && kind != Kind::PreviewV1 {
        let n = match rng.below(6) {
            0..=2 => 0,
            3 => 1,
            4 => 2,
            _ => 3,
        };
        let n = n.min(p.max_subintents_per_transaction).min(if c.max_subintent_depth == 0 { 0 } else { 3 });
        // all windows share [start+?, ...) with the root so that the base case is valid
        for i in 0..n {
            let mut s = base_intent(rng, c);
            s.start = root.start;
            s.end = root.end;
            let depth_ok = c.max_subintent_depth >= if kind == Kind::Partial { 3 } else { 2 };
            s.parent = if i > 0 && depth_ok && rng.chance(1, 3) && subs[0].parent.is_none() { Some(0) } else { None };
            subs.push(s);
        }
        // keep children per intent within the preparation limit in the base case
        let rc = subs.iter().filter(|s| s.parent.is_none()).count();
        if rc > p.max_child_subintents_per_intent {
            let depth_ok = c.max_subintent_depth >= if kind == Kind::Partial { 3 } else { 2 };
            if depth_ok {
                for s in subs.iter_mut().skip(1) {
                    s.parent = Some(0);
                }
            } else {
                subs.truncate(p.max_child_subintents_per_intent);
                for s in subs.iter_mut() {
                    s.parent = None;
                }
            }
        }
    }
    let tip = match kind {
        Kind::V1 | Kind::PreviewV1 => rng.range(c.min_tip_percentage as u64, (c.max_tip_percentage as u64).min(c.min_tip_percentage as u64 + 5)) as u32,
        _ => rng.range(c.min_tip_basis_points as u64, (c.max_tip_basis_points as u64).min(c.min_tip_basis_points as u64 + 5)) as u32,
    };
    let mut spec = TxSpec { kind: kind.clone(), tip, root: root.clone(), subs, batch_delta: 0, payload_target: None };
    let nmut = match rng.below(10) {
        0 | 1 => 0,
        2..=7 => 1,
        8 => 2,
        _ => 3,
    };
    for _ in 0..nmut {
        let nsub = spec.subs.len();
        let who = rng.usize_below(nsub + 1);
        let mv = &c.message_validation;
        let choice = rng.below(24);
        // the intent the mutation applies to
        macro_rules! target {
            () => {
                if who == 0 {
                    &mut spec.root
                } else {
                    &mut spec.subs[who - 1]
                }
            };
        }
        match choice {
            0 => {
                let t = target!();
                t.blobs = around(rng, p.max_blobs, 200);
                tags.push("blobs".into());
            }
            1 => {
                let t = target!();
                t.sigs = around(rng, c.max_signer_signatures_per_intent, 40);
                tags.push("sigs_per_intent".into());
            }
            2 => {
                // total signature validations: fill intents up to the per-intent limit
                let per = c.max_signer_signatures_per_intent.min(40);
                let notary = if kind == Kind::Partial { 0 } else { 1 };
                if c.max_total_signature_validations < 200 {
                    let want = around(rng, c.max_total_signature_validations, 200).saturating_sub(notary);
                    let mut left = want;
                    spec.root.sigs = left.min(per);
                    left -= spec.root.sigs;
                    for s in spec.subs.iter_mut() {
                        s.sigs = left.min(per);
                        left -= s.sigs;
                    }
                    tags.push("sigs_total".into());
                }
            }
            3 => {
                let t = target!();
                t.network = if rng.chance(1, 2) { NET } else { rng.next_u32() as u8 };
                tags.push("network".into());
            }
            4 => {
                let t = target!();
                let span = around(rng, c.max_epoch_range as usize, 1 << 40) as u64;
                t.end = t.start.saturating_add(span);
                tags.push("epoch_range".into());
            }
            5 => {
                let t = target!();
                match rng.below(3) {
                    0 => t.end = t.start,
                    1 => t.end = t.start.saturating_sub(1),
                    _ => t.end = t.start.saturating_add(1),
                }
                tags.push("epoch_empty".into());
            }
            6 => {
                // start + max_epoch_range around u64::MAX
                let t = target!();
                let d = rng.below(3);
                t.start = (u64::MAX - c.max_epoch_range).wrapping_add(d).wrapping_sub(1);
                t.end = t.start.saturating_add(rng.range(1, 3)).max(t.start);
                tags.push("epoch_overflow".into());
            }
            7 => {
                spec.tip = match kind {
                    Kind::V1 | Kind::PreviewV1 => match rng.below(4) {
                        0 => (c.min_tip_percentage as u32).saturating_sub(1),
                        1 => c.min_tip_percentage as u32,
                        2 => c.max_tip_percentage as u32,
                        _ => (c.max_tip_percentage as u32 + 1).min(u16::MAX as u32),
                    },
                    _ => match rng.below(4) {
                        0 => c.min_tip_basis_points.saturating_sub(1),
                        1 => c.min_tip_basis_points,
                        2 => c.max_tip_basis_points,
                        _ => c.max_tip_basis_points.saturating_add(1),
                    },
                };
                tags.push("tip".into());
            }
            8 => {
                let t = target!();
                let lo = rng.range(0, 100) as i64 - 50;
                match rng.below(4) {
                    0 => {
                        t.min_ts = Some(lo);
                        t.max_ts = Some(lo + 1);
                    }
                    1 => {
                        t.min_ts = Some(lo);
                        t.max_ts = Some(lo);
                    }
                    2 => {
                        t.min_ts = Some(lo);
                        t.max_ts = None;
                    }
                    _ => {
                        t.min_ts = None;
                        t.max_ts = Some(lo);
                    }
                }
                tags.push("timestamps".into());
            }
            9 | 10 if nsub > 0 => {
                // overall epoch window: make two intents touch / overlap by one
                let a = spec.root.start;
                let k = rng.usize_below(nsub);
                let w = rng.range(1, c.max_epoch_range.min(20));
                let a = a.min(u64::MAX - 1000);
                spec.root.start = a;
                spec.root.end = a + w;
                let shift = match rng.below(3) {
                    0 => w - 1,
                    1 => w,
                    _ => w + 1,
                };
                spec.subs[k].start = a + shift;
                spec.subs[k].end = a + shift + rng.range(1, c.max_epoch_range.min(20));
                tags.push("overall_epochs".into());
            }
            11 if nsub > 0 => {
                let k = rng.usize_below(nsub);
                let x = rng.range(0, 50) as i64;
                spec.root.min_ts = Some(x);
                spec.subs[k].max_ts = Some(x + rng.range(0, 2) as i64);
                if rng.chance(1, 3) {
                    spec.subs[k].min_ts = Some(x - 5);
                }
                tags.push("overall_timestamps".into());
            }
            12 => {
                let t = target!();
                t.msg = Msg::Plain { mime: around(rng, mv.max_mime_type_length, 5000), msg: rng.usize_below(3), bytes: rng.bool() };
                tags.push("mime".into());
            }
            13 => {
                let t = target!();
                t.msg = Msg::Plain { mime: rng.usize_below(3), msg: around(rng, mv.max_plaintext_message_length, 5000), bytes: rng.bool() };
                tags.push("plaintext".into());
            }
            14 => {
                let t = target!();
                t.msg = Msg::Enc { enc: around(rng, mv.max_encrypted_message_length, 5000), decs: vec![(0, 0, 1)] };
                tags.push("encrypted".into());
            }
            15 => {
                let t = target!();
                let total = around(rng, mv.max_decryptors, 200);
                let first = rng.usize_below(total + 1);
                let decs = match rng.below(4) {
                    0 => vec![(0, 0, total)],
                    1 => vec![(1, 1, total)],
                    _ => vec![(0, 0, first), (1, 1, total - first)],
                };
                t.msg = Msg::Enc { enc: rng.usize_below(5), decs };
                tags.push("decryptors".into());
            }
            16 => {
                let t = target!();
                let decs = match rng.below(3) {
                    0 => vec![],
                    1 => vec![(0, 1, 1)],
                    _ => vec![(1, 1, 1), (0, 0, 0)],
                };
                t.msg = Msg::Enc { enc: 1, decs };
                tags.push("decryptor_shape".into());
            }
            17 => {
                let t = target!();
                t.refs = around(rng, c.max_references_per_intent, 600);
                tags.push("refs_per_intent".into());
            }
            18 => {
                if c.max_total_references < 600 {
                    let want = around(rng, c.max_total_references, 600);
                    let per = c.max_references_per_intent.min(600);
                    let mut left = want;
                    spec.root.refs = left.min(per);
                    left -= spec.root.refs;
                    for s in spec.subs.iter_mut() {
                        s.refs = left.min(per);
                        left -= s.refs;
                    }
                    tags.push("refs_total".into());
                }
            }
            19 => {
                let t = target!();
                if c.max_instructions < 1200 {
                    let mandatory = t.refs + 4; // yields are added by the builder; approximate then fix below
                    let want = around(rng, c.max_instructions, 1200);
                    t.fillers = want.saturating_sub(mandatory) + rng.usize_below(8);
                    tags.push("instructions".into());
                }
            }
            20 if kind != Kind::V1 && kind != Kind::PreviewV1 => {
                // number of subintents / children around the preparation limits
                let want = around(rng, p.max_subintents_per_transaction, 40);
                let mut v = vec![];
                for i in 0..want {
                    let mut s = base_intent(rng, c);
                    s.start = spec.root.start;
                    s.end = spec.root.end;
                    s.sigs = 0;
                    s.fillers = 0;
                    // spread below the root and below subintent 0 so that children stay within their limit when possible
                    s.parent = if i > 0 && i % 2 == 1 && c.max_subintent_depth >= 3 { Some(0) } else { None };
                    v.push(s);
                }
                spec.subs = v;
                tags.push("subintent_count".into());
            }
            21 if kind != Kind::V1 && kind != Kind::PreviewV1 => {
                let want = around(rng, p.max_child_subintents_per_intent, 40).min(p.max_subintents_per_transaction.min(40));
                let mut v = vec![];
                for _ in 0..want {
                    let mut s = base_intent(rng, c);
                    s.start = spec.root.start;
                    s.end = spec.root.end;
                    s.sigs = 0;
                    v.push(s);
                }
                spec.subs = v;
                tags.push("children_count".into());
            }
            22 if kind != Kind::V1 && kind != Kind::PreviewV1 => {
                spec.batch_delta = if rng.bool() { 1 } else { -1 };
                tags.push("batch_count".into());
            }
            23 if rng.chance(1, 3) && kind != Kind::Partial => {
                if p.max_user_payload_length <= 2_000_000 {
                    spec.payload_target = Some(around(rng, p.max_user_payload_length, 2_000_000));
                    tags.push("payload_len".into());
                }
            }
            _ => {
                let t = target!();
                t.fillers = rng.usize_below(6);
                tags.push("fillers".into());
            }
        }
        let _ = &mut root;
    }
    spec
}

fn main() {
    let args = Args::parse();
    let mut report = Report::new(
        "C34",
        args.seed,
        "real V1 / V2 / signed-partial transactions under babylon, latest and two variant configurations (small limits; babylon limits \
         with V2 enabled), 0-3 fields moved to limit-1/limit/limit+1 (blobs, signatures per intent and in total, network, epoch range/empty/overflow, \
         tip, timestamps, overall epoch and timestamp windows, mime/plaintext/encrypted sizes, decryptors, references per intent and in total, \
         instructions, subintent/children/batch counts, payload length); non-trivial = at least one field moved; distinct by summary text",
    );
    let mut cw = CaseWriter::new("RV.Corr.C34_run RV.Model.C34_Validate", "check");
    let root = Rng::new(args.seed);
    let family = boundary_family();
    for b in family.iter() {
        report.floor(&b.class, 1);
    }
    for i in 0..args.cases {
        let mut rng = root.fork(i as u64);
        let boundary = family.get(i);
        let (cfg, cfg_name) = match boundary {
            Some(b) => (config_named(b.cfg_name), b.cfg_name),
            None => configs(&mut rng),
        };
        let net = match boundary {
            Some(b) => b.net,
            None => {
                if rng.chance(1, 8) {
                    None
                } else {
                    Some(NET)
                }
            }
        };
        let validator = match net {
            Some(n) => TransactionValidator::new_with_static_config(cfg, n),
            None => TransactionValidator::new_with_static_config_network_agnostic(cfg),
        };
        let mut tags = vec![];
        let spec = match boundary {
            Some(b) => {
                tags.push("boundary_family".to_string());
                b.spec.clone()
            }
            None => gen_spec(&mut rng, &cfg, &mut tags),
        };
        let salt = if boundary.is_some() { 0x5eed_0000 + i as u64 } else { rng.next_u64() };
        let (raw, padded) = build_with_target(&spec, salt);
        let (out, refs) = run_impl(&spec.kind, &raw, &validator);
        let mut sum = summarize(&spec, raw.len(), padded);
        // the reference counts the implementation derived must be the ones built in
        if let Some(r) = &refs {
            let mine: Vec<usize> = std::iter::once(sum.root.refs).chain(sum.subs.iter().map(|s| s.refs)).collect();
            if *r != mine {
                report.count("reference_count_differs_from_construction");
                sum.root.refs = r[0];
                for (k, s) in sum.subs.iter_mut().enumerate() {
                    s.refs = r[k + 1];
                }
            }
        }
        let canon = format!("{} {:?} {}", cfg_name, net, sum_coq(&sum));
        report.case(&canon, !tags.is_empty());
        report.count(&format!("config_{}", cfg_name));
        report.count(&format!("kind_{:?}", spec.kind));
        for t in &tags {
            report.count(&format!("field_{}", t));
        }
        let okind = match &out {
            Out::AcceptV1 | Out::AcceptV2 { .. } => "accept".to_string(),
            Out::Reject(e) => format!("reject_{}", e.trim_start_matches('(').split(' ').next().unwrap()),
            Out::Unexpected(_) => "unexpected".to_string(),
            Out::Panic => "panic".to_string(),
        };
        report.count(&format!("out_{}", okind));
        let input = json!({"config": cfg_name, "config_coq": config_coq(&cfg), "net": net, "summary": sum_coq(&sum), "fields": tags, "out": format!("{:?}", out)});
        if let Some(b) = boundary {
            report.count(&b.class);
            if verdict_tag(&out) != b.expect {
                report.oracle_failure(i, "", &format!("boundary case {}: expected [{}] got [{}]", b.class, b.expect, verdict_tag(&out)), input.clone());
            }
        }
        // direct oracle
        match &out {
            Out::Unexpected(what) => {
                report.oracle_failure(i, "", &format!("result outside the modelled checks (generator should avoid it): {}", what), input.clone())
            }
            _ => {
                if out == Out::Panic && !(spec.kind == Kind::Partial && cfg.max_subintent_depth == 0) {
                    report.oracle_failure(i, "", "panic outside the configured-depth-0 corner", input.clone());
                }
                let (ok, range) = within(&cfg, net, &sum);
                let accepted = matches!(out, Out::AcceptV1 | Out::AcceptV2 { .. });
                if accepted && !ok {
                    report.oracle_failure(i, "", "accepted although a field is outside its configured limit", input.clone());
                } else if !accepted && ok {
                    report.oracle_failure(i, "", "rejected although every field is within its configured limit", input.clone());
                }
                if let (Out::AcceptV2 { start, end, min_ts, max_ts }, Some(r)) = (&out, range) {
                    if (*start, *end, *min_ts, *max_ts) != r {
                        report.oracle_failure(i, "", "overall validity range is not the intersection of the intents' ranges", input.clone());
                    }
                }
            }
        }
        if i < 3 {
            report.sample(input.clone());
        }
        cw.push(format!(
            "({}, {}, {}, {})",
            config_coq(&cfg),
            match net {
                Some(n) => format!("(Some {})", n),
                None => "None".to_string(),
            },
            sum_coq(&sum),
            out_coq(&out)
        ));
    }
    let n = args.cases as u64;
    report.floor("out_accept", n / 10);
    report.floor("out_reject_HeaderError", n / 100);
    report.floor("out_reject_MessageError", n / 100);
    report.floor("out_reject_TooManySignatures", n / 400);
    report.floor("out_reject_TooManyReferences", n / 1000);
    report.floor("out_reject_PrepareTooManyValues", n / 600);
    cw.write(&args.out, args.shards).unwrap();
    report.write(&args.out).unwrap();
}
