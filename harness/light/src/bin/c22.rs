//! C22 correspondence harness.
//! Schema-level: random (schema, type id, payload, depth limit) — the real
//! `validate_payload_against_schema::<ScryptoCustomExtension, ()>` vs coq/Model/C22_Typed.v
//! (outcome incl. error class) and vs `validates` on the decoded value (Model/C22_Schema.v).
//! Type-level (direct oracle = the property statement, no model): for a collection of real
//! ScryptoSbor + ScryptoDescribe types, instances obtained by decoding schema-directed payloads:
//!   encode(x) validates against the type's own generated schema, decodes back to an equal value;
//!   every (mutated) payload the typed decoder accepts validates against the schema.
//! The type-level payloads are also pushed through the model (schema of the real type printed as
//! a Coq term), so the model is exercised on the schemas the Describe derive generates.
#[path = "../sborir.rs"]
mod sborir;
#[path = "../schemair.rs"]
mod schemair;
use radix_common::prelude::*;
use radix_engine_interface::prelude::*;
use radix_engine_interface::blueprints::account::*;
use radix_engine_interface::blueprints::access_controller::*;
use radix_engine_interface::blueprints::package::*;
use sbor::traversal::*;
use schemair::*;
use serde_json::json;
use sborir::*;
use vh_common::*;

const OWN_CLASS: &str = "own_wrapper_decoder_ignores_schema_validation";

fn ik_coq_of_err(v: &ValidationError) -> String {
    match v {
        ValidationError::LengthValidationError { .. } => "VELength".into(),
        ValidationError::I8ValidationError { .. } => "(VENum I8)".into(),
        ValidationError::I16ValidationError { .. } => "(VENum I16)".into(),
        ValidationError::I32ValidationError { .. } => "(VENum I32)".into(),
        ValidationError::I64ValidationError { .. } => "(VENum I64)".into(),
        ValidationError::I128ValidationError { .. } => "(VENum I128)".into(),
        ValidationError::U8ValidationError { .. } => "(VENum U8)".into(),
        ValidationError::U16ValidationError { .. } => "(VENum U16)".into(),
        ValidationError::U32ValidationError { .. } => "(VENum U32)".into(),
        ValidationError::U64ValidationError { .. } => "(VENum U64)".into(),
        ValidationError::U128ValidationError { .. } => "(VENum U128)".into(),
        ValidationError::CustomError(_) => "VECustom".into(),
    }
}

/// (Coq `pres` term, class label)
fn outcome(
    r: &Result<Result<(), PayloadValidationError<ScryptoCustomExtension>>, String>,
) -> (String, String) {
    match r {
        Err(_) => ("PPanic".into(), "panic".into()),
        Ok(Ok(())) => ("POk".into(), "ok".into()),
        Ok(Err(e)) => match e {
            PayloadValidationError::TraversalError(TypedTraversalError::DecodeError(d)) => {
                (format!("(PErr (PDecode {}))", coq_dec_err(d)), format!("decode_{}", dec_err_class(d)))
            }
            PayloadValidationError::TraversalError(TypedTraversalError::TypeIdNotFound(_)) => {
                ("(PErr PTypeIdNotFound)".into(), "type_id_not_found".into())
            }
            PayloadValidationError::TraversalError(TypedTraversalError::ValueMismatchWithType(m)) => {
                let c = match m {
                    TypeMismatchError::MismatchingType { .. } => "MType",
                    TypeMismatchError::MismatchingChildElementType { .. } => "MChildElem",
                    TypeMismatchError::MismatchingChildKeyType { .. } => "MChildKey",
                    TypeMismatchError::MismatchingChildValueType { .. } => "MChildVal",
                    TypeMismatchError::MismatchingTupleLength { .. } => "MTupleLen",
                    TypeMismatchError::MismatchingEnumVariantLength { .. } => "MEnumLen",
                    TypeMismatchError::UnknownEnumVariant { .. } => "MUnknownVariant",
                };
                (format!("(PErr (PMismatch {}))", c), format!("mismatch_{}", c))
            }
            PayloadValidationError::ValidationError(v) => {
                let c = ik_coq_of_err(v);
                (format!("(PErr (PValidation {}))", c), "validation".into())
            }
            PayloadValidationError::SchemaInconsistency => {
                ("(PErr PSchemaInconsistency)".into(), "schema_inconsistency".into())
            }
        },
    }
}

fn run_validate(
    payload: &[u8],
    schema: &ScryptoSchema,
    t: LocalTypeId,
    md: usize,
) -> Result<Result<(), PayloadValidationError<ScryptoCustomExtension>>, String> {
    let p = payload.to_vec();
    let s = schema.clone();
    catch(move || {
        validate_payload_against_schema::<ScryptoCustomExtension, ()>(&p, &s, t, &(), md).map_err(|e| e.error)
    })
}

// ------------------------------------------------------------------------------------------------
// type-level
// ------------------------------------------------------------------------------------------------
struct TypeCtx<'a> {
    rng: &'a mut Rng,
    report: &'a mut Report,
    cw: &'a mut CaseWriter,
    idx: usize,
    push_model: bool,
}

/// the known-finding class: the schema rejection is the static `Own<..>` entity-byte check
/// (apply_static_custom_validation_to_custom_value) on a node id the typed decoder never checks
fn own_class(r: &Result<Result<(), PayloadValidationError<ScryptoCustomExtension>>, String>) -> &'static str {
    match r {
        Ok(Err(PayloadValidationError::ValidationError(ValidationError::CustomError(m)))) if m.starts_with("Expected = Own<") => OWN_CLASS,
        _ => "",
    }
}

/// one type-level case for T: schema-directed payload -> typed decode -> property checks
fn type_case<T>(name: &str, cx: &mut TypeCtx)
where
    T: ScryptoSbor + ScryptoDescribe + PartialEq + std::fmt::Debug,
{
    let (tid, vs) = generate_full_schema_from_single_type::<T, ScryptoCustomSchema>();
    let schema = vs.v1().clone();
    // a payload meant to be valid for the schema
    let mut g = VGen { schema: &schema, budget: 60, deviate: 0 };
    let v = g.gen(cx.rng, tid, 10);
    let Ok(payload) = scrypto_encode(&v_to::<FScrypto>(&v)) else {
        cx.report.count("type_gen_encode_failed");
        return;
    };
    let mut candidates: Vec<(Vec<u8>, &'static str)> = vec![(payload.clone(), "generated")];
    for _ in 0..2 {
        let (m, _) = mutate(cx.rng, Fl::Scrypto, &payload);
        candidates.push((m, "mutated"));
    }
    {
        // a structurally matching value that deliberately leaves the schema in places (bounds,
        // entity bytes of references / owned nodes, lengths, variants)
        let mut g = VGen { schema: &schema, budget: 60, deviate: 6 };
        let v2 = g.gen(cx.rng, tid, 10);
        if let Ok(p2) = scrypto_encode(&v_to::<FScrypto>(&v2)) {
            candidates.push((p2, "deviated"));
        }
    }
    for (p, kind) in candidates {
        let dec = catch({
            let p = p.clone();
            move || scrypto_decode::<T>(&p).ok()
        });
        let val = run_validate(&p, &schema, tid, SCRYPTO_SBOR_V1_MAX_DEPTH);
        let (oc, ocl) = outcome(&val);
        cx.report.count(&format!("type_{}_{}", kind, if matches!(dec, Ok(Some(_))) { "decoded" } else { "rejected" }));
        match dec {
            Err(m) => cx.report.oracle_failure(cx.idx, "", &format!("typed decoder of {} panicked: {}", name, m), json!({"type": name, "payload": hex(&p)})),
            Ok(Some(x)) => {
                cx.report.count("type_instances");
                // (b) the typed decoder accepted p => schema validates p
                if !matches!(val, Ok(Ok(()))) {
                    cx.report.oracle_failure(
                        cx.idx,
                        own_class(&val),
                        &format!("typed decoder of {} accepts a payload its own schema rejects ({})", name, ocl),
                        json!({"type": name, "payload": hex(&p)}),
                    );
                }
                // (a) encode(x) validates and decodes back to x
                match scrypto_encode(&x) {
                    Err(e) => cx.report.oracle_failure(cx.idx, "", &format!("{}: decoded value does not encode: {:?}", name, e), json!({"type": name, "payload": hex(&p)})),
                    Ok(q) => {
                        let val2 = run_validate(&q, &schema, tid, SCRYPTO_SBOR_V1_MAX_DEPTH);
                        if !matches!(val2, Ok(Ok(()))) {
                            cx.report.oracle_failure(
                                cx.idx,
                                own_class(&val2),
                                &format!("{}: encoding of a value does not validate against its own schema ({})", name, outcome(&val2).1),
                                json!({"type": name, "payload": hex(&q)}),
                            );
                        }
                        match scrypto_decode::<T>(&q) {
                            Ok(y) if y == x => {}
                            other => cx.report.oracle_failure(cx.idx, "", &format!("{}: encode/decode round trip differs: {:?}", name, other.is_ok()), json!({"type": name, "payload": hex(&q)})),
                        }
                    }
                }
            }
            Ok(None) => {}
        }
        if cx.push_model && p.len() < 600 && schema.type_kinds.len() <= 40 {
            cx.cw.push(format!(
                "(CSchema {} {} {} {} {})",
                coq_schema(&schema),
                coq_tid(&tid),
                SCRYPTO_SBOR_V1_MAX_DEPTH,
                coq_bytes(&p),
                oc
            ));
            cx.report.count("type_cases_to_model");
        }
        cx.report.case(&format!("T{}{}{}", name, hex(&p), ocl), true);
    }
}

macro_rules! type_table {
    ($($t:ty),* $(,)?) => {
        const N_TYPES: usize = [$(stringify!($t)),*].len();
        fn run_type(i: usize, cx: &mut TypeCtx) {
            let mut k = 0usize;
            $( if i == k { type_case::<$t>(stringify!($t), cx); return; } k += 1; )*
            let _ = k;
        }
    };
}

type_table!(
    // radix-common scalars / addresses / crypto
    Decimal, PreciseDecimal, NonFungibleLocalId, NonFungibleGlobalId, Epoch, Round, Instant,
    GlobalAddress, InternalAddress, ComponentAddress, ResourceAddress, PackageAddress,
    Hash, PublicKey, PublicKeyHash, Secp256k1PublicKey, Ed25519PublicKey,
    ResourceOrNonFungible, TimePrecision, RoundingMode, WithdrawStrategy,
    // schema types themselves
    VersionedScryptoSchema, LocalTypeId, ScryptoTypeValidation, TypeMetadata,
    // access rules / roles / metadata
    AccessRule, CompositeRequirement, BasicRequirement, OwnerRole, RoleAssignmentInit, RoleList, MethodAccessibility,
    MetadataValue, MetadataInit, UncheckedUrl, UncheckedOrigin,
    // blueprint interface types (inputs / configs / substate payload types)
    BlueprintId, ObjectInfo, ObjectType, BlueprintInfo, FieldValue, GenericSubstitution, BlueprintTypeIdentifier,
    FungibleResourceRoles, NonFungibleResourceRoles, ResourceFeature,
    FungibleResourceManagerCreateInput, NonFungibleResourceManagerCreateInput,
    AccountWithdrawInput, AccountSetResourcePreferenceInput, ResourcePreference, DefaultDepositRule,
    ConsensusManagerConfig, EpochChangeCondition, ConsensusManagerCreateInput,
    RuleSet, RecoveryProposal, Proposer, Role,
    LiquidFungibleResource, LockedFungibleResource, LiquidNonFungibleVault, LockedNonFungibleResource,
    ComponentRoyaltySubstate, ComponentRoyaltyConfig, PackageRoyaltyConfig, RoyaltyAmount,
    Bucket, Proof, Vault, Own, Reference, GlobalAddressReservation,
    EventTypeIdentifier, Emitter, FnIdentifier, ModuleConfig<RoleAssignmentInit>,
    PackageDefinition, BlueprintDefinitionInit, FunctionAuth, MethodAuthTemplate, IndexedStateSchema,
    (u8, String, Vec<Option<i64>>), BTreeMap<String, Vec<u8>>, Option<Result<u32, String>>, [u16; 3], IndexMap<u8, (bool, i128)>,
);

fn main() {
    let args = Args::parse();
    let mut report = Report::new(
        "C22",
        args.seed,
        "schema-level: distinct (schema, type, payload, limit) with outcome; type-level: distinct (type, payload)",
    );
    let mut cw = CaseWriter::new(
        "RV.Model.C20_Sbor RV.Model.C22_Types RV.Model.C22_Schema RV.Model.C22_Typed RV.Corr.C22_run",
        "check",
    );
    let base = Rng::new(args.seed);
    let thorough = args.tier == "thorough";

    // ---------------- schema-level stream ----------------
    let n_schema = args.cases;
    for i in 0..n_schema {
        let mut rng = base.fork(i as u64);
        let allow_invalid = rng.chance(1, 4);
        let n_types = *rng.pick(&[1usize, 2, 3, 4, 5, 6, 8]);
        let schema = gen_schema(&mut rng, &SchemaCfg { n_types, allow_invalid });
        let wks = well_known_ids();
        let tid = match rng.below(10) {
            0 => wk(*rng.pick(&wks)),
            1 => wk(ANY),
            2 if allow_invalid => LocalTypeId::SchemaLocalIndex(n_types + rng.usize_below(2)),
            _ => LocalTypeId::SchemaLocalIndex(rng.usize_below(n_types)),
        };
        let deviate = *rng.pick(&[0u64, 0, 0, 12, 5]);
        let mut g = VGen { schema: &schema, budget: 40, deviate };
        let v = g.gen(&mut rng, tid, 6);
        let Ok(mut payload) = scrypto_encode(&v_to::<FScrypto>(&v)) else {
            report.count("gen_encode_failed");
            continue;
        };
        let mutated = rng.chance(1, 6);
        if mutated {
            payload = mutate(&mut rng, Fl::Scrypto, &payload).0;
        }
        let md = match rng.below(8) {
            0 => rng.below(4) as usize,
            1 => v.depth(),
            2 => v.depth().saturating_sub(1),
            _ => 64,
        };
        let r = run_validate(&payload, &schema, tid, md);
        let (oc, ocl) = outcome(&r);
        report.count(&format!("schema_outcome_{}", ocl));
        if allow_invalid { report.count("schema_possibly_invalid"); }
        if mutated { report.count("schema_payload_mutated"); }
        if schema.validate().is_ok() { report.count("schema_valid"); }
        if r.is_err() {
            report.oracle_failure(i, "", "validate_payload_against_schema panicked", json!({"schema": format!("{:?}", schema), "payload": hex(&payload)}));
        }
        // direct oracle: the Any type accepts exactly the decodable payloads (md >= 1)
        if md >= 1 {
            let any = run_validate(&payload, &schema, wk(ANY), md);
            let dec = scrypto_decode_with_depth_limit::<ScryptoValue>(&payload, md).is_ok();
            if matches!(any, Ok(Ok(()))) != dec {
                report.oracle_failure(i, "", "Any type acceptance differs from untyped decodability", json!({"payload": hex(&payload), "md": md}));
            }
        }
        report.case(&format!("S{:?}{:?}{}{}{}", schema, tid, hex(&payload), md, ocl), true);
        if !mutated && md == 64 && rng.chance(1, 2) {
            cw.push(format!("(CValue {} {} {} {} {})", coq_schema(&schema), coq_tid(&tid), v.coq(), coq_bytes(&payload), oc));
            report.count("cases_value");
        } else {
            cw.push(format!("(CSchema {} {} {} {} {})", coq_schema(&schema), coq_tid(&tid), md, coq_bytes(&payload), oc));
            report.count("cases_schema");
        }
    }

    // ---------------- type-level stream ----------------
    let rounds = if thorough { 40 } else { 3 };
    for r in 0..rounds {
        for t in 0..N_TYPES {
            let idx = n_schema + r * N_TYPES + t;
            let mut rng = base.fork(idx as u64);
            let mut cx = TypeCtx { rng: &mut rng, report: &mut report, cw: &mut cw, idx, push_model: r < 2 };
            run_type(t, &mut cx);
        }
    }
    report.extra.insert("type_table_size".into(), json!(N_TYPES));

    report.floor("schema_outcome_ok", (n_schema / 10) as u64);
    report.floor("type_instances", (N_TYPES / 2) as u64);
    report.floor("schema_valid", (n_schema / 4) as u64);
    report.write(&args.out).expect("write report");
    if !args.oracle_only {
        cw.write(&args.out, args.shards).expect("write cases");
    }
}
