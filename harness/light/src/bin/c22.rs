//! C22 correspondence harness.
//! Schema-level: random (schema, type id, payload, depth limit) — the real
//! `validate_payload_against_schema::<ScryptoCustomExtension, ()>` vs coq/Model/C22_Typed.v
//! (outcome incl. error class) and vs `validates` on the decoded value (Model/C22_Schema.v).
//! Type-level (direct oracle = the property statement, no model): for a collection of real
//! ScryptoSbor + ScryptoDescribe types, instances obtained by decoding schema-directed payloads:
//!   encode(x) validates against the type's own generated schema, decodes back to an equal value;
//!   every (mutated) payload the typed decoder accepts validates against the schema.
//! The type-level payloads are also pushed through the model (schema of the real type printed as
//! a Coq term), so the model is exercised on the schemas the Describe derive generates.
#[path = "../sborir.rs"]
mod sborir;
#[path = "../schemair.rs"]
mod schemair;
use radix_common::prelude::*;
use radix_engine_interface::prelude::*;
use radix_engine_interface::blueprints::account::*;
use radix_engine_interface::blueprints::access_controller::*;
use radix_engine_interface::blueprints::package::*;
use sbor::traversal::*;
use schemair::*;
use serde_json::json;
use sborir::*;
use vh_common::*;

const OWN_CLASS: &str = "own_wrapper_decoder_ignores_schema_validation";

fn ik_coq_of_err(v: &ValidationError) -> String {
    match v {
        ValidationError::LengthValidationError { .. } => "VELength".into(),
        ValidationError::I8ValidationError { .. } => "(VENum I8)".into(),
        ValidationError::I16ValidationError { .. } => "(VENum I16)".into(),
        ValidationError::I32ValidationError { .. } => "(VENum I32)".into(),
        ValidationError::I64ValidationError { .. } => "(VENum I64)".into(),
        ValidationError::I128ValidationError { .. } => "(VENum I128)".into(),
        ValidationError::U8ValidationError { .. } => "(VENum U8)".into(),
        ValidationError::U16ValidationError { .. } => "(VENum U16)".into(),
        ValidationError::U32ValidationError { .. } => "(VENum U32)".into(),
        ValidationError::U64ValidationError { .. } => "(VENum U64)".into(),
        ValidationError::U128ValidationError { .. } => "(VENum U128)".into(),
        ValidationError::CustomError(_) => "VECustom".into(),
    }
}

/// (Coq `pres` term, class label)
fn outcome(
    r: &Result<Result<(), PayloadValidationError<ScryptoCustomExtension>>, String>,
) -> (String, String) {
    match r {
        Err(_) => ("PPanic".into(), "panic".into()),
        Ok(Ok(())) => ("POk".into(), "ok".into()),
        Ok(Err(e)) => match e {
            PayloadValidationError::TraversalError(TypedTraversalError::DecodeError(d)) => {
                (format!("(PErr (PDecode {}))", coq_dec_err(d)), format!("decode_{}", dec_err_class(d)))
            }
            PayloadValidationError::TraversalError(TypedTraversalError::TypeIdNotFound(_)) => {
                ("(PErr PTypeIdNotFound)".into(), "type_id_not_found".into())
            }
            PayloadValidationError::TraversalError(TypedTraversalError::ValueMismatchWithType(m)) => {
                let c = match m {
                    TypeMismatchError::MismatchingType { .. } => "MType",
                    TypeMismatchError::MismatchingChildElementType { .. } => "MChildElem",
                    TypeMismatchError::MismatchingChildKeyType { .. } => "MChildKey",
                    TypeMismatchError::MismatchingChildValueType { .. } => "MChildVal",
                    TypeMismatchError::MismatchingTupleLength { .. } => "MTupleLen",
                    TypeMismatchError::MismatchingEnumVariantLength { .. } => "MEnumLen",
                    TypeMismatchError::UnknownEnumVariant { .. } => "MUnknownVariant",
                };
                (format!("(PErr (PMismatch {}))", c), format!("mismatch_{}", c))
            }
            PayloadValidationError::ValidationError(v) => {
                let c = ik_coq_of_err(v);
                (format!("(PErr (PValidation {}))", c), "validation".into())
            }
            PayloadValidationError::SchemaInconsistency => {
                ("(PErr PSchemaInconsistency)".into(), "schema_inconsistency".into())
            }
        },
    }
}

fn run_validate(
    payload: &[u8],
    schema: &ScryptoSchema,
    t: LocalTypeId,
    md: usize,
) -> Result<Result<(), PayloadValidationError<ScryptoCustomExtension>>, String> {
    let p = payload.to_vec();
    let s = schema.clone();
    catch(move || {
        validate_payload_against_schema::<ScryptoCustomExtension, ()>(&p, &s, t, &(), md).map_err(|e| e.error)
    })
}

// ------------------------------------------------------------------------------------------------
// type-level
// ------------------------------------------------------------------------------------------------
struct TypeCtx<'a> {
    rng: &'a mut Rng,
    report: &'a mut Report,
    cw: &'a mut CaseWriter,
    idx: usize,
    push_model: bool,
}

/// the known-finding class: the schema rejection is the static `Own<..>` entity-byte check
/// (apply_static_custom_validation_to_custom_value) on a node id the typed decoder never checks
fn own_class(r: &Result<Result<(), PayloadValidationError<ScryptoCustomExtension>>, String>) -> &'static str {
    match r {
        Ok(Err(PayloadValidationError::ValidationError(ValidationError::CustomError(m)))) if m.starts_with("Expected = Own<") => OWN_CLASS,
        _ => "",
    }
}

/// one type-level case for T: schema-directed payload -> typed decode -> property checks
fn type_case<T>(name: &str, cx: &mut TypeCtx)
where
    T: ScryptoSbor + ScryptoDescribe + PartialEq + std::fmt::Debug,
{
    let (tid, vs) = generate_full_schema_from_single_type::<T, ScryptoCustomSchema>();
    let schema = vs.v1().clone();
    // a payload meant to be valid for the schema
    let mut g = VGen { schema: &schema, budget: 60, deviate: 0 };
    let v = g.gen(cx.rng, tid, 10);
    let Ok(payload) = scrypto_encode(&v_to::<FScrypto>(&v)) else {
        cx.report.count("type_gen_encode_failed");
        return;
    };
    let mut candidates: Vec<(Vec<u8>, &'static str)> = vec![(payload.clone(), "generated")];
    for _ in 0..2 {
        let (m, _) = mutate(cx.rng, Fl::Scrypto, &payload);
        candidates.push((m, "mutated"));
    }
    {
        // a structurally matching value that deliberately leaves the schema in places (bounds,
        // entity bytes of references / owned nodes, lengths, variants)
        let mut g = VGen { schema: &schema, budget: 60, deviate: 6 };
        let v2 = g.gen(cx.rng, tid, 10);
        if let Ok(p2) = scrypto_encode(&v_to::<FScrypto>(&v2)) {
            candidates.push((p2, "deviated"));
        }
    }
    for (p, kind) in candidates {
        let dec = catch({
            let p = p.clone();
            move || scrypto_decode::<T>(&p).ok()
        });
        let val = run_validate(&p, &schema, tid, SCRYPTO_SBOR_V1_MAX_DEPTH);
        let (oc, ocl) = outcome(&val);
        cx.report.count(&format!("type_{}_{}", kind, if matches!(dec, Ok(Some(_))) { "decoded" } else { "rejected" }));
        match dec {
            Err(m) => cx.report.oracle_failure(cx.idx, "", &format!("typed decoder of {} panicked: {}", name, m), json!({"type": name, "payload": hex(&p)})),
            Ok(Some(x)) => {
                cx.report.count("type_instances");
                // (b) the typed decoder accepted p => schema validates p
                if !matches!(val, Ok(Ok(()))) {
                    cx.report.oracle_failure(
                        cx.idx,
                        own_class(&val),
                        &format!("typed decoder of {} accepts a payload its own schema rejects ({})", name, ocl),
                        json!({"type": name, "payload": hex(&p)}),
                    );
                }
                // (a) encode(x) validates and decodes back to x
                match scrypto_encode(&x) {
                    Err(e) => cx.report.oracle_failure(cx.idx, "", &format!("{}: decoded value does not encode: {:?}", name, e), json!({"type": name, "payload": hex(&p)})),
                    Ok(q) => {
                        let val2 = run_validate(&q, &schema, tid, SCRYPTO_SBOR_V1_MAX_DEPTH);
                        if !matches!(val2, Ok(Ok(()))) {
                            cx.report.oracle_failure(
                                cx.idx,
                                own_class(&val2),
                                &format!("{}: encoding of a value does not validate against its own schema ({})", name, outcome(&val2).1),
                                json!({"type": name, "payload": hex(&q)}),
                            );
                        }
                        match scrypto_decode::<T>(&q) {
                            Ok(y) if y == x => {}
                            other => cx.report.oracle_failure(cx.idx, "", &format!("{}: encode/decode round trip differs: {:?}", name, other.is_ok()), json!({"type": name, "payload": hex(&q)})),
                        }
                    }
                }
            }
            Ok(None) => {}
        }
        if cx.push_model && p.len() < 600 && schema.type_kinds.len() <= 40 {
            cx.cw.push(format!(
                "(CSchema {} {} {} {} {})",
                coq_schema(&schema),
                coq_tid(&tid),
                SCRYPTO_SBOR_V1_MAX_DEPTH,
                coq_bytes(&p),
                oc
            ));
            cx.report.count("type_cases_to_model");
        }
        cx.report.case(&format!("T{}{}{}", name, hex(&p), ocl), true);
    }
}

macro_rules! type_table {
    ($($t:ty),* $(,)?) => {
        const N_TYPES: usize = [$(stringify!($t)),*].len();
        fn run_type(i: usize, cx: &mut TypeCtx) {
            let mut k = 0usize;
            $( if i == k { type_case::<$t>(stringify!($t), cx); return; } k += 1; )*
            let _ = k;
        }
    };
}

type_table!(
    // radix-common scalars / addresses / crypto
    Decimal, PreciseDecimal, NonFungibleLocalId, NonFungibleGlobalId, Epoch, Round, Instant,
    GlobalAddress, InternalAddress, ComponentAddress, ResourceAddress, PackageAddress,
    Hash, PublicKey, PublicKeyHash, Secp256k1PublicKey, Ed25519PublicKey,
    ResourceOrNonFungible, TimePrecision, RoundingMode, WithdrawStrategy,
    // schema types themselves
    VersionedScryptoSchema, LocalTypeId, ScryptoTypeValidation, TypeMetadata,
    // access rules / roles / metadata
    AccessRule, CompositeRequirement, BasicRequirement, OwnerRole, RoleAssignmentInit, RoleList, MethodAccessibility,
    MetadataValue, MetadataInit, UncheckedUrl, UncheckedOrigin,
    // blueprint interface types (inputs / configs / substate payload types)
    BlueprintId, ObjectInfo, ObjectType, BlueprintInfo, FieldValue, GenericSubstitution, BlueprintTypeIdentifier,
    FungibleResourceRoles, NonFungibleResourceRoles, ResourceFeature,
    FungibleResourceManagerCreateInput, NonFungibleResourceManagerCreateInput,
    AccountWithdrawInput, AccountSetResourcePreferenceInput, ResourcePreference, DefaultDepositRule,
    ConsensusManagerConfig, EpochChangeCondition, ConsensusManagerCreateInput,
    RuleSet, RecoveryProposal, Proposer, Role,
    LiquidFungibleResource, LockedFungibleResource, LiquidNonFungibleVault, LockedNonFungibleResource,
    ComponentRoyaltySubstate, ComponentRoyaltyConfig, PackageRoyaltyConfig, RoyaltyAmount,
    Bucket, Proof, Vault, Own, Reference, GlobalAddressReservation,
    EventTypeIdentifier, Emitter, FnIdentifier, ModuleConfig<RoleAssignmentInit>,
    PackageDefinition, BlueprintDefinitionInit, FunctionAuth, MethodAuthTemplate, IndexedStateSchema,
    (u8, String, Vec<Option<i64>>), BTreeMap<String, Vec<u8>>, Option<Result<u32, String>>, [u16; 3], IndexMap<u8, (bool, i128)>,
);


// ------------------------------------------------------------------------------------------------
// deterministic boundary family (identical for every seed)
// ------------------------------------------------------------------------------------------------
struct BCase {
    class: String,
    schema: ScryptoSchema,
    tid: LocalTypeId,
    value: Option<V>,
    payload: Vec<u8>,
    md: usize,
    /// expected acceptance where it is the plain statement of the validation (bounds arithmetic)
    expect: Option<bool>,
}
fn sch(types: Vec<(SK, SV)>) -> ScryptoSchema {
    let n = types.len();
    let (kinds, vals): (Vec<SK>, Vec<SV>) = types.into_iter().unzip();
    ScryptoSchema { type_kinds: kinds, type_metadata: vec![TypeMetadata::unnamed(); n], type_validations: vals }
}
fn loc(i: usize) -> LocalTypeId {
    LocalTypeId::SchemaLocalIndex(i)
}
fn enc(v: &V) -> Vec<u8> {
    scrypto_encode(&v_to::<FScrypto>(v)).expect("boundary value encodes")
}
fn bc(class: &str, schema: ScryptoSchema, tid: LocalTypeId, v: V, expect: Option<bool>) -> BCase {
    let payload = enc(&v);
    BCase { class: class.to_string(), schema, tid, value: Some(v), payload, md: 64, expect }
}
fn sample_values() -> Vec<V> {
    let mut v = vec![V::Bool(true)];
    for ik in IKS {
        v.push(V::Int(ik, if ik.signed() { Z::S(1) } else { Z::U(1) }));
    }
    v.push(V::Str("ab".into()));
    v.push(V::Array(K::Int(IK::U8), vec![V::Int(IK::U8, Z::U(7))]));
    v.push(V::Array(K::Bool, vec![]));
    v.push(V::Tuple(vec![]));
    v.push(V::Enum(0, vec![]));
    v.push(V::Map(K::Int(IK::U8), K::Int(IK::U8), vec![]));
    let ents = rep_entity_bytes();
    v.push(V::Custom(C::SReference(node(ents[0]))));
    v.push(V::Custom(C::SOwn(node(ents[4]))));
    v.push(V::Custom(C::SDecimal([1u8; 24])));
    v.push(V::Custom(C::SPreciseDecimal([1u8; 32])));
    v.push(V::Custom(C::SNf(Nf::Int(5))));
    v
}
fn sample_kinds() -> Vec<SK> {
    let mut k: Vec<SK> = vec![TypeKind::Any, TypeKind::Bool];
    for ik in IKS {
        k.push(ik_kind(ik));
    }
    k.push(TypeKind::String);
    k.push(TypeKind::Array { element_type: wk(7) });
    k.push(TypeKind::Array { element_type: wk(1) });
    k.push(TypeKind::Tuple { field_types: vec![] });
    k.push(TypeKind::Enum { variants: indexmap!(0u8 => vec![]) });
    k.push(TypeKind::Map { key_type: wk(7), value_type: wk(7) });
    for c in [ScryptoCustomTypeKind::Reference, ScryptoCustomTypeKind::Own, ScryptoCustomTypeKind::Decimal, ScryptoCustomTypeKind::PreciseDecimal, ScryptoCustomTypeKind::NonFungibleLocalId] {
        k.push(TypeKind::Custom(c));
    }
    k
}

fn boundary_cases() -> Vec<BCase> {
    let mut out: Vec<BCase> = vec![];
    let mut rng = Rng::new(0xB0DA_22);
    let u8v = |x: u128| V::Int(IK::U8, Z::U(x));
    // --- numeric bounds, every integer kind: below / at / above each bound, type extremes
    for ik in IKS {
        let (lo_t, hi_t) = (tmin(ik), tmax(ik));
        let lo = zadd(lo_t, 2);
        let hi = zadd(lo, 3);
        let mut add = |min: Option<Z>, max: Option<Z>, vals: Vec<Z>| {
            for z in vals {
                let ok = zle(min.unwrap_or(lo_t), z) && zle(z, max.unwrap_or(hi_t));
                out.push(bc(&format!("b_num_{:?}", ik), sch(vec![(ik_kind(ik), num_val(ik, min, max))]), loc(0), V::Int(ik, z), Some(ok)));
            }
        };
        add(Some(lo), Some(hi), vec![zadd(lo, -1), lo, zadd(lo, 1), hi, zadd(hi, 1), lo_t, hi_t]);
        add(Some(lo_t), Some(hi_t), vec![lo_t, hi_t]);
        add(None, Some(hi), vec![lo_t, hi, zadd(hi, 1)]);
        add(Some(lo), None, vec![zadd(lo, -1), lo, hi_t]);
        add(Some(hi_t), Some(hi_t), vec![zadd(hi_t, -1), hi_t]);
        add(Some(lo_t), Some(lo_t), vec![lo_t, zadd(lo_t, 1)]);
        add(None, None, vec![lo_t, hi_t]);
        // the same bound seen through a container (tuple field) and with a validation of another kind
        out.push(bc(&format!("b_num_{:?}", ik), sch(vec![(TypeKind::Tuple { field_types: vec![loc(1)] }, TypeValidation::None), (ik_kind(ik), num_val(ik, Some(lo), Some(hi)))]), loc(0), V::Tuple(vec![V::Int(ik, zadd(hi, 1))]), Some(false)));
        let other = if ik == IK::I8 { IK::U8 } else { IK::I8 };
        out.push(bc("b_inconsistent", sch(vec![(ik_kind(ik), num_val(other, None, None))]), loc(0), V::Int(ik, lo), None));
    }
    // --- byte batch (Vec<u8> with a bounded u8 element type)
    {
        let s = || sch(vec![(TypeKind::Array { element_type: loc(1) }, TypeValidation::None), (TypeKind::U8, num_val(IK::U8, Some(Z::U(3)), Some(Z::U(5))))]);
        let arrs: Vec<(Vec<u128>, bool)> = vec![(vec![], true), (vec![3], true), (vec![5], true), (vec![2], false), (vec![6], false), (vec![4, 4, 6], false), (vec![2, 4, 4], false), (vec![4, 2, 4], false), (vec![3, 4, 5], true)];
        for (a, ok) in arrs {
            out.push(bc("b_batch", s(), loc(0), V::Array(K::Int(IK::U8), a.iter().map(|x| u8v(*x)).collect()), Some(ok)));
        }
        out.push(bc("b_batch", s(), loc(0), V::Array(K::Int(IK::U8), vec![u8v(4); 300]), Some(true)));
        let mut long = vec![u8v(4); 300];
        long[299] = u8v(6);
        out.push(bc("b_batch", s(), loc(0), V::Array(K::Int(IK::U8), long), Some(false)));
        // element type with a non-u8 validation / non-u8 kind
        out.push(bc("b_batch", sch(vec![(TypeKind::Array { element_type: loc(1) }, TypeValidation::None), (TypeKind::U8, TypeValidation::String(lenv(None, None)))]), loc(0), V::Array(K::Int(IK::U8), vec![u8v(1)]), None));
        out.push(bc("b_batch", sch(vec![(TypeKind::Array { element_type: loc(1) }, TypeValidation::None), (TypeKind::U16, TypeValidation::None)]), loc(0), V::Array(K::Int(IK::U8), vec![u8v(1)]), None));
        out.push(bc("b_batch", sch(vec![(TypeKind::Array { element_type: loc(1) }, TypeValidation::None), (TypeKind::U16, TypeValidation::None)]), loc(0), V::Array(K::Int(IK::U8), vec![]), None));
    }
    // --- length validation: strings, arrays (batch and non-batch), maps
    {
        let mk = |which: usize, n: usize| -> V {
            match which {
                0 => V::Str("x".repeat(n)),
                1 => V::Array(K::Int(IK::U8), vec![V::Int(IK::U8, Z::U(1)); n]),
                2 => V::Array(K::Bool, vec![V::Bool(true); n]),
                _ => V::Map(K::Int(IK::U8), K::Bool, (0..n).map(|i| (V::Int(IK::U8, Z::U(i as u128)), V::Bool(false))).collect()),
            }
        };
        let ty = |which: usize, b: LengthValidation| -> ScryptoSchema {
            match which {
                0 => sch(vec![(TypeKind::String, TypeValidation::String(b))]),
                1 => sch(vec![(TypeKind::Array { element_type: wk(7) }, TypeValidation::Array(b))]),
                2 => sch(vec![(TypeKind::Array { element_type: wk(1) }, TypeValidation::Array(b))]),
                _ => sch(vec![(TypeKind::Map { key_type: wk(7), value_type: wk(1) }, TypeValidation::Map(b))]),
            }
        };
        let names = ["b_len_string", "b_len_bytes", "b_len_array", "b_len_map"];
        for which in 0..4 {
            let configs: Vec<(Option<u32>, Option<u32>, Vec<usize>)> = vec![
                (Some(2), Some(4), vec![0, 1, 2, 3, 4, 5]),
                (None, Some(0), vec![0, 1]),
                (Some(1), None, vec![0, 1, 2]),
                (Some(3), Some(3), vec![2, 3, 4]),
                (None, None, vec![0, 7]),
                (Some(0), Some(u32::MAX), vec![0, 1]),
            ];
            for (mn, mx, lens) in configs {
                for n in lens {
                    let ok = mn.unwrap_or(0) as usize <= n && n <= mx.unwrap_or(u32::MAX) as usize;
                    out.push(bc(names[which], ty(which, lenv(mn, mx)), loc(0), mk(which, n), Some(ok)));
                }
            }
        }
        // length validation of the wrong container kind (maps vs arrays vs strings)
        let b = lenv(Some(1), Some(2));
        out.push(bc("b_inconsistent", sch(vec![(TypeKind::Array { element_type: wk(1) }, TypeValidation::Map(b))]), loc(0), mk(2, 1), None));
        out.push(bc("b_inconsistent", sch(vec![(TypeKind::Map { key_type: wk(7), value_type: wk(1) }, TypeValidation::Array(b))]), loc(0), mk(3, 1), None));
        out.push(bc("b_inconsistent", sch(vec![(TypeKind::String, TypeValidation::Array(b))]), loc(0), mk(0, 1), None));
        out.push(bc("b_inconsistent", sch(vec![(TypeKind::Array { element_type: wk(1) }, TypeValidation::String(b))]), loc(0), mk(2, 1), None));
        out.push(bc("b_inconsistent", sch(vec![(TypeKind::Tuple { field_types: vec![] }, TypeValidation::Array(b))]), loc(0), V::Tuple(vec![]), None));
        out.push(bc("b_inconsistent", sch(vec![(TypeKind::Any, TypeValidation::Array(b))]), loc(0), mk(2, 1), None));
        out.push(bc("b_inconsistent", sch(vec![(TypeKind::Any, TypeValidation::Array(b))]), loc(0), mk(2, 3), None));
        out.push(bc("b_inconsistent", sch(vec![(TypeKind::Any, TypeValidation::Array(b))]), loc(0), mk(3, 1), None));
        out.push(bc("b_inconsistent", sch(vec![(TypeKind::Any, TypeValidation::Map(b))]), loc(0), mk(3, 3), None));
        out.push(bc("b_inconsistent", sch(vec![(TypeKind::Any, TypeValidation::String(b))]), loc(0), mk(0, 3), None));
        out.push(bc("b_inconsistent", sch(vec![(TypeKind::Any, num_val(IK::U8, Some(Z::U(3)), None))]), loc(0), V::Int(IK::U8, Z::U(2)), None));
        out.push(bc("b_inconsistent", sch(vec![(TypeKind::Any, num_val(IK::U8, Some(Z::U(3)), None))]), loc(0), V::Int(IK::U16, Z::U(9)), None));
        // validations vector shorter than kinds
        let mut s = sch(vec![(TypeKind::Bool, TypeValidation::None), (TypeKind::Bool, TypeValidation::None)]);
        s.type_validations.pop();
        out.push(bc("b_inconsistent", s.clone(), loc(1), V::Bool(true), None));
        out.push(bc("b_inconsistent", s, loc(0), V::Bool(true), None));
    }
    // --- tuple arity
    for n in [0usize, 1, 3] {
        for m in [n.wrapping_sub(1), n, n + 1] {
            if m == usize::MAX { continue; }
            let s = sch(vec![(TypeKind::Tuple { field_types: vec![wk(1); n] }, TypeValidation::None)]);
            out.push(bc("b_tuple_arity", s, loc(0), V::Tuple(vec![V::Bool(true); m]), Some(m == n)));
        }
    }
    // --- enum variants: every discriminator around the variant set, field counts -1/0/+1
    {
        let vs = || sch(vec![(TypeKind::Enum { variants: indexmap!(0u8 => vec![], 1u8 => vec![wk(1)], 2u8 => vec![wk(1), wk(7)]) }, TypeValidation::None)]);
        let fields = |n: usize| -> Vec<V> { (0..n).map(|i| if i == 1 { V::Int(IK::U8, Z::U(1)) } else { V::Bool(true) }).collect() };
        for d in [0u8, 1, 2, 3, 4, 254, 255] {
            let nat = match d { 0 => 0, 1 => 1, 2 => 2, _ => 0 };
            out.push(bc("b_enum", vs(), loc(0), V::Enum(d, fields(nat)), Some(d <= 2)));
        }
        for (d, n) in [(0u8, 1usize), (1, 0), (1, 2), (2, 1), (2, 3)] {
            out.push(bc("b_enum", vs(), loc(0), V::Enum(d, fields(n)), Some(false)));
        }
        // sparse discriminators: {0, 2, 255}; 1 and 3 (= variant count) are unknown
        let sp = || sch(vec![(TypeKind::Enum { variants: indexmap!(0u8 => vec![], 2u8 => vec![], 255u8 => vec![]) }, TypeValidation::None)]);
        for d in [0u8, 1, 2, 3, 254, 255] {
            out.push(bc("b_enum", sp(), loc(0), V::Enum(d, vec![]), Some(d == 0 || d == 2 || d == 255)));
        }
        let empty = sch(vec![(TypeKind::Enum { variants: indexmap!() }, TypeValidation::None)]);
        out.push(bc("b_enum", empty, loc(0), V::Enum(0, vec![]), Some(false)));
    }
    // --- kind matrix: every type kind against a value of every value kind
    for k in sample_kinds() {
        for v in sample_values() {
            out.push(bc("b_kind_matrix", sch(vec![(k.clone(), TypeValidation::None)]), loc(0), v, None));
        }
    }
    // --- element / key / value kind checks of arrays and maps (empty and non-empty)
    {
        let arr = |e: LocalTypeId| sch(vec![(TypeKind::Array { element_type: e }, TypeValidation::None)]);
        for (ek, es) in [(K::Int(IK::U16), vec![]), (K::Int(IK::U16), vec![V::Int(IK::U16, Z::U(1))]), (K::Int(IK::U8), vec![]), (K::Bool, vec![V::Bool(true)]), (K::Tuple, vec![V::Tuple(vec![])])] {
            out.push(bc("b_child_kind", arr(wk(7)), loc(0), V::Array(ek, es.clone()), None));
            out.push(bc("b_child_kind", arr(wk(ANY)), loc(0), V::Array(ek, es.clone()), None));
            out.push(bc("b_child_kind", arr(wk(0x42)), loc(0), V::Array(ek, es), None));
        }
        let map = |k: LocalTypeId, v: LocalTypeId| sch(vec![(TypeKind::Map { key_type: k, value_type: v }, TypeValidation::None)]);
        let u8k = K::Int(IK::U8);
        for (kk, vk, es) in [
            (u8k, K::Bool, vec![]), (K::Bool, K::Bool, vec![]), (u8k, u8k, vec![]), (K::Bool, u8k, vec![]),
            (u8k, K::Bool, vec![(V::Int(IK::U8, Z::U(1)), V::Bool(true))]),
            (u8k, u8k, vec![(V::Int(IK::U8, Z::U(1)), V::Int(IK::U8, Z::U(1)))]),
            (K::Bool, K::Bool, vec![(V::Bool(true), V::Bool(true))]),
        ] {
            out.push(bc("b_child_kind", map(wk(7), wk(1)), loc(0), V::Map(kk, vk, es.clone()), None));
            out.push(bc("b_child_kind", map(wk(ANY), wk(1)), loc(0), V::Map(kk, vk, es.clone()), None));
            out.push(bc("b_child_kind", map(wk(7), wk(ANY)), loc(0), V::Map(kk, vk, es), None));
        }
    }
    // --- static custom validations: every validation against every class of entity byte
    {
        let ents = rep_entity_bytes();
        let refs = vec![
            ReferenceValidation::IsGlobal, ReferenceValidation::IsGlobalPackage, ReferenceValidation::IsGlobalComponent,
            ReferenceValidation::IsGlobalResourceManager, ReferenceValidation::IsGlobalTyped(None, "X".into()),
            ReferenceValidation::IsInternal, ReferenceValidation::IsInternalTyped(Some(RESOURCE_PACKAGE), "Y".into()),
        ];
        let owns = vec![
            OwnValidation::IsBucket, OwnValidation::IsProof, OwnValidation::IsVault, OwnValidation::IsKeyValueStore,
            OwnValidation::IsGlobalAddressReservation, OwnValidation::IsTypedObject(None, "Z".into()),
        ];
        for r in &refs {
            for e in &ents {
                let s = sch(vec![(TypeKind::Custom(ScryptoCustomTypeKind::Reference), TypeValidation::Custom(ScryptoCustomTypeValidation::Reference(r.clone())))]);
                out.push(bc("b_custom_ref", s, loc(0), V::Custom(C::SReference(node(*e))), None));
            }
        }
        for o in &owns {
            for e in &ents {
                let s = sch(vec![(TypeKind::Custom(ScryptoCustomTypeKind::Own), TypeValidation::Custom(ScryptoCustomTypeValidation::Own(o.clone())))]);
                out.push(bc("b_custom_own", s, loc(0), V::Custom(C::SOwn(node(*e))), None));
            }
        }
        // custom validation of the other custom kind / on a non-custom value / numeric on custom
        let rv = TypeValidation::Custom(ScryptoCustomTypeValidation::Reference(ReferenceValidation::IsGlobal));
        let ov = TypeValidation::Custom(ScryptoCustomTypeValidation::Own(OwnValidation::IsVault));
        out.push(bc("b_inconsistent", sch(vec![(TypeKind::Custom(ScryptoCustomTypeKind::Own), rv.clone())]), loc(0), V::Custom(C::SOwn(node(ents[4]))), None));
        out.push(bc("b_inconsistent", sch(vec![(TypeKind::Custom(ScryptoCustomTypeKind::Reference), ov.clone())]), loc(0), V::Custom(C::SReference(node(ents[0]))), None));
        out.push(bc("b_inconsistent", sch(vec![(TypeKind::Bool, rv.clone())]), loc(0), V::Bool(true), None));
        out.push(bc("b_inconsistent", sch(vec![(TypeKind::Any, rv.clone())]), loc(0), V::Bool(true), None));
        out.push(bc("b_inconsistent", sch(vec![(TypeKind::Any, rv)]), loc(0), V::Custom(C::SReference(node(ents[4]))), None));
        out.push(bc("b_inconsistent", sch(vec![(TypeKind::Custom(ScryptoCustomTypeKind::Decimal), ov)]), loc(0), V::Custom(C::SDecimal([0; 24])), None));
        out.push(bc("b_inconsistent", sch(vec![(TypeKind::Custom(ScryptoCustomTypeKind::Decimal), num_val(IK::U8, None, None))]), loc(0), V::Custom(C::SDecimal([0; 24])), None));
    }
    // --- unresolvable type ids: root, tuple field, array element, map key, map value, enum field
    {
        let bad_wk = wk((0u16..=255).map(|b| b as u8).find(|b| !well_known_ids().contains(b)).unwrap());
        for bad in [loc(5), bad_wk] {
            out.push(bc("b_type_id_not_found", sch(vec![(TypeKind::Bool, TypeValidation::None)]), bad, V::Bool(true), Some(false)));
            out.push(bc("b_type_id_not_found", sch(vec![(TypeKind::Tuple { field_types: vec![wk(1), bad] }, TypeValidation::None)]), loc(0), V::Tuple(vec![V::Bool(true), V::Bool(true)]), Some(false)));
            out.push(bc("b_type_id_not_found", sch(vec![(TypeKind::Array { element_type: bad }, TypeValidation::None)]), loc(0), V::Array(K::Bool, vec![]), Some(false)));
            out.push(bc("b_type_id_not_found", sch(vec![(TypeKind::Map { key_type: bad, value_type: wk(1) }, TypeValidation::None)]), loc(0), V::Map(K::Bool, K::Bool, vec![]), Some(false)));
            out.push(bc("b_type_id_not_found", sch(vec![(TypeKind::Map { key_type: wk(1), value_type: bad }, TypeValidation::None)]), loc(0), V::Map(K::Bool, K::Bool, vec![]), Some(false)));
            out.push(bc("b_type_id_not_found", sch(vec![(TypeKind::Enum { variants: indexmap!(0u8 => vec![bad]) }, TypeValidation::None)]), loc(0), V::Enum(0, vec![V::Bool(true)]), Some(false)));
        }
    }
    // --- depth limit -1 / 0 / +1 around the value depth, on a cyclic list type and under Any
    {
        let list = || sch(vec![(TypeKind::Enum { variants: indexmap!(0u8 => vec![], 1u8 => vec![wk(7), loc(0)]) }, TypeValidation::None)]);
        let mk = |d: usize| { let mut v = V::Enum(0, vec![]); for _ in 1..d { v = V::Enum(1, vec![V::Int(IK::U8, Z::U(1)), v]); } v };
        for d in [1usize, 2, 5] {
            let v = mk(d);
            for md in [0usize, 1, d.saturating_sub(1), d, d + 1] {
                for (s, t) in [(list(), loc(0)), (list(), wk(ANY))] {
                    let payload = enc(&v);
                    out.push(BCase { class: "b_depth".into(), schema: s, tid: t, value: None, payload, md, expect: if md >= 1 { Some(v.depth() <= md) } else { None } });
                }
            }
        }
    }
    // --- decode-level rejections seen through the typed validator
    {
        let s = || sch(vec![(TypeKind::Tuple { field_types: vec![wk(7), wk(12)] }, TypeValidation::None)]);
        let good = enc(&V::Tuple(vec![V::Int(IK::U8, Z::U(1)), V::Str("hi".into())]));
        let mut variants: Vec<Vec<u8>> = vec![good.clone(), vec![], vec![0x5c], good[..good.len() - 1].to_vec()];
        let mut t = good.clone(); t.push(0); variants.push(t);
        let mut t = good.clone(); t[0] = 0x4d; variants.push(t);
        let mut t = good.clone(); t[1] = 0x7f; variants.push(t);
        let mut t = good.clone(); let n = t.len(); t[n - 1] = 0xff; variants.push(t);
        for p in variants {
            out.push(BCase { class: "b_decode".into(), schema: s(), tid: loc(0), value: None, payload: p, md: 64, expect: None });
        }
    }
    // --- every well-known type as root, with a schema-directed value (fixed generator seed)
    for w in well_known_ids() {
        let s = sch(vec![]);
        for dv in [0u64, 3] {
            let mut g = VGen { schema: &s, budget: 30, deviate: dv };
            let v = g.gen(&mut rng, wk(w), 6);
            out.push(bc("b_wellknown", s.clone(), wk(w), v, None));
        }
    }
    out
}

fn main() {
    let args = Args::parse();
    let mut report = Report::new(
        "C22",
        args.seed,
        "schema-level: distinct (schema, type, payload, limit) with outcome; type-level: distinct (type, payload)",
    );
    let mut cw = CaseWriter::new(
        "RV.Model.C20_Sbor RV.Model.C22_Types RV.Model.C22_Schema RV.Model.C22_Typed RV.Corr.C22_run",
        "check",
    );
    let base = Rng::new(args.seed);
    let thorough = args.tier == "thorough";

    // ---------------- deterministic boundary family ----------------
    let bcases = boundary_cases();
    let n_boundary = bcases.len();
    for (i, b) in bcases.into_iter().enumerate() {
        let idx = 1_000_000 + i;
        let r = run_validate(&b.payload, &b.schema, b.tid, b.md);
        let (oc, ocl) = outcome(&r);
        let accepted = matches!(r, Ok(Ok(())));
        report.count(&b.class);
        report.count(&format!("{}_{}", b.class, if accepted { "accept" } else { "reject" }));
        report.count(&format!("b_outcome_{}", ocl));
        if r.is_err() {
            report.oracle_failure(idx, "", "validate_payload_against_schema panicked (boundary family)", json!({"class": b.class, "schema": format!("{:?}", b.schema), "payload": hex(&b.payload)}));
        }
        if let Some(e) = b.expect {
            if e != accepted {
                report.oracle_failure(idx, "", &format!("boundary case of class {}: expected {} by the plain bound/arity/variant arithmetic, validator says {}", b.class, if e { "accept" } else { "reject" }, ocl),
                    json!({"class": b.class, "schema": format!("{:?}", b.schema), "type": format!("{:?}", b.tid), "payload": hex(&b.payload), "md": b.md}));
            }
        }
        report.case(&format!("B{:?}{:?}{}{}{}", b.schema, b.tid, hex(&b.payload), b.md, ocl), true);
        match (&b.value, b.md) {
            (Some(v), 64) => cw.push(format!("(CValue {} {} {} {} {})", coq_schema(&b.schema), coq_tid(&b.tid), v.coq(), coq_bytes(&b.payload), oc)),
            _ => cw.push(format!("(CSchema {} {} {} {} {})", coq_schema(&b.schema), coq_tid(&b.tid), b.md, coq_bytes(&b.payload), oc)),
        };
    }
    report.extra.insert("boundary_cases".into(), json!(n_boundary));
    for ik in IKS {
        report.floor(&format!("b_num_{:?}", ik), 20);
        report.floor(&format!("b_num_{:?}_accept", ik), 8);
        report.floor(&format!("b_num_{:?}_reject", ik), 6);
    }
    for c in ["b_len_string", "b_len_bytes", "b_len_array", "b_len_map"] {
        report.floor(c, 18);
        report.floor(&format!("{}_accept", c), 8);
        report.floor(&format!("{}_reject", c), 6);
    }
    for (c, n, a, rj) in [("b_batch", 12, 5, 6), ("b_tuple_arity", 8, 3, 5), ("b_enum", 18, 6, 10), ("b_kind_matrix", 400, 40, 300),
        ("b_child_kind", 30, 8, 8), ("b_custom_ref", 45, 10, 20), ("b_custom_own", 36, 10, 10), ("b_type_id_not_found", 12, 0, 12),
        ("b_inconsistent", 30, 1, 20), ("b_depth", 24, 8, 8), ("b_decode", 8, 1, 6), ("b_wellknown", 100, 40, 5)] {
        report.floor(c, n);
        if a > 0 { report.floor(&format!("{}_accept", c), a); }
        report.floor(&format!("{}_reject", c), rj);
    }
    for o in ["ok", "validation", "schema_inconsistency", "type_id_not_found", "mismatch_MType", "mismatch_MChildElem", "mismatch_MChildKey",
        "mismatch_MChildVal", "mismatch_MTupleLen", "mismatch_MEnumLen", "mismatch_MUnknownVariant", "decode_MaxDepthExceeded",
        "decode_ExtraTrailingBytes", "decode_BufferUnderflow", "decode_UnexpectedPayloadPrefix", "decode_UnknownValueKind"] {
        report.floor(&format!("b_outcome_{}", o), 1);
    }

    // ---------------- schema-level stream ----------------
    let n_schema = args.cases;
    for i in 0..n_schema {
        let mut rng = base.fork(i as u64);
        let allow_invalid = rng.chance(1, 4);
        let n_types = *rng.pick(&[1usize, 2, 3, 4, 5, 6, 8]);
        let schema = gen_schema(&mut rng, &SchemaCfg { n_types, allow_invalid });
        let wks = well_known_ids();
        let tid = match rng.below(10) {
            0 => wk(*rng.pick(&wks)),
            1 => wk(ANY),
            2 if allow_invalid => LocalTypeId::SchemaLocalIndex(n_types + rng.usize_below(2)),
            _ => LocalTypeId::SchemaLocalIndex(rng.usize_below(n_types)),
        };
        let deviate = *rng.pick(&[0u64, 0, 0, 12, 5]);
        let mut g = VGen { schema: &schema, budget: 40, deviate };
        let v = g.gen(&mut rng, tid, 6);
        let Ok(mut payload) = scrypto_encode(&v_to::<FScrypto>(&v)) else {
            report.count("gen_encode_failed");
            continue;
        };
        let mutated = rng.chance(1, 6);
        if mutated {
            payload = mutate(&mut rng, Fl::Scrypto, &payload).0;
        }
        let md = match rng.below(8) {
            0 => rng.below(4) as usize,
            1 => v.depth(),
            2 => v.depth().saturating_sub(1),
            _ => 64,
        };
        let r = run_validate(&payload, &schema, tid, md);
        let (oc, ocl) = outcome(&r);
        report.count(&format!("schema_outcome_{}", ocl));
        if allow_invalid { report.count("schema_possibly_invalid"); }
        if mutated { report.count("schema_payload_mutated"); }
        if schema.validate().is_ok() { report.count("schema_valid"); }
        if r.is_err() {
            report.oracle_failure(i, "", "validate_payload_against_schema panicked", json!({"schema": format!("{:?}", schema), "payload": hex(&payload)}));
        }
        // direct oracle: the Any type accepts exactly the decodable payloads (md >= 1)
        if md >= 1 {
            let any = run_validate(&payload, &schema, wk(ANY), md);
            let dec = scrypto_decode_with_depth_limit::<ScryptoValue>(&payload, md).is_ok();
            if matches!(any, Ok(Ok(()))) != dec {
                report.oracle_failure(i, "", "Any type acceptance differs from untyped decodability", json!({"payload": hex(&payload), "md": md}));
            }
        }
        report.case(&format!("S{:?}{:?}{}{}{}", schema, tid, hex(&payload), md, ocl), true);
        if !mutated && md == 64 && rng.chance(1, 2) {
            cw.push(format!("(CValue {} {} {} {} {})", coq_schema(&schema), coq_tid(&tid), v.coq(), coq_bytes(&payload), oc));
            report.count("cases_value");
        } else {
            cw.push(format!("(CSchema {} {} {} {} {})", coq_schema(&schema), coq_tid(&tid), md, coq_bytes(&payload), oc));
            report.count("cases_schema");
        }
    }

    // ---------------- type-level stream ----------------
    let rounds = if thorough { 40 } else { 3 };
    for r in 0..rounds {
        for t in 0..N_TYPES {
            let idx = n_schema + r * N_TYPES + t;
            let mut rng = base.fork(idx as u64);
            let mut cx = TypeCtx { rng: &mut rng, report: &mut report, cw: &mut cw, idx, push_model: r < 1 };
            run_type(t, &mut cx);
        }
    }
    report.extra.insert("type_table_size".into(), json!(N_TYPES));

    report.floor("schema_outcome_ok", (n_schema / 10) as u64);
    report.floor("type_instances", (N_TYPES / 2) as u64);
    report.floor("schema_valid", (n_schema / 4) as u64);
    report.write(&args.out).expect("write report");
    if !args.oracle_only {
        cw.write(&args.out, args.shards).expect("write cases");
    }
}
