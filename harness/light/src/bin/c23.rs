//! C23 correspondence harness: the real schema comparison (compare_single_type_schemas /
//! compare_type_collection_schemas on ScryptoCustomSchema) vs coq/Model/C23_SchemaCmp.v on schema
//! pairs derived by mutation, under random settings; verdict (valid / invalid / panic) and number
//! of reported errors are compared.
//! Direct oracle (the property statement, no model): whenever the implementation reports Valid,
//! payloads that the real validator accepts under the base schema (at the base root) must be
//! accepted under the compared schema (at the compared root); when the structure and validation
//! settings are the equality ones, also conversely.
#[path = "../sborir.rs"]
mod sborir;
#[path = "../schemair.rs"]
mod schemair;
use radix_common::prelude::*;
use sbor::*;
use schemair::*;
use serde_json::json;
use sborir::*;
use vh_common::*;

#[derive(Clone, Copy, Debug)]
struct St {
    unreach_base: bool,
    unreach_cmp: bool,
    more_roots: bool,
    extension_structure: bool, // allow_new_enum_variants && allow_replacing_with_any (only two constructors exist)
    type_names: u8,            // 0 disallow, 1 adding, 2 all
    field_names: u8,
    variant_names: u8,
    weakening: bool,
}
fn rule(x: u8) -> NameChangeRule {
    match x {
        0 => NameChangeRule::DisallowAllChanges,
        1 => NameChangeRule::AllowAddingNames,
        _ => NameChangeRule::AllowAllChanges,
    }
}
fn rule_coq(x: u8) -> &'static str {
    match x {
        0 => "DisallowAllChanges",
        1 => "AllowAddingNames",
        _ => "AllowAllChanges",
    }
}
impl St {
    fn real(&self) -> SchemaComparisonSettings {
        let s = *self;
        SchemaComparisonSettings::require_equality()
            .with_completeness(|c| {
                let c = if s.unreach_base { c.with_allow_root_unreachable_types_in_base_schema() } else { c.with_dont_allow_root_unreachable_types_in_base_schema() };
                let c = if s.unreach_cmp { c.with_allow_root_unreachable_types_in_compared_schema() } else { c.with_dont_allow_root_unreachable_types_in_compared_schema() };
                if s.more_roots { c.with_allow_compared_to_have_more_root_types() } else { c.with_dont_allow_compared_to_have_more_root_types() }
            })
            .with_structure(|_| {
                if s.extension_structure { SchemaComparisonStructureSettings::allow_extension() } else { SchemaComparisonStructureSettings::require_identical_structure() }
            })
            .with_metadata(|m| {
                m.with_type_name_changes(rule(s.type_names))
                    .with_field_name_changes(rule(s.field_names))
                    .with_variant_name_changes(rule(s.variant_names))
            })
            .with_validation(|_| {
                if s.weakening { SchemaComparisonValidationSettings::allow_weakening() } else { SchemaComparisonValidationSettings::require_identical_validation() }
            })
    }
    fn coq(&self) -> String {
        format!(
            "{{| allow_root_unreachable_types_in_base_schema := {}; allow_root_unreachable_types_in_compared_schema := {}; allow_compared_to_have_more_root_types := {}; allow_new_enum_variants := {}; allow_replacing_with_any := {}; type_name_changes := {}; field_name_changes := {}; variant_name_changes := {}; allow_validation_weakening := {} |}}",
            coq_bool(self.unreach_base), coq_bool(self.unreach_cmp), coq_bool(self.more_roots),
            coq_bool(self.extension_structure), coq_bool(self.extension_structure),
            rule_coq(self.type_names), rule_coq(self.field_names), rule_coq(self.variant_names),
            coq_bool(self.weakening)
        )
    }
    fn equality_like(&self) -> bool {
        !self.extension_structure && !self.weakening
    }
}
fn gen_settings(rng: &mut Rng) -> St {
    match rng.below(6) {
        // SchemaComparisonSettings::require_equality()
        0 => St { unreach_base: false, unreach_cmp: false, more_roots: false, extension_structure: false, type_names: 0, field_names: 0, variant_names: 0, weakening: false },
        // SchemaComparisonSettings::allow_extension()
        1 => St { unreach_base: false, unreach_cmp: false, more_roots: true, extension_structure: true, type_names: 0, field_names: 0, variant_names: 0, weakening: true },
        // the same two with all name changes allowed and unreachable types tolerated
        2 => St { unreach_base: true, unreach_cmp: true, more_roots: false, extension_structure: false, type_names: 2, field_names: 2, variant_names: 2, weakening: false },
        3 => St { unreach_base: true, unreach_cmp: true, more_roots: true, extension_structure: true, type_names: 2, field_names: 2, variant_names: 2, weakening: true },
        _ => St {
            unreach_base: rng.chance(2, 3),
            unreach_cmp: rng.chance(2, 3),
            more_roots: rng.bool(),
            extension_structure: rng.bool(),
            type_names: rng.below(3) as u8,
            field_names: rng.below(3) as u8,
            variant_names: rng.below(3) as u8,
            weakening: rng.bool(),
        },
    }
}

// ------------------------------------------------------------------------------------------------
// schema mutations
// ------------------------------------------------------------------------------------------------
fn remap_id(t: &LocalTypeId, perm: &[usize]) -> LocalTypeId {
    match t {
        LocalTypeId::SchemaLocalIndex(i) if *i < perm.len() => LocalTypeId::SchemaLocalIndex(perm[*i]),
        other => *other,
    }
}
fn remap_kind(k: &SK, perm: &[usize]) -> SK {
    match k {
        TypeKind::Array { element_type } => TypeKind::Array { element_type: remap_id(element_type, perm) },
        TypeKind::Tuple { field_types } => TypeKind::Tuple { field_types: field_types.iter().map(|t| remap_id(t, perm)).collect() },
        TypeKind::Enum { variants } => TypeKind::Enum {
            variants: variants.iter().map(|(d, f)| (*d, f.iter().map(|t| remap_id(t, perm)).collect())).collect(),
        },
        TypeKind::Map { key_type, value_type } => TypeKind::Map { key_type: remap_id(key_type, perm), value_type: remap_id(value_type, perm) },
        other => other.clone(),
    }
}
/// new[perm[i]] = old[i]
fn permute(s: &ScryptoSchema, perm: &[usize]) -> ScryptoSchema {
    let n = s.type_kinds.len();
    let mut kinds = vec![TypeKind::Any; n];
    let mut metas = vec![TypeMetadata::unnamed(); n];
    let mut vals = vec![TypeValidation::None; n];
    for i in 0..n {
        kinds[perm[i]] = remap_kind(&s.type_kinds[i], perm);
        metas[perm[i]] = s.type_metadata[i].clone();
        vals[perm[i]] = s.type_validations[i].clone();
    }
    ScryptoSchema { type_kinds: kinds, type_metadata: metas, type_validations: vals }
}

fn widen_len(rng: &mut Rng, b: &LengthValidation, widen: bool) -> LengthValidation {
    let mut b = *b;
    match (widen, rng.below(3)) {
        (true, 0) => b.min = b.min.map(|x| x.saturating_sub(1)),
        (true, 1) => b.max = b.max.map(|x| x.saturating_add(1)),
        (true, _) => { if rng.bool() { b.min = None } else { b.max = None } }
        (false, 0) => b.min = Some(b.min.unwrap_or(0).saturating_add(1)),
        (false, 1) => b.max = Some(b.max.unwrap_or(u32::MAX).saturating_sub(1)),
        (false, _) => { b.min = Some(b.min.unwrap_or(0).saturating_add(1)); b.max = b.max.map(|x| x.saturating_add(1)) }
    }
    b
}
macro_rules! widen_num {
    ($rng:expr, $b:expr, $widen:expr, $t:ty) => {{
        let mut b = *$b;
        match ($widen, $rng.below(3)) {
            (true, 0) => b.min = b.min.map(|x: $t| x.saturating_sub(1)),
            (true, 1) => b.max = b.max.map(|x: $t| x.saturating_add(1)),
            (true, _) => { if $rng.bool() { b.min = None } else { b.max = None } }
            (false, 0) => b.min = Some(b.effective_min().saturating_add(1)),
            (false, 1) => b.max = Some(b.effective_max().saturating_sub(1)),
            (false, _) => { b.min = Some(b.effective_min().saturating_add(1)); b.max = b.max.map(|x: $t| x.saturating_add(1)) }
        }
        b
    }};
}
fn change_validation(rng: &mut Rng, k: &SK, v: &SV) -> SV {
    let widen = rng.bool();
    match v {
        TypeValidation::None => {
            // add one (strengthen), schema-valid for the kind
            for _ in 0..4 {
                let x = gen_validation_for(rng, k);
                if x != TypeValidation::None {
                    return x;
                }
            }
            TypeValidation::None
        }
        _ if rng.chance(1, 4) => TypeValidation::None,
        TypeValidation::I8(b) => TypeValidation::I8(widen_num!(rng, b, widen, i8)),
        TypeValidation::I16(b) => TypeValidation::I16(widen_num!(rng, b, widen, i16)),
        TypeValidation::I32(b) => TypeValidation::I32(widen_num!(rng, b, widen, i32)),
        TypeValidation::I64(b) => TypeValidation::I64(widen_num!(rng, b, widen, i64)),
        TypeValidation::I128(b) => TypeValidation::I128(widen_num!(rng, b, widen, i128)),
        TypeValidation::U8(b) => TypeValidation::U8(widen_num!(rng, b, widen, u8)),
        TypeValidation::U16(b) => TypeValidation::U16(widen_num!(rng, b, widen, u16)),
        TypeValidation::U32(b) => TypeValidation::U32(widen_num!(rng, b, widen, u32)),
        TypeValidation::U64(b) => TypeValidation::U64(widen_num!(rng, b, widen, u64)),
        TypeValidation::U128(b) => TypeValidation::U128(widen_num!(rng, b, widen, u128)),
        TypeValidation::String(b) => TypeValidation::String(widen_len(rng, b, widen)),
        TypeValidation::Array(b) => TypeValidation::Array(widen_len(rng, b, widen)),
        TypeValidation::Map(b) => TypeValidation::Map(widen_len(rng, b, widen)),
        TypeValidation::Custom(ScryptoCustomTypeValidation::Reference(_)) => {
            TypeValidation::Custom(ScryptoCustomTypeValidation::Reference(gen_ref_validation(rng)))
        }
        TypeValidation::Custom(ScryptoCustomTypeValidation::Own(_)) => {
            TypeValidation::Custom(ScryptoCustomTypeValidation::Own(gen_own_validation(rng)))
        }
    }
}

fn rename(rng: &mut Rng, n: &Option<std::borrow::Cow<'static, str>>, required: bool) -> Option<std::borrow::Cow<'static, str>> {
    match (n, rng.below(3)) {
        (Some(_), 0) if !required => None,
        (None, _) => Some(format!("Added{}", rng.below(3)).into()),
        (Some(x), _) => Some(format!("{}r", x).into()),
    }
}

/// one mutation of `s` (tries to keep the schema valid); returns a label
fn mutate_schema(rng: &mut Rng, s: &mut ScryptoSchema) -> &'static str {
    let n = s.type_kinds.len();
    if n == 0 || s.type_metadata.len() != n || s.type_validations.len() != n {
        return "none";
    }
    let wks = well_known_ids();
    let i = rng.usize_below(n);
    match rng.below(14) {
        0 | 1 => {
            // add an enum variant
            for j in (0..n).map(|d| (i + d) % n) {
                if let TypeKind::Enum { variants } = &mut s.type_kinds[j] {
                    let d = (0..=255u8).find(|d| !variants.contains_key(d));
                    if let Some(d) = d {
                        let m = rng.usize_below(3);
                        let fields: Vec<LocalTypeId> = (0..m).map(|_| if rng.bool() { wk(*rng.pick(&[1u8, 7, 12, ANY])) } else { LocalTypeId::SchemaLocalIndex(rng.usize_below(n)) }).collect();
                        variants.insert(d, fields);
                        if let Some(ChildNames::EnumVariants(vm)) = &mut s.type_metadata[j].child_names {
                            vm.insert(d, TypeMetadata { type_name: Some(format!("New{}", d).into()), child_names: None });
                        }
                        return "add_variant";
                    }
                }
            }
            "none"
        }
        2 => {
            for j in (0..n).map(|d| (i + d) % n) {
                if let TypeKind::Enum { variants } = &mut s.type_kinds[j] {
                    if let Some((d, _)) = variants.pop() {
                        if let Some(ChildNames::EnumVariants(vm)) = &mut s.type_metadata[j].child_names {
                            vm.swap_remove(&d);
                        }
                        return "remove_variant";
                    }
                }
            }
            "none"
        }
        3 | 4 | 5 => {
            for j in (0..n).map(|d| (i + d) % n) {
                let k = s.type_kinds[j].clone();
                let v = change_validation(rng, &k, &s.type_validations[j]);
                if v != s.type_validations[j] {
                    s.type_validations[j] = v;
                    return "validation";
                }
            }
            "none"
        }
        6 => {
            let is_enum = matches!(s.type_kinds[i], TypeKind::Enum { .. });
            s.type_metadata[i].type_name = rename(rng, &s.type_metadata[i].type_name, is_enum);
            "rename_type"
        }
        7 => {
            for j in (0..n).map(|d| (i + d) % n) {
                match &mut s.type_metadata[j].child_names {
                    Some(ChildNames::NamedFields(f)) if !f.is_empty() => {
                        let x = rng.usize_below(f.len());
                        f[x] = format!("{}_r", f[x]).into();
                        return "rename_field";
                    }
                    Some(ChildNames::EnumVariants(vm)) if !vm.is_empty() => {
                        let x = rng.usize_below(vm.len());
                        let (_, m) = vm.get_index_mut(x).unwrap();
                        if rng.bool() {
                            m.type_name = rename(rng, &m.type_name, true);
                            return "rename_variant";
                        } else if let Some(ChildNames::NamedFields(f)) = &mut m.child_names {
                            if !f.is_empty() {
                                f[0] = format!("{}_r", f[0]).into();
                                return "rename_variant_field";
                            }
                        }
                    }
                    _ => {}
                }
            }
            "none"
        }
        8 => {
            // drop / add field names
            for j in (0..n).map(|d| (i + d) % n) {
                if let TypeKind::Tuple { field_types } = &s.type_kinds[j] {
                    s.type_metadata[j].child_names = match &s.type_metadata[j].child_names {
                        Some(_) => None,
                        None => Some(ChildNames::NamedFields((0..field_types.len()).map(|x| format!("g{}", x).into()).collect())),
                    };
                    return "toggle_field_names";
                }
            }
            "none"
        }
        9 => {
            // change the kind of a type (incl. replacing with Any)
            let k = if rng.bool() { TypeKind::Any } else { schemair::gen_kind(rng, n, &wks, false) };
            s.type_metadata[i] = gen_meta_for(rng, &k);
            s.type_validations[i] = TypeValidation::None;
            s.type_kinds[i] = k;
            "change_kind"
        }
        10 => {
            // redirect one child id (to Any, to another type)
            for j in (0..n).map(|d| (i + d) % n) {
                let target = if rng.bool() { wk(ANY) } else if rng.bool() { LocalTypeId::SchemaLocalIndex(rng.usize_below(n)) } else { wk(*rng.pick(&[1u8, 7, 10, 12, 0x41])) };
                match &mut s.type_kinds[j] {
                    TypeKind::Array { element_type } => { *element_type = target; return "redirect_child"; }
                    TypeKind::Tuple { field_types } if !field_types.is_empty() => {
                        let x = rng.usize_below(field_types.len());
                        field_types[x] = target;
                        return "redirect_child";
                    }
                    TypeKind::Map { key_type, value_type } => {
                        if rng.bool() { *key_type = target } else { *value_type = target }
                        return "redirect_child";
                    }
                    TypeKind::Enum { variants } => {
                        for (_, f) in variants.iter_mut() {
                            if !f.is_empty() {
                                f[0] = target;
                                return "redirect_child";
                            }
                        }
                    }
                    _ => {}
                }
            }
            "none"
        }
        11 => {
            // tuple / variant field count
            for j in (0..n).map(|d| (i + d) % n) {
                if let TypeKind::Tuple { field_types } = &mut s.type_kinds[j] {
                    if rng.bool() && !field_types.is_empty() { field_types.pop(); } else { field_types.push(wk(7)); }
                    let k = s.type_kinds[j].clone();
                    s.type_metadata[j] = gen_meta_for(rng, &k);
                    return "field_count";
                }
            }
            "none"
        }
        12 => {
            // append an (unreachable) type
            let k = gen_leaf_kind(rng);
            s.type_metadata.push(gen_meta_for(rng, &k));
            s.type_validations.push(TypeValidation::None);
            s.type_kinds.push(k);
            "append_type"
        }
        _ => "none",
    }
}

// ------------------------------------------------------------------------------------------------
fn validates(p: &[u8], s: &ScryptoSchema, t: LocalTypeId) -> bool {
    let p = p.to_vec();
    let s = s.clone();
    matches!(catch(move || validate_payload_against_schema::<ScryptoCustomExtension, ()>(&p, &s, t, &(), 64).is_ok()), Ok(true))
}

/// payload oracle for one root pair; returns number of payloads checked
fn payload_oracle(
    rng: &mut Rng,
    report: &mut Report,
    idx: usize,
    base: &ScryptoSchema,
    cmp: &ScryptoSchema,
    a: LocalTypeId,
    b: LocalTypeId,
    both_ways: bool,
    ctx: &str,
    extra: &[V],
) {
    for v in extra {
        let Ok(p) = scrypto_encode(&v_to::<FScrypto>(v)) else { continue };
        let vb = validates(&p, base, a);
        let vc = validates(&p, cmp, b);
        if vb { report.count("oracle_payload_valid_under_base"); }
        report.count("oracle_explicit_payloads");
        if (vb && !vc) || (both_ways && vc && !vb) {
            report.oracle_failure(idx, "", &format!("comparison reported valid ({}) but a boundary payload is accepted under only one of the two schemas (base: {}, compared: {})", ctx, vb, vc),
                json!({"base": format!("{:?}", base), "compared": format!("{:?}", cmp), "base_root": format!("{:?}", a), "compared_root": format!("{:?}", b), "payload": hex(&p)}));
        }
    }
    for round in 0..6 {
        let from_base = !both_ways || round % 2 == 0;
        let (gs, gt) = if from_base { (base, a) } else { (cmp, b) };
        let mut g = VGen { schema: gs, budget: 30, deviate: if round >= 4 { 8 } else { 0 } };
        let v = g.gen(rng, gt, 6);
        let Ok(p) = scrypto_encode(&v_to::<FScrypto>(&v)) else { continue };
        let vb = validates(&p, base, a);
        let vc = validates(&p, cmp, b);
        if vb { report.count("oracle_payload_valid_under_base"); }
        if vb && !vc {
            report.oracle_failure(idx, "", &format!("comparison reported valid ({}) but a payload valid under the base schema is rejected under the compared schema", ctx),
                json!({"base": format!("{:?}", base), "compared": format!("{:?}", cmp), "base_root": format!("{:?}", a), "compared_root": format!("{:?}", b), "payload": hex(&p)}));
        }
        if both_ways && vc && !vb {
            report.oracle_failure(idx, "", &format!("comparison reported equality-valid ({}) but a payload valid under the compared schema is rejected under the base schema", ctx),
                json!({"base": format!("{:?}", base), "compared": format!("{:?}", cmp), "base_root": format!("{:?}", a), "compared_root": format!("{:?}", b), "payload": hex(&p)}));
        }
    }
}

fn parse_count(msg: &Option<String>) -> Option<u64> {
    let m = msg.as_ref()?;
    let i = m.find(" with ")? + 6;
    let rest = &m[i..];
    let j = rest.find(' ')?;
    rest[..j].parse().ok()
}

fn coq_roots(r: &IndexMap<String, LocalTypeId>) -> String {
    coq_list(r.iter().map(|(n, t)| format!("({}, {})", coq_bytes(n.as_bytes()), coq_tid(t))))
}

enum Roots {
    Fixed(LocalTypeId, LocalTypeId),
    Named(IndexMap<String, LocalTypeId>, IndexMap<String, LocalTypeId>),
}

/// runs the real comparison on one (settings, base, compared, roots), the payload oracle if the
/// verdict is Valid, and emits the Coq case; returns "valid" | "invalid" | "panic"
fn run_pair(
    report: &mut Report,
    cw: &mut CaseWriter,
    rng: &mut Rng,
    idx: usize,
    st: St,
    base: &ScryptoSchema,
    cmp: &ScryptoSchema,
    roots: &Roots,
    extra: &[V],
) -> &'static str {
    let settings = st.real();
    let base_valid = base.validate().is_ok();
    let cmp_valid = cmp.validate().is_ok();
    if base_valid && cmp_valid { report.count("both_schemas_valid"); }
    let (r, r2): (Result<(bool, Option<String>), String>, Box<dyn Fn() -> Result<bool, String>>) = match roots {
        Roots::Fixed(a, b) => {
            let bs = SingleTypeSchema::<ScryptoCustomSchema>::new(VersionedSchema::from(base.clone()), *a);
            let cs = SingleTypeSchema::<ScryptoCustomSchema>::new(VersionedSchema::from(cmp.clone()), *b);
            let r = catch({
                let (bs, cs) = (bs.clone(), cs.clone());
                move || {
                    let res = compare_single_type_schemas(&settings, &bs, &cs);
                    (res.is_valid(), res.error_message("base", "compared"))
                }
            });
            (r, Box::new(move || {
                let (bs, cs) = (bs.clone(), cs.clone());
                catch(move || compare_single_type_schemas(&settings, &bs, &cs).is_valid())
            }))
        }
        Roots::Named(br, cr) => {
            let bs = TypeCollectionSchema::<ScryptoCustomSchema>::new(VersionedSchema::from(base.clone()), br.clone());
            let cs = TypeCollectionSchema::<ScryptoCustomSchema>::new(VersionedSchema::from(cmp.clone()), cr.clone());
            let r = catch({
                let (bs, cs) = (bs.clone(), cs.clone());
                move || {
                    let res = compare_type_collection_schemas(&settings, &bs, &cs);
                    (res.is_valid(), res.error_message("base", "compared"))
                }
            });
            (r, Box::new(move || {
                let (bs, cs) = (bs.clone(), cs.clone());
                catch(move || compare_type_collection_schemas(&settings, &bs, &cs).is_valid())
            }))
        }
    };
    let (verdict, nerr, valid) = match &r {
        Ok((v, m)) => (format!("(Some {})", coq_bool(*v)), if *v { Some(0) } else { parse_count(m) }, *v),
        // is_valid alone (error_message may be what panicked)
        Err(_) => match r2() {
            Ok(v) => (format!("(Some {})", coq_bool(v)), None, v),
            Err(_) => ("None".to_string(), None, false),
        },
    };
    let label = if verdict == "None" { "panic" } else if valid { "valid" } else { "invalid" };
    report.count(&format!("verdict_{}", label));
    if verdict == "None" && base_valid && cmp_valid { report.count("panic_on_valid_schemas"); }
    let ctx = format!("{:?}", st);
    match roots {
        Roots::Fixed(a, b) => {
            if valid {
                payload_oracle(rng, report, idx, base, cmp, *a, *b, st.equality_like(), &ctx, extra);
            }
            report.case(&format!("F{:?}{:?}{:?}{:?}{:?}{}", st, base, cmp, a, b, verdict), true);
            cw.push(format!(
                "(CFixed {} {} {} {} {} {} {})",
                st.coq(), coq_schema(base), coq_schema(cmp), coq_tid(a), coq_tid(b), verdict,
                coq_option(nerr.map(|x| format!("{}", x)))
            ));
        }
        Roots::Named(br, cr) => {
            report.count("named_roots_cases");
            if valid {
                for (name, a) in br.iter() {
                    if let Some(b) = cr.get(name) {
                        payload_oracle(rng, report, idx, base, cmp, *a, *b, st.equality_like(), &ctx, extra);
                    }
                }
            }
            report.case(&format!("N{:?}{:?}{:?}{:?}{:?}{}", st, base, cmp, br, cr, verdict), true);
            cw.push(format!(
                "(CNamed {} {} {} {} {} {} {})",
                st.coq(), coq_schema(base), coq_schema(cmp), coq_roots(br), coq_roots(cr), verdict,
                coq_option(nerr.map(|x| format!("{}", x)))
            ));
        }
    }
    label
}

// ------------------------------------------------------------------------------------------------
// deterministic boundary family (identical for every seed)
// ------------------------------------------------------------------------------------------------
struct BPair {
    class: String,
    st: St,
    base: ScryptoSchema,
    cmp: ScryptoSchema,
    roots: Roots,
    extra: Vec<V>,
}
fn loc(i: usize) -> LocalTypeId {
    LocalTypeId::SchemaLocalIndex(i)
}
fn auto_meta(k: &SK) -> TypeMetadata {
    match k {
        TypeKind::Enum { variants } => TypeMetadata {
            type_name: Some("E".into()),
            child_names: Some(ChildNames::EnumVariants(
                variants.keys().map(|d| (*d, TypeMetadata { type_name: Some(format!("V{}", d).into()), child_names: None })).collect(),
            )),
        },
        _ => TypeMetadata::unnamed(),
    }
}
/// schema with schema-valid default metadata
fn mk(types: Vec<(SK, SV)>) -> ScryptoSchema {
    let metas = types.iter().map(|(k, _)| auto_meta(k)).collect();
    let (kinds, vals): (Vec<SK>, Vec<SV>) = types.into_iter().unzip();
    ScryptoSchema { type_kinds: kinds, type_metadata: metas, type_validations: vals }
}
const EQ: St = St { unreach_base: false, unreach_cmp: false, more_roots: false, extension_structure: false, type_names: 0, field_names: 0, variant_names: 0, weakening: false };
const EXT: St = St { unreach_base: false, unreach_cmp: false, more_roots: true, extension_structure: true, type_names: 0, field_names: 0, variant_names: 0, weakening: true };
/// everything not under test allowed (names, unreachable types, extra roots)
fn loose(ext: bool, weak: bool) -> St {
    St { unreach_base: true, unreach_cmp: true, more_roots: true, extension_structure: ext, type_names: 2, field_names: 2, variant_names: 2, weakening: weak }
}
fn none() -> SV {
    TypeValidation::None
}
fn tuple(f: Vec<LocalTypeId>) -> SK {
    TypeKind::Tuple { field_types: f }
}
fn u8b(lo: u128, hi: u128) -> SV {
    num_val(IK::U8, Some(Z::U(lo)), Some(Z::U(hi)))
}
fn u8v(x: u128) -> V {
    V::Int(IK::U8, Z::U(x))
}

fn boundary_pairs() -> Vec<BPair> {
    let mut out: Vec<BPair> = vec![];
    let mut push = |class: &str, st: St, base: ScryptoSchema, cmp: ScryptoSchema, roots: Roots, extra: Vec<V>| {
        out.push(BPair { class: class.to_string(), st, base, cmp, roots, extra });
    };
    let f00 = || Roots::Fixed(loc(0), loc(0));
    let ents = rep_entity_bytes();

    // A. numeric validation comparison: every integer kind, each bound at -1 / 0 / +1, None vs explicit extremes
    for ik in IKS {
        let (lo_t, hi_t) = (tmin(ik), tmax(ik));
        let lo = zadd(lo_t, 3);
        let hi = zadd(lo, 4);
        let probes: Vec<V> = vec![zadd(lo, -1), lo, zadd(lo, 1), zadd(hi, -1), hi, zadd(hi, 1), lo_t, hi_t].into_iter().map(|z| V::Int(ik, z)).collect();
        let mut pairs: Vec<(SV, SV)> = vec![];
        for dmin in [-1i128, 0, 1] {
            for dmax in [-1i128, 0, 1] {
                pairs.push((num_val(ik, Some(lo), Some(hi)), num_val(ik, Some(zadd(lo, dmin)), Some(zadd(hi, dmax)))));
            }
        }
        pairs.push((num_val(ik, None, None), num_val(ik, Some(lo_t), Some(hi_t))));
        pairs.push((num_val(ik, Some(lo_t), Some(hi_t)), num_val(ik, None, None)));
        pairs.push((num_val(ik, Some(lo_t), None), num_val(ik, Some(zadd(lo_t, 1)), None)));
        pairs.push((num_val(ik, None, Some(hi_t)), num_val(ik, None, Some(zadd(hi_t, -1)))));
        pairs.push((num_val(ik, None, Some(zadd(hi_t, -1))), num_val(ik, None, None)));
        pairs.push((num_val(ik, Some(zadd(lo_t, 1)), None), num_val(ik, None, None)));
        pairs.push((num_val(ik, Some(lo), Some(hi)), none()));
        pairs.push((none(), num_val(ik, Some(lo), Some(hi))));
        pairs.push((none(), num_val(ik, None, None)));
        pairs.push((none(), none()));
        for (bv, cv) in pairs {
            for weak in [false, true] {
                push(&format!("c_num_{:?}", ik), loose(false, weak), mk(vec![(ik_kind(ik), bv.clone())]), mk(vec![(ik_kind(ik), cv.clone())]), f00(), probes.clone());
            }
        }
    }
    // B. length validation comparison: strings, arrays, maps
    {
        let kinds: Vec<(&str, SK, Box<dyn Fn(LengthValidation) -> SV>, Box<dyn Fn(usize) -> V>)> = vec![
            ("c_len_string", TypeKind::String, Box::new(TypeValidation::String), Box::new(|n| V::Str("x".repeat(n)))),
            ("c_len_array", TypeKind::Array { element_type: wk(1) }, Box::new(TypeValidation::Array), Box::new(|n| V::Array(K::Bool, vec![V::Bool(true); n]))),
            ("c_len_map", TypeKind::Map { key_type: wk(7), value_type: wk(1) }, Box::new(TypeValidation::Map),
                Box::new(|n| V::Map(K::Int(IK::U8), K::Bool, (0..n).map(|i| (V::Int(IK::U8, Z::U(i as u128)), V::Bool(true))).collect()))),
        ];
        for (name, k, mkv, mkval) in &kinds {
            let probes: Vec<V> = (0..=6).map(|n| mkval(n)).collect();
            let mut pairs: Vec<(SV, SV)> = vec![];
            for mn in [1u32, 2, 3] {
                for mx in [3u32, 4, 5] {
                    pairs.push((mkv(lenv(Some(2), Some(4))), mkv(lenv(Some(mn), Some(mx)))));
                }
            }
            pairs.push((mkv(lenv(None, None)), mkv(lenv(Some(0), Some(u32::MAX)))));
            pairs.push((mkv(lenv(Some(0), Some(u32::MAX))), mkv(lenv(None, None))));
            pairs.push((mkv(lenv(Some(1), None)), mkv(lenv(None, None))));
            pairs.push((mkv(lenv(None, Some(4))), mkv(lenv(None, Some(3)))));
            pairs.push((mkv(lenv(Some(2), Some(4))), none()));
            pairs.push((none(), mkv(lenv(Some(2), Some(4)))));
            pairs.push((none(), mkv(lenv(None, None))));
            for (bv, cv) in pairs {
                for weak in [false, true] {
                    push(name, loose(false, weak), mk(vec![(k.clone(), bv.clone())]), mk(vec![(k.clone(), cv.clone())]), f00(), probes.clone());
                }
            }
        }
        // validations of different constructors (only possible in ill-formed schemas): incomparable
        let arr = TypeKind::Array { element_type: wk(1) };
        push("c_len_array", loose(false, true), mk(vec![(arr.clone(), TypeValidation::Array(lenv(Some(1), None)))]), mk(vec![(arr.clone(), TypeValidation::Map(lenv(Some(1), None)))]), f00(), vec![]);
        push("c_len_array", loose(false, true), mk(vec![(arr.clone(), TypeValidation::Array(lenv(Some(1), None)))]), mk(vec![(arr, TypeValidation::String(lenv(None, None)))]), f00(), vec![]);
    }
    // C. custom validations: all pairs
    {
        let refs = vec![
            ReferenceValidation::IsGlobal, ReferenceValidation::IsGlobalPackage, ReferenceValidation::IsGlobalComponent,
            ReferenceValidation::IsGlobalResourceManager, ReferenceValidation::IsGlobalTyped(None, "X".into()),
            ReferenceValidation::IsInternal, ReferenceValidation::IsInternalTyped(None, "X".into()), ReferenceValidation::IsGlobalTyped(None, "Y".into()),
        ];
        let owns = vec![
            OwnValidation::IsBucket, OwnValidation::IsProof, OwnValidation::IsVault, OwnValidation::IsKeyValueStore,
            OwnValidation::IsGlobalAddressReservation, OwnValidation::IsTypedObject(None, "Z".into()), OwnValidation::IsTypedObject(None, "W".into()),
        ];
        let rk = TypeKind::Custom(ScryptoCustomTypeKind::Reference);
        let ok = TypeKind::Custom(ScryptoCustomTypeKind::Own);
        let rprobes: Vec<V> = ents.iter().map(|e| V::Custom(C::SReference(node(*e)))).collect();
        let oprobes: Vec<V> = ents.iter().map(|e| V::Custom(C::SOwn(node(*e)))).collect();
        let rv = |r: &ReferenceValidation| TypeValidation::Custom(ScryptoCustomTypeValidation::Reference(r.clone()));
        let ov = |o: &OwnValidation| TypeValidation::Custom(ScryptoCustomTypeValidation::Own(o.clone()));
        for weak in [false, true] {
            for b in &refs {
                for c in &refs {
                    push("c_custom_ref", loose(false, weak), mk(vec![(rk.clone(), rv(b))]), mk(vec![(rk.clone(), rv(c))]), f00(), rprobes.clone());
                }
                push("c_custom_ref", loose(false, weak), mk(vec![(rk.clone(), rv(b))]), mk(vec![(rk.clone(), none())]), f00(), rprobes.clone());
                push("c_custom_ref", loose(false, weak), mk(vec![(rk.clone(), none())]), mk(vec![(rk.clone(), rv(b))]), f00(), rprobes.clone());
            }
            for b in &owns {
                for c in &owns {
                    push("c_custom_own", loose(false, weak), mk(vec![(ok.clone(), ov(b))]), mk(vec![(ok.clone(), ov(c))]), f00(), oprobes.clone());
                }
                push("c_custom_own", loose(false, weak), mk(vec![(ok.clone(), ov(b))]), mk(vec![(ok.clone(), none())]), f00(), oprobes.clone());
            }
        }
    }
    // D. tuple arity
    for n in [0usize, 1, 2] {
        for m in [n.wrapping_sub(1), n, n + 1] {
            if m == usize::MAX { continue; }
            for st in [loose(false, false), loose(true, true)] {
                push("c_tuple_arity", st, mk(vec![(tuple(vec![wk(1); n]), none())]), mk(vec![(tuple(vec![wk(1); m]), none())]), f00(),
                    vec![V::Tuple(vec![V::Bool(true); n]), V::Tuple(vec![V::Bool(true); m])]);
            }
        }
    }
    // E. enum variant sets
    {
        let en = |vs: Vec<(u8, Vec<LocalTypeId>)>| -> SK { TypeKind::Enum { variants: vs.into_iter().collect() } };
        let base = || mk(vec![(en(vec![(0, vec![]), (1, vec![wk(1)])]), none())]);
        let cmps: Vec<SK> = vec![
            en(vec![(0, vec![]), (1, vec![wk(1)])]),
            en(vec![(1, vec![wk(1)]), (0, vec![])]),
            en(vec![(0, vec![])]),
            en(vec![(1, vec![wk(1)])]),
            en(vec![(0, vec![]), (1, vec![wk(1)]), (2, vec![])]),
            en(vec![(0, vec![]), (2, vec![wk(1)])]),
            en(vec![(0, vec![]), (1, vec![wk(1), wk(1)])]),
            en(vec![(0, vec![]), (1, vec![])]),
            en(vec![(0, vec![]), (1, vec![wk(7)])]),
            en(vec![(0, vec![wk(1)]), (1, vec![wk(1)])]),
            en(vec![]),
        ];
        let probes = vec![V::Enum(0, vec![]), V::Enum(1, vec![V::Bool(true)]), V::Enum(2, vec![]), V::Enum(1, vec![]), V::Enum(1, vec![u8v(1)])];
        for c in &cmps {
            for st in [loose(false, false), loose(true, true), loose(true, false), EQ, EXT] {
                push("c_enum", st, base(), mk(vec![(c.clone(), none())]), f00(), probes.clone());
            }
        }
        for st in [loose(false, false), loose(true, true)] {
            push("c_enum", st, mk(vec![(en(vec![]), none())]), mk(vec![(en(vec![(0, vec![])]), none())]), f00(), probes.clone());
            push("c_enum", st, mk(vec![(en(vec![(255, vec![])]), none())]), mk(vec![(en(vec![(255, vec![]), (0, vec![])]), none())]), f00(), vec![V::Enum(255, vec![]), V::Enum(0, vec![])]);
        }
    }
    // F. replacing with Any (type kind Any, and a child redirected to the well-known Any), both directions
    let all_kinds: Vec<SK> = {
        let mut k: Vec<SK> = vec![TypeKind::Any, TypeKind::Bool];
        for ik in IKS { k.push(ik_kind(ik)); }
        k.push(TypeKind::String);
        for c in [ScryptoCustomTypeKind::Reference, ScryptoCustomTypeKind::Own, ScryptoCustomTypeKind::Decimal, ScryptoCustomTypeKind::PreciseDecimal, ScryptoCustomTypeKind::NonFungibleLocalId] {
            k.push(TypeKind::Custom(c));
        }
        k
    };
    let containers: Vec<SK> = vec![
        TypeKind::Array { element_type: wk(7) }, tuple(vec![wk(1), wk(7)]), tuple(vec![]),
        TypeKind::Enum { variants: indexmap!(0u8 => vec![], 1u8 => vec![wk(1)]) }, TypeKind::Map { key_type: wk(7), value_type: wk(1) },
    ];
    {
        let mut ks = all_kinds.clone();
        ks.extend(containers.clone());
        let mut rng = Rng::new(0xB0DA_23);
        for k in &ks {
            let b = mk(vec![(k.clone(), none())]);
            let mut g = VGen { schema: &b, budget: 10, deviate: 0 };
            let probe = g.gen(&mut rng, loc(0), 4);
            for st in [loose(false, false), loose(true, false), EXT] {
                push("c_any", st, b.clone(), mk(vec![(TypeKind::Any, none())]), f00(), vec![probe.clone()]);
                push("c_any", st, mk(vec![(TypeKind::Any, none())]), b.clone(), f00(), vec![probe.clone(), V::Bool(true), V::Tuple(vec![])]);
                // through a parent: Tuple[T] vs Tuple[WK Any] and back
                let pb = mk(vec![(tuple(vec![loc(1)]), none()), (k.clone(), none())]);
                let pc = mk(vec![(tuple(vec![wk(ANY)]), none()), (k.clone(), none())]);
                push("c_any", st, pb.clone(), pc.clone(), f00(), vec![V::Tuple(vec![probe.clone()])]);
                push("c_any", st, pc, pb, f00(), vec![V::Tuple(vec![probe.clone()]), V::Tuple(vec![V::Str("q".into())])]);
            }
        }
    }
    // G. kind matrix
    for b in &all_kinds {
        for c in &all_kinds {
            push("c_kind_matrix", loose(false, false), mk(vec![(b.clone(), none())]), mk(vec![(c.clone(), none())]), f00(), vec![]);
        }
    }
    for b in &containers {
        for c in &containers {
            push("c_kind_matrix", loose(false, false), mk(vec![(b.clone(), none())]), mk(vec![(c.clone(), none())]), f00(), vec![]);
        }
        push("c_kind_matrix", loose(false, false), mk(vec![(b.clone(), none())]), mk(vec![(TypeKind::Bool, none())]), f00(), vec![]);
        push("c_kind_matrix", loose(false, false), mk(vec![(TypeKind::Bool, none())]), mk(vec![(b.clone(), none())]), f00(), vec![]);
    }
    // H. cycles and the (base id, compared id) cache
    {
        let list = |b: SV| mk(vec![(TypeKind::Enum { variants: indexmap!(0u8 => vec![], 1u8 => vec![loc(1), loc(0)]) }, none()), (TypeKind::U8, b)]);
        let lv = |xs: &[u128]| { let mut v = V::Enum(0, vec![]); for x in xs.iter().rev() { v = V::Enum(1, vec![u8v(*x), v]); } v };
        let lprobes = vec![lv(&[]), lv(&[1]), lv(&[9]), lv(&[5, 9]), lv(&[5, 10]), lv(&[0]), lv(&[5, 5, 0])];
        for st in [loose(false, false), loose(true, true)] {
            push("c_cycle", st, list(u8b(1, 9)), list(u8b(1, 9)), f00(), lprobes.clone());
            push("c_cycle", st, list(u8b(1, 9)), list(u8b(1, 8)), f00(), lprobes.clone());
            push("c_cycle", st, list(u8b(1, 9)), list(u8b(2, 9)), f00(), lprobes.clone());
            push("c_cycle", st, list(u8b(1, 9)), list(u8b(0, 10)), f00(), lprobes.clone());
            // the element type placed AFTER the recursive field (the self pair is met first)
            let rl = |b: SV| mk(vec![(TypeKind::Enum { variants: indexmap!(0u8 => vec![], 1u8 => vec![loc(0), loc(1)]) }, none()), (TypeKind::U8, b)]);
            let rv = |xs: &[u128]| { let mut v = V::Enum(0, vec![]); for x in xs.iter().rev() { v = V::Enum(1, vec![v, u8v(*x)]); } v };
            push("c_cycle", st, rl(u8b(1, 9)), rl(u8b(1, 8)), f00(), vec![rv(&[9]), rv(&[5, 9]), rv(&[])]);
            push("c_cycle", st, rl(u8b(1, 9)), rl(u8b(1, 9)), f00(), vec![rv(&[9]), rv(&[5, 9]), rv(&[])]);
            // one base type paired with two compared types (cache key must be the pair)
            for (c1, c2) in [((1, 9), (2, 9)), ((2, 9), (1, 9)), ((1, 9), (1, 9)), ((0, 9), (1, 10))] {
                push("c_cache_pair", st,
                    mk(vec![(tuple(vec![loc(1), loc(1)]), none()), (TypeKind::U8, u8b(1, 9))]),
                    mk(vec![(tuple(vec![loc(1), loc(2)]), none()), (TypeKind::U8, u8b(c1.0, c1.1)), (TypeKind::U8, u8b(c2.0, c2.1))]),
                    f00(), vec![V::Tuple(vec![u8v(1), u8v(1)]), V::Tuple(vec![u8v(9), u8v(9)]), V::Tuple(vec![u8v(1), u8v(9)]), V::Tuple(vec![u8v(0), u8v(10)])]);
            }
            // two base types paired with one compared type
            for (b1, b2, c) in [((1, 9), (0, 9), (1, 9)), ((0, 9), (1, 9), (1, 9)), ((1, 9), (0, 9), (0, 9)), ((1, 9), (1, 9), (1, 9))] {
                push("c_cache_pair", st,
                    mk(vec![(tuple(vec![loc(1), loc(2)]), none()), (TypeKind::U8, u8b(b1.0, b1.1)), (TypeKind::U8, u8b(b2.0, b2.1))]),
                    mk(vec![(tuple(vec![loc(1), loc(1)]), none()), (TypeKind::U8, u8b(c.0, c.1))]),
                    f00(), vec![V::Tuple(vec![u8v(1), u8v(0)]), V::Tuple(vec![u8v(0), u8v(1)]), V::Tuple(vec![u8v(9), u8v(9)])]);
            }
            // mutual recursion A = (B), B = Enum {0: [], 1: [A, X]}
            let mr = |x: SV| mk(vec![(tuple(vec![loc(1)]), none()), (TypeKind::Enum { variants: indexmap!(0u8 => vec![], 1u8 => vec![loc(0), loc(2)]) }, none()), (TypeKind::U8, x)]);
            let mv = |x: u128| V::Tuple(vec![V::Enum(1, vec![V::Tuple(vec![V::Enum(0, vec![])]), u8v(x)])]);
            push("c_cycle", st, mr(u8b(1, 9)), mr(u8b(1, 9)), f00(), vec![mv(1), mv(9)]);
            push("c_cycle", st, mr(u8b(1, 9)), mr(u8b(1, 8)), f00(), vec![mv(1), mv(9)]);
            // a difference at the end of a chain of nested tuples
            let chain = |x: SV| { let mut t: Vec<(SK, SV)> = (0..6).map(|i| (tuple(vec![loc(i + 1)]), none())).collect(); t.push((TypeKind::U8, x)); mk(t) };
            let cv = |x: u128| { let mut v = u8v(x); for _ in 0..6 { v = V::Tuple(vec![v]); } v };
            push("c_cycle", st, chain(u8b(1, 9)), chain(u8b(1, 8)), f00(), vec![cv(9), cv(1)]);
            push("c_cycle", st, chain(u8b(1, 9)), chain(u8b(1, 9)), f00(), vec![cv(9), cv(1)]);
        }
    }
    // I. name changes at each metadata level x rule profiles
    {
        let nm = |n: Option<&str>, ch: Option<ChildNames>| TypeMetadata { type_name: n.map(|x| x.to_string().into()), child_names: ch };
        let fields = |f: &[&str]| Some(ChildNames::NamedFields(f.iter().map(|x| x.to_string().into()).collect()));
        let st_schema = |m: TypeMetadata| { let mut s = mk(vec![(tuple(vec![wk(1)]), none())]); s.type_metadata[0] = m; s };
        let en_schema = |tn: Option<&str>, vn: Option<&str>, vf: Option<ChildNames>| {
            let mut s = mk(vec![(TypeKind::Enum { variants: indexmap!(0u8 => vec![wk(1)]) }, none())]);
            s.type_metadata[0] = nm(tn, Some(ChildNames::EnumVariants(indexmap!(0u8 => nm(vn, vf)))));
            s
        };
        let mut pairs: Vec<(&str, ScryptoSchema, ScryptoSchema)> = vec![];
        // type name (struct)
        pairs.push(("type_same", st_schema(nm(Some("S"), fields(&["f"]))), st_schema(nm(Some("S"), fields(&["f"])))));
        pairs.push(("type_changed", st_schema(nm(Some("S"), fields(&["f"]))), st_schema(nm(Some("S2"), fields(&["f"])))));
        pairs.push(("type_removed", st_schema(nm(Some("S"), fields(&["f"]))), st_schema(nm(None, fields(&["f"])))));
        pairs.push(("type_added", st_schema(nm(None, fields(&["f"]))), st_schema(nm(Some("S"), fields(&["f"])))));
        // field name (struct)
        pairs.push(("field_changed", st_schema(nm(Some("S"), fields(&["f"]))), st_schema(nm(Some("S"), fields(&["g"])))));
        pairs.push(("field_removed", st_schema(nm(Some("S"), fields(&["f"]))), st_schema(nm(Some("S"), None))));
        pairs.push(("field_added", st_schema(nm(Some("S"), None)), st_schema(nm(Some("S"), fields(&["f"])))));
        // enum: type name, variant name, variant field name
        pairs.push(("enum_same", en_schema(Some("E"), Some("V"), fields(&["g"])), en_schema(Some("E"), Some("V"), fields(&["g"]))));
        pairs.push(("enum_type_changed", en_schema(Some("E"), Some("V"), fields(&["g"])), en_schema(Some("E2"), Some("V"), fields(&["g"]))));
        pairs.push(("variant_changed", en_schema(Some("E"), Some("V"), fields(&["g"])), en_schema(Some("E"), Some("V2"), fields(&["g"]))));
        pairs.push(("variant_removed", en_schema(Some("E"), Some("V"), fields(&["g"])), en_schema(Some("E"), None, fields(&["g"]))));
        pairs.push(("variant_added", en_schema(Some("E"), None, fields(&["g"])), en_schema(Some("E"), Some("V"), fields(&["g"]))));
        pairs.push(("variant_field_changed", en_schema(Some("E"), Some("V"), fields(&["g"])), en_schema(Some("E"), Some("V"), fields(&["h"]))));
        pairs.push(("variant_field_removed", en_schema(Some("E"), Some("V"), fields(&["g"])), en_schema(Some("E"), Some("V"), None)));
        pairs.push(("variant_field_added", en_schema(Some("E"), Some("V"), None), en_schema(Some("E"), Some("V"), fields(&["g"]))));
        let profiles: [(u8, u8, u8); 9] = [(2, 0, 0), (0, 2, 0), (0, 0, 2), (0, 2, 2), (2, 0, 2), (2, 2, 0), (1, 1, 1), (0, 0, 0), (2, 2, 2)];
        for (_, b, c) in &pairs {
            for (t, f, v) in profiles {
                let st = St { unreach_base: true, unreach_cmp: true, more_roots: true, extension_structure: false, type_names: t, field_names: f, variant_names: v, weakening: false };
                push("c_names", st, b.clone(), c.clone(), f00(), vec![V::Tuple(vec![V::Bool(true)]), V::Enum(0, vec![V::Bool(false)])]);
            }
        }
    }
    // J. completeness and named roots
    {
        let two = || mk(vec![(tuple(vec![wk(1)]), none()), (TypeKind::U8, none())]); // type 1 unreachable from root 0
        let one = || mk(vec![(tuple(vec![wk(1)]), none())]);
        for ub in [false, true] {
            for uc in [false, true] {
                let st = St { unreach_base: ub, unreach_cmp: uc, more_roots: false, extension_structure: false, type_names: 0, field_names: 0, variant_names: 0, weakening: false };
                push("c_completeness", st, two(), one(), f00(), vec![]);
                push("c_completeness", st, one(), two(), f00(), vec![]);
                push("c_completeness", st, two(), two(), f00(), vec![]);
                push("c_completeness", st, one(), one(), f00(), vec![]);
                // reachable through the second named root only
                let nr = |names: &[(&str, usize)]| -> IndexMap<String, LocalTypeId> { names.iter().map(|(n, i)| (n.to_string(), loc(*i))).collect() };
                push("c_completeness", st, two(), two(), Roots::Named(nr(&[("A", 0), ("B", 1)]), nr(&[("A", 0), ("B", 1)])), vec![]);
                push("c_completeness", st, two(), two(), Roots::Named(nr(&[("A", 0)]), nr(&[("A", 0)])), vec![]);
            }
        }
        let nr = |names: &[(&str, usize)]| -> IndexMap<String, LocalTypeId> { names.iter().map(|(n, i)| (n.to_string(), loc(*i))).collect() };
        for more in [false, true] {
            let st = St { unreach_base: true, unreach_cmp: true, more_roots: more, extension_structure: false, type_names: 0, field_names: 0, variant_names: 0, weakening: false };
            push("c_named_roots", st, two(), two(), Roots::Named(nr(&[("A", 0), ("B", 1)]), nr(&[("A", 0)])), vec![]);          // root missing in compared
            push("c_named_roots", st, two(), two(), Roots::Named(nr(&[("A", 0)]), nr(&[("A", 0), ("B", 1)])), vec![]);          // extra root in compared
            push("c_named_roots", st, two(), two(), Roots::Named(nr(&[("A", 0), ("B", 1)]), nr(&[("B", 1), ("A", 0)])), vec![]); // order swapped
            push("c_named_roots", st, two(), two(), Roots::Named(nr(&[("A", 0), ("B", 1)]), nr(&[("A", 1), ("B", 0)])), vec![]); // roots crossed
            push("c_named_roots", st, two(), two(), Roots::Named(nr(&[]), nr(&[])), vec![]);
            push("c_named_roots", st, two(), two(), Roots::Named(nr(&[]), nr(&[("A", 0)])), vec![]);
            push("c_named_roots", st, two(), two(), Roots::Named(nr(&[("A", 0), ("B", 0)]), nr(&[("A", 0), ("B", 0)])), vec![]);
        }
    }
    // K. well-known roots and the equal-well-known short-circuit
    {
        let e = || mk(vec![]);
        let rprobes: Vec<V> = ents.iter().map(|x| V::Custom(C::SReference(node(*x)))).collect();
        for st in [loose(false, false), loose(false, true), EQ] {
            for w in [1u8, 7, 12, ANY, 0x41, 0x42, 129, 131] {
                push("c_wellknown", st, e(), e(), Roots::Fixed(wk(w), wk(w)), rprobes.clone());
            }
            push("c_wellknown", st, e(), e(), Roots::Fixed(wk(7), wk(8)), vec![]);
            push("c_wellknown", st, e(), e(), Roots::Fixed(wk(131), wk(129)), rprobes.clone()); // PackageAddress -> GlobalAddress: weakened
            push("c_wellknown", st, e(), e(), Roots::Fixed(wk(129), wk(131)), rprobes.clone()); // strengthened
            push("c_wellknown", st, e(), mk(vec![(TypeKind::Array { element_type: wk(7) }, none())]), Roots::Fixed(wk(0x41), loc(0)), vec![V::Array(K::Int(IK::U8), vec![u8v(1)])]);
            push("c_wellknown", st, mk(vec![(TypeKind::Array { element_type: wk(7) }, none())]), e(), Roots::Fixed(loc(0), wk(0x41)), vec![V::Array(K::Int(IK::U8), vec![u8v(1)])]);
            push("c_wellknown", st, mk(vec![(tuple(vec![wk(7)]), none())]), mk(vec![(tuple(vec![wk(8)]), none())]), f00(), vec![]);
        }
    }
    // L. ill-formed schemas: the kernel's panics
    {
        let bad = || mk(vec![(tuple(vec![loc(3)]), none())]);
        let good = || mk(vec![(tuple(vec![wk(1)]), none())]);
        push("c_panic", loose(false, false), bad(), good(), f00(), vec![]);
        push("c_panic", loose(false, false), good(), bad(), f00(), vec![]);
        push("c_panic", loose(false, false), good(), good(), Roots::Fixed(loc(2), loc(0)), vec![]);
        push("c_panic", loose(false, false), good(), good(), Roots::Fixed(loc(0), loc(2)), vec![]);
        push("c_panic", EQ, bad(), bad(), f00(), vec![]);
        let mut short = good();
        short.type_validations.pop();
        push("c_panic", loose(false, false), short.clone(), good(), f00(), vec![]);
        push("c_panic", loose(false, false), good(), short, f00(), vec![]);
        // enum kind without variant metadata on the base / on the compared side (the two `expect`s of
        // compare_type_metadata_internal)
        let en = || mk(vec![(TypeKind::Enum { variants: indexmap!(0u8 => vec![]) }, none())]);
        let mut en_bad = en();
        en_bad.type_metadata[0] = TypeMetadata::unnamed();
        push("c_panic", EQ, en_bad.clone(), en(), f00(), vec![]);
        push("c_panic", EQ, en(), en_bad.clone(), f00(), vec![]);
        push("c_panic", loose(false, false), en_bad.clone(), en(), f00(), vec![]); // name checks off: no panic
        // reachability marking of a dangling root that is never compared (named roots)
        let nr = |names: &[(&str, usize)]| -> IndexMap<String, LocalTypeId> { names.iter().map(|(n, i)| (n.to_string(), loc(*i))).collect() };
        push("c_panic", loose(false, false), good(), good(), Roots::Named(nr(&[("A", 5)]), nr(&[])), vec![]);
        push("c_panic", loose(false, false), good(), good(), Roots::Named(nr(&[]), nr(&[("A", 5)])), vec![]);
        push("c_panic", loose(false, false), bad(), good(), Roots::Named(nr(&[("A", 0)]), nr(&[])), vec![]);
    }
    out
}

fn main() {
    let args = Args::parse();
    let mut report = Report::new("C23", args.seed, "distinct (settings, base, compared, roots) with verdict");
    let mut cw = CaseWriter::new(
        "RV.Model.C20_Sbor RV.Model.C22_Types RV.Model.C22_Schema RV.Model.C23_SchemaCmp RV.Corr.C23_run",
        "check",
    );
    // ---------------- deterministic boundary family ----------------
    {
        let mut brng = Rng::new(0xB0DA_2300);
        let pairs = boundary_pairs();
        report.extra.insert("boundary_cases".into(), json!(pairs.len()));
        for (i, p) in pairs.into_iter().enumerate() {
            let label = run_pair(&mut report, &mut cw, &mut brng, 1_000_000 + i, p.st, &p.base, &p.cmp, &p.roots, &p.extra);
            report.count(&p.class);
            report.count(&format!("{}_{}", p.class, label));
        }
        for ik in IKS {
            report.floor(&format!("c_num_{:?}", ik), 36);
            report.floor(&format!("c_num_{:?}_valid", ik), 8);
            report.floor(&format!("c_num_{:?}_invalid", ik), 16);
        }
        for (c, n, v, inv) in [("c_len_string", 30, 6, 12), ("c_len_array", 30, 6, 12), ("c_len_map", 30, 6, 12), ("c_custom_ref", 150, 20, 80),
            ("c_custom_own", 100, 14, 60), ("c_tuple_arity", 14, 6, 8), ("c_enum", 55, 8, 30), ("c_any", 260, 60, 100), ("c_kind_matrix", 340, 18, 300),
            ("c_cycle", 18, 8, 8), ("c_cache_pair", 16, 4, 8), ("c_names", 130, 40, 40), ("c_completeness", 24, 8, 8), ("c_named_roots", 14, 4, 4),
            ("c_wellknown", 36, 12, 6)] {
            report.floor(c, n);
            report.floor(&format!("{}_valid", c), v);
            report.floor(&format!("{}_invalid", c), inv);
        }
        report.floor("c_panic_panic", 10);
        report.floor("oracle_explicit_payloads", 1000);
    }
    // ---------------- random stream ----------------
    let base_rng = Rng::new(args.seed);
    for i in 0..args.cases {
        let mut rng = base_rng.fork(i as u64);
        let st = gen_settings(&mut rng);
        let n_types = *rng.pick(&[1usize, 2, 3, 4, 5, 6]);
        let allow_invalid = rng.chance(1, 25);
        let base = gen_schema(&mut rng, &SchemaCfg { n_types, allow_invalid });
        // derive the compared schema
        let mut cmp = base.clone();
        let nm = *rng.pick(&[0usize, 1, 1, 1, 2, 3]);
        let mut labels = vec![];
        for _ in 0..nm {
            // a mutation that does not apply to this schema returns "none": try a few others
            let mut l = "none";
            for _ in 0..4 {
                l = mutate_schema(&mut rng, &mut cmp);
                if l != "none" {
                    break;
                }
            }
            labels.push(l);
        }
        let mut perm: Vec<usize> = (0..base.type_kinds.len()).collect();
        if rng.chance(1, 3) && cmp.type_metadata.len() == cmp.type_kinds.len() && cmp.type_validations.len() == cmp.type_kinds.len() {
            // reorder the (original) types of the compared schema
            rng.shuffle(&mut perm);
            let extra: Vec<usize> = (base.type_kinds.len()..cmp.type_kinds.len()).collect();
            let mut full = perm.clone();
            full.extend(extra);
            cmp = permute(&cmp, &full);
            labels.push("permute");
        }
        for l in &labels { report.count(&format!("mutation_{}", l)); }
        if labels.is_empty() { report.count("mutation_identity"); }
        let roots = if !rng.chance(1, 3) {
            let a = if rng.chance(1, 12) { wk(*rng.pick(&well_known_ids())) } else { LocalTypeId::SchemaLocalIndex(rng.usize_below(n_types)) };
            let b = match a {
                LocalTypeId::SchemaLocalIndex(x) if !rng.chance(1, 15) => LocalTypeId::SchemaLocalIndex(perm[x]),
                LocalTypeId::SchemaLocalIndex(_) => LocalTypeId::SchemaLocalIndex(rng.usize_below(cmp.type_kinds.len())),
                w => w,
            };
            Roots::Fixed(a, b)
        } else {
            let k = rng.range(1, 3) as usize;
            let mut broots: IndexMap<String, LocalTypeId> = IndexMap::new();
            let mut croots: IndexMap<String, LocalTypeId> = IndexMap::new();
            for j in 0..k {
                let x = rng.usize_below(n_types);
                let name = format!("Root{}", j);
                broots.insert(name.clone(), LocalTypeId::SchemaLocalIndex(x));
                if !rng.chance(1, 8) {
                    croots.insert(name, LocalTypeId::SchemaLocalIndex(perm[x]));
                }
            }
            if rng.chance(1, 4) {
                croots.insert("Extra".to_string(), LocalTypeId::SchemaLocalIndex(rng.usize_below(cmp.type_kinds.len())));
            }
            Roots::Named(broots, croots)
        };
        let label = run_pair(&mut report, &mut cw, &mut rng, i, st, &base, &cmp, &roots, &[]);
        report.count(&format!("random_verdict_{}", label));
    }
    report.floor("random_verdict_valid", (args.cases / 20) as u64);
    report.floor("random_verdict_invalid", (args.cases / 10) as u64);
    report.floor("oracle_payload_valid_under_base", (args.cases / 20) as u64);
    report.write(&args.out).expect("write report");
    if !args.oracle_only {
        cw.write(&args.out, args.shards).expect("write cases");
    }
}
