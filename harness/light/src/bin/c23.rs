//! C23 correspondence harness: the real schema comparison (compare_single_type_schemas /
//! compare_type_collection_schemas on ScryptoCustomSchema) vs coq/Model/C23_SchemaCmp.v on schema
//! pairs derived by mutation, under random settings; verdict (valid / invalid / panic) and number
//! of reported errors are compared.
//! Direct oracle (the property statement, no model): whenever the implementation reports Valid,
//! payloads that the real validator accepts under the base schema (at the base root) must be
//! accepted under the compared schema (at the compared root); when the structure and validation
//! settings are the equality ones, also conversely.
#[path = "../sborir.rs"]
mod sborir;
#[path = "../schemair.rs"]
mod schemair;
use radix_common::prelude::*;
use sbor::*;
use schemair::*;
use serde_json::json;
use sborir::*;
use vh_common::*;

#[derive(Clone, Copy, Debug)]
struct St {
    unreach_base: bool,
    unreach_cmp: bool,
    more_roots: bool,
    extension_structure: bool, // allow_new_enum_variants && allow_replacing_with_any (only two constructors exist)
    type_names: u8,            // 0 disallow, 1 adding, 2 all
    field_names: u8,
    variant_names: u8,
    weakening: bool,
}
fn rule(x: u8) -> NameChangeRule {
    match x {
        0 => NameChangeRule::DisallowAllChanges,
        1 => NameChangeRule::AllowAddingNames,
        _ => NameChangeRule::AllowAllChanges,
    }
}
fn rule_coq(x: u8) -> &'static str {
    match x {
        0 => "DisallowAllChanges",
        1 => "AllowAddingNames",
        _ => "AllowAllChanges",
    }
}
impl St {
    fn real(&self) -> SchemaComparisonSettings {
        let s = *self;
        SchemaComparisonSettings::require_equality()
            .with_completeness(|c| {
                let c = if s.unreach_base { c.with_allow_root_unreachable_types_in_base_schema() } else { c.with_dont_allow_root_unreachable_types_in_base_schema() };
                let c = if s.unreach_cmp { c.with_allow_root_unreachable_types_in_compared_schema() } else { c.with_dont_allow_root_unreachable_types_in_compared_schema() };
                if s.more_roots { c.with_allow_compared_to_have_more_root_types() } else { c.with_dont_allow_compared_to_have_more_root_types() }
            })
            .with_structure(|_| {
                if s.extension_structure { SchemaComparisonStructureSettings::allow_extension() } else { SchemaComparisonStructureSettings::require_identical_structure() }
            })
            .with_metadata(|m| {
                m.with_type_name_changes(rule(s.type_names))
                    .with_field_name_changes(rule(s.field_names))
                    .with_variant_name_changes(rule(s.variant_names))
            })
            .with_validation(|_| {
                if s.weakening { SchemaComparisonValidationSettings::allow_weakening() } else { SchemaComparisonValidationSettings::require_identical_validation() }
            })
    }
    fn coq(&self) -> String {
        format!(
            "{{| allow_root_unreachable_types_in_base_schema := {}; allow_root_unreachable_types_in_compared_schema := {}; allow_compared_to_have_more_root_types := {}; allow_new_enum_variants := {}; allow_replacing_with_any := {}; type_name_changes := {}; field_name_changes := {}; variant_name_changes := {}; allow_validation_weakening := {} |}}",
            coq_bool(self.unreach_base), coq_bool(self.unreach_cmp), coq_bool(self.more_roots),
            coq_bool(self.extension_structure), coq_bool(self.extension_structure),
            rule_coq(self.type_names), rule_coq(self.field_names), rule_coq(self.variant_names),
            coq_bool(self.weakening)
        )
    }
    fn equality_like(&self) -> bool {
        !self.extension_structure && !self.weakening
    }
}
fn gen_settings(rng: &mut Rng) -> St {
    match rng.below(6) {
        // SchemaComparisonSettings::require_equality()
        0 => St { unreach_base: false, unreach_cmp: false, more_roots: false, extension_structure: false, type_names: 0, field_names: 0, variant_names: 0, weakening: false },
        // SchemaComparisonSettings::allow_extension()
        1 => St { unreach_base: false, unreach_cmp: false, more_roots: true, extension_structure: true, type_names: 0, field_names: 0, variant_names: 0, weakening: true },
        // the same two with all name changes allowed and unreachable types tolerated
        2 => St { unreach_base: true, unreach_cmp: true, more_roots: false, extension_structure: false, type_names: 2, field_names: 2, variant_names: 2, weakening: false },
        3 => St { unreach_base: true, unreach_cmp: true, more_roots: true, extension_structure: true, type_names: 2, field_names: 2, variant_names: 2, weakening: true },
        _ => St {
            unreach_base: rng.chance(2, 3),
            unreach_cmp: rng.chance(2, 3),
            more_roots: rng.bool(),
            extension_structure: rng.bool(),
            type_names: rng.below(3) as u8,
            field_names: rng.below(3) as u8,
            variant_names: rng.below(3) as u8,
            weakening: rng.bool(),
        },
    }
}

// ------------------------------------------------------------------------------------------------
// schema mutations
// ------------------------------------------------------------------------------------------------
fn remap_id(t: &LocalTypeId, perm: &[usize]) -> LocalTypeId {
    match t {
        LocalTypeId::SchemaLocalIndex(i) if *i < perm.len() => LocalTypeId::SchemaLocalIndex(perm[*i]),
        other => *other,
    }
}
fn remap_kind(k: &SK, perm: &[usize]) -> SK {
    match k {
        TypeKind::Array { element_type } => TypeKind::Array { element_type: remap_id(element_type, perm) },
        TypeKind::Tuple { field_types } => TypeKind::Tuple { field_types: field_types.iter().map(|t| remap_id(t, perm)).collect() },
        TypeKind::Enum { variants } => TypeKind::Enum {
            variants: variants.iter().map(|(d, f)| (*d, f.iter().map(|t| remap_id(t, perm)).collect())).collect(),
        },
        TypeKind::Map { key_type, value_type } => TypeKind::Map { key_type: remap_id(key_type, perm), value_type: remap_id(value_type, perm) },
        other => other.clone(),
    }
}
/// new[perm[i]] = old[i]
fn permute(s: &ScryptoSchema, perm: &[usize]) -> ScryptoSchema {
    let n = s.type_kinds.len();
    let mut kinds = vec![TypeKind::Any; n];
    let mut metas = vec![TypeMetadata::unnamed(); n];
    let mut vals = vec![TypeValidation::None; n];
    for i in 0..n {
        kinds[perm[i]] = remap_kind(&s.type_kinds[i], perm);
        metas[perm[i]] = s.type_metadata[i].clone();
        vals[perm[i]] = s.type_validations[i].clone();
    }
    ScryptoSchema { type_kinds: kinds, type_metadata: metas, type_validations: vals }
}

fn widen_len(rng: &mut Rng, b: &LengthValidation, widen: bool) -> LengthValidation {
    let mut b = *b;
    match (widen, rng.below(3)) {
        (true, 0) => b.min = b.min.map(|x| x.saturating_sub(1)),
        (true, 1) => b.max = b.max.map(|x| x.saturating_add(1)),
        (true, _) => { if rng.bool() { b.min = None } else { b.max = None } }
        (false, 0) => b.min = Some(b.min.unwrap_or(0).saturating_add(1)),
        (false, 1) => b.max = Some(b.max.unwrap_or(u32::MAX).saturating_sub(1)),
        (false, _) => { b.min = Some(b.min.unwrap_or(0).saturating_add(1)); b.max = b.max.map(|x| x.saturating_add(1)) }
    }
    b
}
macro_rules! widen_num {
    ($rng:expr, $b:expr, $widen:expr, $t:ty) => {{
        let mut b = *$b;
        match ($widen, $rng.below(3)) {
            (true, 0) => b.min = b.min.map(|x: $t| x.saturating_sub(1)),
            (true, 1) => b.max = b.max.map(|x: $t| x.saturating_add(1)),
            (true, _) => { if $rng.bool() { b.min = None } else { b.max = None } }
            (false, 0) => b.min = Some(b.effective_min().saturating_add(1)),
            (false, 1) => b.max = Some(b.effective_max().saturating_sub(1)),
            (false, _) => { b.min = Some(b.effective_min().saturating_add(1)); b.max = b.max.map(|x: $t| x.saturating_add(1)) }
        }
        b
    }};
}
fn change_validation(rng: &mut Rng, k: &SK, v: &SV) -> SV {
    let widen = rng.bool();
    match v {
        TypeValidation::None => {
            // add one (strengthen), schema-valid for the kind
            for _ in 0..4 {
                let x = gen_validation_for(rng, k);
                if x != TypeValidation::None {
                    return x;
                }
            }
            TypeValidation::None
        }
        _ if rng.chance(1, 4) => TypeValidation::None,
        TypeValidation::I8(b) => TypeValidation::I8(widen_num!(rng, b, widen, i8)),
        TypeValidation::I16(b) => TypeValidation::I16(widen_num!(rng, b, widen, i16)),
        TypeValidation::I32(b) => TypeValidation::I32(widen_num!(rng, b, widen, i32)),
        TypeValidation::I64(b) => TypeValidation::I64(widen_num!(rng, b, widen, i64)),
        TypeValidation::I128(b) => TypeValidation::I128(widen_num!(rng, b, widen, i128)),
        TypeValidation::U8(b) => TypeValidation::U8(widen_num!(rng, b, widen, u8)),
        TypeValidation::U16(b) => TypeValidation::U16(widen_num!(rng, b, widen, u16)),
        TypeValidation::U32(b) => TypeValidation::U32(widen_num!(rng, b, widen, u32)),
        TypeValidation::U64(b) => TypeValidation::U64(widen_num!(rng, b, widen, u64)),
        TypeValidation::U128(b) => TypeValidation::U128(widen_num!(rng, b, widen, u128)),
        TypeValidation::String(b) => TypeValidation::String(widen_len(rng, b, widen)),
        TypeValidation::Array(b) => TypeValidation::Array(widen_len(rng, b, widen)),
        TypeValidation::Map(b) => TypeValidation::Map(widen_len(rng, b, widen)),
        TypeValidation::Custom(ScryptoCustomTypeValidation::Reference(_)) => {
            TypeValidation::Custom(ScryptoCustomTypeValidation::Reference(gen_ref_validation(rng)))
        }
        TypeValidation::Custom(ScryptoCustomTypeValidation::Own(_)) => {
            TypeValidation::Custom(ScryptoCustomTypeValidation::Own(gen_own_validation(rng)))
        }
    }
}

fn rename(rng: &mut Rng, n: &Option<std::borrow::Cow<'static, str>>, required: bool) -> Option<std::borrow::Cow<'static, str>> {
    match (n, rng.below(3)) {
        (Some(_), 0) if !required => None,
        (None, _) => Some(format!("Added{}", rng.below(3)).into()),
        (Some(x), _) => Some(format!("{}r", x).into()),
    }
}

/// one mutation of `s` (tries to keep the schema valid); returns a label
fn mutate_schema(rng: &mut Rng, s: &mut ScryptoSchema) -> &'static str {
    let n = s.type_kinds.len();
    if n == 0 || s.type_metadata.len() != n || s.type_validations.len() != n {
        return "none";
    }
    let wks = well_known_ids();
    let i = rng.usize_below(n);
    match rng.below(14) {
        0 | 1 => {
            // add an enum variant
            for j in (0..n).map(|d| (i + d) % n) {
                if let TypeKind::Enum { variants } = &mut s.type_kinds[j] {
                    let d = (0..=255u8).find(|d| !variants.contains_key(d));
                    if let Some(d) = d {
                        let m = rng.usize_below(3);
                        let fields: Vec<LocalTypeId> = (0..m).map(|_| if rng.bool() { wk(*rng.pick(&[1u8, 7, 12, ANY])) } else { LocalTypeId::SchemaLocalIndex(rng.usize_below(n)) }).collect();
                        variants.insert(d, fields);
                        if let Some(ChildNames::EnumVariants(vm)) = &mut s.type_metadata[j].child_names {
                            vm.insert(d, TypeMetadata { type_name: Some(format!("New{}", d).into()), child_names: None });
                        }
                        return "add_variant";
                    }
                }
            }
            "none"
        }
        2 => {
            for j in (0..n).map(|d| (i + d) % n) {
                if let TypeKind::Enum { variants } = &mut s.type_kinds[j] {
                    if let Some((d, _)) = variants.pop() {
                        if let Some(ChildNames::EnumVariants(vm)) = &mut s.type_metadata[j].child_names {
                            vm.swap_remove(&d);
                        }
                        return "remove_variant";
                    }
                }
            }
            "none"
        }
        3 | 4 | 5 => {
            for j in (0..n).map(|d| (i + d) % n) {
                let k = s.type_kinds[j].clone();
                let v = change_validation(rng, &k, &s.type_validations[j]);
                if v != s.type_validations[j] {
                    s.type_validations[j] = v;
                    return "validation";
                }
            }
            "none"
        }
        6 => {
            let is_enum = matches!(s.type_kinds[i], TypeKind::Enum { .. });
            s.type_metadata[i].type_name = rename(rng, &s.type_metadata[i].type_name, is_enum);
            "rename_type"
        }
        7 => {
            for j in (0..n).map(|d| (i + d) % n) {
                match &mut s.type_metadata[j].child_names {
                    Some(ChildNames::NamedFields(f)) if !f.is_empty() => {
                        let x = rng.usize_below(f.len());
                        f[x] = format!("{}_r", f[x]).into();
                        return "rename_field";
                    }
                    Some(ChildNames::EnumVariants(vm)) if !vm.is_empty() => {
                        let x = rng.usize_below(vm.len());
                        let (_, m) = vm.get_index_mut(x).unwrap();
                        if rng.bool() {
                            m.type_name = rename(rng, &m.type_name, true);
                            return "rename_variant";
                        } else if let Some(ChildNames::NamedFields(f)) = &mut m.child_names {
                            if !f.is_empty() {
                                f[0] = format!("{}_r", f[0]).into();
                                return "rename_variant_field";
                            }
                        }
                    }
                    _ => {}
                }
            }
            "none"
        }
        8 => {
            // drop / add field names
            for j in (0..n).map(|d| (i + d) % n) {
                if let TypeKind::Tuple { field_types } = &s.type_kinds[j] {
                    s.type_metadata[j].child_names = match &s.type_metadata[j].child_names {
                        Some(_) => None,
                        None => Some(ChildNames::NamedFields((0..field_types.len()).map(|x| format!("g{}", x).into()).collect())),
                    };
                    return "toggle_field_names";
                }
            }
            "none"
        }
        9 => {
            // change the kind of a type (incl. replacing with Any)
            let k = if rng.bool() { TypeKind::Any } else { schemair::gen_kind(rng, n, &wks, false) };
            s.type_metadata[i] = gen_meta_for(rng, &k);
            s.type_validations[i] = TypeValidation::None;
            s.type_kinds[i] = k;
            "change_kind"
        }
        10 => {
            // redirect one child id (to Any, to another type)
            for j in (0..n).map(|d| (i + d) % n) {
                let target = if rng.bool() { wk(ANY) } else if rng.bool() { LocalTypeId::SchemaLocalIndex(rng.usize_below(n)) } else { wk(*rng.pick(&[1u8, 7, 10, 12, 0x41])) };
                match &mut s.type_kinds[j] {
                    TypeKind::Array { element_type } => { *element_type = target; return "redirect_child"; }
                    TypeKind::Tuple { field_types } if !field_types.is_empty() => {
                        let x = rng.usize_below(field_types.len());
                        field_types[x] = target;
                        return "redirect_child";
                    }
                    TypeKind::Map { key_type, value_type } => {
                        if rng.bool() { *key_type = target } else { *value_type = target }
                        return "redirect_child";
                    }
                    TypeKind::Enum { variants } => {
                        for (_, f) in variants.iter_mut() {
                            if !f.is_empty() {
                                f[0] = target;
                                return "redirect_child";
                            }
                        }
                    }
                    _ => {}
                }
            }
            "none"
        }
        11 => {
            // tuple / variant field count
            for j in (0..n).map(|d| (i + d) % n) {
                if let TypeKind::Tuple { field_types } = &mut s.type_kinds[j] {
                    if rng.bool() && !field_types.is_empty() { field_types.pop(); } else { field_types.push(wk(7)); }
                    let k = s.type_kinds[j].clone();
                    s.type_metadata[j] = gen_meta_for(rng, &k);
                    return "field_count";
                }
            }
            "none"
        }
        12 => {
            // append an (unreachable) type
            let k = gen_leaf_kind(rng);
            s.type_metadata.push(gen_meta_for(rng, &k));
            s.type_validations.push(TypeValidation::None);
            s.type_kinds.push(k);
            "append_type"
        }
        _ => "none",
    }
}

// ------------------------------------------------------------------------------------------------
fn validates(p: &[u8], s: &ScryptoSchema, t: LocalTypeId) -> bool {
    let p = p.to_vec();
    let s = s.clone();
    matches!(catch(move || validate_payload_against_schema::<ScryptoCustomExtension, ()>(&p, &s, t, &(), 64).is_ok()), Ok(true))
}

/// payload oracle for one root pair; returns number of payloads checked
fn payload_oracle(
    rng: &mut Rng,
    report: &mut Report,
    idx: usize,
    base: &ScryptoSchema,
    cmp: &ScryptoSchema,
    a: LocalTypeId,
    b: LocalTypeId,
    both_ways: bool,
    ctx: &str,
) {
    for round in 0..6 {
        let from_base = !both_ways || round % 2 == 0;
        let (gs, gt) = if from_base { (base, a) } else { (cmp, b) };
        let mut g = VGen { schema: gs, budget: 30, deviate: if round >= 4 { 8 } else { 0 } };
        let v = g.gen(rng, gt, 6);
        let Ok(p) = scrypto_encode(&v_to::<FScrypto>(&v)) else { continue };
        let vb = validates(&p, base, a);
        let vc = validates(&p, cmp, b);
        if vb { report.count("oracle_payload_valid_under_base"); }
        if vb && !vc {
            report.oracle_failure(idx, "", &format!("comparison reported valid ({}) but a payload valid under the base schema is rejected under the compared schema", ctx),
                json!({"base": format!("{:?}", base), "compared": format!("{:?}", cmp), "base_root": format!("{:?}", a), "compared_root": format!("{:?}", b), "payload": hex(&p)}));
        }
        if both_ways && vc && !vb {
            report.oracle_failure(idx, "", &format!("comparison reported equality-valid ({}) but a payload valid under the compared schema is rejected under the base schema", ctx),
                json!({"base": format!("{:?}", base), "compared": format!("{:?}", cmp), "base_root": format!("{:?}", a), "compared_root": format!("{:?}", b), "payload": hex(&p)}));
        }
    }
}

fn parse_count(msg: &Option<String>) -> Option<u64> {
    let m = msg.as_ref()?;
    let i = m.find(" with ")? + 6;
    let rest = &m[i..];
    let j = rest.find(' ')?;
    rest[..j].parse().ok()
}

fn coq_roots(r: &IndexMap<String, LocalTypeId>) -> String {
    coq_list(r.iter().map(|(n, t)| format!("({}, {})", coq_bytes(n.as_bytes()), coq_tid(t))))
}

fn main() {
    let args = Args::parse();
    let mut report = Report::new("C23", args.seed, "distinct (settings, base, compared, roots) with verdict");
    let mut cw = CaseWriter::new(
        "RV.Model.C20_Sbor RV.Model.C22_Types RV.Model.C22_Schema RV.Model.C23_SchemaCmp RV.Corr.C23_run",
        "check",
    );
    let base_rng = Rng::new(args.seed);
    for i in 0..args.cases {
        let mut rng = base_rng.fork(i as u64);
        let st = gen_settings(&mut rng);
        let n_types = *rng.pick(&[1usize, 2, 3, 4, 5, 6]);
        let allow_invalid = rng.chance(1, 25);
        let base = gen_schema(&mut rng, &SchemaCfg { n_types, allow_invalid });
        // derive the compared schema
        let mut cmp = base.clone();
        let nm = *rng.pick(&[0usize, 1, 1, 1, 2, 3]);
        let mut labels = vec![];
        for _ in 0..nm {
            // a mutation that does not apply to this schema returns "none": try a few others
            let mut l = "none";
            for _ in 0..4 {
                l = mutate_schema(&mut rng, &mut cmp);
                if l != "none" {
                    break;
                }
            }
            labels.push(l);
        }
        let mut perm: Vec<usize> = (0..base.type_kinds.len()).collect();
        if rng.chance(1, 3) && cmp.type_metadata.len() == cmp.type_kinds.len() && cmp.type_validations.len() == cmp.type_kinds.len() {
            // reorder the (original) types of the compared schema
            rng.shuffle(&mut perm);
            let extra: Vec<usize> = (base.type_kinds.len()..cmp.type_kinds.len()).collect();
            let mut full = perm.clone();
            full.extend(extra);
            cmp = permute(&cmp, &full);
            labels.push("permute");
        }
        for l in &labels { report.count(&format!("mutation_{}", l)); }
        if labels.is_empty() { report.count("mutation_identity"); }
        let base_valid = base.validate().is_ok();
        let cmp_valid = cmp.validate().is_ok();
        if base_valid && cmp_valid { report.count("both_schemas_valid"); }

        let named = rng.chance(1, 3);
        let settings = st.real();
        if !named {
            let a = if rng.chance(1, 12) { wk(*rng.pick(&well_known_ids())) } else { LocalTypeId::SchemaLocalIndex(rng.usize_below(n_types)) };
            let b = match a {
                LocalTypeId::SchemaLocalIndex(x) if !rng.chance(1, 15) => LocalTypeId::SchemaLocalIndex(perm[x]),
                LocalTypeId::SchemaLocalIndex(_) => LocalTypeId::SchemaLocalIndex(rng.usize_below(cmp.type_kinds.len())),
                w => w,
            };
            let bs = SingleTypeSchema::<ScryptoCustomSchema>::new(VersionedSchema::from(base.clone()), a);
            let cs = SingleTypeSchema::<ScryptoCustomSchema>::new(VersionedSchema::from(cmp.clone()), b);
            let r = catch({
                let (bs, cs) = (bs.clone(), cs.clone());
                move || {
                    let res = compare_single_type_schemas(&settings, &bs, &cs);
                    (res.is_valid(), res.error_message("base", "compared"))
                }
            });
            let (verdict, nerr, valid) = match &r {
                Ok((v, m)) => (format!("(Some {})", coq_bool(*v)), if *v { Some(0) } else { parse_count(m) }, *v),
                Err(_) => {
                    // is_valid alone (error_message may be what panicked)
                    let r2 = catch({
                        let (bs, cs) = (bs.clone(), cs.clone());
                        move || compare_single_type_schemas(&settings, &bs, &cs).is_valid()
                    });
                    match r2 {
                        Ok(v) => (format!("(Some {})", coq_bool(v)), None, v),
                        Err(_) => ("None".to_string(), None, false),
                    }
                }
            };
            report.count(if verdict == "None" { "verdict_panic" } else if valid { "verdict_valid" } else { "verdict_invalid" });
            if verdict == "None" && base_valid && cmp_valid { report.count("panic_on_valid_schemas"); }
            if valid {
                payload_oracle(&mut rng, &mut report, i, &base, &cmp, a, b, st.equality_like(), &format!("{:?}", st));
            }
            report.case(&format!("F{:?}{:?}{:?}{:?}{:?}{}", st, base, cmp, a, b, verdict), true);
            cw.push(format!(
                "(CFixed {} {} {} {} {} {} {})",
                st.coq(), coq_schema(&base), coq_schema(&cmp), coq_tid(&a), coq_tid(&b), verdict,
                coq_option(nerr.map(|x| format!("{}", x)))
            ));
        } else {
            let k = rng.range(1, 3) as usize;
            let mut broots: IndexMap<String, LocalTypeId> = IndexMap::new();
            let mut croots: IndexMap<String, LocalTypeId> = IndexMap::new();
            for j in 0..k {
                let x = rng.usize_below(n_types);
                let name = format!("Root{}", j);
                broots.insert(name.clone(), LocalTypeId::SchemaLocalIndex(x));
                if !rng.chance(1, 8) {
                    croots.insert(name, LocalTypeId::SchemaLocalIndex(perm[x]));
                }
            }
            if rng.chance(1, 4) {
                croots.insert("Extra".to_string(), LocalTypeId::SchemaLocalIndex(rng.usize_below(cmp.type_kinds.len())));
            }
            let bs = TypeCollectionSchema::<ScryptoCustomSchema>::new(VersionedSchema::from(base.clone()), broots.clone());
            let cs = TypeCollectionSchema::<ScryptoCustomSchema>::new(VersionedSchema::from(cmp.clone()), croots.clone());
            let r = catch({
                let (bs, cs) = (bs.clone(), cs.clone());
                move || {
                    let res = compare_type_collection_schemas(&settings, &bs, &cs);
                    (res.is_valid(), res.error_message("base", "compared"))
                }
            });
            let (verdict, nerr, valid) = match &r {
                Ok((v, m)) => (format!("(Some {})", coq_bool(*v)), if *v { Some(0) } else { parse_count(m) }, *v),
                Err(_) => {
                    let r2 = catch({
                        let (bs, cs) = (bs.clone(), cs.clone());
                        move || compare_type_collection_schemas(&settings, &bs, &cs).is_valid()
                    });
                    match r2 {
                        Ok(v) => (format!("(Some {})", coq_bool(v)), None, v),
                        Err(_) => ("None".to_string(), None, false),
                    }
                }
            };
            report.count(if verdict == "None" { "verdict_panic" } else if valid { "verdict_valid" } else { "verdict_invalid" });
            if verdict == "None" && base_valid && cmp_valid { report.count("panic_on_valid_schemas"); }
            report.count("named_roots_cases");
            if valid {
                for (name, a) in broots.iter() {
                    if let Some(b) = croots.get(name) {
                        payload_oracle(&mut rng, &mut report, i, &base, &cmp, *a, *b, st.equality_like(), &format!("{:?}", st));
                    }
                }
            }
            report.case(&format!("N{:?}{:?}{:?}{:?}{:?}{}", st, base, cmp, broots, croots, verdict), true);
            cw.push(format!(
                "(CNamed {} {} {} {} {} {} {})",
                st.coq(), coq_schema(&base), coq_schema(&cmp), coq_roots(&broots), coq_roots(&croots), verdict,
                coq_option(nerr.map(|x| format!("{}", x)))
            ));
        }
    }
    report.floor("verdict_valid", (args.cases / 20) as u64);
    report.floor("verdict_invalid", (args.cases / 10) as u64);
    report.floor("oracle_payload_valid_under_base", (args.cases / 20) as u64);
    report.write(&args.out).expect("write report");
    if !args.oracle_only {
        cw.write(&args.out, args.shards).expect("write cases");
    }
}
