//! C27 correspondence harness: FromStr / Display of Decimal and PreciseDecimal
//! (model: coq/Model/C27_DecText.v).
//! Direct oracle, independent of the code under test: (1) to_string then from_str gives back the value,
//! and the printed text denotes exactly the value under the oracle's own reading of the grammar;
//! (2) from_str succeeds iff the string is in [+-]?digits(.digits{1,SCALE})? and its exact value
//! (big integers) is in range, and then returns that value.
use num_bigint::BigInt;
use num_traits::Zero;
use radix_common::math::*;
use serde_json::json;
use std::panic::AssertUnwindSafe;
use std::str::FromStr;
use vh_common::*;
use vh_light::dec::*;

/// exact value (in subunits) of a string in the grammar, None if not in the grammar
fn grammar_value(f: Fmt, s: &[u8]) -> Option<BigInt> {
    let (neg, body) = match s.first() {
        Some(b'-') => (true, &s[1..]),
        Some(b'+') => (false, &s[1..]),
        _ => (false, s),
    };
    let mut parts = body.split(|c| *c == b'.');
    let ip = parts.next()?;
    let fp = parts.next();
    if parts.next().is_some() {
        return None;
    }
    let digits = |d: &[u8]| -> Option<BigInt> {
        if d.is_empty() || !d.iter().all(|c| c.is_ascii_digit()) {
            return None;
        }
        let mut z = BigInt::zero();
        for c in d {
            z = z * 10 + BigInt::from(c - b'0');
        }
        Some(z)
    };
    let mut v = digits(ip)? * f.one();
    if let Some(fp) = fp {
        if fp.len() > f.scale() as usize {
            return None;
        }
        v += digits(fp)? * pow10(f.scale() - fp.len() as u32);
    }
    Some(if neg { -v } else { v })
}

fn parse_impl(f: Fmt, s: &str) -> Out {
    match f {
        Fmt::Dec => match catch(AssertUnwindSafe(|| Decimal::from_str(s))) {
            Ok(Ok(d)) => Out::Ok(dec_big(d)),
            Ok(Err(e)) => Out::Err(match e {
                ParseDecimalError::InvalidDigit => "EInvalidDigit",
                ParseDecimalError::Overflow => "EOverflow",
                ParseDecimalError::EmptyIntegralPart => "EEmptyInt",
                ParseDecimalError::EmptyFractionalPart => "EEmptyFrac",
                ParseDecimalError::MoreThanEighteenDecimalPlaces => "ETooManyPlaces",
                ParseDecimalError::MoreThanOneDecimalPoint => "ETwoPoints",
                ParseDecimalError::InvalidLength(_) => "EInvalidLength",
            }),
            Err(_) => Out::Panic,
        },
        Fmt::PDec => match catch(AssertUnwindSafe(|| PreciseDecimal::from_str(s))) {
            Ok(Ok(d)) => Out::Ok(pdec_big(d)),
            Ok(Err(e)) => Out::Err(match e {
                ParsePreciseDecimalError::InvalidDigit => "EInvalidDigit",
                ParsePreciseDecimalError::Overflow => "EOverflow",
                ParsePreciseDecimalError::EmptyIntegralPart => "EEmptyInt",
                ParsePreciseDecimalError::EmptyFractionalPart => "EEmptyFrac",
                ParsePreciseDecimalError::MoreThanThirtySixDecimalPlaces => "ETooManyPlaces",
                ParsePreciseDecimalError::MoreThanOneDecimalPoint => "ETwoPoints",
                ParsePreciseDecimalError::InvalidLength(_) => "EInvalidLength",
            }),
            Err(_) => Out::Panic,
        },
    }
}
fn print_impl(f: Fmt, x: &BigInt) -> Result<String, String> {
    match f {
        Fmt::Dec => catch(AssertUnwindSafe(|| dec(x).to_string())),
        Fmt::PDec => catch(AssertUnwindSafe(|| pdec(x).to_string())),
    }
}

fn rand_digits(rng: &mut Rng, n: usize) -> String {
    (0..n).map(|_| (b'0' + rng.below(10) as u8) as char).collect()
}

/// a string from the grammar (value possibly out of range)
fn gen_grammar(rng: &mut Rng, f: Fmt, bnd: &[BigInt]) -> String {
    let mut s = String::new();
    match rng.below(4) {
        0 => s.push('-'),
        1 => s.push('+'),
        _ => {}
    }
    // integer part: short, around the 41-digit limit, around 19-digit chunk boundaries, leading zeros
    let ip = match rng.below(8) {
        0 => "0".to_string(),
        1 => {
            // integer part of a limit, nudged
            let lim = (f.max() / f.one()) + BigInt::from(rng.range(0, 2) as i64 - 1);
            lim.to_string()
        }
        2 => {
            let z = rng.range(1, 40) as usize;
            let k = rng.range(1, 20) as usize;
            format!("{}{}", "0".repeat(z), rand_digits(rng, k))
        }
        3 => {
            let k = *rng.pick(&[18usize, 19, 20, 37, 38, 39, 40, 41, 42, 57, 58, 76, 77, 78, 95]);
            rand_digits(rng, k)
        }
        4 => {
            let v = rng.pick(bnd).clone();
            (v / f.one()).to_string().trim_start_matches('-').to_string()
        }
        _ => {
            let k = rng.range(1, 41) as usize;
            rand_digits(rng, k)
        }
    };
    s.push_str(&ip);
    if rng.chance(3, 4) {
        s.push('.');
        let n = match rng.below(6) {
            0 => f.scale() as usize,
            1 => f.scale() as usize + 1,
            2 => 1,
            _ => rng.range(1, f.scale() as u64) as usize,
        };
        let mut fp = rand_digits(rng, n);
        if rng.chance(1, 4) {
            // fraction of a limit
            let lim = f.max() % f.one();
            fp = format!("{:0w$}", lim, w = f.scale() as usize);
            if rng.bool() {
                // one more in the last place
                let l = (&lim + 1u32).to_string();
                fp = format!("{:0>w$}", l, w = f.scale() as usize);
            }
        }
        s.push_str(&fp);
    }
    s
}

fn mutate(rng: &mut Rng, s: &str) -> String {
    let mut b: Vec<char> = s.chars().collect();
    let extra: [char; 14] = ['-', '+', '.', ' ', '_', 'e', 'E', 'a', 'é', '٣', '\u{0}', ',', 'x', '/'];
    for _ in 0..rng.range(1, 2) {
        let pos = if b.is_empty() { 0 } else { rng.usize_below(b.len() + 1) };
        match rng.below(5) {
            0 => b.insert(pos.min(b.len()), *rng.pick(&extra)),
            1 => {
                if !b.is_empty() {
                    b.remove(pos.min(b.len() - 1));
                }
            }
            2 => {
                if !b.is_empty() {
                    let p = pos.min(b.len() - 1);
                    b[p] = *rng.pick(&extra);
                }
            }
            3 => {
                // sign right after the dot / at odd places
                if let Some(p) = b.iter().position(|c| *c == '.') {
                    b.insert(p + 1, if rng.bool() { '-' } else { '+' });
                } else {
                    b.push('.');
                }
            }
            _ => {
                if !b.is_empty() {
                    b.truncate(pos.min(b.len()));
                }
            }
        }
    }
    b.into_iter().collect()
}

fn main() {
    let args = Args::parse();
    let mut report = Report::new(
        "C27",
        args.seed,
        "print/parse round trips of values (uniform bit length, boundaries, short decimals) and from_str on grammar strings \
         (signs, leading zeros, 19-digit chunk boundaries, range limits +-1 in the last place, SCALE and SCALE+1 places) and mutated strings \
         (signs in odd places, several dots, non-digits, non-ASCII, empty parts); non-trivial = accepted string with a fraction, or a rejection \
         other than an empty string; distinct by text",
    );
    let mut cw = CaseWriter::new("RV.Corr.C27_run RV.Lib.DecCore RV.Model.C27_DecText", "check");
    let root = Rng::new(args.seed);
    let bnds = [boundaries(Fmt::Dec), boundaries(Fmt::PDec)];
    let fixed: Vec<&str> = vec![
        "1.-5", "1.+5", "-1.-5", "+1.+5", "0.-0", "1.-", "1.+", "-0.5", "+0.5", "-0", "+0", "-", "+", "", ".", "1.", ".5", "-.5",
        "1..2", "1.2.3", "--1", "+-1", "1e5", "0x10", " 1", "1 ", "1_000", "00000000000000000000000000000000000000000000000000001.5",
        "3138550867693340381917894711603833208051.177722232017256447", "3138550867693340381917894711603833208051.177722232017256448",
        "-3138550867693340381917894711603833208051.177722232017256448", "-3138550867693340381917894711603833208051.177722232017256449",
        "57896044618658097711785492504343953926634.992332820282019728792003956564819967",
        "-57896044618658097711785492504343953926634.992332820282019728792003956564819968",
        "-57896044618658097711785492504343953926634.992332820282019728792003956564819969",
        "1.0000000000000000000", "1.000000000000000000", "1.0000000000000000000000000000000000000", "é", "1.é", "٣",
    ];
    for i in 0..args.cases {
        let mut rng = root.fork(i as u64);
        let f = if i < 2 * fixed.len() { FMTS[i % 2] } else { FMTS[rng.usize_below(2)] };
        let bnd = &bnds[if f == Fmt::Dec { 0 } else { 1 }];
        let kind = if i < 2 * fixed.len() { 9 } else { rng.below(9) };
        if kind < 3 {
            // print, then parse back
            let x = gen_value(&mut rng, f, bnd);
            let printed = print_impl(f, &x);
            report.count("op_print");
            match &printed {
                Ok(s) => {
                    let back = parse_impl(f, s);
                    let denotes = grammar_value(f, s.as_bytes());
                    let canonical = !s.starts_with('+') && !(s.contains('.') && s.ends_with('0')) && !s.ends_with('.');
                    if back != Out::Ok(x.clone()) || denotes.as_ref() != Some(&x) || !canonical {
                        report.oracle_failure(i, "", &format!("{}: value {} printed as {:?}, parsed back as {}, text denotes {:?}", f.name(), x, s, back.short(), denotes), json!({"format": f.name(), "value": x.to_string()}));
                    }
                    report.case(&format!("{} print {}", f.name(), x), s.contains('.'));
                    if s.starts_with("-0.") {
                        report.count("print_negative_below_one");
                    }
                    cw.push(format!("({}, TPrint {}, OPrint {})", f.coq(), cz(&x), coq_bytes(s.as_bytes())));
                }
                Err(_) => {
                    report.oracle_failure(i, "", &format!("{}: to_string panicked on {}", f.name(), x), json!({"format": f.name(), "value": x.to_string()}));
                    report.case(&format!("{} print {}", f.name(), x), false);
                }
            }
            continue;
        }
        let s: String = if kind == 9 {
            fixed[i / 2].to_string()
        } else if kind < 6 {
            gen_grammar(&mut rng, f, bnd)
        } else if kind == 6 {
            // a printed value, mutated
            let x = gen_value(&mut rng, f, bnd);
            mutate(&mut rng, &print_impl(f, &x).unwrap_or_default())
        } else {
            let g = gen_grammar(&mut rng, f, bnd);
            mutate(&mut rng, &g)
        };
        let out = parse_impl(f, &s);
        let spec = grammar_value(f, s.as_bytes()).filter(|v| f.fits(v));
        report.count("op_parse");
        report.count(&match &out {
            Out::Ok(_) => "parse_ok".to_string(),
            Out::Err(e) => format!("parse_err_{}", e),
            Out::Panic => "parse_panic".to_string(),
        });
        if !s.is_ascii() {
            report.count("non_ascii_input");
        }
        let nontrivial = match &out {
            Out::Ok(_) => s.contains('.'),
            _ => !s.is_empty(),
        };
        report.case(&format!("{} parse {:?}", f.name(), s), nontrivial);
        let ok = match (&spec, &out) {
            (Some(v), Out::Ok(w)) => v == w,
            (None, Out::Err(_)) => true,
            _ => false,
        };
        if !ok {
            report.oracle_failure(i, "", &format!("{}: from_str({:?}) = {} but the grammar/value reading is {:?}", f.name(), s, out.short(), spec), json!({"format": f.name(), "text": s}));
        }
        if i < 4 {
            report.sample(json!({"format": f.name(), "text": s, "out": out.short()}));
        }
        cw.push(format!("({}, TParse {}, OParse {})", f.coq(), coq_bytes(s.as_bytes()), out.coq()));
    }
    let n = args.cases as u64;
    report.floor("parse_ok", n / 10);
    report.floor("parse_err_EInvalidDigit", n / 40);
    report.floor("parse_err_EOverflow", n / 60);
    report.floor("parse_err_ETooManyPlaces", n / 100);
    report.floor("op_print", n / 5);
    report.floor("print_negative_below_one", 1);
    if !args.oracle_only {
        cw.write(&args.out, args.shards).unwrap();
    }
    report.write(&args.out).unwrap();
}
