//! C27 correspondence harness: FromStr / Display of Decimal and PreciseDecimal
//! (model: coq/Model/C27_DecText.v).
//! Direct oracle, independent of the code under test: (1) to_string then from_str gives back the value,
//! and the printed text denotes exactly the value under the oracle's own reading of the grammar;
//! (2) from_str succeeds iff the string is in [+-]?digits(.digits{1,SCALE})? and its exact value
//! (big integers) is in range, and then returns that value.
use num_bigint::BigInt;
use num_traits::{Signed, Zero};
use radix_common::math::*;
use serde_json::json;
use std::panic::AssertUnwindSafe;
use std::str::FromStr;
use vh_common::*;
use vh_light::dec::*;

/// exact value (in subunits) of a string in the grammar, None if not in the grammar
fn grammar_value(f: Fmt, s: &[u8]) -> Option<BigInt> {
    let (neg, body) = match s.first() {
        Some(b'-') => (true, &s[1..]),
        Some(b'+') => (false, &s[1..]),
        _ => (false, s),
    };
    let mut parts = body.split(|c| *c == b'.');
    let ip = parts.next()?;
    let fp = parts.next();
    if parts.next().is_some() {
        return None;
    }
    let digits = |d: &[u8]| -> Option<BigInt> {
        if d.is_empty() || !d.iter().all(|c| c.is_ascii_digit()) {
            return None;
        }
        let mut z = BigInt::zero();
        for c in d {
            z = z * 10 + BigInt::from(c - b'0');
        }
        Some(z)
    };
    let mut v = digits(ip)? * f.one();
    if let Some(fp) = fp {
        if fp.len() > f.scale() as usize {
            return None;
        }
        v += digits(fp)? * pow10(f.scale() - fp.len() as u32);
    }
    Some(if neg { -v } else { v })
}

fn parse_impl(f: Fmt, s: &str) -> Out {
    match f {
        Fmt::Dec => match catch(AssertUnwindSafe(|| Decimal::from_str(s))) {
            Ok(Ok(d)) => Out::Ok(dec_big(d)),
            Ok(Err(e)) => Out::Err(match e {
                ParseDecimalError::InvalidDigit => "EInvalidDigit",
                ParseDecimalError::Overflow => "EOverflow",
                ParseDecimalError::EmptyIntegralPart => "EEmptyInt",
                ParseDecimalError::EmptyFractionalPart => "EEmptyFrac",
                ParseDecimalError::MoreThanEighteenDecimalPlaces => "ETooManyPlaces",
                ParseDecimalError::MoreThanOneDecimalPoint => "ETwoPoints",
                ParseDecimalError::InvalidLength(_) => "EInvalidLength",
            }),
            Err(_) => Out::Panic,
        },
        Fmt::PDec => match catch(AssertUnwindSafe(|| PreciseDecimal::from_str(s))) {
            Ok(Ok(d)) => Out::Ok(pdec_big(d)),
            Ok(Err(e)) => Out::Err(match e {
                ParsePreciseDecimalError::InvalidDigit => "EInvalidDigit",
                ParsePreciseDecimalError::Overflow => "EOverflow",
                ParsePreciseDecimalError::EmptyIntegralPart => "EEmptyInt",
                ParsePreciseDecimalError::EmptyFractionalPart => "EEmptyFrac",
                ParsePreciseDecimalError::MoreThanThirtySixDecimalPlaces => "ETooManyPlaces",
                ParsePreciseDecimalError::MoreThanOneDecimalPoint => "ETwoPoints",
                ParsePreciseDecimalError::InvalidLength(_) => "EInvalidLength",
            }),
            Err(_) => Out::Panic,
        },
    }
}
fn print_impl(f: Fmt, x: &BigInt) -> Result<String, String> {
    match f {
        Fmt::Dec => catch(AssertUnwindSafe(|| dec(x).to_string())),
        Fmt::PDec => catch(AssertUnwindSafe(|| pdec(x).to_string())),
    }
}

fn rand_digits(rng: &mut Rng, n: usize) -> String {
    (0..n).map(|_| (b'0' + rng.below(10) as u8) as char).collect()
}

/// a string from the grammar (value possibly out of range)
fn gen_grammar(rng: &mut Rng, f: Fmt, bnd: &[BigInt]) -> String {
    let mut s = String::new();
    match rng.below(4) {
        0 => s.push('-'),
        1 => s.push('+'),
        _ => {}
    }
    // integer part: short, around the 41-digit limit, around 19-digit chunk boundaries, leading zeros
    let ip = match rng.below(8) {
        0 => "0".to_string(),
        1 => {
            // integer part of a limit, nudged
            let lim = (f.max() / f.one()) + BigInt::from(rng.range(0, 2) as i64 - 1);
            lim.to_string()
        }
        2 => {
            let z = rng.range(1, 40) as usize;
            let k = rng.range(1, 20) as usize;
            format!("{}{}", "0".repeat(z), rand_digits(rng, k))
        }
        3 => {
            let k = *rng.pick(&[18usize, 19, 20, 37, 38, 39, 40, 41, 42, 57, 58, 76, 77, 78, 95]);
            rand_digits(rng, k)
        }
        4 => {
            let v = rng.pick(bnd).clone();
            (v / f.one()).to_string().trim_start_matches('-').to_string()
        }
        _ => {
            let k = rng.range(1, 41) as usize;
            rand_digits(rng, k)
        }
    };
    s.push_str(&ip);
    if rng.chance(3, 4) {
        s.push('.');
        let n = match rng.below(6) {
            0 => f.scale() as usize,
            1 => f.scale() as usize + 1,
            2 => 1,
            _ => rng.range(1, f.scale() as u64) as usize,
        };
        let mut fp = rand_digits(rng, n);
        if rng.chance(1, 4) {
            // fraction of a limit
            let lim = f.max() % f.one();
            fp = format!("{:0w$}", lim, w = f.scale() as usize);
            if rng.bool() {
                // one more in the last place
                let l = (&lim + 1u32).to_string();
                fp = format!("{:0>w$}", l, w = f.scale() as usize);
            }
        }
        s.push_str(&fp);
    }
    s
}

fn mutate(rng: &mut Rng, s: &str) -> String {
    let mut b: Vec<char> = s.chars().collect();
    let extra: [char; 14] = ['-', '+', '.', ' ', '_', 'e', 'E', 'a', 'é', '٣', '\u{0}', ',', 'x', '/'];
    for _ in 0..rng.range(1, 2) {
        let pos = if b.is_empty() { 0 } else { rng.usize_below(b.len() + 1) };
        match rng.below(5) {
            0 => b.insert(pos.min(b.len()), *rng.pick(&extra)),
            1 => {
                if !b.is_empty() {
                    b.remove(pos.min(b.len() - 1));
                }
            }
            2 => {
                if !b.is_empty() {
                    let p = pos.min(b.len() - 1);
                    b[p] = *rng.pick(&extra);
                }
            }
            3 => {
                // sign right after the dot / at odd places
                if let Some(p) = b.iter().position(|c| *c == '.') {
                    b.insert(p + 1, if rng.bool() { '-' } else { '+' });
                } else {
                    b.push('.');
                }
            }
            _ => {
                if !b.is_empty() {
                    b.truncate(pos.min(b.len()));
                }
            }
        }
    }
    b.into_iter().collect()
}


/// decimal text of a value given in subunits (the oracle's own printer, independent of Display)
fn text_of(f: Fmt, v: &BigInt) -> String {
    let neg = v < &BigInt::zero();
    let a = if neg { -v.clone() } else { v.clone() };
    let (q, r) = (&a / f.one(), &a % f.one());
    let mut s = String::new();
    if neg {
        s.push('-');
    }
    s.push_str(&q.to_string());
    if !r.is_zero() {
        let frac = format!("{:0>w$}", r.to_string(), w = f.scale() as usize);
        s.push('.');
        s.push_str(frac.trim_end_matches('0'));
    }
    s
}

/// The deterministic family (identical for every seed): texts denoting exactly MAX, MIN, one unit inside
/// and one unit beyond, in several spellings (plus sign, leading zeros, trailing zeros up to SCALE digits,
/// SCALE+1 digits), the integral limits, the 19-digit chunk boundaries of the integer parser, smallest
/// fractions; and the values to print: all boundary values of the type.
fn text_family(f: Fmt) -> Vec<String> {
    let mut v: Vec<String> = Vec::new();
    let one = f.one();
    for base in [f.max(), f.min()] {
        for dl in -2i64..=2 {
            let x = &base + dl; // possibly out of range: text_of prints any integer
            let t = text_of(f, &x);
            v.push(t.clone());
            if !t.starts_with('-') {
                v.push(format!("+{}", t));
                v.push(format!("000{}", t));
            } else {
                v.push(format!("-000{}", &t[1..]));
            }
            if t.contains('.') {
                let digits_after = t.len() - t.find('.').unwrap() - 1;
                if digits_after < f.scale() as usize {
                    v.push(format!("{}{}", t, "0".repeat(f.scale() as usize - digits_after))); // exactly SCALE digits
                }
                v.push(format!("{}{}", t, "0".repeat(f.scale() as usize + 1 - digits_after))); // SCALE+1 digits
            }
        }
        // integral part of the limit and its neighbours, without and with a zero fraction
        let ip = trunc_div(&base, &one);
        for dl in -1i64..=1 {
            let k = &ip + dl;
            v.push(k.to_string());
            v.push(format!("{}.0", k));
            v.push(format!("{}.{}", k, "9".repeat(f.scale() as usize)));
        }
    }
    // chunk boundaries of the integer parser (19 digits per chunk, base 10^19) and the word sizes
    for n in [18usize, 19, 20, 37, 38, 39, 57, 58, 76, 77] {
        v.push("9".repeat(n));
        v.push(format!("1{}", "0".repeat(n)));
        v.push(format!("-{}", "9".repeat(n)));
        v.push(format!("{}.5", "9".repeat(n)));
    }
    for w in [64u32, 128, 191, 192, 255, 256] {
        for dl in -1i64..=1 {
            v.push((pow2(w) + dl).to_string());
            v.push(format!("-{}", pow2(w) + dl));
        }
    }
    // smallest fractions, values in (-1, 0), zero spellings
    let s = f.scale() as usize;
    v.push(format!("0.{}1", "0".repeat(s - 1)));
    v.push(format!("-0.{}1", "0".repeat(s - 1)));
    v.push(format!("0.{}1", "0".repeat(s)));
    v.push(format!("-0.{}1", "0".repeat(s)));
    v.push(format!("0.{}", "9".repeat(s)));
    v.push(format!("-0.{}", "9".repeat(s)));
    v.push(format!("0.{}", "9".repeat(s + 1)));
    for z in ["0", "-0", "+0", "0.0", "-0.0", "00", "0.", ".0", "-0.", "+.0"] {
        v.push(z.to_string());
    }
    // sign x spelling of the integral part x fraction: every place where the parser treats the three
    // separately (negative zero, values in (-1,0) and (0,1) under every spelling of a zero integral part,
    // leading zeros across the 19-digit chunk boundaries, trailing zeros, SCALE and SCALE+1 digits)
    let mut ints: Vec<String> = vec!["0".into(), "00".into(), "000".into()];
    for n in [19usize, 20, 38, 39] {
        ints.push("0".repeat(n));
    }
    ints.extend(["1".to_string(), "01".to_string(), "001".to_string()]);
    for n in [18usize, 19, 20, 37, 38] {
        ints.push(format!("{}1", "0".repeat(n))); // 1 with leading zeros up to / across a chunk boundary
    }
    ints.push(format!("000{}", "9".repeat(19)));
    ints.push(format!("00001{}", "0".repeat(19)));
    ints.push(format!("0{}", "9".repeat(38)));
    ints.push(format!("00001{}", "0".repeat(37)));
    let fracs: Vec<String> = vec![
        "".into(),
        ".0".into(),
        ".5".into(),
        ".05".into(),
        format!(".{}1", "0".repeat(s - 1)),
        ".50".into(),
        format!(".5{}", "0".repeat(s - 1)),
        format!(".{}", "0".repeat(s)),
        format!(".{}1", "0".repeat(s)),
        format!(".5{}", "0".repeat(s)),
        ".".into(),
    ];
    for sg in ["", "+", "-"] {
        for ip in &ints {
            for fr in &fracs {
                v.push(format!("{}{}{}", sg, ip, fr));
            }
        }
    }
    v
}

/// values whose printing takes a different path: whole numbers, values in (-1, 0) and (0, 1), one subunit,
/// fractions with leading zeros, exactly SCALE fractional digits, trailing zeros to strip; for
/// PreciseDecimal also magnitudes around one Decimal atto
fn print_family(f: Fmt) -> Vec<BigInt> {
    let one = f.one();
    let mut v: Vec<BigInt> = Vec::new();
    let mut mags: Vec<BigInt> = vec![
        BigInt::from(1), BigInt::from(5), BigInt::from(10), &one / 2, &one / 20, &one / 10, &one - 1, one.clone(), &one + 1, &one * 3 / 2,
        &one * 10, &one * 10 + &one / 10, &one * 123 / 100, &one * 1000 + 1, &one * 7, &one / 4, &one * 99 / 100,
    ];
    if f == Fmt::PDec {
        let a = pow10(18);
        mags.extend([&a - 1, a.clone(), &a + 1, &a * 5, &a / 2]);
    }
    for m in mags {
        v.push(m.clone());
        v.push(-m);
    }
    v.push(BigInt::zero());
    v
}

/// sign / integral spelling / fraction class of a text of the shape [+-]?digits(.digits*)?
fn shape_class(f: Fmt, s: &str, out: &Out) -> Option<String> {
    let b = s.as_bytes();
    let (sign, rest) = match b.first() {
        Some(b'-') => ("minus", &b[1..]),
        Some(b'+') => ("plus", &b[1..]),
        _ => ("nosign", b),
    };
    let (ip, fp) = match rest.iter().position(|c| *c == b'.') {
        Some(p) => (&rest[..p], Some(&rest[p + 1..])),
        None => (rest, None),
    };
    if ip.is_empty() || !ip.iter().all(|c| c.is_ascii_digit()) || !fp.map(|x| x.iter().all(|c| c.is_ascii_digit())).unwrap_or(true) {
        return None;
    }
    let allzero = ip.iter().all(|c| *c == b'0');
    let int = if allzero {
        if ip.len() == 1 {
            "zero1"
        } else if ip.len() < 19 {
            "zeroN"
        } else {
            "zerochunk"
        }
    } else if ip[0] == b'0' {
        if ip.len() > 19 { "nonzero_lz_chunk" } else { "nonzero_lz" }
    } else {
        "nonzero"
    };
    let sc = f.scale() as usize;
    let frac = match fp {
        None => "nofrac",
        Some(x) if x.is_empty() => "emptyfrac",
        Some(x) if x.len() > sc => "toolong",
        Some(x) if x.iter().all(|c| *c == b'0') => {
            if x.len() == sc { "zeros_full" } else { "zeros" }
        }
        Some(x) if *x.last().unwrap() == b'0' => {
            if x.len() == sc { "trailing_zero_full" } else { "trailing_zero" }
        }
        Some(x) if x.len() == sc => "nonzero_full",
        Some(_) => "nonzero",
    };
    Some(format!("shape_{}_{}_{}_{}_{}", f.name(), sign, int, frac, if matches!(out, Out::Ok(_)) { "ok" } else { "err" }))
}

fn print_class(f: Fmt, x: &BigInt, s: &str) -> String {
    let neg = if x.is_negative() { "neg" } else if x.is_zero() { "zero" } else { "pos" };
    let int0 = if (x.abs() / f.one()).is_zero() { "int0" } else { "intnz" };
    let frac = match s.find('.') {
        None => "whole".to_string(),
        Some(p) => {
            let d = s.len() - p - 1;
            let lead = s[p + 1..].starts_with('0');
            format!("{}{}", if d == f.scale() as usize { "frac_full" } else { "frac_stripped" }, if lead { "_leading0" } else { "" })
        }
    };
    format!("prt_{}_{}_{}_{}", f.name(), neg, int0, frac)
}

fn text_class(f: Fmt, s: &str, out: &Out) -> Vec<String> {
    let mut v = Vec::new();
    if let Some(c) = shape_class(f, s, out) {
        v.push(c);
    }
    if let Some(val) = grammar_value(f, s.as_bytes()) {
        let res = if matches!(out, Out::Ok(_)) { "ok" } else { "err" };
        for (name, lim) in [("max", f.max()), ("min", f.min())] {
            let d = &val - &lim;
            if d.abs() <= BigInt::from(2) {
                v.push(format!("txt_{}_{}_{:+}_{}", f.name(), name, d, res));
            }
        }
        if val.abs() == BigInt::from(1) {
            v.push(format!("txt_{}_one_unit_{}", f.name(), res));
        }
    } else if s.contains('.') && s.bytes().filter(|c| *c == b'.').count() == 1 {
        let frac = s.len() - s.find('.').unwrap() - 1;
        if frac == f.scale() as usize + 1 && s.bytes().all(|c| c.is_ascii_digit() || c == b'.' || c == b'-' || c == b'+') {
            v.push(format!("txt_{}_scale_plus_one_digits", f.name()));
        }
    }
    let digits = s.bytes().take_while(|c| *c != b'.').filter(|c| c.is_ascii_digit()).count();
    if [19usize, 20, 38, 39].contains(&digits) && s.bytes().all(|c| c.is_ascii_digit() || c == b'.' || c == b'-' || c == b'+') {
        v.push(format!("txt_{}_int_digits_{}", f.name(), digits));
    }
    v
}

const FAMILY_FLOORS: &[(&str, u64)] = &include!("c27_family_floors.in");

fn main() {
    let args = Args::parse();
    let mut report = Report::new(
        "C27",
        args.seed,
        "deterministic family (every seed): texts denoting exactly MAX/MIN and +-1, +-2 units around them in several spellings (sign, leading zeros, SCALE and SCALE+1 digits), integral limits, \
         19-digit chunk boundaries and word sizes of the integer parser, smallest fractions, zero spellings, printing of all boundary values; then random: print/parse round trips of values (uniform bit length, boundaries, short decimals) and from_str on grammar strings \
         (signs, leading zeros, 19-digit chunk boundaries, range limits +-1 in the last place, SCALE and SCALE+1 places) and mutated strings \
         (signs in odd places, several dots, non-digits, non-ASCII, empty parts); non-trivial = accepted string with a fraction, or a rejection \
         other than an empty string; distinct by text",
    );
    let mut cw = CaseWriter::new("RV.Corr.C27_run RV.Lib.DecCore RV.Model.C27_DecText", "check");
    let root = Rng::new(args.seed);
    let bnds = [boundaries(Fmt::Dec), boundaries(Fmt::PDec)];
    let fixed: Vec<&str> = vec![
        "1.-5", "1.+5", "-1.-5", "+1.+5", "0.-0", "1.-", "1.+", "-0.5", "+0.5", "-0", "+0", "-", "+", "", ".", "1.", ".5", "-.5",
        "1..2", "1.2.3", "--1", "+-1", "1e5", "0x10", " 1", "1 ", "1_000", "00000000000000000000000000000000000000000000000000001.5",
        "3138550867693340381917894711603833208051.177722232017256447", "3138550867693340381917894711603833208051.177722232017256448",
        "-3138550867693340381917894711603833208051.177722232017256448", "-3138550867693340381917894711603833208051.177722232017256449",
        "57896044618658097711785492504343953926634.992332820282019728792003956564819967",
        "-57896044618658097711785492504343953926634.992332820282019728792003956564819968",
        "-57896044618658097711785492504343953926634.992332820282019728792003956564819969",
        "1.0000000000000000000", "1.000000000000000000", "1.0000000000000000000000000000000000000", "é", "1.é", "٣",
    ];
    // deterministic part: (format, Some(text) to parse | None, Some(value) to print | None)
    let mut det: Vec<(Fmt, Option<String>, Option<BigInt>)> = Vec::new();
    for f in FMTS {
        for t in &fixed {
            det.push((f, Some(t.to_string()), None));
        }
        for t in text_family(f) {
            det.push((f, Some(t), None));
        }
        for x in boundaries(f) {
            det.push((f, None, Some(x)));
        }
        for x in print_family(f) {
            det.push((f, None, Some(x)));
        }
    }
    let ndet = det.len();
    for i in 0..(ndet + args.cases) {
        let mut rng = root.fork(i as u64);
        let f = if i < ndet { det[i].0 } else { FMTS[rng.usize_below(2)] };
        let bnd = &bnds[if f == Fmt::Dec { 0 } else { 1 }];
        let kind = if i < ndet { if det[i].2.is_some() { 0 } else { 9 } } else { rng.below(9) };
        if kind < 3 {
            // print, then parse back
            let x = if i < ndet { det[i].2.clone().unwrap() } else { gen_value(&mut rng, f, bnd) };
            let printed = print_impl(f, &x);
            report.count("op_print");
            match &printed {
                Ok(s) => {
                    let back = parse_impl(f, s);
                    let denotes = grammar_value(f, s.as_bytes());
                    let canonical = !s.starts_with('+') && !(s.contains('.') && s.ends_with('0')) && !s.ends_with('.');
                    if back != Out::Ok(x.clone()) || denotes.as_ref() != Some(&x) || !canonical {
                        report.oracle_failure(i, "", &format!("{}: value {} printed as {:?}, parsed back as {}, text denotes {:?}", f.name(), x, s, back.short(), denotes), json!({"format": f.name(), "value": x.to_string()}));
                    }
                    report.case(&format!("{} print {}", f.name(), x), s.contains('.'));
                    if s.starts_with("-0.") {
                        report.count("print_negative_below_one");
                    }
                    if x == f.max() || x == f.min() {
                        report.count(&format!("print_{}_limit", f.name()));
                    }
                    report.count(&print_class(f, &x, s));
                    cw.push(format!("({}, TPrint {}, OPrint {})", f.coq(), cz(&x), coq_bytes(s.as_bytes())));
                }
                Err(_) => {
                    report.oracle_failure(i, "", &format!("{}: to_string panicked on {}", f.name(), x), json!({"format": f.name(), "value": x.to_string()}));
                    report.case(&format!("{} print {}", f.name(), x), false);
                }
            }
            continue;
        }
        let s: String = if kind == 9 {
            det[i].1.clone().unwrap()
        } else if kind < 6 {
            gen_grammar(&mut rng, f, bnd)
        } else if kind == 6 {
            // a printed value, mutated
            let x = gen_value(&mut rng, f, bnd);
            mutate(&mut rng, &print_impl(f, &x).unwrap_or_default())
        } else {
            let g = gen_grammar(&mut rng, f, bnd);
            mutate(&mut rng, &g)
        };
        let out = parse_impl(f, &s);
        let spec = grammar_value(f, s.as_bytes()).filter(|v| f.fits(v));
        report.count("op_parse");
        report.count(&match &out {
            Out::Ok(_) => "parse_ok".to_string(),
            Out::Err(e) => format!("parse_err_{}", e),
            Out::Panic => "parse_panic".to_string(),
        });
        if !s.is_ascii() {
            report.count("non_ascii_input");
        }
        for c in text_class(f, &s, &out) {
            report.count(&c);
        }
        let nontrivial = match &out {
            Out::Ok(_) => s.contains('.'),
            _ => !s.is_empty(),
        };
        report.case(&format!("{} parse {:?}", f.name(), s), nontrivial);
        let ok = match (&spec, &out) {
            (Some(v), Out::Ok(w)) => v == w,
            (None, Out::Err(_)) => true,
            _ => false,
        };
        if !ok {
            report.oracle_failure(i, "", &format!("{}: from_str({:?}) = {} but the grammar/value reading is {:?}", f.name(), s, out.short(), spec), json!({"format": f.name(), "text": s}));
        }
        if i < 4 {
            report.sample(json!({"format": f.name(), "text": s, "out": out.short()}));
        }
        cw.push(format!("({}, TParse {}, OParse {})", f.coq(), coq_bytes(s.as_bytes()), out.coq()));
    }
    report.extra.insert("deterministic_cases".into(), json!(ndet));
    for (k, m) in FAMILY_FLOORS {
        report.floor(k, *m);
    }
    let n = args.cases as u64;
    report.floor("parse_ok", n / 10);
    report.floor("parse_err_EInvalidDigit", n / 40);
    report.floor("parse_err_EOverflow", n / 60);
    report.floor("parse_err_ETooManyPlaces", n / 100);
    report.floor("op_print", n / 5);
    report.floor("print_negative_below_one", 1);
    if !args.oracle_only {
        cw.write(&args.out, args.shards).unwrap();
    }
    report.write(&args.out).unwrap();
}
