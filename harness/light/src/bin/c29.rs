//! C29 correspondence harness: calendar time conversions (radix_common::time::{UtcDateTime, Instant}).
//! Runs the real code on generated timestamps / field tuples / strings, writes the calls and the
//! canonicalised results as Coq cases (model: coq/Model/C29_Calendar.v), and evaluates the property
//! directly (round trips, an independent proleptic-Gregorian computation in i128 using the
//! era/day-of-era algorithm, monotonicity, arithmetic, print/parse, no panic).
use radix_common::prelude::*;
use radix_common::time::{DateTimeError, Instant, ParseUtcDateTimeError, UtcDateTime};
use serde_json::json;
use std::panic::AssertUnwindSafe;
use std::str::FromStr;
use vh_common::*;

const MIN_TS: i64 = -62135596800;
const MAX_TS: i64 = 135536014634284799;
const SHIFT: i64 = 946684800 + 86400 * (31 + 29);
const D400: i64 = 146097;

type Fields = (u32, u8, u8, u8, u8, u8);

fn fields(d: &UtcDateTime) -> Fields {
    (d.year(), d.month(), d.day_of_month(), d.hour(), d.minute(), d.second())
}
fn dt_coq(f: &Fields) -> String {
    format!("(mkdt {} {} {} {} {} {})", f.0, f.1, f.2, f.3, f.4, f.5)
}
fn err_coq(e: &DateTimeError) -> &'static str {
    match e {
        DateTimeError::InvalidYear => "InvalidYear",
        DateTimeError::InvalidMonth => "InvalidMonth",
        DateTimeError::InvalidDayOfMonth => "InvalidDayOfMonth",
        DateTimeError::InvalidHour => "InvalidHour",
        DateTimeError::InvalidMinute => "InvalidMinute",
        DateTimeError::InvalidSecond => "InvalidSecond",
        DateTimeError::InstantIsOutOfRange => "InstantIsOutOfRange",
    }
}
fn zlist(bs: &[u8]) -> String {
    format!("{}%Z", coq_bytes(bs))
}
fn z(x: i64) -> String {
    coq_z(x)
}

/// independent proleptic Gregorian calendar: day number (1970-01-01 = 0) -> (y, m, d)
fn civil_from_days(z: i128) -> (i128, i128, i128) {
    let z = z + 719468;
    let era = z.div_euclid(146097);
    let doe = z.rem_euclid(146097);
    let yoe = (doe - doe / 1460 + doe / 36524 - doe / 146096) / 365;
    let y = yoe + era * 400;
    let doy = doe - (365 * yoe + yoe / 4 - yoe / 100);
    let mp = (5 * doy + 2) / 153;
    let d = doy - (153 * mp + 2) / 5 + 1;
    let m = if mp < 10 { mp + 3 } else { mp - 9 };
    (if m <= 2 { y + 1 } else { y }, m, d)
}
fn days_from_civil(y: i128, m: i128, d: i128) -> i128 {
    let y = if m <= 2 { y - 1 } else { y };
    let era = y.div_euclid(400);
    let yoe = y.rem_euclid(400);
    let doy = (153 * (if m > 2 { m - 3 } else { m + 9 }) + 2) / 5 + d - 1;
    let doe = yoe * 365 + yoe / 4 - yoe / 100 + doy;
    era * 146097 + doe - 719468
}
fn greg_of_ts(t: i64) -> Fields {
    let t = t as i128;
    let days = t.div_euclid(86400);
    let s = t.rem_euclid(86400);
    let (y, m, d) = civil_from_days(days);
    (y as u32, m as u8, d as u8, (s / 3600) as u8, (s / 60 % 60) as u8, (s % 60) as u8)
}
fn ts_of_greg(f: &Fields) -> i128 {
    days_from_civil(f.0 as i128, f.1 as i128, f.2 as i128) * 86400 + f.3 as i128 * 3600 + f.4 as i128 * 60 + f.5 as i128
}
fn is_leap(y: u32) -> bool {
    y % 4 == 0 && (y % 100 != 0 || y % 400 == 0)
}
fn month_len(y: u32, m: u8) -> u8 {
    match m {
        1 | 3 | 5 | 7 | 8 | 10 | 12 => 31,
        4 | 6 | 9 | 11 => 30,
        2 => {
            if is_leap(y) {
                29
            } else {
                28
            }
        }
        _ => 0,
    }
}
fn valid_fields(f: &Fields) -> bool {
    f.0 >= 1 && (1..=12).contains(&f.1) && f.2 >= 1 && f.2 <= month_len(f.0, f.1) && f.3 <= 23 && f.4 <= 59 && f.5 <= 59
}

fn gen_ts(rng: &mut Rng, report: &mut Report) -> i64 {
    let k = rng.below(100);
    if k < 25 {
        report.count("ts_uniform_full_range");
        (MIN_TS as i128 + ((rng.next_u64() as u128 * (MAX_TS as i128 - MIN_TS as i128 + 1) as u128) >> 64) as i128) as i64
    } else if k < 40 {
        report.count("ts_400y_cycle_boundary");
        // around a 400-year cycle boundary (1 March of a year divisible by 400), any cycle incl. negative ones
        let c = if rng.bool() { rng.range(0, 12) as i64 - 6 } else { rng.range(0, 10_737_000) as i64 };
        let base = SHIFT as i128 + c as i128 * D400 as i128 * 86400;
        let off = rng.range(0, 4) as i128 - 2 + (rng.range(0, 2) as i128 - 1) * 86400;
        (base + off).clamp(MIN_TS as i128, MAX_TS as i128) as i64
    } else if k < 55 {
        report.count("ts_century_or_4y_boundary");
        let c = rng.range(0, 20) as i128 - 10;
        let within = match rng.below(4) {
            0 => rng.range(0, 4) as i128 * 36524,
            1 => rng.range(0, 4) as i128 * 36524 + rng.range(0, 25) as i128 * 1461,
            2 => rng.range(0, 4) as i128 * 36524 + rng.range(0, 25) as i128 * 1461 + rng.range(0, 4) as i128 * 365,
            _ => 146096,
        };
        let day = c * D400 as i128 + within + rng.range(0, 2) as i128 - 1;
        (SHIFT as i128 + day * 86400 + [0i128, 1, 86399, -1][rng.usize_below(4)]).clamp(MIN_TS as i128, MAX_TS as i128) as i64
    } else if k < 70 {
        report.count("ts_year_or_month_boundary");
        // first/last second of a month of a year near interesting years
        let y = *rng.pick(&[1u32, 2, 4, 100, 400, 1600, 1899, 1900, 1968, 1969, 1970, 1971, 1972, 1999, 2000, 2001, 2024, 2100, 2400, 9999, 10000, 4294967295])
            as i128;
        let y = (y + rng.range(0, 2) as i128 - 1).clamp(1, 4294967295);
        let m = rng.range(1, 12) as i128;
        let d0 = days_from_civil(y, m, 1);
        let t = d0 * 86400 + [0i128, -1, 1, 86400, -86400, 28 * 86400, 29 * 86400][rng.usize_below(7)];
        t.clamp(MIN_TS as i128, MAX_TS as i128) as i64
    } else if k < 85 {
        report.count("ts_modern");
        rng.range(0, 8_000_000_000) as i64 - 4_000_000_000
    } else if k < 93 {
        report.count("ts_range_edge");
        let e = if rng.bool() { MIN_TS } else { MAX_TS };
        e.wrapping_add(rng.range(0, 6) as i64 - 3)
    } else {
        report.count("ts_out_of_range");
        match rng.below(4) {
            0 => i64::MIN.wrapping_add(rng.range(0, 3) as i64),
            1 => i64::MAX - rng.range(0, 3) as i64,
            2 => MIN_TS - 1 - (rng.next_u64() >> 2) as i64 % 1_000_000_000_000,
            _ => MAX_TS + 1 + (rng.next_u64() >> 2) as i64 % 1_000_000_000_000,
        }
    }
}

fn gen_valid_fields(rng: &mut Rng) -> Fields {
    let y = match rng.below(6) {
        0 => rng.range(1, 3000) as u32,
        1 => *rng.pick(&[1u32, 4, 100, 400, 1900, 1968, 1969, 1970, 1971, 1972, 2000, 2100, 9999, 10000, u32::MAX, u32::MAX - 3]),
        2 => rng.range(1900, 2100) as u32,
        3 => rng.range(1, 9999) as u32,
        4 => (rng.range(1, 10_737_418) * 400) as u32,
        _ => rng.range(1, u32::MAX as u64) as u32,
    };
    let m = if rng.chance(1, 3) { 2 } else { rng.range(1, 12) as u8 };
    let ml = month_len(y, m);
    let d = if rng.chance(1, 3) { ml } else { rng.range(1, ml as u64) as u8 };
    let (h, mi, s) = match rng.below(4) {
        0 => (0, 0, 0),
        1 => (23, 59, 59),
        _ => (rng.range(0, 23) as u8, rng.range(0, 59) as u8, rng.range(0, 59) as u8),
    };
    (y, m, d, h, mi, s)
}

fn res_dt_coq(r: &Result<Result<UtcDateTime, DateTimeError>, String>) -> String {
    match r {
        Ok(Ok(d)) => format!("(Ok {})", dt_coq(&fields(d))),
        Ok(Err(e)) => format!("(Err {})", err_coq(e)),
        Err(_) => "Panic".to_string(),
    }
}

fn mk_dt_unchecked(f: &Fields) -> Option<UtcDateTime> {
    // UtcDateTime derives Decode: SBOR decoding does not validate the fields
    let bytes = scrypto_encode(&(f.0, f.1, f.2, f.3, f.4, f.5)).ok()?;
    scrypto_decode::<UtcDateTime>(&bytes).ok()
}

struct Ctx<'a> {
    report: &'a mut Report,
    cw: &'a mut CaseWriter,
    i: usize,
}
impl<'a> Ctx<'a> {
    fn push(&mut self, canon: String, nontrivial: bool) {
        self.report.case(&canon, nontrivial);
        self.cw.push(canon);
    }
    fn fail(&mut self, what: String, input: serde_json::Value) {
        self.report.oracle_failure(self.i, "", &what, input);
    }
}

fn do_timestamp(cx: &mut Ctx, t: i64) {
    let r = catch(AssertUnwindSafe(|| UtcDateTime::from_instant(&Instant::new(t))));
    cx.push(format!("KFromInstant {} {}", z(t), res_dt_coq(&r)), (MIN_TS..=MAX_TS).contains(&t));
    let in_range = (MIN_TS..=MAX_TS).contains(&t);
    match &r {
        Err(_) => cx.fail(format!("from_instant({}) panicked", t), json!({"op":"from_instant","t":t})),
        Ok(Err(e)) => {
            if in_range || *e != DateTimeError::InstantIsOutOfRange {
                cx.fail(format!("from_instant({}) = Err({:?}) for a supported timestamp", t, e), json!({"op":"from_instant","t":t}));
            }
            cx.report.count("from_instant_err");
        }
        Ok(Ok(d)) => {
            cx.report.count("from_instant_ok");
            let f = fields(d);
            if !in_range {
                cx.fail(format!("from_instant({}) accepted an unsupported timestamp", t), json!({"op":"from_instant","t":t}));
            }
            // Gregorian: equal to the independent computation, and a valid date-time
            let g = greg_of_ts(t);
            if f != g || !valid_fields(&f) {
                cx.fail(format!("from_instant({}) = {:?} but the proleptic Gregorian date-time is {:?}", t, f, g), json!({"op":"from_instant","t":t}));
            }
            // round trip
            let back = catch(AssertUnwindSafe(|| d.to_instant().seconds_since_unix_epoch));
            cx.push(
                format!("KToInstant {} {}", dt_coq(&f), match &back { Ok(v) => format!("(Ok {})", z(*v)), Err(_) => "Panic".into() }),
                true,
            );
            if back != Ok(t) {
                cx.fail(format!("to_instant(from_instant({})) = {:?}", t, back), json!({"op":"from_to","t":t}));
            }
            // strictly increasing: compare with the next second (derived Ord on the struct)
            if t < MAX_TS {
                if let Ok(Ok(d2)) = catch(AssertUnwindSafe(|| UtcDateTime::from_instant(&Instant::new(t + 1)))) {
                    let c = match d.cmp(&d2) {
                        std::cmp::Ordering::Less => -1,
                        std::cmp::Ordering::Equal => 0,
                        std::cmp::Ordering::Greater => 1,
                    };
                    cx.push(format!("KCompare {} {} {}", dt_coq(&f), dt_coq(&fields(&d2)), z(c)), true);
                    if c != -1 {
                        cx.fail(format!("from_instant not strictly increasing at {}", t), json!({"op":"increasing","t":t}));
                    }
                }
            }
            // print, and parse back (four-digit years)
            let s = d.to_string();
            cx.push(format!("KPrint {} {}", dt_coq(&f), zlist(s.as_bytes())), true);
            if f.0 <= 9999 {
                let p = catch(AssertUnwindSafe(|| UtcDateTime::from_str(&s)));
                match p {
                    Ok(Ok(d3)) if d3 == *d => {}
                    other => cx.fail(format!("from_str(to_string({:?})) = {:?}", f, other.map(|x| x.map(|d| fields(&d)).map_err(|_| "err"))), json!({"op":"print_parse","t":t})),
                }
                cx.report.count("print_parse_roundtrips");
            }
        }
    }
}

fn do_new(cx: &mut Ctx, rng: &mut Rng) {
    let mut f = gen_valid_fields(rng);
    // perturb one or two fields around their limits
    for _ in 0..rng.range(0, 2) {
        match rng.below(6) {
            0 => f.0 = *rng.pick(&[0u32, 1, u32::MAX, 1900, 2000, 2023, 2024, 2100]),
            1 => f.1 = *rng.pick(&[0u8, 1, 2, 12, 13, 255]),
            2 => f.2 = *rng.pick(&[0u8, 1, 28, 29, 30, 31, 32, 255]),
            3 => f.3 = *rng.pick(&[0u8, 23, 24, 255]),
            4 => f.4 = *rng.pick(&[0u8, 59, 60, 255]),
            _ => f.5 = *rng.pick(&[0u8, 59, 60, 255]),
        }
    }
    do_new_fields(cx, f);
}

fn do_new_fields(cx: &mut Ctx, f: Fields) {
    let r = catch(AssertUnwindSafe(|| UtcDateTime::new(f.0, f.1, f.2, f.3, f.4, f.5)));
    cx.push(format!("KNew {} {} {} {} {} {} {}", f.0, f.1, f.2, f.3, f.4, f.5, res_dt_coq(&r)), true);
    match &r {
        Err(_) => cx.fail(format!("new{:?} panicked", f), json!({"op":"new","fields":format!("{:?}", f)})),
        Ok(Ok(d)) => {
            cx.report.count("new_ok");
            if !valid_fields(&f) || fields(d) != f {
                cx.fail(format!("new{:?} accepted an invalid date-time", f), json!({"op":"new","fields":format!("{:?}", f)}));
            }
            // to_from: from_instant(to_instant(d)) = d, and to_instant = Gregorian seconds
            let t = catch(AssertUnwindSafe(|| d.to_instant().seconds_since_unix_epoch));
            cx.push(format!("KToInstant {} {}", dt_coq(&f), match &t { Ok(v) => format!("(Ok {})", z(*v)), Err(_) => "Panic".into() }), true);
            match t {
                Ok(t) => {
                    if t as i128 != ts_of_greg(&f) {
                        cx.fail(format!("to_instant{:?} = {} but Gregorian seconds are {}", f, t, ts_of_greg(&f)), json!({"op":"to_instant","fields":format!("{:?}", f)}));
                    }
                    let b = catch(AssertUnwindSafe(|| UtcDateTime::from_instant(&Instant::new(t))));
                    cx.push(format!("KFromInstant {} {}", z(t), res_dt_coq(&b)), true);
                    if !matches!(&b, Ok(Ok(d2)) if d2 == d) {
                        cx.fail(format!("from_instant(to_instant{:?}) differs", f), json!({"op":"to_from","fields":format!("{:?}", f)}));
                    }
                }
                Err(_) => cx.fail(format!("to_instant{:?} panicked on a valid date-time", f), json!({"op":"to_instant","fields":format!("{:?}", f)})),
            }
        }
        Ok(Err(_)) => {
            cx.report.count("new_err");
            if valid_fields(&f) {
                cx.fail(format!("new{:?} rejected a valid date-time", f), json!({"op":"new","fields":format!("{:?}", f)}));
            }
            // the same fields through SBOR decode (no validation): to_instant on an invalid value —
            // outside the property (only correspondence of the model's panic paths)
            if let Some(d) = mk_dt_unchecked(&f) {
                let t = catch(AssertUnwindSafe(|| d.to_instant().seconds_since_unix_epoch));
                cx.report.count(if t.is_ok() { "to_instant_invalid_dt_returns" } else { "to_instant_invalid_dt_panics" });
                cx.push(format!("KToInstant {} {}", dt_coq(&f), match &t { Ok(v) => format!("(Ok {})", z(*v)), Err(_) => "Panic".into() }), false);
            }
        }
    }
}

fn do_add(cx: &mut Ctx, rng: &mut Rng) {
    let f = gen_valid_fields(rng);
    let unit: i64 = *rng.pick(&[86400, 3600, 60, 1]);
    let n: i64 = match rng.below(8) {
        0 => rng.range(0, 2000) as i64 - 1000,
        1 => rng.range(0, 4_000_000) as i64 - 2_000_000,
        2 => (rng.next_u64() >> rng.range(1, 40)) as i64 * if rng.bool() { 1 } else { -1 },
        3 => *rng.pick(&[i64::MAX, i64::MIN, i64::MAX / unit, i64::MIN / unit, (i64::MAX / unit).saturating_add(1), (i64::MIN / unit).saturating_sub(1), 0, 1, -1]),
        4 => {
            // land near the end of the supported range
            let t0 = ts_of_greg(&f);
            ((MAX_TS as i128 - t0) / unit as i128 + rng.range(0, 2) as i128 - 1) as i64
        }
        5 => {
            let t0 = ts_of_greg(&f);
            ((MIN_TS as i128 - t0) / unit as i128 + rng.range(0, 2) as i128 - 1) as i64
        }
        _ => rng.range(0, 200_000) as i64 - 100_000,
    };
    do_add_case(cx, f, unit, n);
}

fn do_add_case(cx: &mut Ctx, f: Fields, unit: i64, n: i64) {
    let name = match unit {
        86400 => "days",
        3600 => "hours",
        60 => "minutes",
        _ => "seconds",
    };
    let d = match UtcDateTime::new(f.0, f.1, f.2, f.3, f.4, f.5) {
        Ok(d) => d,
        Err(_) => return,
    };
    let r = catch(AssertUnwindSafe(|| match unit {
        86400 => d.add_days(n),
        3600 => d.add_hours(n),
        60 => d.add_minutes(n),
        _ => d.add_seconds(n),
    }));
    let rc = match &r {
        Ok(Some(d2)) => format!("(Ok (Some {}))", dt_coq(&fields(d2))),
        Ok(None) => "(Ok None)".to_string(),
        Err(_) => "Panic".to_string(),
    };
    cx.push(format!("KAdd {} {} {} {}", unit, dt_coq(&f), z(n), rc), true);
    // Instant arithmetic itself
    let t0 = d.to_instant();
    let ri = match unit {
        86400 => t0.add_days(n),
        3600 => t0.add_hours(n),
        60 => t0.add_minutes(n),
        _ => t0.add_seconds(n),
    };
    cx.push(
        format!("KInstantAdd {} {} {} {}", unit, z(t0.seconds_since_unix_epoch), z(n), coq_option(ri.map(|x| z(x.seconds_since_unix_epoch)))),
        true,
    );
    // oracle: date-time arithmetic = timestamp arithmetic (exact, in i128)
    let exact = ts_of_greg(&f) + n as i128 * unit as i128;
    let expect: Option<Fields> = if exact >= MIN_TS as i128 && exact <= MAX_TS as i128 && (n as i128 * unit as i128) >= i64::MIN as i128 && (n as i128 * unit as i128) <= i64::MAX as i128 {
        Some(greg_of_ts(exact as i64))
    } else {
        None
    };
    let exact_i = t0.seconds_since_unix_epoch as i128 + n as i128 * unit as i128;
    let expect_i = if exact_i >= i64::MIN as i128 && exact_i <= i64::MAX as i128 && (n as i128 * unit as i128) >= i64::MIN as i128 && (n as i128 * unit as i128) <= i64::MAX as i128 { Some(exact_i as i64) } else { None };
    if ri.map(|x| x.seconds_since_unix_epoch) != expect_i {
        cx.fail(format!("Instant({}).add_{}({}) = {:?}, exact {:?}", t0.seconds_since_unix_epoch, name, n, ri, expect_i), json!({"op":"instant_add","unit":unit,"n":n}));
    }
    match &r {
        Ok(got) => {
            cx.report.count(if got.is_some() { "add_some" } else { "add_none" });
            if got.map(|d| fields(&d)) != expect {
                cx.fail(format!("{:?}.add_{}({}) = {:?}, timestamp arithmetic gives {:?}", f, name, n, got.map(|d| fields(&d)), expect), json!({"op":"add","unit":unit,"n":n,"fields":format!("{:?}", f)}));
            }
        }
        Err(_) => cx.fail(format!("{:?}.add_{}({}) panicked", f, name, n), json!({"op":"add","unit":unit,"n":n,"fields":format!("{:?}", f)})),
    }
}

fn gen_string(rng: &mut Rng, report: &mut Report) -> String {
    let f = gen_valid_fields(rng);
    let y = if rng.chance(4, 5) { f.0 % 10000 } else { f.0 };
    let mut s: Vec<char> = format!("{:04}-{:02}-{:02}T{:02}:{:02}:{:02}Z", y, f.1, f.2, f.3, f.4, f.5).chars().collect();
    let k = rng.below(100);
    if k < 20 {
        report.count("str_wellformed");
    } else if k < 45 {
        report.count("str_non_ascii_substitution");
        // replace one or two characters by a multi-byte one (keeps the char count)
        for _ in 0..rng.range(1, 2) {
            let pos = rng.usize_below(s.len());
            s[pos] = *rng.pick(&['é', 'ß', '€', '１', '٣', '𝟙', '\u{80}', '\u{7ff}', '\u{800}', '\u{ffff}', '\u{10000}', '\u{10ffff}', 'Ｚ', '：']);
        }
    } else if k < 60 {
        report.count("str_ascii_substitution");
        for _ in 0..rng.range(1, 3) {
            let pos = rng.usize_below(s.len());
            s[pos] = *rng.pick(&['+', '-', ' ', '0', '9', ':', 'T', 'Z', 'z', 't', 'a', '/', '\0', '\u{7f}', '.', '_']);
        }
    } else if k < 70 {
        report.count("str_plus_sign_fields");
        let starts = [0usize, 5, 8, 11, 14, 17];
        for _ in 0..rng.range(1, 3) {
            let p = *rng.pick(&starts);
            s[p] = *rng.pick(&['+', '-']);
        }
    } else if k < 82 {
        report.count("str_length_change");
        match rng.below(4) {
            0 => {
                let pos = rng.usize_below(s.len());
                s.remove(pos);
            }
            1 => {
                let pos = rng.usize_below(s.len() + 1);
                s.insert(pos, *rng.pick(&['0', '1', 'é', ' ', 'Z']));
            }
            2 => s.truncate(rng.usize_below(20)),
            _ => {
                // multi-byte chars that make byte length 20 with fewer chars, or char count 20 with more bytes
                let pos = rng.usize_below(s.len());
                s.remove(pos);
                let pos = rng.usize_below(s.len());
                s[pos] = 'é';
            }
        }
    } else if k < 92 {
        report.count("str_field_out_of_range");
        let alt: String = match rng.below(6) {
            0 => format!("0000-{:02}-{:02}T{:02}:{:02}:{:02}Z", f.1, f.2, f.3, f.4, f.5),
            1 => format!("{:04}-{:02}-{:02}T{:02}:{:02}:{:02}Z", y % 10000, *rng.pick(&[0u8, 13, 99]), f.2, f.3, f.4, f.5),
            2 => format!("{:04}-{:02}-{:02}T{:02}:{:02}:{:02}Z", y % 10000, f.1, *rng.pick(&[0u8, 29, 30, 31, 32, 99]), f.3, f.4, f.5),
            3 => format!("{:04}-{:02}-{:02}T{:02}:{:02}:{:02}Z", y % 10000, f.1, f.2, *rng.pick(&[24u8, 99]), f.4, f.5),
            4 => format!("{:04}-{:02}-{:02}T{:02}:{:02}:{:02}Z", y % 10000, f.1, f.2, f.3, *rng.pick(&[60u8, 99]), f.5),
            _ => format!("{:04}-{:02}-{:02}T{:02}:{:02}:{:02}Z", y % 10000, f.1, f.2, f.3, f.4, *rng.pick(&[60u8, 99])),
        };
        s = alt.chars().collect();
    } else {
        report.count("str_random");
        let n = rng.range(0, 24) as usize;
        s = (0..n).map(|_| *rng.pick(&['0', '1', '9', '-', ':', 'T', 'Z', '+', 'é', '€', ' '])).collect();
    }
    s.into_iter().collect()
}

fn do_parse(cx: &mut Ctx, rng: &mut Rng) {
    let s = gen_string(rng, cx.report);
    do_parse_str(cx, &s);
}
fn do_parse_str(cx: &mut Ctx, s: &str) {
    let r = catch(AssertUnwindSafe(|| UtcDateTime::from_str(s)));
    let rc = match &r {
        Ok(Ok(d)) => format!("(Ok {})", dt_coq(&fields(d))),
        Ok(Err(ParseUtcDateTimeError::InvalidFormat)) => "(Err InvalidFormat)".to_string(),
        Ok(Err(ParseUtcDateTimeError::DateTimeError(e))) => format!("(Err (DateTimeError {}))", err_coq(e)),
        Err(_) => "Panic".to_string(),
    };
    cx.push(format!("KParse {} {}", zlist(s.as_bytes()), rc), true);
    match &r {
        Err(_) => {
            cx.report.count("parse_panic");
            cx.fail(format!("UtcDateTime::from_str({:?}) panicked", s), json!({"op":"from_str","string":s,"bytes":hex(s.as_bytes())}));
        }
        Ok(Ok(d)) => {
            cx.report.count("parse_ok");
            if !valid_fields(&fields(d)) {
                cx.fail(format!("from_str({:?}) returned an invalid date-time {:?}", s, fields(d)), json!({"op":"from_str","string":s}));
            }
        }
        Ok(Err(_)) => {
            cx.report.count("parse_err");
            if !s.is_ascii() {
                cx.report.count("parse_err_non_ascii");
            }
        }
    }
}

/// Deterministic boundary family (identical for every seed): every comparison / rare branch of the
/// modelled functions gets inputs on both sides and at equality. Each class is counted and floored.
fn boundary_family(cx: &mut Ctx) {
    const DAY: i128 = 86400;
    let clamp = |t: i128| -> Option<i64> { if t >= MIN_TS as i128 && t <= MAX_TS as i128 { Some(t as i64) } else { None } };
    // (a) range comparison of from_instant
    for t in [MIN_TS - 1, MIN_TS, MIN_TS + 1, MAX_TS - 1, MAX_TS, MAX_TS + 1, i64::MIN, i64::MIN + 1, i64::MAX, i64::MAX - 1, 0, -1, 1] {
        cx.report.count("bf_range_edge");
        do_timestamp(cx, t);
    }
    // (b) `remaining_secs < 0` fix-up: around the 2000-03-01 base, with remainder 0 and non-zero
    for off in [-86401i64, -86400, -86399, -2, -1, 0, 1, 2, 86399, 86400, 86401] {
        cx.report.count("bf_march_y2k_seconds");
        do_timestamp(cx, SHIFT + off);
    }
    // (c) `remaining_days < 0` fix-up and the 400-year cycle: every cycle boundary in range near 2000
    // (0400/0800/1200/1600/2000/2400/...-03-01), far cycles, +-1 day, first/last second of the day
    let max_cycle = (MAX_TS as i128 - SHIFT as i128) / DAY / D400 as i128;
    let mut cycles: Vec<i128> = (-5..=6).collect();
    cycles.extend([1000, 100_000, max_cycle - 1, max_cycle]);
    for c in cycles {
        for dd in [-2i128, -1, 0, 1] {
            for sec in [0i128, 1, 86399] {
                if let Some(t) = clamp(SHIFT as i128 + (c * D400 as i128 + dd) * DAY + sec) {
                    cx.report.count(if c < 0 { "bf_400y_boundary_before_2000" } else { "bf_400y_boundary_from_2000" });
                    do_timestamp(cx, t);
                }
            }
        }
    }
    // (d) 100-year boundaries (n100 = 1,2,3 and the `== 4` clamp on day 146096), in a negative, the
    // zero and a positive cycle
    for c in [-1i128, 0, 1] {
        for k in 1..=4i128 {
            for dd in [-1i128, 0, 1] {
                if let Some(t) = clamp(SHIFT as i128 + (c * D400 as i128 + k * 36524 + dd) * DAY) {
                    cx.report.count("bf_100y_boundary");
                    do_timestamp(cx, t);
                }
            }
        }
    }
    // (e) 4-year boundaries inside each kind of century (first, middle, last: the short last 4-year
    // group of a non-400 century, the full one of the 400 century) and single-year boundaries incl.
    // `remaining_years == 4` (29 Feb = last day of a 4-year group)
    for c in [-1i128, 0] {
        for cent in 0..4i128 {
            for four in [0i128, 1, 12, 23, 24] {
                for yr in 0..=4i128 {
                    for dd in [-1i128, 0] {
                        let day = c * D400 as i128 + cent * 36524 + four * 1461 + yr * 365 + dd;
                        if let Some(t) = clamp(SHIFT as i128 + day * DAY) {
                            cx.report.count("bf_4y_and_1y_boundary");
                            do_timestamp(cx, t);
                        }
                    }
                }
            }
        }
    }
    // (f) month loop and month carry: first and last day of every month in every kind of year, on
    // both sides of 1970 and at both ends of the supported range (through new -> to_instant -> from_instant)
    let years: [u32; 19] = [1, 2, 4, 100, 400, 1600, 1900, 1968, 1969, 1970, 1971, 1972, 2000, 2001, 2100, 2400, u32::MAX - 3, u32::MAX - 1, u32::MAX];
    for y in years {
        for m in 1..=12u8 {
            cx.report.count("bf_month_first_last_day");
            do_new_fields(cx, (y, m, 1, 0, 0, 0));
            do_new_fields(cx, (y, m, month_len(y, m), 23, 59, 59));
        }
    }
    // (g) every comparison of `new`: day 0 / 1 / len-1 / len / len+1 for every month of a leap, a
    // non-leap, a non-leap century and a leap century year; month/hour/minute/second/year limits
    for y in [2023u32, 2024, 1900, 2000] {
        for m in 1..=12u8 {
            let l = month_len(y, m);
            for d in [0u8, 1, l - 1, l, l + 1] {
                cx.report.count("bf_new_day_limits");
                do_new_fields(cx, (y, m, d, 12, 30, 30));
            }
        }
    }
    for f in [
        (0u32, 1u8, 1u8, 0u8, 0u8, 0u8), (1, 1, 1, 0, 0, 0), (u32::MAX, 12, 31, 23, 59, 59), (2024, 0, 1, 0, 0, 0), (2024, 13, 1, 0, 0, 0), (2024, 255, 1, 0, 0, 0),
        (2024, 1, 255, 0, 0, 0), (2024, 1, 1, 23, 0, 0), (2024, 1, 1, 24, 0, 0), (2024, 1, 1, 255, 0, 0), (2024, 1, 1, 0, 59, 0), (2024, 1, 1, 0, 60, 0),
        (2024, 1, 1, 0, 255, 0), (2024, 1, 1, 0, 0, 59), (2024, 1, 1, 0, 0, 60), (2024, 1, 1, 0, 0, 255), (0, 0, 0, 24, 60, 60), (1969, 0, 1, 0, 0, 0), (1969, 13, 1, 0, 0, 0),
        (1969, 14, 1, 0, 0, 0), (1969, 1, 1, 24, 0, 0), (1969, 1, 1, 0, 60, 0), (1969, 1, 1, 0, 0, 60), (1970, 14, 1, 0, 0, 0), (1970, 13, 0, 0, 0, 0), (1969, 2, 30, 0, 0, 0),
    ] {
        cx.report.count("bf_new_field_limits");
        do_new_fields(cx, f);
    }
    // (h) time of day: hour / minute / second roll-overs, printing widths of the year
    for sod in [0i64, 1, 59, 60, 61, 3599, 3600, 3601, 43199, 43200, 86398, 86399] {
        cx.report.count("bf_time_of_day");
        do_timestamp(cx, 1_700_006_400 - 1_700_006_400 % 86400 + sod);
        do_timestamp(cx, -86400 * 1000 + sod);
    }
    for y in [1i128, 9, 10, 99, 100, 999, 1000, 9999, 10000, 99999, 4294967295] {
        cx.report.count("bf_year_width");
        do_timestamp(cx, (days_from_civil(y, 1, 1) * DAY) as i64);
        if let Some(t) = clamp(days_from_civil(y, 12, 31) * DAY + 86399) {
            do_timestamp(cx, t);
        }
    }
    // (i) add_*: checked_mul and checked_add limits, landing exactly on / one unit beyond both ends
    for f in [(1970u32, 1u8, 1u8, 0u8, 0u8, 0u8), (1, 1, 1, 0, 0, 0), (u32::MAX, 12, 31, 23, 59, 59), (2000, 2, 29, 12, 0, 0), (1969, 12, 31, 23, 59, 59)] {
        let t0 = ts_of_greg(&f);
        for unit in [86400i64, 3600, 60, 1] {
            let to_max = ((MAX_TS as i128 - t0) / unit as i128) as i64;
            let to_min = ((MIN_TS as i128 - t0) / unit as i128) as i64;
            let mut ns = vec![
                0, 1, -1, to_max, to_max.saturating_add(1), to_max.saturating_sub(1), to_min, to_min.saturating_sub(1), to_min.saturating_add(1),
                i64::MAX / unit, (i64::MAX / unit).saturating_add(1), i64::MIN / unit, (i64::MIN / unit).saturating_sub(1), i64::MAX, i64::MIN,
            ];
            if unit == 1 {
                ns.push((i64::MAX as i128 - t0).min(i64::MAX as i128) as i64);
                ns.push((i64::MIN as i128 - t0).max(i64::MIN as i128) as i64);
            }
            for n in ns {
                cx.report.count("bf_add_limits");
                do_add_case(cx, f, unit, n);
            }
        }
    }
    // (j) from_str: is_ascii / char count / each separator / each digit position / signs / each
    // DateTimeError through text
    let good = "2023-01-27T12:17:25Z";
    let gc: Vec<char> = good.chars().collect();
    for pos in 0..20 {
        for ch in ['é', '€', '𝟙'] {
            let mut c = gc.clone();
            c[pos] = ch;
            cx.report.count("bf_str_non_ascii_each_position");
            do_parse_str(cx, &c.into_iter().collect::<String>());
        }
        for ch in ['+', '-', ' ', 'x', '/', ':', '0'] {
            let mut c = gc.clone();
            if c[pos] != ch {
                c[pos] = ch;
                cx.report.count("bf_str_ascii_each_position");
                do_parse_str(cx, &c.into_iter().collect::<String>());
            }
        }
    }
    for s in [
        "", "2", "2023-01-27T12:17:25", "2023-01-27T12:17:25ZZ", "02023-01-27T12:17:25Z", "2023-01-27T12:17:2Z", "2023-1-27T12:17:25Z0", "é023-01-27T12:17:2Z",
        "éé23-01-27T12:17Z", "2023-01-27t12:17:25Z", "2023-01-27T12:17:25z", "2023/01/27T12:17:25Z", "2023-01-27 12:17:25Z", "2023-01-27T12.17.25Z",
    ] {
        cx.report.count("bf_str_length_and_separators");
        do_parse_str(cx, s);
    }
    for s in [
        "0000-01-01T00:00:00Z", "0001-01-01T00:00:00Z", "9999-12-31T23:59:59Z", "2023-00-01T00:00:00Z", "2023-13-01T00:00:00Z", "2023-12-00T00:00:00Z", "2023-12-32T00:00:00Z",
        "2023-02-29T00:00:00Z", "2024-02-29T00:00:00Z", "2024-02-30T00:00:00Z", "1900-02-29T00:00:00Z", "2000-02-29T00:00:00Z", "2023-04-31T00:00:00Z", "2023-01-01T24:00:00Z",
        "2023-01-01T23:60:00Z", "2023-01-01T23:59:60Z", "2023-01-01T99:99:99Z", "2023-99-99T99:99:99Z", "+023-+1-+7T+2:+7:+5Z", "-023-01-27T12:17:25Z", "2023--1-27T12:17:25Z",
        "++23-01-27T12:17:25Z", "2+23-01-27T12:17:25Z", "202+-01-27T12:17:25Z", "2023-0+-27T12:17:25Z", "2023-+0-27T12:17:25Z", "+000-01-01T00:00:00Z", "2023-01-27T12:17:+5Z",
    ] {
        cx.report.count("bf_str_field_values_and_signs");
        do_parse_str(cx, s);
    }
}

fn main() {
    let args = Args::parse();
    let mut report = Report::new(
        "C29",
        args.seed,
        "timestamps (uniform over the supported range, 400/100/4-year cycle boundaries of every era, month/year boundaries, range edges, out of range), \
         field tuples around their limits, add_* with overflow-inducing operands, strings (well-formed, non-ASCII substitutions at every position, '+'/'-' signs, wrong lengths, out-of-range fields); \
         non-trivial = in-range conversion / accepted or specifically rejected call; distinct by canonical text of the call",
    );
    let mut cw = CaseWriter::new("RV.Corr.C29_run RV.Model.C29_Calendar", "check");
    let root = Rng::new(args.seed);
    // fixed witnesses first (the former from_str panic, range edges)
    {
        let mut cx = Ctx { report: &mut report, cw: &mut cw, i: 0 };
        for s in ["202é-01-27T12:17:25Z", "2023-01-27T12:17:2éZ", "é023-01-27T12:17:25Z", "2023-01-27T12:17:25Z", "+023-+1-+7T+2:+7:+5Z", "0000-01-01T00:00:00Z"] {
            do_parse_str(&mut cx, s);
        }
        for t in [MIN_TS, MAX_TS, MIN_TS - 1, MAX_TS + 1, 0, -1, 951782400, 951868800] {
            do_timestamp(&mut cx, t);
        }
        boundary_family(&mut cx);
    }
    for i in 0..args.cases {
        let mut rng = root.fork(i as u64);
        let mut cx = Ctx { report: &mut report, cw: &mut cw, i };
        match i % 10 {
            0..=3 => {
                let t = gen_ts(&mut rng, cx.report);
                do_timestamp(&mut cx, t);
            }
            4 | 5 => do_new(&mut cx, &mut rng),
            6 => do_add(&mut cx, &mut rng),
            _ => do_parse(&mut cx, &mut rng),
        }
    }
    let n = args.cases as u64;
    report.floor("from_instant_ok", n / 5);
    report.floor("from_instant_err", n / 200);
    report.floor("new_ok", n / 40);
    report.floor("new_err", n / 40);
    report.floor("parse_ok", n / 100);
    report.floor("parse_err_non_ascii", n / 50);
    report.floor("add_some", n / 100);
    report.floor("add_none", n / 200);
    report.floor("print_parse_roundtrips", n / 20);
    for (class, min) in [
        ("bf_range_edge", 13), ("bf_march_y2k_seconds", 11), ("bf_400y_boundary_before_2000", 48), ("bf_400y_boundary_from_2000", 132), ("bf_100y_boundary", 36),
        ("bf_4y_and_1y_boundary", 400), ("bf_month_first_last_day", 228), ("bf_new_day_limits", 240), ("bf_new_field_limits", 26), ("bf_time_of_day", 12), ("bf_year_width", 11),
        ("bf_add_limits", 310), ("bf_str_non_ascii_each_position", 60), ("bf_str_ascii_each_position", 134), ("bf_str_length_and_separators", 14), ("bf_str_field_values_and_signs", 28),
        ("parse_panic", 0),
    ] {
        report.floor(class, min);
    }
    cw.write(&args.out, args.shards).unwrap();
    report.write(&args.out).unwrap();
}
