//! gen_c36: writes coq/Gen/C36_effects.v — for every InstructionV2 kind, the id-level effect class
//! reported by the real `ManifestInstruction::effect()` (exhaustive match: a new instruction kind in
//! /repo stops this from compiling).
use radix_common::prelude::*;
use radix_engine_interface::prelude::*;
use radix_transactions::manifest::*;
use radix_transactions::prelude::*;
use std::fmt::Write as _;

fn ident(i: &InstructionV2) -> &'static str {
    macro_rules! id { ($($v:ident),*) => { match i { $(InstructionV2::$v(_) => <$v as ManifestInstruction>::IDENT,)* } } }
    id!(TakeFromWorktop, TakeNonFungiblesFromWorktop, TakeAllFromWorktop, ReturnToWorktop, BurnResource, AssertWorktopContainsAny,
        AssertWorktopContains, AssertWorktopContainsNonFungibles, AssertWorktopResourcesOnly, AssertWorktopResourcesInclude,
        AssertNextCallReturnsOnly, AssertNextCallReturnsInclude, AssertBucketContents, CreateProofFromBucketOfAmount,
        CreateProofFromBucketOfNonFungibles, CreateProofFromBucketOfAll, CreateProofFromAuthZoneOfAmount,
        CreateProofFromAuthZoneOfNonFungibles, CreateProofFromAuthZoneOfAll, CloneProof, DropProof, PushToAuthZone, PopFromAuthZone,
        DropAuthZoneProofs, DropAuthZoneRegularProofs, DropAuthZoneSignatureProofs, DropNamedProofs, DropAllProofs, CallFunction,
        CallMethod, CallRoyaltyMethod, CallMetadataMethod, CallRoleAssignmentMethod, CallDirectVaultMethod, AllocateGlobalAddress,
        YieldToParent, YieldToChild, VerifyParent)
}
fn class(e: ManifestInstructionEffect) -> String {
    use ManifestInstructionEffect as E;
    let b = |x: bool| if x { "true" } else { "false" };
    match e {
        E::CreateBucket { .. } => "CCreateBucket".into(),
        E::CreateProof { source_amount } => match source_amount.proof_kind() {
            radix_transactions::validation::ProofKind::BucketProof(_) => "CCreateProofBucket".into(),
            radix_transactions::validation::ProofKind::AuthZoneProof => "CCreateProofAZ".into(),
        },
        E::ConsumeBucket { .. } => "CConsumeBucket".into(),
        E::ConsumeProof { .. } => "CConsumeProof".into(),
        E::CloneProof { .. } => "CCloneProof".into(),
        E::DropManyProofs { drop_all_named_proofs, drop_all_authzone_signature_proofs, drop_all_authzone_non_signature_proofs } =>
            format!("(CDropMany {} {} {})", b(drop_all_named_proofs), b(drop_all_authzone_signature_proofs), b(drop_all_authzone_non_signature_proofs)),
        E::Invocation { .. } => "CInvoke".into(),
        E::CreateAddressAndReservation { .. } => "CAllocate".into(),
        E::ResourceAssertion { assertion } => match assertion {
            ResourceAssertion::Worktop(_) => "CAssertWorktop".into(),
            ResourceAssertion::NextCall(_) => "CAssertNextCall".into(),
            ResourceAssertion::Bucket(_) => "CAssertBucket".into(),
        },
        E::Verification { .. } => "CVerifyParent".into(),
    }
}
fn main() {
    let args: Vec<String> = std::env::args().collect();
    let out = args.iter().position(|a| a == "--out").map(|i| args[i + 1].clone()).expect("--out");
    let ra = XRD; let d = dec!("1"); let ids = vec![NonFungibleLocalId::integer(1)];
    let bk = ManifestBucket(0); let pf = ManifestProof(0);
    let unit = ManifestValue::unit();
    let ga = ManifestGlobalAddress::Static(FAUCET.into());
    let mut vault = [0u8; NodeId::LENGTH]; vault[0] = EntityType::InternalFungibleVault as u8;
    let cs = ManifestResourceConstraints::new();
    let samples: Vec<InstructionV2> = vec![
        InstructionV2::TakeFromWorktop(TakeFromWorktop { resource_address: ra, amount: d }),
        InstructionV2::TakeNonFungiblesFromWorktop(TakeNonFungiblesFromWorktop { resource_address: ra, ids: ids.clone() }),
        InstructionV2::TakeAllFromWorktop(TakeAllFromWorktop { resource_address: ra }),
        InstructionV2::ReturnToWorktop(ReturnToWorktop { bucket_id: bk }),
        InstructionV2::BurnResource(BurnResource { bucket_id: bk }),
        InstructionV2::AssertWorktopContainsAny(AssertWorktopContainsAny { resource_address: ra }),
        InstructionV2::AssertWorktopContains(AssertWorktopContains { resource_address: ra, amount: d }),
        InstructionV2::AssertWorktopContainsNonFungibles(AssertWorktopContainsNonFungibles { resource_address: ra, ids: ids.clone() }),
        InstructionV2::AssertWorktopResourcesOnly(AssertWorktopResourcesOnly { constraints: cs.clone() }),
        InstructionV2::AssertWorktopResourcesInclude(AssertWorktopResourcesInclude { constraints: cs.clone() }),
        InstructionV2::AssertNextCallReturnsOnly(AssertNextCallReturnsOnly { constraints: cs.clone() }),
        InstructionV2::AssertNextCallReturnsInclude(AssertNextCallReturnsInclude { constraints: cs.clone() }),
        InstructionV2::AssertBucketContents(AssertBucketContents { bucket_id: bk, constraint: ManifestResourceConstraint::NonZeroAmount }),
        InstructionV2::CreateProofFromBucketOfAmount(CreateProofFromBucketOfAmount { bucket_id: bk, amount: d }),
        InstructionV2::CreateProofFromBucketOfNonFungibles(CreateProofFromBucketOfNonFungibles { bucket_id: bk, ids: ids.clone() }),
        InstructionV2::CreateProofFromBucketOfAll(CreateProofFromBucketOfAll { bucket_id: bk }),
        InstructionV2::CreateProofFromAuthZoneOfAmount(CreateProofFromAuthZoneOfAmount { resource_address: ra, amount: d }),
        InstructionV2::CreateProofFromAuthZoneOfNonFungibles(CreateProofFromAuthZoneOfNonFungibles { resource_address: ra, ids: ids.clone() }),
        InstructionV2::CreateProofFromAuthZoneOfAll(CreateProofFromAuthZoneOfAll { resource_address: ra }),
        InstructionV2::CloneProof(CloneProof { proof_id: pf }),
        InstructionV2::DropProof(DropProof { proof_id: pf }),
        InstructionV2::PushToAuthZone(PushToAuthZone { proof_id: pf }),
        InstructionV2::PopFromAuthZone(PopFromAuthZone),
        InstructionV2::DropAuthZoneProofs(DropAuthZoneProofs),
        InstructionV2::DropAuthZoneRegularProofs(DropAuthZoneRegularProofs),
        InstructionV2::DropAuthZoneSignatureProofs(DropAuthZoneSignatureProofs),
        InstructionV2::DropNamedProofs(DropNamedProofs),
        InstructionV2::DropAllProofs(DropAllProofs),
        InstructionV2::CallFunction(CallFunction { package_address: ManifestPackageAddress::Static(FAUCET_PACKAGE), blueprint_name: "B".into(), function_name: "f".into(), args: unit.clone() }),
        InstructionV2::CallMethod(CallMethod { address: ga.clone(), method_name: "m".into(), args: unit.clone() }),
        InstructionV2::CallRoyaltyMethod(CallRoyaltyMethod { address: ga.clone(), method_name: "m".into(), args: unit.clone() }),
        InstructionV2::CallMetadataMethod(CallMetadataMethod { address: ga.clone(), method_name: "m".into(), args: unit.clone() }),
        InstructionV2::CallRoleAssignmentMethod(CallRoleAssignmentMethod { address: ga.clone(), method_name: "m".into(), args: unit.clone() }),
        InstructionV2::CallDirectVaultMethod(CallDirectVaultMethod { address: InternalAddress::new_or_panic(vault), method_name: "m".into(), args: unit.clone() }),
        InstructionV2::AllocateGlobalAddress(AllocateGlobalAddress { package_address: FAUCET_PACKAGE, blueprint_name: "B".into() }),
        InstructionV2::YieldToParent(YieldToParent::empty()),
        InstructionV2::YieldToChild(YieldToChild::empty(0)),
        InstructionV2::VerifyParent(VerifyParent { access_rule: AccessRule::AllowAll }),
    ];
    let mut seen = std::collections::BTreeSet::new();
    let mut s = String::new();
    s.push_str("(* GENERATED by harness/light/src/bin/gen_c36.rs from ManifestInstruction::effect() of every InstructionV2 kind. Do not edit. *)\n");
    s.push_str("From Coq Require Import List String.\nImport ListNotations.\nRequire Import RV.Model.C36_ManifestIds.\nOpen Scope string_scope.\n\n");
    s.push_str("Definition effect_table : list (string * eclass) := [\n");
    for (k, i) in samples.iter().enumerate() {
        assert!(seen.insert(ident(i)), "duplicate sample");
        let _ = write!(s, "  (\"{}\", {}){}\n", ident(i), class(i.effect()), if k + 1 < samples.len() { ";" } else { "" });
    }
    s.push_str("].\n");
    assert_eq!(seen.len(), 38, "one sample per instruction kind");
    std::fs::write(out, s).unwrap();
}
