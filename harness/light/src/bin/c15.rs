//! C15 correspondence harness: InMemorySubstateDatabase vs RocksdbSubstateStore vs
//! RocksDBWithMerkleTreeSubstateStore on random commit histories.  Both RocksDB stores are opened
//! in fresh directories under --out (removed at the end of the run).  Every observation (get, listing
//! from a cursor, list_partition_keys) of all three stores is compared (the oracle: the property's
//! own statement) and written for the Coq models (coq/Model/C14_Store.v, coq/Model/C15_Stores.v with
//! RocksDB = sorted association list; evaluator coq/Corr/C15_run.v).
#[path = "../store_gen.rs"]
mod store_gen;
use radix_substate_store_impls::memory_db::InMemorySubstateDatabase;
use radix_substate_store_impls::rocks_db::RocksdbSubstateStore;
use radix_substate_store_impls::rocks_db_with_merkle_tree::RocksDBWithMerkleTreeSubstateStore;
use radix_common::prelude::{DatabaseUpdate, IndexMap};
use radix_substate_store_interface::interface::*;
use serde_json::json;
use store_gen::*;
use vh_common::*;

const RESET_BOUND: usize = 2 * radix_common::constants::MAX_SUBSTATE_KEY_SIZE;

/// keeps a prefix-free subset (no key is a proper prefix of another; the empty key is dropped)
fn prefix_free(mut v: Vec<Vec<u8>>) -> Vec<Vec<u8>> {
    v.sort();
    let mut kept: Vec<Vec<u8>> = Vec::new();
    for k in v {
        if k.is_empty() || kept.iter().any(|p| k.starts_with(p)) {
            continue;
        }
        kept.push(k);
    }
    kept
}
fn is_prefix_related(v: &[Vec<u8>]) -> bool {
    v.iter().any(|a| v.iter().any(|b| a != b && b.starts_with(a)))
}

fn universe(rng: &mut Rng, oversize: bool, want_prefix_free: bool) -> Universe {
    let all_nodes: Vec<Vec<u8>> = vec![
        vec![], vec![0], vec![1], vec![1, 0], vec![1, 0, 0], vec![1, 255], vec![2], vec![0, 0, 0, 1], vec![0, 0, 0, 1, 1],
        vec![255], vec![255, 255], vec![7; 30], vec![7; 50],
    ];
    let all_parts: Vec<u8> = vec![0, 1, 2, 64, 254, 255];
    let mut all_sorts: Vec<Vec<u8>> = vec![
        vec![], vec![0], vec![0, 0], vec![0, 1], vec![1], vec![1, 0], vec![1, 255], vec![2], vec![127, 3],
        vec![255], vec![255, 0], vec![255, 255], vec![255; 5], vec![255; 40], vec![254; 60],
    ];
    // boundary of the partition reset range (within the size limit: 2047 bytes of 0xFF)
    if rng.chance(1, 6) {
        all_sorts.push(vec![255; RESET_BOUND - 1]);
    }
    let mut node_keys = all_nodes.clone();
    rng.shuffle(&mut node_keys);
    node_keys.truncate(rng.range(1, 4) as usize);
    node_keys.sort();
    let mut sort_keys = all_sorts.clone();
    rng.shuffle(&mut sort_keys);
    sort_keys.truncate(rng.range(3, 8) as usize);
    if want_prefix_free {
        node_keys = prefix_free(node_keys);
        if node_keys.is_empty() {
            node_keys.push(vec![9, 9]);
        }
        sort_keys = prefix_free(sort_keys);
        if sort_keys.is_empty() {
            sort_keys.push(vec![9]);
        }
    }
    if oversize {
        // outside the size limits of the property: at / above the reset bound
        sort_keys.push(vec![255; RESET_BOUND]);
        if !want_prefix_free {
            sort_keys.push({ let mut k = vec![255; RESET_BOUND]; k.push(0); k });
        }
    }
    sort_keys.sort();
    let mut parts = all_parts.clone();
    rng.shuffle(&mut parts);
    parts.truncate(rng.range(1, 3) as usize);
    parts.sort();
    Universe { node_keys, parts, sort_keys }
}

fn pks_coq(v: &[DbPartitionKey]) -> String {
    coq_list(v.iter().map(pk_coq))
}

/// the class of the known finding, computed from the keys the history writes: some node key is a proper
/// prefix of another node key, or inside one partition some sort key is a proper prefix of another
fn plan_prefix_related(commits: &[DatabaseUpdates]) -> bool {
    let mut nodes: std::collections::BTreeSet<Vec<u8>> = Default::default();
    let mut per_part: std::collections::BTreeMap<(Vec<u8>, u8), std::collections::BTreeSet<Vec<u8>>> = Default::default();
    for c in commits {
        for (nk, nu) in &c.node_updates {
            nodes.insert(nk.clone());
            for (pn, pu) in &nu.partition_updates {
                let e = per_part.entry((nk.clone(), *pn)).or_default();
                match pu {
                    PartitionDatabaseUpdates::Delta { substate_updates } => e.extend(substate_updates.keys().map(|k| k.0.clone())),
                    PartitionDatabaseUpdates::Reset { new_substate_values } => e.extend(new_substate_values.keys().map(|k| k.0.clone())),
                }
            }
        }
    }
    let as_vec = |s: &std::collections::BTreeSet<Vec<u8>>| s.iter().cloned().collect::<Vec<_>>();
    is_prefix_related(&as_vec(&nodes)) || per_part.values().any(|s| is_prefix_related(&as_vec(s)))
}

struct Plan {
    u: Universe,
    commits: Vec<DatabaseUpdates>,
    oversize: bool,
    classes: Vec<String>,
    obs_seed: u64,
}

fn random_plan(rng: &mut Rng, i: usize) -> Plan {
    let oversize = i % 20 == 19;
    let want_prefix_free = i % 4 != 3;
    let u = universe(rng, oversize, want_prefix_free);
    let reset_pct = *rng.pick(&[15u64, 30, 50]);
    let ncommits = rng.range(2, 10);
    let mut replay = Replay::default();
    let mut commits = Vec::new();
    for _ in 0..ncommits {
        let mut c = gen_commit(rng, &u, reset_pct);
        if rng.chance(1, 4) && !replay.parts.is_empty() {
            // targeted: delete every substate of an existing partition one by one
            let keys: Vec<_> = replay.parts.keys().cloned().collect();
            let (nk, pn) = rng.pick(&keys).clone();
            let dels: IndexMap<DbSortKey, DatabaseUpdate> =
                replay.parts[&(nk.clone(), pn)].keys().map(|k| (DbSortKey(k.clone()), DatabaseUpdate::Delete)).collect();
            c = DatabaseUpdates::default();
            c.node_updates.entry(nk).or_default().partition_updates.insert(pn, PartitionDatabaseUpdates::Delta { substate_updates: dels });
        }
        replay.commit(&c);
        commits.push(c);
    }
    Plan { u, commits, oversize, classes: vec![], obs_seed: rng.next_u64() }
}

// ---- deterministic boundary family ---------------------------------------------------------------
fn sets(es: &[(Vec<u8>, Option<Vec<u8>>)]) -> PartitionDatabaseUpdates {
    let mut m = IndexMap::new();
    for (key, v) in es {
        m.insert(DbSortKey(key.clone()), match v { Some(v) => DatabaseUpdate::Set(v.clone()), None => DatabaseUpdate::Delete });
    }
    PartitionDatabaseUpdates::Delta { substate_updates: m }
}
fn reset(es: &[(Vec<u8>, Vec<u8>)]) -> PartitionDatabaseUpdates {
    let mut m = IndexMap::new();
    for (key, v) in es {
        m.insert(DbSortKey(key.clone()), v.clone());
    }
    PartitionDatabaseUpdates::Reset { new_substate_values: m }
}
fn commit_of(parts: Vec<(Vec<u8>, u8, PartitionDatabaseUpdates)>) -> DatabaseUpdates {
    let mut du = DatabaseUpdates::default();
    for (nk, pn, pu) in parts {
        du.node_updates.entry(nk).or_default().partition_updates.insert(pn, pu);
    }
    du
}
/// universe = exactly the node keys / partition numbers / sort keys occurring in the commits
fn universe_of(commits: &[DatabaseUpdates], extra_sort_keys: &[Vec<u8>]) -> Universe {
    let mut nodes = std::collections::BTreeSet::new();
    let mut parts = std::collections::BTreeSet::new();
    let mut sorts: std::collections::BTreeSet<Vec<u8>> = extra_sort_keys.iter().cloned().collect();
    for c in commits {
        for (nk, nu) in &c.node_updates {
            nodes.insert(nk.clone());
            for (pn, pu) in &nu.partition_updates {
                parts.insert(*pn);
                match pu {
                    PartitionDatabaseUpdates::Delta { substate_updates } => sorts.extend(substate_updates.keys().map(|k| k.0.clone())),
                    PartitionDatabaseUpdates::Reset { new_substate_values } => sorts.extend(new_substate_values.keys().map(|k| k.0.clone())),
                }
            }
        }
    }
    Universe { node_keys: nodes.into_iter().collect(), parts: parts.into_iter().collect(), sort_keys: sorts.into_iter().collect() }
}

fn boundary_family() -> Vec<Plan> {
    let mut v: Vec<Plan> = Vec::new();
    let top = vec![255u8; RESET_BOUND - 1]; // the largest sort key within the size limit
    let mut push = |class: &str, commits: Vec<DatabaseUpdates>, extra: &[Vec<u8>], oversize: bool| {
        let u = universe_of(&commits, extra);
        let seed = 0xB0DA_0000u64 + v.len() as u64;
        v.push(Plan { u, commits, oversize, classes: vec![class.to_string()], obs_seed: seed });
    };
    let n1 = vec![1u8];
    let n2 = vec![2u8, 3];
    // -- partition reset: both ends of the delete range, neighbours on both sides, for boundary partition numbers.
    //    Sort keys inside one partition are kept prefix-free so that all three stores take part.
    for (pn, lo, hi) in [(1u8, Some(0u8), Some(2u8)), (0, None, Some(1)), (255, Some(254), None), (254, Some(253), Some(255))] {
        for (variant, target_keys) in [
            ("top_key", vec![vec![0u8], vec![1, 0], top.clone()]),   // 2047 x 0xFF: just below the exclusive upper end
            ("empty_key_only", vec![vec![]]),                        // the inclusive lower end
            ("top_key_only", vec![top.clone()]),
        ] {
            for (rname, newvals) in [("to_empty", vec![]), ("to_other", vec![(vec![1u8, 0], vec![77u8])])] {
                let mut populate = vec![(n1.clone(), pn, sets(&target_keys.iter().map(|k| (k.clone(), Some(vec![1u8]))).collect::<Vec<_>>()))];
                if let Some(l) = lo {
                    populate.push((n1.clone(), l, sets(&[(top.clone(), Some(vec![2]))])));   // last possible key of the previous partition
                }
                if let Some(h) = hi {
                    populate.push((n1.clone(), h, sets(&[(vec![], Some(vec![3]))])));        // first possible key of the next partition
                }
                populate.push((n2.clone(), pn, sets(&[(vec![0], Some(vec![4]))])));          // same partition number under another node
                let commits = vec![commit_of(populate), commit_of(vec![(n1.clone(), pn, reset(&newvals))])];
                push(&format!("bf_reset_{}_{}_pn{}", variant, rname, pn), commits, &[vec![0], vec![255]], false);
            }
        }
    }
    // -- at and above the reset bound (outside the size limits; compared with the model only)
    push("bf_reset_oversize_key", vec![
        commit_of(vec![(n1.clone(), 7, sets(&[(vec![255u8; RESET_BOUND], Some(vec![1])), (vec![5], Some(vec![2]))]))]),
        commit_of(vec![(n1.clone(), 7, reset(&[]))]),
    ], &[], true);
    // -- node key lengths around the length-prefix byte boundaries (be32: 255 | 256 | 257, 65536), prefix-free
    let long_nodes: Vec<Vec<u8>> = vec![vec![5u8; 255], vec![6; 256], vec![7; 257], vec![1], vec![2, 3]];
    push("bf_node_key_len_255_256_257", vec![
        commit_of(long_nodes.iter().map(|n| (n.clone(), 0u8, sets(&[(vec![9], Some(vec![n.len() as u8])), (vec![8, 8], Some(vec![0]))]))).collect()),
        commit_of(vec![(long_nodes[1].clone(), 0, reset(&[(vec![9], vec![1])])), (long_nodes[0].clone(), 0, sets(&[(vec![9], None), (vec![8, 8], None)]))]),
    ], &[], false);
    push("bf_node_key_len_65536", vec![
        commit_of(vec![(vec![8u8; 65536], 3, sets(&[(vec![1], Some(vec![1]))])), (vec![9u8; 65535], 3, sets(&[(vec![1], Some(vec![2]))]))]),
        commit_of(vec![(vec![8u8; 65536], 3, reset(&[]))]),
    ], &[], false);
    // -- keys that collide if the length prefix / partition byte were dropped or misplaced (prefix-related node keys:
    //    the Merkle store may panic = known class; the plain RocksDB store is still compared)
    push("bf_layout_collision_shapes", vec![
        commit_of(vec![(vec![1], 2, sets(&[(vec![3, 9], Some(vec![1]))])), (vec![1, 2], 3, sets(&[(vec![9], Some(vec![2]))])),
                       (vec![], 1, sets(&[(vec![2, 3, 9], Some(vec![3]))])), (vec![1, 2, 3], 9, sets(&[(vec![], Some(vec![4]))]))]),
        commit_of(vec![(vec![1], 2, reset(&[]))]),
        commit_of(vec![(vec![1, 2], 3, sets(&[(vec![9], None)]))]),
    ], &[], false);
    // -- delta shapes: new, overwrite, delete present, delete absent, delete last substate, empty delta,
    //    reset of an absent partition (empty and non-empty), partition set after each
    push("bf_delta_and_partition_lifecycle", vec![
        commit_of(vec![(n1.clone(), 0, sets(&[(vec![1], Some(vec![1]))])), (n1.clone(), 1, sets(&[(vec![1], None)])), (n2.clone(), 0, sets(&[]))]),
        commit_of(vec![(n1.clone(), 0, sets(&[(vec![1], Some(vec![2])), (vec![2], Some(vec![]))])), (n2.clone(), 5, reset(&[]))]),
        commit_of(vec![(n1.clone(), 0, sets(&[(vec![1], None), (vec![3], None)]))]),
        commit_of(vec![(n1.clone(), 0, sets(&[(vec![2], None)])), (n2.clone(), 5, reset(&[(vec![4], vec![4]), (vec![3], vec![3])]))]),
        commit_of(vec![(n2.clone(), 5, sets(&[(vec![3], None), (vec![4], None)]))]),
    ], &[vec![0], vec![5]], false);
    // -- listings: several partitions of one node and of the next node, cursors on first / last / beyond / before
    push("bf_listing_partition_edges", vec![
        commit_of(vec![
            (n1.clone(), 0, sets(&[(vec![10], Some(vec![1])), (vec![20], Some(vec![2])), (vec![30], Some(vec![3]))])),
            (n1.clone(), 1, sets(&[(vec![0], Some(vec![4]))])),
            (n1.clone(), 255, sets(&[(vec![255], Some(vec![5]))])),
            (n2.clone(), 0, sets(&[(vec![0], Some(vec![6]))])),
        ]),
    ], &[vec![9], vec![15], vec![31], vec![]], false);
    // -- single store entry, and empty history
    push("bf_single_entry", vec![commit_of(vec![(n1.clone(), 0, sets(&[(vec![1], Some(vec![1]))]))])], &[], false);
    push("bf_no_effect_commits", vec![commit_of(vec![(n1.clone(), 0, sets(&[(vec![1], None)])), (n1.clone(), 1, reset(&[]))])], &[], false);
    drop(push);
    v
}

fn main() {
    let args = Args::parse();
    let mut report = Report::new(
        "C15",
        args.seed,
        "random commit histories (2..10 commits of deltas/resets, node keys of different lengths that are prefixes of one another, \
         boundary partition numbers, sort keys up to 2047 bytes of 0xFF) applied to the in-memory store and to both RocksDB stores in fresh directories; \
         gets at all keys, listings from all cursors (keys, neighbours, None) and list_partition_keys after commits and at the end; \
         non-trivial = history with a reset of a non-empty partition and a delete of a partition's last substate; distinct by canonical text of the history",
    );
    let mut cw = CaseWriter::new("RV.Lib.Bytes RV.Model.C14_Store RV.Model.C15_Stores RV.Corr.C15_run", "check");
    let root = Rng::new(args.seed);
    let dirs_root = args.out.join("rocks_tmp");
    let _ = std::fs::remove_dir_all(&dirs_root);
    std::fs::create_dir_all(&dirs_root).unwrap();
    let mut plans = boundary_family();
    let n_family = plans.len();
    for j in 0..args.cases {
        let mut rng = root.fork(j as u64);
        plans.push(random_plan(&mut rng, j));
    }
    for (i, plan) in plans.into_iter().enumerate() {
        for c in &plan.classes {
            report.count(c);
        }
        let mut rng = Rng::new(plan.obs_seed);
        let oversize = plan.oversize;
        let u = &plan.u;
        // class of the known finding: the Merkle store panics when keys of one tree are prefix-related
        let prefix_related = plan_prefix_related(&plan.commits);
        if i >= n_family {
            report.count(if prefix_related { "cases_with_prefix_related_keys" } else { "cases_with_prefix_free_keys" });
        }
        let mut merkle_alive = true;
        let d1 = dirs_root.join(format!("plain_{}", i));
        let d2 = dirs_root.join(format!("merkle_{}", i));
        let mut mem = InMemorySubstateDatabase::standard();
        let mut rocks = RocksdbSubstateStore::standard(d1.clone());
        // the Merkle store in both modes: standard() = pruning enabled; with_options(.., false) keeps stale tree parts
        let mut merkle = if i % 2 == 0 {
            report.count("merkle_pruning_enabled");
            RocksDBWithMerkleTreeSubstateStore::standard(d2.clone())
        } else {
            report.count("merkle_pruning_disabled");
            let mut o = radix_substate_store_impls::rocks_db_with_merkle_tree::Options::default();
            o.create_if_missing(true);
            o.create_missing_column_families(true);
            RocksDBWithMerkleTreeSubstateStore::with_options(&o, d2.clone(), false)
        };
        let mut merkle_commits_ok = 0u64;
        let mut replay = Replay::default();
        let pks = u.partition_keys();
        let cursors = u.cursors();
        let mut ops: Vec<String> = Vec::new();
        let mut canon = String::new();
        let mut failed: Option<(String, serde_json::Value)> = None;
        let mut fail = |what: &str, v: serde_json::Value| {
            if failed.is_none() {
                failed = Some((what.to_string(), v));
            }
        };
        let mut known: Option<(String, serde_json::Value)> = None;
        let mut reset_nonempty = false;
        let mut last_deleted = false;
        let mut n_obs = 0u64;
        let mut n_nonempty = 0u64;
        let mut diverged_oversize = false;
        let mut observe = |mem: &InMemorySubstateDatabase,
                           rocks: &RocksdbSubstateStore,
                           merkle: &RocksDBWithMerkleTreeSubstateStore,
                           replay: &Replay,
                           ops: &mut Vec<String>,
                           rng: &mut Rng,
                           all: bool,
                           merkle_alive: bool,
                           fail: &mut dyn FnMut(&str, serde_json::Value)| {
            for pk in &pks {
                for sk in &u.sort_keys {
                    if !all && !rng.chance(1, 6) {
                        continue;
                    }
                    let key = DbSortKey(sk.clone());
                    let m = mem.get_raw_substate_by_db_key(pk, &key);
                    let r = catch(std::panic::AssertUnwindSafe(|| rocks.get_raw_substate_by_db_key(pk, &key)));
                    let t = catch(std::panic::AssertUnwindSafe(|| merkle.get_raw_substate_by_db_key(pk, &key)));
                    n_obs += 1;
                    if merkle_alive && r != t {
                        fail("get differs between the two RocksDB stores", json!({"pk": pk_coq(pk), "sk_len": sk.len()}));
                    }
                    if r.as_ref().ok() != Some(&m) || m != replay.get(pk, sk) {
                        if oversize { diverged_oversize = true; } else {
                            fail("get differs between the in-memory and the RocksDB store", json!({"pk": pk_coq(pk), "sk": hex(sk), "mem": m.as_ref().map(|v| hex(v)), "rocks": format!("{:?}", r)}));
                        }
                    }
                    ops.push(format!("OGet {} {} {} {}", pk_coq(pk), cb(sk), coq_option(m.map(|v| cb(&v))),
                        match r { Ok(x) => coq_option(x.map(|v| cb(&v))), Err(_) => "None".into() }));
                }
                for cur in &cursors {
                    if !all && !rng.chance(1, 6) {
                        continue;
                    }
                    let m = collect_list(mem, pk, cur);
                    let r = catch(std::panic::AssertUnwindSafe(|| collect_list(rocks, pk, cur)));
                    let t = catch(std::panic::AssertUnwindSafe(|| collect_list(merkle, pk, cur)));
                    n_obs += 1;
                    if !m.is_empty() {
                        n_nonempty += 1;
                    }
                    if merkle_alive && r != t {
                        fail("listing differs between the two RocksDB stores", json!({"pk": pk_coq(pk)}));
                    }
                    if r.as_ref().ok() != Some(&m) || m != replay.list(pk, cur) {
                        if oversize { diverged_oversize = true; } else {
                            fail("listing differs between the in-memory and the RocksDB store", json!({"pk": pk_coq(pk), "from": cur.as_ref().map(|k| hex(k)), "mem": entries_coq(&m), "rocks": r.as_ref().ok().map(|x| entries_coq(x))}));
                        }
                    }
                    ops.push(format!("OList {} {} {} {}", pk_coq(pk), cursor_coq(cur), entries_coq(&m), coq_option(r.ok().map(|x| entries_coq(&x)))));
                }
            }
            // partition sets
            let m: Vec<DbPartitionKey> = mem.list_partition_keys().collect();
            let r = catch(std::panic::AssertUnwindSafe(|| rocks.list_partition_keys().collect::<Vec<_>>()));
            let t = catch(std::panic::AssertUnwindSafe(|| merkle.list_partition_keys().collect::<Vec<_>>()));
            n_obs += 1;
            if merkle_alive && r != t {
                fail("list_partition_keys differs between the two RocksDB stores", json!({}));
            }
            let mut rs = r.clone().unwrap_or_default();
            let n_before = rs.len();
            rs.sort();
            rs.dedup();
            let mut ms = m.clone();
            ms.sort();
            let want: Vec<DbPartitionKey> = replay.partition_keys().into_iter().map(|(n, p)| DbPartitionKey { node_key: n, partition_num: p }).collect();
            if r.is_err() || rs.len() != n_before || rs != ms || ms != want {
                if oversize { diverged_oversize = true; } else {
                    fail("set of partitions differs between the stores (or has duplicates)", json!({"mem": pks_coq(&m), "rocks": r.as_ref().ok().map(|x| pks_coq(x))}));
                }
            }
            ops.push(format!("OParts {} {}", pks_coq(&m), coq_option(r.ok().map(|x| pks_coq(&x)))));
        };
        for c in &plan.commits {
            let c = c.clone();
            // statistics against the replay state before the commit
            for (nk, nu) in &c.node_updates {
                for (pn, pu) in &nu.partition_updates {
                    let cur = replay.parts.get(&(nk.clone(), *pn));
                    match pu {
                        PartitionDatabaseUpdates::Reset { .. } => {
                            if cur.map(|p| !p.is_empty()).unwrap_or(false) {
                                reset_nonempty = true;
                                report.count("resets_of_nonempty_partition");
                            }
                        }
                        PartitionDatabaseUpdates::Delta { substate_updates } => {
                            if let Some(p) = cur {
                                let dels: Vec<&DbSortKey> = substate_updates.iter().filter(|(_, u)| matches!(u, DatabaseUpdate::Delete)).map(|(k, _)| k).collect();
                                let sets = substate_updates.iter().any(|(_, u)| matches!(u, DatabaseUpdate::Set(_)));
                                if !sets && !p.is_empty() && p.keys().all(|k| dels.iter().any(|d| &d.0 == k)) {
                                    last_deleted = true;
                                    report.count("deletes_of_last_substate");
                                }
                            }
                        }
                    }
                }
            }
            mem.commit(&c);
            replay.commit(&c);
            let r1 = catch(std::panic::AssertUnwindSafe(|| rocks.commit(&c)));
            let r2 = if merkle_alive { catch(std::panic::AssertUnwindSafe(|| merkle.commit(&c))) } else { Ok(()) };
            if r1.is_err() {
                fail("RocksdbSubstateStore::commit panicked", json!({"commit": updates_coq(&c), "panic": r1.clone().err()}));
            }
            if r2.is_err() {
                merkle_alive = false; // the store is not used any further in this case
                if prefix_related {
                    report.count("merkle_commit_panics_with_prefix_related_keys");
                    if known.is_none() {
                        known = Some(("RocksDBWithMerkleTreeSubstateStore::commit panicked (state tree, keys prefix-related)".into(), json!({"commit": updates_coq(&c), "panic": r2.clone().err()})));
                    }
                } else {
                    fail("RocksDBWithMerkleTreeSubstateStore::commit panicked", json!({"commit": updates_coq(&c), "panic": r2.clone().err()}));
                }
            } else if merkle_alive {
                report.count("merkle_commits_ok");
                merkle_commits_ok += 1;
                // metadata: the state version counts the commits
                if merkle.get_current_version() != merkle_commits_ok {
                    fail("Merkle store state version is not the number of commits", json!({"version": merkle.get_current_version(), "commits": merkle_commits_ok}));
                }
            }
            report.count("commits");
            ops.push(format!("OCommit {}", updates_coq(&c)));
            canon.push_str(&updates_coq(&c));
            observe(&mem, &rocks, &merkle, &replay, &mut ops, &mut rng, false, merkle_alive, &mut fail);
        }
        observe(&mem, &rocks, &merkle, &replay, &mut ops, &mut rng, true, merkle_alive, &mut fail);
        drop(observe);
        drop(fail);
        drop(rocks);
        drop(merkle);
        let _ = std::fs::remove_dir_all(&d1);
        let _ = std::fs::remove_dir_all(&d2);
        report.count_n("observations", n_obs);
        report.count_n("nonempty_listings", n_nonempty);
        if oversize {
            report.count("info_oversize_cases");
            if diverged_oversize {
                report.count("info_oversize_cases_where_stores_diverge");
            }
        }
        report.case(&canon, reset_nonempty && last_deleted);
        if let Some((what, mut input)) = failed {
            input["history"] = json!(ops.iter().filter(|o| o.starts_with("OCommit")).collect::<Vec<_>>());
            report.oracle_failure(i, "", &what, input);
        }
        if let Some((what, mut input)) = known {
            input["history"] = json!(ops.iter().filter(|o| o.starts_with("OCommit")).collect::<Vec<_>>());
            report.oracle_failure(i, "merkle-prefix-keys", &what, input);
        }
        if i < 2 {
            report.sample(json!({"first_ops": ops.iter().take(8).collect::<Vec<_>>()}));
        }
        cw.push(coq_list(ops.into_iter()));
    }
    let _ = std::fs::remove_dir_all(&dirs_root);
    report.notes.push("cases with index % 20 == 19 use sort keys at/above the partition-reset bound (2*MAX_SUBSTATE_KEY_SIZE bytes of 0xFF), outside the size limits of the property: a reset leaves them in RocksDB; they are compared with the model only (the model reproduces it) and counted as info_*".into());
    let n = args.cases as u64;
    report.floor("resets_of_nonempty_partition", n / 2);
    report.floor("deletes_of_last_substate", n / 10);
    report.floor("nonempty_listings", n);
    report.floor("commits", n);
    report.floor("merkle_commits_ok", n);
    report.floor("merkle_pruning_enabled", 10);
    report.floor("merkle_pruning_disabled", 10);
    report.floor("cases_with_prefix_free_keys", n / 2);
    for pn in [0u8, 1, 254, 255] {
        for variant in ["top_key", "empty_key_only", "top_key_only"] {
            for r in ["to_empty", "to_other"] {
                report.floor(&format!("bf_reset_{}_{}_pn{}", variant, r, pn), 1);
            }
        }
    }
    for c in ["bf_reset_oversize_key", "bf_node_key_len_255_256_257", "bf_node_key_len_65536", "bf_layout_collision_shapes",
              "bf_delta_and_partition_lifecycle", "bf_listing_partition_edges", "bf_single_entry", "bf_no_effect_commits"] {
        report.floor(c, 1);
    }
    if !args.oracle_only {
        cw.write(&args.out, args.shards).unwrap();
    }
    report.write(&args.out).unwrap();
}
