//! C37 correspondence harness: ManifestResourceConstraint / GeneralResourceConstraint /
//! ManifestResourceConstraints (radix-common/src/data/manifest/model/manifest_resource_assertion.rs).
//! Model: coq/Model/C37_Constraint.v.  Direct oracle: the mathematical meaning of each constraint
//! evaluated with BigInt amounts and BTreeSet id sets (no Decimal, no IndexSet), plus
//! "normalize never changes acceptance", "normalize is idempotent", "valid => a witness is accepted".
use num_bigint::BigInt;
use radix_common::prelude::*;
use serde_json::json;
use std::collections::BTreeSet;
use vh_common::*;

type Ids = Vec<u64>;

fn scale() -> i128 {
    1_000_000_000_000_000_000i128
}
fn dec(attos: i128) -> Decimal {
    Decimal::from_attos(I192::from(attos))
}
fn big(d: &Decimal) -> BigInt {
    d.attos().to_string().parse::<BigInt>().unwrap()
}
fn zc(d: &Decimal) -> String {
    coq_z(d.attos().to_string())
}
fn idset(ids: &Ids) -> IndexSet<NonFungibleLocalId> {
    ids.iter().map(|i| NonFungibleLocalId::integer(*i)).collect()
}
fn id_of(id: &NonFungibleLocalId) -> u64 {
    match id {
        NonFungibleLocalId::Integer(i) => i.value(),
        _ => u64::MAX,
    }
}
fn ids_of(s: &IndexSet<NonFungibleLocalId>) -> Ids {
    s.iter().map(id_of).collect()
}
fn ids_coq(ids: &Ids) -> String {
    coq_list(ids.iter().map(|i| format!("{}", i)))
}

// ---- generators ---------------------------------------------------------------------------------

fn gen_ids(rng: &mut Rng, universe: u64, max: usize) -> Ids {
    let n = rng.usize_below(max + 1);
    let mut all: Vec<u64> = (0..universe).collect();
    rng.shuffle(&mut all);
    all.truncate(n.min(universe as usize));
    all
}
fn gen_subset(rng: &mut Rng, of: &Ids, max: usize) -> Ids {
    let mut v = of.clone();
    rng.shuffle(&mut v);
    let n = rng.usize_below(max.min(v.len()) + 1);
    v.truncate(n);
    v
}
fn gen_amount(rng: &mut Rng, neg_ok: bool) -> Decimal {
    let r = rng.below(100);
    let k = rng.below(9) as i128;
    let d = if r < 10 {
        dec(0)
    } else if r < 16 {
        dec(1)
    } else if r < 50 {
        dec(k * scale())
    } else if r < 58 {
        dec(k * scale() + 1)
    } else if r < 66 {
        dec(k * scale() - 1)
    } else if r < 80 {
        dec(k * scale() + rng.below(scale() as u64) as i128)
    } else if r < 84 {
        Decimal::MAX
    } else if r < 88 {
        dec((rng.next_u64() as i128) * scale())
    } else if r < 92 {
        dec((rng.next_u64() as i128) * (rng.next_u64() as i128 >> 2))
    } else if r < 94 {
        Decimal::MAX - dec(rng.below(3) as i128)
    } else {
        // negative stream
        let x = match rng.below(5) {
            0 => dec(-1),
            1 => dec(-k * scale()),
            2 => Decimal::MIN,
            3 => Decimal::MIN + dec(rng.below(scale() as u64 * 2) as i128),
            _ => dec(-(rng.below(scale() as u64 * 3) as i128)),
        };
        if neg_ok {
            x
        } else {
            dec(k * scale())
        }
    };
    d
}
fn gen_lower(rng: &mut Rng, hint: Option<i128>) -> LowerBound {
    if rng.chance(1, 5) {
        LowerBound::NonZero
    } else if let (Some(h), true) = (hint, rng.chance(2, 3)) {
        LowerBound::Inclusive(dec(h * scale()))
    } else {
        LowerBound::Inclusive(gen_amount(rng, true))
    }
}
fn gen_upper(rng: &mut Rng, hint: Option<i128>) -> UpperBound {
    if rng.chance(1, 4) {
        UpperBound::Unbounded
    } else if let (Some(h), true) = (hint, rng.chance(2, 3)) {
        UpperBound::Inclusive(dec(h * scale()))
    } else {
        UpperBound::Inclusive(gen_amount(rng, true))
    }
}
fn gen_general(rng: &mut Rng, report: &mut Report) -> GeneralResourceConstraint {
    let mode = rng.below(10);
    if mode < 2 {
        // fungible-shaped
        report.count("gen_general_fungible_shaped");
        let lo = rng.below(6) as i128;
        let hi = lo + rng.below(5) as i128 - if rng.chance(1, 8) { 2 } else { 0 };
        GeneralResourceConstraint {
            required_ids: idset(&if rng.chance(1, 10) { gen_ids(rng, 4, 2) } else { vec![] }),
            lower_bound: if rng.chance(1, 2) { gen_lower(rng, Some(lo)) } else { LowerBound::Inclusive(dec(lo * scale() + rng.below(scale() as u64) as i128)) },
            upper_bound: if rng.chance(1, 2) { gen_upper(rng, Some(hi)) } else { UpperBound::Inclusive(dec(hi * scale() + rng.below(scale() as u64) as i128)) },
            allowed_ids: if rng.chance(1, 4) { AllowedIds::Allowlist(idset(&if rng.chance(1, 6) { gen_ids(rng, 4, 2) } else { vec![] })) } else { AllowedIds::Any },
        }
    } else if mode < 8 {
        // coherent non-fungible shape: required ⊆ allow, |required| <= lower-ish <= upper-ish <= |allow|
        report.count("gen_general_nf_coherent");
        let any = rng.chance(2, 5);
        let allow = gen_ids(rng, 9, 7);
        let required = if any { gen_ids(rng, 9, 4) } else { gen_subset(rng, &allow, 5) };
        let cap = if any { 9 } else { allow.len() as i128 };
        let rl = required.len() as i128;
        // the interesting equalities (|required| = upper, |allow| = lower) must be frequent
        let lo = match rng.below(5) { 0 => 0, 1 => rl, 2 => cap, _ => rng.below(cap as u64 + 1) as i128 };
        let hi = match rng.below(5) { 0 => rl, 1 => cap, 2 => lo, _ => lo.max(rl) + rng.below(4) as i128 };
        let jitter = |rng: &mut Rng, x: i128| if rng.chance(1, 10) { x + rng.below(3) as i128 - 1 } else { x };
        let lo_j = jitter(rng, lo).max(0);
        let hi_j = jitter(rng, hi).max(0);
        GeneralResourceConstraint {
            required_ids: idset(&required),
            lower_bound: gen_lower(rng, Some(lo_j)),
            upper_bound: gen_upper(rng, Some(hi_j)),
            allowed_ids: if any { AllowedIds::Any } else { AllowedIds::Allowlist(idset(&allow)) },
        }
    } else {
        report.count("gen_general_random");
        GeneralResourceConstraint {
            required_ids: idset(&gen_ids(rng, 9, 5)),
            lower_bound: gen_lower(rng, None),
            upper_bound: gen_upper(rng, None),
            allowed_ids: if rng.chance(1, 2) { AllowedIds::Any } else { AllowedIds::Allowlist(idset(&gen_ids(rng, 9, 7))) },
        }
    }
}
fn gen_constraint(rng: &mut Rng, report: &mut Report) -> ManifestResourceConstraint {
    match rng.below(12) {
        0 => ManifestResourceConstraint::NonZeroAmount,
        1 => ManifestResourceConstraint::ExactAmount(gen_amount(rng, true)),
        2 => ManifestResourceConstraint::AtLeastAmount(gen_amount(rng, true)),
        3 => ManifestResourceConstraint::ExactNonFungibles(idset(&gen_ids(rng, 9, 6))),
        4 => ManifestResourceConstraint::AtLeastNonFungibles(idset(&gen_ids(rng, 9, 5))),
        _ => ManifestResourceConstraint::General(gen_general(rng, report)),
    }
}

// ---- canonical / Coq printing -------------------------------------------------------------------

fn lower_coq(l: &LowerBound) -> String {
    match l {
        LowerBound::NonZero => "LNonZero".into(),
        LowerBound::Inclusive(d) => format!("(LIncl {})", zc(d)),
    }
}
fn upper_coq(u: &UpperBound) -> String {
    match u {
        UpperBound::Unbounded => "UUnbounded".into(),
        UpperBound::Inclusive(d) => format!("(UIncl {})", zc(d)),
    }
}
fn allowed_coq(a: &AllowedIds) -> String {
    match a {
        AllowedIds::Any => "AnyIds".into(),
        AllowedIds::Allowlist(l) => format!("(Allowlist {})", ids_coq(&ids_of(l))),
    }
}
fn general_coq(g: &GeneralResourceConstraint) -> String {
    format!(
        "(mkGeneral {} {} {} {})",
        ids_coq(&ids_of(&g.required_ids)),
        lower_coq(&g.lower_bound),
        upper_coq(&g.upper_bound),
        allowed_coq(&g.allowed_ids)
    )
}
fn constraint_coq(c: &ManifestResourceConstraint) -> String {
    match c {
        ManifestResourceConstraint::NonZeroAmount => "NonZeroAmount".into(),
        ManifestResourceConstraint::ExactAmount(d) => format!("(ExactAmount {})", zc(d)),
        ManifestResourceConstraint::AtLeastAmount(d) => format!("(AtLeastAmount {})", zc(d)),
        ManifestResourceConstraint::ExactNonFungibles(s) => format!("(ExactNF {})", ids_coq(&ids_of(s))),
        ManifestResourceConstraint::AtLeastNonFungibles(s) => format!("(AtLeastNF {})", ids_coq(&ids_of(s))),
        ManifestResourceConstraint::General(g) => format!("(General {})", general_coq(g)),
    }
}
fn err_coq(e: &ResourceConstraintError) -> String {
    match e {
        ResourceConstraintError::NonFungibleConstraintNotValidForFungibleResource => "ENotValidForFungible".into(),
        ResourceConstraintError::ExpectedNonZeroAmount => "EExpectedNonZero".into(),
        ResourceConstraintError::ExpectedExactAmount { expected_amount, actual_amount } => {
            format!("(EExpectedExact {} {})", zc(expected_amount), zc(actual_amount))
        }
        ResourceConstraintError::ExpectedAtLeastAmount { expected_at_least_amount, actual_amount } => {
            format!("(EExpectedAtLeast {} {})", zc(expected_at_least_amount), zc(actual_amount))
        }
        ResourceConstraintError::ExpectedAtMostAmount { expected_at_most_amount, actual_amount } => {
            format!("(EExpectedAtMost {} {})", zc(expected_at_most_amount), zc(actual_amount))
        }
        ResourceConstraintError::NonFungibleMissing { missing_id } => format!("(EMissing {})", id_of(missing_id)),
        ResourceConstraintError::NonFungibleNotAllowed { disallowed_id } => format!("(ENotAllowed {})", id_of(disallowed_id)),
    }
}
fn vres_coq(r: &Result<Result<(), ResourceConstraintError>, String>) -> String {
    match r {
        Ok(Ok(())) => "VOk".into(),
        Ok(Err(e)) => format!("(VErr {})", err_coq(e)),
        Err(_) => "(VErr (EMissing 18446744073709551615))".into(), // a panic: never produced by the model
    }
}

// ---- direct oracle: the mathematical meaning ------------------------------------------------------

fn set(ids: &Ids) -> BTreeSet<u64> {
    ids.iter().cloned().collect()
}
fn sat_lower(l: &LowerBound, a: &BigInt) -> bool {
    match l {
        LowerBound::NonZero => *a > BigInt::from(0),
        LowerBound::Inclusive(d) => big(d) <= *a,
    }
}
fn sat_upper(u: &UpperBound, a: &BigInt) -> bool {
    match u {
        UpperBound::Unbounded => true,
        UpperBound::Inclusive(d) => *a <= big(d),
    }
}
/// fungible balance `a` (attos, >= 0): ids are disregarded for fungible resources
fn sat_f(c: &ManifestResourceConstraint, a: &BigInt) -> bool {
    match c {
        ManifestResourceConstraint::NonZeroAmount => *a > BigInt::from(0),
        ManifestResourceConstraint::ExactAmount(d) => *a == big(d),
        ManifestResourceConstraint::AtLeastAmount(d) => *a >= big(d),
        ManifestResourceConstraint::ExactNonFungibles(_) | ManifestResourceConstraint::AtLeastNonFungibles(_) => false,
        ManifestResourceConstraint::General(g) => sat_lower(&g.lower_bound, a) && sat_upper(&g.upper_bound, a),
    }
}
fn sat_nf(c: &ManifestResourceConstraint, ids: &BTreeSet<u64>) -> bool {
    let a = BigInt::from(ids.len()) * BigInt::from(scale());
    match c {
        ManifestResourceConstraint::NonZeroAmount => !ids.is_empty(),
        ManifestResourceConstraint::ExactAmount(d) => a == big(d),
        ManifestResourceConstraint::AtLeastAmount(d) => a >= big(d),
        ManifestResourceConstraint::ExactNonFungibles(s) => set(&ids_of(s)) == *ids,
        ManifestResourceConstraint::AtLeastNonFungibles(s) => set(&ids_of(s)).is_subset(ids),
        ManifestResourceConstraint::General(g) => {
            sat_lower(&g.lower_bound, &a)
                && sat_upper(&g.upper_bound, &a)
                && set(&ids_of(&g.required_ids)).is_subset(ids)
                && match &g.allowed_ids {
                    AllowedIds::Any => true,
                    AllowedIds::Allowlist(l) => ids.is_subset(&set(&ids_of(l))),
                }
        }
    }
}
/// known finding class: a general constraint used for a fungible resource with an empty allow-list
/// and a non-zero upper bound is declared valid, accepts positive amounts, and stops accepting them
/// after normalize()
fn known_empty_allowlist(g: &GeneralResourceConstraint) -> bool {
    matches!(&g.allowed_ids, AllowedIds::Allowlist(l) if l.is_empty()) && g.upper_bound.equivalent_decimal().is_positive()
}

/// a balance that must be accepted if the constraint is valid for fungible use
fn witness_f(c: &ManifestResourceConstraint) -> Decimal {
    match c {
        ManifestResourceConstraint::NonZeroAmount => dec(1),
        ManifestResourceConstraint::ExactAmount(d) | ManifestResourceConstraint::AtLeastAmount(d) => *d,
        ManifestResourceConstraint::General(g) => g.lower_bound.equivalent_decimal(),
        _ => dec(0),
    }
}
/// a set of ids that must be accepted if the constraint is valid for non-fungible use
/// (None = would need more than 200 ids; skipped)
fn witness_nf(c: &ManifestResourceConstraint) -> Option<Ids> {
    let count_of = |d: &Decimal| -> Option<usize> {
        let q: BigInt = big(d) / BigInt::from(scale());
        let n: u64 = q.to_string().parse().ok()?;
        if n > 200 { None } else { Some(n as usize) }
    };
    let pad = |mut base: Ids, pool: Option<Ids>, n: usize| -> Ids {
        let mut fresh = 1000u64;
        let pool = pool.unwrap_or_default();
        let mut it = pool.into_iter();
        while base.len() < n {
            let next = it.next().unwrap_or_else(|| { fresh += 1; fresh });
            if !base.contains(&next) {
                base.push(next);
            }
        }
        base
    };
    match c {
        ManifestResourceConstraint::NonZeroAmount => Some(vec![7]),
        ManifestResourceConstraint::ExactAmount(d) | ManifestResourceConstraint::AtLeastAmount(d) => Some(pad(vec![], None, count_of(d)?)),
        ManifestResourceConstraint::ExactNonFungibles(s) | ManifestResourceConstraint::AtLeastNonFungibles(s) => Some(ids_of(s)),
        ManifestResourceConstraint::General(g) => {
            let lo = match &g.lower_bound { LowerBound::NonZero => 1, LowerBound::Inclusive(d) => count_of(d)? };
            let req = ids_of(&g.required_ids);
            let n = lo.max(req.len());
            let pool = match &g.allowed_ids { AllowedIds::Any => None, AllowedIds::Allowlist(l) => Some(ids_of(l)) };
            if let Some(p) = &pool {
                if p.len() < n { return Some(p.clone()); } // cannot happen for a valid constraint; the oracle then reports
            }
            Some(pad(req, pool, n))
        }
    }
}

fn raddr(i: u8, fungible: bool) -> ResourceAddress {
    let mut b = [0u8; NodeId::LENGTH];
    b[0] = if fungible { EntityType::GlobalFungibleResourceManager as u8 } else { EntityType::GlobalNonFungibleResourceManager as u8 };
    b[29] = i;
    ResourceAddress::new_or_panic(b)
}
fn raddr_back(r: &ResourceAddress) -> (u8, bool) {
    (r.as_node_id().0[29], r.is_fungible())
}
fn raddr_coq(r: (u8, bool)) -> String {
    format!("({}, {})", r.0, coq_bool(r.1))
}


// ---- deterministic boundary family (identical for every seed) -------------------------------------------
enum Preset {
    Validate(&'static str, ManifestResourceConstraint, Vec<Decimal>, Vec<Ids>),
    Normalize(&'static str, GeneralResourceConstraint),
    Constraints(&'static str, Vec<((u8, bool), ManifestResourceConstraint)>, Vec<((u8, bool), Decimal)>, Vec<((u8, bool), Ids)>, bool),
}
fn gen_c(req: &[u64], lo: LowerBound, hi: UpperBound, allow: Option<&[u64]>) -> GeneralResourceConstraint {
    GeneralResourceConstraint { required_ids: idset(&req.to_vec()), lower_bound: lo, upper_bound: hi,
        allowed_ids: match allow { Some(a) => AllowedIds::Allowlist(idset(&a.to_vec())), None => AllowedIds::Any } }
}
fn li(units: i128, attos: i128) -> LowerBound { LowerBound::Inclusive(dec(units * scale() + attos)) }
fn ui(units: i128, attos: i128) -> UpperBound { UpperBound::Inclusive(dec(units * scale() + attos)) }
fn boundary_family() -> Vec<Preset> {
    use ManifestResourceConstraint as C;
    let s = scale();
    let around = |d: i128| vec![dec(d - 1), dec(d), dec(d + 1)];
    let mut f: Vec<Preset> = vec![];
    // --- simple kinds: both sides of every comparison and the equality point, fungible and non-fungible
    f.push(Preset::Validate("b_nonzero", C::NonZeroAmount, vec![dec(0), dec(1), dec(s), Decimal::MAX], vec![vec![], vec![5], vec![5, 6]]));
    for (cls, d) in [("b_exact_0", 0i128), ("b_exact_1atto", 1), ("b_exact_2units", 2 * s), ("b_exact_2units_plus", 2 * s + 1), ("b_exact_2units_minus", 2 * s - 1), ("b_exact_neg_1atto", -1), ("b_exact_neg_unit", -s)] {
        f.push(Preset::Validate(cls, C::ExactAmount(dec(d)), { let mut a = around(d); a.push(dec(0)); a }, vec![vec![], vec![1], vec![1, 2], vec![2, 1, 3]]));
    }
    f.push(Preset::Validate("b_exact_max", C::ExactAmount(Decimal::MAX), vec![Decimal::MAX, Decimal::MAX - dec(1), dec(0)], vec![vec![], vec![1]]));
    for (cls, d) in [("b_atleast_0", 0i128), ("b_atleast_1atto", 1), ("b_atleast_2units", 2 * s), ("b_atleast_2units_plus", 2 * s + 1), ("b_atleast_2units_minus", 2 * s - 1), ("b_atleast_neg_1atto", -1)] {
        f.push(Preset::Validate(cls, C::AtLeastAmount(dec(d)), { let mut a = around(d); a.push(dec(0)); a.push(Decimal::MAX); a }, vec![vec![], vec![1], vec![1, 2], vec![2, 1, 3]]));
    }
    f.push(Preset::Validate("b_exact_ids", C::ExactNonFungibles(idset(&vec![1, 2, 3])), vec![dec(0), dec(3 * s)],
        vec![vec![1, 2, 3], vec![3, 2, 1], vec![1, 2], vec![2, 3], vec![1, 3], vec![1, 2, 3, 4], vec![4, 1, 2, 3], vec![], vec![4, 5, 6]]));
    f.push(Preset::Validate("b_exact_ids_empty", C::ExactNonFungibles(idset(&vec![])), vec![dec(0)], vec![vec![], vec![1]]));
    f.push(Preset::Validate("b_exact_ids_single", C::ExactNonFungibles(idset(&vec![7])), vec![dec(s)], vec![vec![7], vec![], vec![8], vec![7, 8], vec![8, 7]]));
    f.push(Preset::Validate("b_atleast_ids", C::AtLeastNonFungibles(idset(&vec![1, 2, 3])), vec![dec(0), dec(3 * s)],
        vec![vec![1, 2, 3], vec![3, 1, 2, 9], vec![1, 2], vec![2, 3], vec![1, 3], vec![], vec![9]]));
    f.push(Preset::Validate("b_atleast_ids_empty", C::AtLeastNonFungibles(idset(&vec![])), vec![dec(0)], vec![vec![], vec![1]]));
    // --- General: numeric bounds at equality and +-1 atto, for both uses
    let nums = |lo: i128, hi: i128| -> Vec<Decimal> { let mut v = around(lo); v.extend(around(hi)); v.push(dec(0)); v.push(Decimal::MAX); v };
    f.push(Preset::Validate("b_gen_lower_eq_upper", C::General(gen_c(&[], li(2, 0), ui(2, 0), None)), nums(2 * s, 2 * s), vec![vec![], vec![1], vec![1, 2], vec![1, 2, 3]]));
    f.push(Preset::Validate("b_gen_lower_gt_upper_1atto", C::General(gen_c(&[], li(2, 1), ui(2, 0), None)), nums(2 * s + 1, 2 * s), vec![vec![1, 2]]));
    f.push(Preset::Validate("b_gen_lower_lt_upper_1atto", C::General(gen_c(&[], li(2, 0), ui(2, 1), None)), nums(2 * s, 2 * s + 1), vec![vec![1, 2], vec![1, 2, 3]]));
    f.push(Preset::Validate("b_gen_nonzero_upper0", C::General(gen_c(&[], LowerBound::NonZero, ui(0, 0), None)), vec![dec(0), dec(1)], vec![vec![], vec![1]]));
    f.push(Preset::Validate("b_gen_nonzero_upper_1atto", C::General(gen_c(&[], LowerBound::NonZero, ui(0, 1), None)), vec![dec(0), dec(1), dec(2)], vec![vec![], vec![1]]));
    f.push(Preset::Validate("b_gen_nonzero_upper1", C::General(gen_c(&[], LowerBound::NonZero, ui(1, 0), None)), vec![dec(0), dec(1), dec(s), dec(s + 1)], vec![vec![], vec![1], vec![1, 2]]));
    f.push(Preset::Validate("b_gen_zero_unbounded", C::General(gen_c(&[], li(0, 0), UpperBound::Unbounded, None)), vec![dec(0), dec(1), Decimal::MAX, dec(-1)], vec![vec![], vec![1]]));
    f.push(Preset::Validate("b_gen_neg_lower", C::General(gen_c(&[], li(0, -1), ui(1, 0), None)), vec![dec(0), dec(-1), dec(s)], vec![vec![]]));
    f.push(Preset::Validate("b_gen_neg_upper", C::General(gen_c(&[], li(0, 0), ui(0, -1), None)), vec![dec(0), dec(-1)], vec![vec![]]));
    f.push(Preset::Validate("b_gen_fractional_bounds", C::General(gen_c(&[], li(1, 1), ui(2, -1), None)), nums(s + 1, 2 * s - 1), vec![vec![1], vec![1, 2]]));
    f.push(Preset::Validate("b_gen_upper_max", C::General(gen_c(&[], li(0, 0), UpperBound::Inclusive(Decimal::MAX), None)), vec![Decimal::MAX, dec(0)], vec![vec![1]]));
    // --- General: required / allow-list interplay
    f.push(Preset::Validate("b_gen_required_eq_allow", C::General(gen_c(&[1, 2], li(2, 0), ui(2, 0), Some(&[2, 1]))), vec![dec(2 * s)], vec![vec![1, 2], vec![2, 1], vec![1], vec![2], vec![1, 2, 3], vec![], vec![3]]));
    f.push(Preset::Validate("b_gen_required_not_subset", C::General(gen_c(&[1, 2], li(0, 0), ui(3, 0), Some(&[1, 3]))), vec![dec(s)], vec![vec![1, 2], vec![1, 3], vec![1]]));
    f.push(Preset::Validate("b_gen_required_missing_first_last", C::General(gen_c(&[1, 2, 3], li(0, 0), UpperBound::Unbounded, None)), vec![dec(0)], vec![vec![2, 3], vec![1, 2], vec![1, 3], vec![1, 2, 3], vec![3, 2, 1, 4]]));
    f.push(Preset::Validate("b_gen_not_allowed_first_last", C::General(gen_c(&[], li(0, 0), UpperBound::Unbounded, Some(&[1, 2, 3]))), vec![dec(0)], vec![vec![9, 1, 2], vec![1, 2, 9], vec![1, 9, 2], vec![1, 2, 3], vec![], vec![9]]));
    f.push(Preset::Validate("b_gen_required_count_vs_upper", C::General(gen_c(&[1, 2], li(0, 0), ui(2, 0), None)), vec![dec(2 * s)], vec![vec![1, 2], vec![1, 2, 3]]));
    f.push(Preset::Validate("b_gen_required_count_gt_upper", C::General(gen_c(&[1, 2, 3], li(0, 0), ui(2, 0), None)), vec![dec(2 * s)], vec![vec![1, 2, 3], vec![1, 2]]));
    f.push(Preset::Validate("b_gen_required_count_gt_upper_1atto", C::General(gen_c(&[1, 2], li(0, 0), ui(2, -1), None)), vec![dec(2 * s)], vec![vec![1, 2]]));
    f.push(Preset::Validate("b_gen_lower_eq_allow_len", C::General(gen_c(&[], li(2, 0), ui(5, 0), Some(&[1, 2]))), vec![dec(2 * s)], vec![vec![1, 2], vec![1], vec![1, 2, 3]]));
    f.push(Preset::Validate("b_gen_lower_gt_allow_len", C::General(gen_c(&[], li(3, 0), ui(5, 0), Some(&[1, 2]))), vec![dec(3 * s)], vec![vec![1, 2]]));
    f.push(Preset::Validate("b_gen_lower_gt_allow_len_1atto", C::General(gen_c(&[], li(2, 1), ui(5, 0), Some(&[1, 2]))), vec![dec(2 * s + 1)], vec![vec![1, 2]]));
    f.push(Preset::Validate("b_gen_nonzero_empty_allow", C::General(gen_c(&[], LowerBound::NonZero, ui(5, 0), Some(&[]))), vec![dec(0), dec(1)], vec![vec![], vec![1]]));
    f.push(Preset::Validate("b_gen_empty_allow_zero_upper", C::General(gen_c(&[], li(0, 0), ui(0, 0), Some(&[]))), vec![dec(0), dec(1)], vec![vec![], vec![1]]));
    f.push(Preset::Validate("b_gen_empty_allow_pos_upper", C::General(gen_c(&[], li(0, 0), ui(3, 0), Some(&[]))), vec![dec(0), dec(1), dec(3 * s)], vec![vec![], vec![1]]));
    f.push(Preset::Validate("b_gen_fungible_with_required", C::General(gen_c(&[1], li(0, 0), ui(3, 0), None)), vec![dec(0), dec(s)], vec![vec![1], vec![]]));
    f.push(Preset::Validate("b_gen_fungible_nonempty_allow", C::General(gen_c(&[], li(0, 0), ui(3, 0), Some(&[1]))), vec![dec(0), dec(s)], vec![vec![1], vec![]]));
    // --- normalize: every comparison at equality and on both sides
    for (cls, g) in [
        ("n_lower_lt_required", gen_c(&[1, 2], li(1, 0), ui(5, 0), None)),
        ("n_lower_eq_required", gen_c(&[1, 2], li(2, 0), ui(5, 0), None)),
        ("n_lower_gt_required", gen_c(&[1, 2], li(3, 0), ui(5, 0), None)),
        ("n_nonzero_required0", gen_c(&[], LowerBound::NonZero, ui(5, 0), None)),
        ("n_nonzero_required1", gen_c(&[1], LowerBound::NonZero, ui(5, 0), None)),
        ("n_allow_lt_upper", gen_c(&[], li(0, 0), ui(5, 0), Some(&[1, 2, 3]))),
        ("n_allow_eq_upper", gen_c(&[], li(0, 0), ui(3, 0), Some(&[1, 2, 3]))),
        ("n_allow_gt_upper", gen_c(&[], li(0, 0), ui(2, 0), Some(&[1, 2, 3]))),
        ("n_allow_lt_unbounded", gen_c(&[], li(0, 0), UpperBound::Unbounded, Some(&[1, 2, 3]))),
        ("n_required_eq_upper_any", gen_c(&[1, 2], li(0, 0), ui(2, 0), None)),
        ("n_required_eq_upper_allow", gen_c(&[1, 2], li(0, 0), ui(2, 0), Some(&[1, 2, 3]))),
        ("n_required_lt_upper", gen_c(&[1, 2], li(0, 0), ui(3, 0), Some(&[1, 2, 3, 4]))),
        ("n_required_eq_allow_same_order", gen_c(&[1, 2], li(0, 0), ui(5, 0), Some(&[1, 2]))),
        ("n_required_eq_allow_other_order", gen_c(&[1, 2], li(0, 0), ui(5, 0), Some(&[2, 1]))),
        ("n_allow_eq_lower", gen_c(&[1], li(3, 0), ui(5, 0), Some(&[3, 1, 2]))),
        ("n_allow_eq_lower_after_tighten", gen_c(&[1, 2, 3], li(0, 0), ui(5, 0), Some(&[3, 1, 2, 4]))),
        ("n_allow_gt_lower", gen_c(&[1], li(2, 0), ui(5, 0), Some(&[3, 1, 2]))),
        ("n_lower_eq_upper", gen_c(&[1], li(2, 0), ui(2, 0), Some(&[1, 2, 3]))),
        ("n_lower_eq_upper_eq_required", gen_c(&[1, 2], li(2, 0), ui(2, 0), Some(&[1, 2, 3]))),
        ("n_zero_upper_any", gen_c(&[], li(0, 0), ui(0, 0), None)),
        ("n_zero_upper_empty_allow", gen_c(&[], li(0, 0), ui(0, 0), Some(&[]))),
        ("n_empty_allow_pos_upper", gen_c(&[], li(0, 0), ui(3, 0), Some(&[]))),
        ("n_nonzero_allow1", gen_c(&[], LowerBound::NonZero, ui(5, 0), Some(&[4]))),
        ("n_fractional", gen_c(&[], li(1, 1), ui(2, -1), Some(&[1, 2]))),
        ("n_invalid_required_gt_allow", gen_c(&[1, 2, 3], li(0, 0), ui(5, 0), Some(&[1]))),
    ] { f.push(Preset::Normalize(cls, g)); }
    // --- ManifestResourceConstraints::validate: prevent flag x unspecified balances, first/last failing
    let fr = |k: u8| (k, true); let nr = |k: u8| (k, false);
    let two = || vec![(fr(0), C::AtLeastAmount(dec(s))), (nr(1), C::AtLeastNonFungibles(idset(&vec![1])))];
    f.push(Preset::Constraints("m_all_ok", two(), vec![(fr(0), dec(s))], vec![(nr(1), vec![1])], true));
    f.push(Preset::Constraints("m_first_fails_1atto", two(), vec![(fr(0), dec(s - 1))], vec![(nr(1), vec![1])], true));
    f.push(Preset::Constraints("m_last_fails", two(), vec![(fr(0), dec(s))], vec![(nr(1), vec![2])], false));
    f.push(Preset::Constraints("m_both_fail", two(), vec![(fr(0), dec(1))], vec![], false));
    f.push(Preset::Constraints("m_absent_balances", two(), vec![], vec![], false));
    f.push(Preset::Constraints("m_unspecified_fungible_prevent", two(), vec![(fr(0), dec(s)), (fr(2), dec(1))], vec![(nr(1), vec![1])], true));
    f.push(Preset::Constraints("m_unspecified_fungible_allowed", two(), vec![(fr(0), dec(s)), (fr(2), dec(1))], vec![(nr(1), vec![1])], false));
    f.push(Preset::Constraints("m_unspecified_nf_prevent", two(), vec![(fr(0), dec(s))], vec![(nr(1), vec![1]), (nr(3), vec![9])], true));
    f.push(Preset::Constraints("m_unspecified_nf_allowed", two(), vec![(fr(0), dec(s))], vec![(nr(1), vec![1]), (nr(3), vec![9])], false));
    f.push(Preset::Constraints("m_unspecified_and_failing_prevent", two(), vec![(fr(0), dec(0 + 1)), (fr(2), dec(1))], vec![], true));
    f.push(Preset::Constraints("m_empty_constraints_prevent", vec![], vec![(fr(0), dec(1))], vec![], true));
    f.push(Preset::Constraints("m_empty_constraints_empty_balances", vec![], vec![], vec![], true));
    f.push(Preset::Constraints("m_zero_exact_absent", vec![(fr(0), C::ExactAmount(dec(0))), (nr(1), C::ExactNonFungibles(idset(&vec![])))], vec![], vec![], true));
    f.push(Preset::Constraints("m_invalid_for_type", vec![(fr(0), C::ExactNonFungibles(idset(&vec![1]))), (nr(1), C::ExactAmount(dec(s / 2)))], vec![(fr(0), dec(s))], vec![(nr(1), vec![1])], false));
    f.push(Preset::Constraints("m_general_mix", vec![(fr(0), C::General(gen_c(&[], LowerBound::NonZero, ui(2, 0), None))), (nr(1), C::General(gen_c(&[1], li(1, 0), ui(2, 0), Some(&[1, 2]))))], vec![(fr(0), dec(2 * s))], vec![(nr(1), vec![2, 1])], true));
    f
}

fn main() {
    let args = Args::parse();
    let mut report = Report::new(
        "C37",
        args.seed,
        "3 streams: (a) one random ManifestResourceConstraint (all 6 kinds; General: fungible-shaped / coherent non-fungible with frequent \
         |required|=upper and |allowlist|=lower equalities / fully random incl. negative and fractional bounds) x 8 fungible amounts (near the \
         bounds +-1 atto, 0, MAX, negative) x 8 id sets (subsets/supersets of required and allow-list, permuted); (b) normalize() of a general \
         constraint; (c) ManifestResourceConstraints::validate on 1-4 resources with specified/unspecified balances, prevent flag on/off. \
         non-trivial = a General constraint or a multi-resource case; distinct by canonical Coq text",
    );
    let mut cw = CaseWriter::new("RV.Corr.C37_run RV.Model.C37_Constraint", "check");
    let root = Rng::new(args.seed);
    let family = boundary_family();
    let mut family_classes: Vec<&'static str> = vec![];
    for i in 0..args.cases.max(family.len()) {
        let mut rng = root.fork(i as u64);
        let preset = family.get(i);
        let stream = match preset { Some(Preset::Validate(..)) => 0, Some(Preset::Normalize(..)) => 6, Some(Preset::Constraints(..)) => 8, None => i % 10 };
        if let Some(p) = preset { let cls = match p { Preset::Validate(c, ..) | Preset::Normalize(c, ..) | Preset::Constraints(c, ..) => *c }; report.count(cls); family_classes.push(cls); }
        if stream < 6 {
            // ---------- (a) single constraint ----------
            let c = match preset { Some(Preset::Validate(_, c, _, _)) => c.clone(), _ => gen_constraint(&mut rng, &mut report) };
            let vf = c.is_valid_for_fungible_use();
            let vnf = c.is_valid_for_non_fungible_use();
            report.count(if vf { "valid_fungible" } else { "invalid_fungible" });
            report.count(if vnf { "valid_non_fungible" } else { "invalid_non_fungible" });
            // amounts near the constraint's own numbers
            let mut amounts: Vec<Decimal> = vec![];
            let mut anchors: Vec<Decimal> = vec![];
            match &c {
                ManifestResourceConstraint::ExactAmount(d) | ManifestResourceConstraint::AtLeastAmount(d) => anchors.push(*d),
                ManifestResourceConstraint::General(g) => {
                    anchors.push(g.lower_bound.equivalent_decimal());
                    anchors.push(g.upper_bound.equivalent_decimal());
                }
                _ => {}
            }
            for a in &anchors {
                for delta in [-1i128, 0, 1] {
                    if let Some(x) = a.checked_add(dec(delta)) {
                        if rng.chance(2, 3) {
                            amounts.push(x);
                        }
                    }
                }
            }
            while amounts.len() < 8 {
                amounts.push(gen_amount(&mut rng, true));
            }
            if let Some(Preset::Validate(_, _, a, _)) = preset { amounts = a.clone(); }
            // id sets near the constraint's own sets
            let (req, allow): (Ids, Option<Ids>) = match &c {
                ManifestResourceConstraint::ExactNonFungibles(s) | ManifestResourceConstraint::AtLeastNonFungibles(s) => (ids_of(s), None),
                ManifestResourceConstraint::General(g) => (
                    ids_of(&g.required_ids),
                    match &g.allowed_ids { AllowedIds::Allowlist(l) => Some(ids_of(l)), _ => None },
                ),
                _ => (vec![], None),
            };
            let mut sets: Vec<Ids> = vec![];
            for _ in 0..8 {
                let mut s: Ids = match rng.below(8) {
                    0 => req.clone(),
                    1 => allow.clone().unwrap_or_else(|| gen_ids(&mut rng, 9, 6)),
                    2 => { let mut s = req.clone(); for x in gen_ids(&mut rng, 11, 3) { if !s.contains(&x) { s.push(x); } } s }
                    3 => { let mut s = req.clone(); if !s.is_empty() { let k = rng.usize_below(s.len()); s.remove(k); } s }
                    4 => { let pool = allow.clone().unwrap_or_else(|| (0..9).collect()); let mut s = req.clone(); for x in gen_subset(&mut rng, &pool, 4) { if !s.contains(&x) { s.push(x); } } s }
                    5 => gen_ids(&mut rng, 9, match &c { ManifestResourceConstraint::ExactAmount(d) | ManifestResourceConstraint::AtLeastAmount(d) => (big(d) / BigInt::from(scale())).to_string().parse::<usize>().unwrap_or(3).min(9), _ => 4 }),
                    6 => vec![],
                    _ => gen_ids(&mut rng, 11, 7),
                };
                rng.shuffle(&mut s);
                sets.push(s);
            }
            if let Some(Preset::Validate(_, _, _, st)) = preset { sets = st.clone(); }
            let fres: Vec<_> = amounts.iter().map(|a| { let c2 = c.clone(); let a2 = *a; catch(move || c2.validate_fungible(a2)) }).collect();
            let nres: Vec<_> = sets.iter().map(|s| { let c2 = c.clone(); let s2 = idset(s); catch(move || c2.validate_non_fungible(&s2)) }).collect();
            let canon = format!("{}|{:?}|{:?}", constraint_coq(&c), amounts, sets);
            report.case(&canon, matches!(c, ManifestResourceConstraint::General(_)));
            // ---- oracle ----
            let input = json!({"constraint": constraint_coq(&c)});
            for (a, r) in amounts.iter().zip(fres.iter()) {
                match r {
                    Err(p) => report.oracle_failure(i, "", &format!("validate_fungible panicked on amount {}: {}", a, p), input.clone()),
                    Ok(r) => {
                        report.count(if r.is_ok() { "fungible_accept" } else { "fungible_reject" });
                        if !a.is_negative() && r.is_ok() != sat_f(&c, &big(a)) {
                            report.oracle_failure(i, "", &format!("validate_fungible({}) = {:?} but the balance {} the constraint", a, r, if r.is_ok() { "does not satisfy" } else { "satisfies" }), input.clone());
                        }
                    }
                }
            }
            for (s, r) in sets.iter().zip(nres.iter()) {
                match r {
                    Err(p) => report.oracle_failure(i, "", &format!("validate_non_fungible panicked on ids {:?}: {}", s, p), input.clone()),
                    Ok(r) => {
                        report.count(if r.is_ok() { "non_fungible_accept" } else { "non_fungible_reject" });
                        if r.is_ok() != sat_nf(&c, &set(s)) {
                            report.oracle_failure(i, "", &format!("validate_non_fungible({:?}) = {:?} but the balance {} the constraint", s, r, if r.is_ok() { "does not satisfy" } else { "satisfies" }), input.clone());
                        }
                    }
                }
            }
            // valid => satisfiable (witness accepted)
            if vf {
                let w = witness_f(&c);
                if c.clone().validate_fungible(w).is_err() {
                    report.oracle_failure(i, "", &format!("valid for fungible use but the witness amount {} is rejected", w), input.clone());
                }
                report.count("witness_fungible_checked");
            }
            if vnf {
                match witness_nf(&c) {
                    Some(w) => {
                        if c.clone().validate_non_fungible(&idset(&w)).is_err() {
                            report.oracle_failure(i, "", &format!("valid for non-fungible use but the witness ids {:?} are rejected", w), input.clone());
                        }
                        report.count("witness_non_fungible_checked");
                    }
                    None => report.count("witness_non_fungible_skipped_large"),
                }
            }
            // normalize preserves acceptance (valid general constraints)
            if let ManifestResourceConstraint::General(g) = &c {
                let mut n = g.clone();
                n.normalize();
                let mut n2 = n.clone();
                n2.normalize();
                if n2 != n {
                    report.oracle_failure(i, "", "normalize is not idempotent", input.clone());
                }
                if vf {
                    report.count("normalize_checked_fungible");
                    if known_empty_allowlist(g) {
                        report.count("known_class_empty_allowlist");
                    }
                    for a in amounts.iter().filter(|a| !a.is_negative()) {
                        if g.validate_fungible(*a).is_ok() != n.validate_fungible(*a).is_ok() {
                            let class = if known_empty_allowlist(g) { "fungible-empty-allowlist" } else { "" };
                            report.oracle_failure(i, class, &format!("normalize changes acceptance of fungible amount {}: before {:?} after {:?}", a, g.validate_fungible(*a), n.validate_fungible(*a)), input.clone());
                        }
                    }
                }
                if vnf {
                    report.count("normalize_checked_non_fungible");
                    if *g != n {
                        report.count("normalize_changed_something");
                    }
                    for s in sets.iter() {
                        let s2 = idset(s);
                        if g.validate_non_fungible_ids(&s2).is_ok() != n.validate_non_fungible_ids(&s2).is_ok() {
                            report.oracle_failure(i, "", &format!("normalize changes acceptance of ids {:?}", s), input.clone());
                        }
                    }
                }
            }
            if i < 3 {
                report.sample(json!({"constraint": constraint_coq(&c), "valid_f": vf, "valid_nf": vnf,
                    "fungible": amounts.iter().zip(fres.iter()).map(|(a, r)| format!("{} -> {}", a, vres_coq(r))).collect::<Vec<_>>()}));
            }
            cw.push(format!(
                "CValidate {} {} {} {} {}",
                constraint_coq(&c),
                coq_bool(vf),
                coq_bool(vnf),
                coq_list(amounts.iter().zip(fres.iter()).map(|(a, r)| format!("({}, {})", zc(a), vres_coq(r)))),
                coq_list(sets.iter().zip(nres.iter()).map(|(s, r)| format!("({}, {})", ids_coq(s), vres_coq(r))))
            ));
        } else if stream < 8 {
            // ---------- (b) normalize ----------
            let g = match preset { Some(Preset::Normalize(_, g)) => g.clone(), _ => gen_general(&mut rng, &mut report) };
            let mut n = g.clone();
            let r = catch(std::panic::AssertUnwindSafe(|| n.normalize()));
            if r.is_err() {
                report.oracle_failure(i, "", "normalize panicked", json!({"constraint": general_coq(&g)}));
            }
            report.count(if n == g { "normalize_identity" } else { "normalize_changes" });
            if n.required_ids != g.required_ids { report.count("normalize_sets_required"); }
            if n.allowed_ids != g.allowed_ids { report.count("normalize_sets_allowlist"); }
            report.case(&general_coq(&g), true);
            cw.push(format!("CNormalize {} {}", general_coq(&g), general_coq(&n)));
        } else {
            // ---------- (c) ManifestResourceConstraints ----------
            let nres = if preset.is_some() { 0 } else { rng.range(1, 4) as usize };
            let mut addrs: Vec<(u8, bool)> = (0..6u8).map(|k| (k, k % 2 == 0)).collect();
            rng.shuffle(&mut addrs);
            let mut cs = ManifestResourceConstraints::new();
            let mut cs_list = vec![];
            for k in 0..nres {
                let (ix, fung) = addrs[k];
                // mostly constraints valid for the resource type
                let mut c = gen_constraint(&mut rng, &mut report);
                for _ in 0..6 {
                    if c.is_valid_for(&raddr(ix, fung)) || rng.chance(1, 6) { break; }
                    c = gen_constraint(&mut rng, &mut report);
                }
                cs = cs.with_unchecked(raddr(ix, fung), c.clone());
                cs_list.push(((ix, fung), c));
            }
            // balances: each address at most once, positive / non-empty only (what add_* keeps)
            let mut bal = AggregateResourceBalances::new();
            let mut fb: Vec<((u8, bool), Decimal)> = vec![];
            let mut nb: Vec<((u8, bool), Ids)> = vec![];
            let mut order = addrs.clone();
            rng.shuffle(&mut order);
            if preset.is_some() { order.clear(); }
            if let Some(Preset::Constraints(_, pcs, pfb, pnb, _)) = preset {
                for (r, c) in pcs { cs = cs.with_unchecked(raddr(r.0, r.1), c.clone()); cs_list.push((*r, c.clone())); }
                for (r, a) in pfb { bal.add_fungible(raddr(r.0, r.1), *a); fb.push((*r, *a)); }
                for (r, st) in pnb { bal.add_non_fungible(raddr(r.0, r.1), idset(st)); nb.push((*r, st.clone())); }
            }
            for (ix, fung) in order {
                let specified = cs_list.iter().find(|(r, _)| *r == (ix, fung)).map(|(_, c)| c.clone());
                let p_present = if specified.is_some() { 4 } else { 1 };
                if !rng.chance(p_present, 5) { continue; }
                if fung {
                    let a = match &specified {
                        Some(c) if rng.chance(3, 4) => witness_f(c).checked_add(dec(if rng.chance(1, 4) { -1 } else { 0 })).unwrap_or(dec(1)),
                        _ => gen_amount(&mut rng, false),
                    };
                    if a.is_positive() {
                        bal.add_fungible(raddr(ix, fung), a);
                        fb.push(((ix, fung), a));
                    }
                } else {
                    let s = match &specified {
                        Some(c) if rng.chance(3, 4) && c.is_valid_for_non_fungible_use() => {
                            let mut w = witness_nf(c).unwrap_or_default();
                            if rng.chance(1, 5) && !w.is_empty() { w.pop(); }
                            w
                        }
                        _ => gen_ids(&mut rng, 9, 5),
                    };
                    if !s.is_empty() {
                        bal.add_non_fungible(raddr(ix, fung), idset(&s));
                        nb.push(((ix, fung), s));
                    }
                }
            }
            let prevent = match preset { Some(Preset::Constraints(_, _, _, _, p)) => *p, _ => rng.bool() };
            let valid = cs.is_valid();
            let cs2 = cs.clone();
            let res = catch(move || cs2.validate(bal, prevent));
            let res_coq = match &res {
                Ok(Ok(())) => "CsOk".to_string(),
                Ok(Err(ResourceConstraintsError::UnexpectedNonZeroBalanceOfUnspecifiedResource { resource_address })) => {
                    format!("(CsErr (EUnexpected {}))", raddr_coq(raddr_back(resource_address)))
                }
                Ok(Err(ResourceConstraintsError::ResourceConstraintFailed { resource_address, error })) => {
                    format!("(CsErr (EFailed {} {}))", raddr_coq(raddr_back(resource_address)), err_coq(error))
                }
                Err(_) => "(CsErr (EUnexpected (999, true)))".to_string(),
            };
            report.count(match &res { Ok(Ok(())) => "constraints_accept", Ok(Err(ResourceConstraintsError::UnexpectedNonZeroBalanceOfUnspecifiedResource { .. })) => "constraints_reject_unexpected", Ok(Err(_)) => "constraints_reject_failed", Err(_) => "constraints_panic" });
            // oracle: accepted iff (prevent -> every balance is of a specified resource) and every
            // constraint is satisfied by the balance of its resource
            let input = json!({"constraints": cs_list.iter().map(|(r, c)| format!("{:?} {}", r, constraint_coq(c))).collect::<Vec<_>>(),
                               "fungible": fb.iter().map(|(r, a)| format!("{:?} {}", r, a)).collect::<Vec<_>>(),
                               "non_fungible": nb.iter().map(|(r, s)| format!("{:?} {:?}", r, s)).collect::<Vec<_>>(), "prevent": prevent});
            match &res {
                Err(p) => report.oracle_failure(i, "", &format!("ManifestResourceConstraints::validate panicked: {}", p), input.clone()),
                Ok(r) => {
                    let specified = |r: &(u8, bool)| cs_list.iter().any(|(r2, _)| r2 == r);
                    let unexpected = fb.iter().any(|(r, _)| !specified(r)) || nb.iter().any(|(r, _)| !specified(r));
                    let all_sat = cs_list.iter().all(|(r, c)| {
                        if r.1 {
                            let a = fb.iter().find(|(r2, _)| r2 == r).map(|(_, a)| big(a)).unwrap_or(BigInt::from(0));
                            sat_f(c, &a)
                        } else {
                            let s = nb.iter().find(|(r2, _)| r2 == r).map(|(_, s)| set(s)).unwrap_or_default();
                            sat_nf(c, &s)
                        }
                    });
                    let expect = !(prevent && unexpected) && all_sat;
                    if r.is_ok() != expect {
                        report.oracle_failure(i, "", &format!("validate = {:?}, expected accept = {}", r, expect), input.clone());
                    }
                }
            }
            let cs_coq = coq_list(cs_list.iter().map(|(r, c)| format!("({}, {})", raddr_coq(*r), constraint_coq(c))));
            let b_coq = format!(
                "(mkBalances {} {})",
                coq_list(fb.iter().map(|(r, a)| format!("({}, {})", raddr_coq(*r), zc(a)))),
                coq_list(nb.iter().map(|(r, s)| format!("({}, {})", raddr_coq(*r), ids_coq(s))))
            );
            report.case(&format!("{}{}{}", cs_coq, b_coq, prevent), nres >= 2);
            cw.push(format!("CConstraints {} {} {} {} {}", cs_coq, b_coq, coq_bool(prevent), coq_bool(valid), res_coq));
        }
    }
    for cls in family_classes { report.floor(cls, 1); }
    let n = args.cases as u64;
    report.floor("fungible_accept", n / 4);
    report.floor("fungible_reject", n / 4);
    report.floor("non_fungible_accept", n / 8);
    report.floor("non_fungible_reject", n / 4);
    report.floor("valid_non_fungible", n / 10);
    report.floor("valid_fungible", n / 40);
    report.floor("normalize_changes", n / 40);
    report.floor("constraints_accept", n / 100);
    report.floor("constraints_reject_failed", n / 100);
    cw.write(&args.out, args.shards).unwrap();
    report.write(&args.out).unwrap();
}
