//! Shared by the C17 / C18 harness binaries (included with #[path]): history generator with keys
//! sharing long nibble prefixes, driver of the real 3-tier state tree
//! (`put_at_next_version` on a `TypedInMemoryTreeStore`), dumps, Coq printers and the direct
//! oracles (all evaluated on the implementation, independent of the Coq model).
#![allow(dead_code)]
use radix_common::crypto::{hash, Hash};
use radix_common::prelude::DatabaseUpdate;
use radix_substate_store_impls::state_tree::tree_store::*;
use radix_substate_store_impls::state_tree::{list_substate_hashes_at_version, put_at_next_version};
use radix_substate_store_interface::interface::*;
use std::collections::{BTreeMap, BTreeSet};
use vh_common::*;

pub type SubKey = (Vec<u8>, u8, Vec<u8>);

#[derive(Clone, Debug)]
pub enum PUpd {
    Delta(Vec<(Vec<u8>, Option<Vec<u8>>)>),
    Reset(Vec<(Vec<u8>, Vec<u8>)>),
}
pub type Commit = Vec<(Vec<u8>, Vec<(u8, PUpd)>)>;

pub fn to_db_updates(c: &Commit) -> DatabaseUpdates {
    let mut du = DatabaseUpdates::default();
    for (ek, pus) in c {
        let nu = du.node_updates.entry(ek.clone()).or_default();
        for (p, u) in pus {
            let pu = match u {
                PUpd::Delta(l) => PartitionDatabaseUpdates::Delta {
                    substate_updates: l
                        .iter()
                        .map(|(k, v)| {
                            (
                                DbSortKey(k.clone()),
                                match v {
                                    Some(v) => DatabaseUpdate::Set(v.clone()),
                                    None => DatabaseUpdate::Delete,
                                },
                            )
                        })
                        .collect(),
                },
                PUpd::Reset(l) => PartitionDatabaseUpdates::Reset {
                    new_substate_values: l.iter().map(|(k, v)| (DbSortKey(k.clone()), v.clone())).collect(),
                },
            };
            nu.partition_updates.insert(*p, pu);
        }
    }
    du
}

/// plain replay of a commit on a BTreeMap (the meaning of DatabaseUpdates)
pub fn apply_to_map(db: &mut BTreeMap<SubKey, Vec<u8>>, c: &Commit) {
    for (ek, pus) in c {
        for (p, u) in pus {
            match u {
                PUpd::Delta(l) => {
                    for (k, v) in l {
                        let key = (ek.clone(), *p, k.clone());
                        match v {
                            Some(v) => {
                                db.insert(key, v.clone());
                            }
                            None => {
                                db.remove(&key);
                            }
                        }
                    }
                }
                PUpd::Reset(l) => {
                    let keys: Vec<SubKey> = db
                        .range((ek.clone(), *p, vec![])..)
                        .take_while(|(k, _)| &k.0 == ek && k.1 == *p)
                        .map(|(k, _)| k.clone())
                        .collect();
                    for k in keys {
                        db.remove(&k);
                    }
                    for (k, v) in l {
                        db.insert((ek.clone(), *p, k.clone()), v.clone());
                    }
                }
            }
        }
    }
}

/// the commit that has the effect of `a` followed by `b`
pub fn merge(a: &Commit, b: &Commit) -> Commit {
    let mut out = a.clone();
    for (ek, pus) in b {
        let ei = match out.iter().position(|(e, _)| e == ek) {
            Some(i) => i,
            None => {
                out.push((ek.clone(), vec![]));
                out.len() - 1
            }
        };
        for (p, u) in pus {
            let slot = out[ei].1.iter().position(|(q, _)| q == p);
            match slot {
                None => out[ei].1.push((*p, u.clone())),
                Some(i) => {
                    let merged = match (&out[ei].1[i].1, u) {
                        (_, PUpd::Reset(r)) => PUpd::Reset(r.clone()),
                        (PUpd::Delta(d1), PUpd::Delta(d2)) => {
                            let mut d = d1.clone();
                            for (k, v) in d2 {
                                match d.iter().position(|(k1, _)| k1 == k) {
                                    Some(j) => d[j].1 = v.clone(),
                                    None => d.push((k.clone(), v.clone())),
                                }
                            }
                            PUpd::Delta(d)
                        }
                        (PUpd::Reset(r1), PUpd::Delta(d2)) => {
                            let mut r = r1.clone();
                            for (k, v) in d2 {
                                let pos = r.iter().position(|(k1, _)| k1 == k);
                                match (pos, v) {
                                    (Some(j), Some(v)) => r[j].1 = v.clone(),
                                    (None, Some(v)) => r.push((k.clone(), v.clone())),
                                    (Some(j), None) => {
                                        r.remove(j);
                                    }
                                    (None, None) => {}
                                }
                            }
                            PUpd::Reset(r)
                        }
                    };
                    out[ei].1[i].1 = merged;
                }
            }
        }
    }
    out
}

// ------------------------------------------------------------------------------------------------
// generator
// ------------------------------------------------------------------------------------------------

fn mutate_tail(rng: &mut Rng, stem: &[u8], span_nibbles: usize) -> Vec<u8> {
    // change one nibble among the last `span_nibbles` nibbles of the stem
    let mut k = stem.to_vec();
    let total = k.len() * 2;
    if total == 0 {
        return k;
    }
    let span = span_nibbles.min(total).max(1);
    let pos = total - 1 - rng.usize_below(span);
    let nib = rng.below(16) as u8;
    if pos % 2 == 0 {
        k[pos / 2] = (k[pos / 2] & 0x0f) | (nib << 4);
    } else {
        k[pos / 2] = (k[pos / 2] & 0xf0) | nib;
    }
    k
}

fn is_prefix(a: &[u8], b: &[u8]) -> bool {
    a.len() <= b.len() && &b[..a.len()] == a
}

pub struct Pools {
    pub entities: Vec<Vec<u8>>,
    pub partitions: Vec<u8>,
    pub sort_keys: Vec<Vec<u8>>,
    pub variable_len: bool,
}

pub fn gen_pools(rng: &mut Rng) -> Pools {
    let le = match rng.below(10) {
        0 => 50,
        1..=3 => 1,
        4..=6 => 2,
        _ => 3,
    };
    let stem = rng.bytes(le);
    let ne = if le == 50 { rng.range(1, 3) } else { rng.range(1, 6) } as usize;
    let mut entities: Vec<Vec<u8>> = vec![];
    while entities.len() < ne {
        let k = if rng.chance(if le == 50 { 4 } else { 1 }, 6) { rng.bytes(le) } else { mutate_tail(rng, &stem, 3) };
        if !entities.contains(&k) {
            entities.push(k);
        }
        if le == 1 && entities.len() >= 4 {
            break;
        }
    }
    let all_parts = [0u8, 1, 2, 16, 17, 0x40, 0x4f, 255];
    let np = rng.range(1, 4) as usize;
    let mut partitions = vec![];
    while partitions.len() < np {
        let p = *rng.pick(&all_parts);
        if !partitions.contains(&p) {
            partitions.push(p);
        }
    }
    let variable_len = rng.chance(1, 4);
    let ls = match rng.below(10) {
        0 => 35,
        1 => 8,
        2..=4 => 1,
        5..=7 => 2,
        _ => 3,
    };
    let sstem = rng.bytes(if variable_len { 6 } else { ls });
    let ns = rng.range(2, 10) as usize;
    let mut sort_keys: Vec<Vec<u8>> = vec![];
    let mut tries = 0;
    while sort_keys.len() < ns && tries < 200 {
        tries += 1;
        let k = if variable_len {
            let l = rng.range(1, 6) as usize;
            let base = mutate_tail(rng, &sstem[..l], 2);
            base
        } else if rng.chance(1, 6) {
            rng.bytes(ls)
        } else {
            mutate_tail(rng, &sstem, 4)
        };
        // keep the pool prefix-free (the tree's documented requirement)
        if sort_keys.iter().any(|x| is_prefix(x, &k) || is_prefix(&k, x)) {
            continue;
        }
        sort_keys.push(k);
    }
    Pools { entities, partitions, sort_keys, variable_len }
}

fn gen_value(rng: &mut Rng) -> Vec<u8> {
    let n = match rng.below(40) {
        0 => rng.range(120, 300),
        1 => 0,
        _ => rng.range(1, 40),
    } as usize;
    rng.bytes(n)
}

pub fn gen_commit(rng: &mut Rng, pools: &Pools, db: &BTreeMap<SubKey, Vec<u8>>) -> Commit {
    let mut c: Commit = vec![];
    let ne = rng.range(0, 3.min(pools.entities.len() as u64)) as usize;
    let ne = if ne == 0 && !rng.chance(1, 8) { 1 } else { ne };
    let mut es = pools.entities.clone();
    rng.shuffle(&mut es);
    for ek in es.into_iter().take(ne) {
        let mut ps = pools.partitions.clone();
        rng.shuffle(&mut ps);
        let lo = if rng.chance(1, 10) { 0 } else { 1 };
        let np = rng.range(lo, ps.len() as u64) as usize;
        let mut pus = vec![];
        for p in ps.into_iter().take(np) {
            let existing: Vec<Vec<u8>> = db
                .range((ek.clone(), p, vec![])..)
                .take_while(|(k, _)| k.0 == ek && k.1 == p)
                .map(|(k, _)| k.2.clone())
                .collect();
            let r = rng.below(100);
            let u = if r < 12 {
                // reset
                let n = rng.range(0, 4) as usize;
                let mut ks = pools.sort_keys.clone();
                rng.shuffle(&mut ks);
                PUpd::Reset(ks.into_iter().take(n).map(|k| (k, gen_value(rng))).collect())
            } else if r < 24 && !existing.is_empty() {
                // delete everything (maybe but one): exercises collapse to leaf / empty tier
                let mut ks = existing.clone();
                rng.shuffle(&mut ks);
                if rng.chance(1, 2) {
                    ks.pop();
                }
                PUpd::Delta(ks.into_iter().map(|k| (k, None)).collect())
            } else {
                let n = rng.range(0, 5.min(pools.sort_keys.len() as u64)) as usize;
                let mut ks = pools.sort_keys.clone();
                rng.shuffle(&mut ks);
                let mut l = vec![];
                for k in ks.into_iter().take(n) {
                    let exists = existing.contains(&k);
                    let del = if exists { rng.chance(2, 5) } else { rng.chance(1, 8) };
                    if del {
                        l.push((k, None));
                    } else if exists && rng.chance(1, 6) {
                        // rewrite the same value
                        let v = db.get(&(ek.clone(), p, k.clone())).unwrap().clone();
                        l.push((k, Some(v)));
                    } else {
                        l.push((k, Some(gen_value(rng))));
                    }
                }
                PUpd::Delta(l)
            };
            pus.push((p, u));
        }
        c.push((ek, pus));
    }
    c
}

// ------------------------------------------------------------------------------------------------
// driving the implementation
// ------------------------------------------------------------------------------------------------

pub fn nibbles_of_path(p: &NibblePath) -> Vec<u8> {
    (0..p.num_nibbles()).map(|i| u8::from(p.get_nibble(i))).collect()
}
pub fn nibbles_of_bytes(b: &[u8]) -> Vec<u8> {
    b.iter().flat_map(|x| [x >> 4, x & 15]).collect()
}
pub fn path_of_nibbles(ns: &[u8]) -> NibblePath {
    let mut p = NibblePath::new_even(vec![]);
    for n in ns {
        p.push(Nibble::from(*n));
    }
    p
}

pub type NodeKey = (u64, Vec<u8>); // version, nibbles

#[derive(Clone, Debug, PartialEq)]
pub enum Stale {
    Node(NodeKey),
    Subtree(NodeKey),
}

pub struct RunOut {
    pub roots: Vec<Hash>,
    pub stales: Vec<Vec<Stale>>,
    pub store: TypedInMemoryTreeStore,
    pub version: Option<u64>,
    /// per commit: keys reachable from that commit's root (only filled when `track_reach`)
    pub reach_per_commit: Vec<Result<Vec<NodeKey>, String>>,
}

pub fn run_history(commits: &[Commit], pruning: bool, track_reach: bool) -> Result<RunOut, String> {
    let store = if pruning { TypedInMemoryTreeStore::new().with_pruning_enabled() } else { TypedInMemoryTreeStore::new() };
    let mut version: Option<u64> = None;
    let mut roots = vec![];
    let mut stales = vec![];
    let mut reach_per_commit = vec![];
    for c in commits {
        let du = to_db_updates(c);
        let before = store.stale_part_buffer.borrow().len();
        let r = catch(std::panic::AssertUnwindSafe(|| put_at_next_version(&store, version, &du)))?;
        version = Some(version.unwrap_or(0) + 1);
        roots.push(r);
        let buf = store.stale_part_buffer.borrow();
        stales.push(
            buf[before..]
                .iter()
                .map(|p| match p {
                    StaleTreePart::Node(k) => Stale::Node((k.version(), nibbles_of_path(k.nibble_path()))),
                    StaleTreePart::Subtree(k) => Stale::Subtree((k.version(), nibbles_of_path(k.nibble_path()))),
                })
                .collect(),
        );
        drop(buf);
        if track_reach {
            reach_per_commit.push(reachable(&store, version.unwrap()).map(|v| v.into_iter().map(|(k, _)| k).collect()));
        }
    }
    Ok(RunOut { roots, stales, store, version, reach_per_commit })
}

pub fn get_node(store: &TypedInMemoryTreeStore, key: &NodeKey) -> Option<TreeNode> {
    store.tree_nodes.borrow().get(&StoredTreeNodeKey::new(key.0, path_of_nibbles(&key.1))).cloned()
}

/// depth-first walk from the root of `version` through all three tiers (children in nibble order;
/// below a leaf of the entity / partition tier: the lower-tier root named by its payload).
/// Err = a referenced node is not stored.
pub fn reachable(store: &TypedInMemoryTreeStore, version: u64) -> Result<Vec<(NodeKey, TreeNode)>, String> {
    fn go(
        store: &TypedInMemoryTreeStore,
        tier: u8,
        prefix: &[u8],
        path: &[u8],
        ver: u64,
        out: &mut Vec<(NodeKey, TreeNode)>,
    ) -> Result<(), String> {
        let mut full = prefix.to_vec();
        full.extend_from_slice(path);
        let key = (ver, full.clone());
        let node = get_node(store, &key).ok_or_else(|| format!("node v{}:{:?} referenced but not stored", ver, full))?;
        out.push((key, node.clone()));
        match node {
            TreeNodeV1::Null => {}
            TreeNodeV1::Leaf(l) => {
                if tier < 2 {
                    let mut np = full.clone();
                    np.extend(nibbles_of_path(&l.key_suffix));
                    np.extend_from_slice(&[5, 15]);
                    go(store, tier + 1, &np, &[], l.last_hash_change_version, out)?;
                }
            }
            TreeNodeV1::Internal(i) => {
                let mut cs: Vec<_> = i.children.iter().collect();
                cs.sort_by_key(|c| u8::from(c.nibble));
                for c in cs {
                    let mut p = path.to_vec();
                    p.push(u8::from(c.nibble));
                    go(store, tier, prefix, &p, c.version, out)?;
                }
            }
        }
        Ok(())
    }
    let mut out = vec![];
    go(store, 0, &[], &[], version, &mut out)?;
    Ok(out)
}

/// all keys of the subtree a `Subtree` stale part denotes, by the children recorded in the store
pub fn expand_subtree(store: &TypedInMemoryTreeStore, root: &NodeKey) -> Vec<NodeKey> {
    let mut out = vec![];
    let mut queue = std::collections::VecDeque::new();
    queue.push_back(root.clone());
    while let Some(k) = queue.pop_front() {
        if let Some(n) = get_node(store, &k) {
            if let TreeNodeV1::Internal(i) = &n {
                for c in &i.children {
                    let mut p = k.1.clone();
                    p.push(u8::from(c.nibble));
                    queue.push_back((c.version, p));
                }
            }
        }
        out.push(k);
    }
    out
}

pub fn sorted_store(store: &TypedInMemoryTreeStore) -> Vec<(NodeKey, TreeNode)> {
    let mut v: Vec<(NodeKey, TreeNode)> = store
        .tree_nodes
        .borrow()
        .iter()
        .map(|(k, n)| ((k.version(), nibbles_of_path(k.nibble_path())), n.clone()))
        .collect();
    v.sort_by(|a, b| a.0.cmp(&b.0));
    v
}

pub type Listing = Vec<(Vec<u8>, u8, Vec<(Vec<u8>, Hash)>)>;
pub fn listing(store: &TypedInMemoryTreeStore, version: u64) -> Result<Listing, String> {
    catch(std::panic::AssertUnwindSafe(|| {
        list_substate_hashes_at_version(store, version)
            .into_iter()
            .map(|(pk, m)| (pk.node_key, pk.partition_num, m.into_iter().map(|(k, h)| (k.0, h)).collect()))
            .collect()
    }))
}

/// one commit that writes the whole database into an empty tree
pub fn commit_of_map(db: &BTreeMap<SubKey, Vec<u8>>) -> Commit {
    let mut c: Commit = vec![];
    for ((ek, p, sk), v) in db {
        if c.last().map(|(e, _)| e != ek).unwrap_or(true) {
            c.push((ek.clone(), vec![]));
        }
        let pus = &mut c.last_mut().unwrap().1;
        if pus.last().map(|(q, _)| q != p).unwrap_or(true) {
            pus.push((*p, PUpd::Delta(vec![])));
        }
        if let PUpd::Delta(l) = &mut pus.last_mut().unwrap().1 {
            l.push((sk.clone(), Some(v.clone())));
        }
    }
    c
}

// ------------------------------------------------------------------------------------------------
// Coq printers
// ------------------------------------------------------------------------------------------------

/// Coq parses ~15k list elements per second, so byte strings are written as chunks: each chunk is
/// the primitive integer 0x01 b1 .. bk (k <= 7 bytes, sentinel byte 1 in front); `ub` in Corr/C17_run.v.
pub fn pk_bytes(bs: &[u8]) -> String {
    format!(
        "{}%uint63",
        coq_list(bs.chunks(7).map(|c| {
            let mut v: u64 = 1;
            for b in c {
                v = (v << 8) | *b as u64;
            }
            v.to_string()
        }))
    )
}
/// nibble lists: chunks of <= 14 nibbles with a sentinel nibble 1 in front (`un`)
pub fn pk_nibs(ns: &[u8]) -> String {
    format!(
        "{}%uint63",
        coq_list(ns.chunks(14).map(|c| {
            let mut v: u64 = 1;
            for b in c {
                v = (v << 4) | *b as u64;
            }
            v.to_string()
        }))
    )
}

pub fn coq_commit(c: &Commit) -> String {
    coq_list(c.iter().map(|(ek, pus)| {
        format!(
            "({}, {})",
            pk_bytes(ek),
            coq_list(pus.iter().map(|(p, u)| {
                let us = match u {
                    PUpd::Delta(l) => format!(
                        "PDelta {}",
                        coq_list(l.iter().map(|(k, v)| format!(
                            "({}, {})",
                            pk_bytes(k),
                            match v {
                                Some(v) => format!("Some {}", pk_bytes(v)),
                                None => "None".to_string(),
                            }
                        )))
                    ),
                    PUpd::Reset(l) => format!(
                        "PReset {}",
                        coq_list(l.iter().map(|(k, v)| format!("({}, {})", pk_bytes(k), pk_bytes(v))))
                    ),
                };
                format!("({}, {})", pk_bytes(&[*p]), us)
            }))
        )
    }))
}

pub fn coq_snode(n: &TreeNode) -> String {
    match n {
        TreeNodeV1::Null => "PNull".to_string(),
        TreeNodeV1::Leaf(l) => format!(
            "PLeaf {} {} {}",
            pk_nibs(&nibbles_of_path(&l.key_suffix)),
            pk_bytes(&l.value_hash.0),
            l.last_hash_change_version
        ),
        TreeNodeV1::Internal(i) => format!(
            "PInternal {}",
            coq_list(i.children.iter().map(|c| format!(
                "({},{},{},{})",
                u8::from(c.nibble),
                c.version,
                pk_bytes(&c.hash.0),
                coq_bool(c.is_leaf)
            )))
        ),
    }
}
pub fn coq_entries(v: &[(NodeKey, TreeNode)]) -> String {
    coq_list(v.iter().map(|(k, n)| format!("({}, {}, {})", k.0, pk_nibs(&k.1), coq_snode(n))))
}
pub fn coq_stale(s: &Stale) -> String {
    match s {
        Stale::Node(k) => format!("PStaleNode {} {}", k.0, pk_nibs(&k.1)),
        Stale::Subtree(k) => format!("PStaleSubtree {} {}", k.0, pk_nibs(&k.1)),
    }
}
pub fn coq_listing(l: &Listing) -> String {
    coq_list(l.iter().map(|(e, p, m)| {
        format!(
            "({}, {}, {})",
            pk_bytes(e),
            pk_bytes(&[*p]),
            coq_list(m.iter().map(|(k, h)| format!("({}, {})", pk_bytes(k), pk_bytes(&h.0))))
        )
    }))
}

/// the Coq term of type RV.Corr.C17_run.case
pub fn coq_case(pruning: bool, commits: &[Commit], out: &RunOut) -> Result<String, String> {
    let ver = out.version.ok_or("no commit")?;
    let reach = reachable(&out.store, ver)?;
    let lst = listing(&out.store, ver)?;
    Ok(format!(
        "(({}, {}, {}, {}, {}, {}, {}) : case)",
        coq_bool(pruning),
        coq_list(commits.iter().map(coq_commit)),
        coq_list(out.roots.iter().map(|h| pk_bytes(&h.0))),
        coq_list(out.stales.iter().map(|l| coq_list(l.iter().map(coq_stale)))),
        coq_entries(&sorted_store(&out.store)),
        coq_list(reach.iter().map(|(k, _)| format!("({}, {})", k.0, pk_nibs(&k.1)))),
        coq_listing(&lst)
    ))
}

// ------------------------------------------------------------------------------------------------
// direct oracles on the implementation
// ------------------------------------------------------------------------------------------------

/// C17: root after the history == root of a fresh tree holding the final substate set (one commit)
/// == root of a randomly re-batched history; empty database <=> zero root; listing == hashes of
/// the stored values.
pub fn oracle_c17(rng: &mut Rng, commits: &[Commit], out: &RunOut, db: &BTreeMap<SubKey, Vec<u8>>) -> Result<(), String> {
    let root = *out.roots.last().ok_or("no commit")?;
    let fresh = run_history(&[commit_of_map(db)], false, false).map_err(|e| format!("fresh build panicked: {}", e))?;
    if fresh.roots[0] != root {
        return Err(format!("root after history {} != root of fresh tree over the final substates {}", root, fresh.roots[0]));
    }
    if db.is_empty() != (root.0 == [0u8; 32]) {
        return Err(format!("empty database = {} but root = {}", db.is_empty(), root));
    }
    // random re-batching: merge adjacent commits
    let mut re: Vec<Commit> = vec![];
    for c in commits {
        if !re.is_empty() && rng.chance(1, 2) {
            let last = re.pop().unwrap();
            re.push(merge(&last, c));
        } else {
            re.push(c.clone());
        }
    }
    let rb = run_history(&re, false, false).map_err(|e| format!("re-batched history panicked: {}", e))?;
    if *rb.roots.last().unwrap() != root {
        return Err(format!("root {} != root of re-batched history {} ({} -> {} commits)", root, rb.roots.last().unwrap(), commits.len(), re.len()));
    }
    // listing
    let lst = listing(&out.store, out.version.unwrap())?;
    let mut got: BTreeMap<SubKey, Hash> = BTreeMap::new();
    for (e, p, m) in &lst {
        for (k, h) in m {
            if got.insert((e.clone(), *p, k.clone()), *h).is_some() {
                return Err("listing has a duplicate substate key".into());
            }
        }
    }
    let want: BTreeMap<SubKey, Hash> = db.iter().map(|(k, v)| (k.clone(), hash(v))).collect();
    if got != want {
        return Err(format!("list_substate_hashes has {} entries, database has {} (or hashes differ)", got.len(), want.len()));
    }
    Ok(())
}

/// C18 (pruning off): every part reported stale by commit i (Subtree expanded through the stored
/// nodes) is unreachable from the root of commit i and of every later commit.
pub fn oracle_c18_stale_dead(out: &RunOut) -> Result<(), String> {
    let reach: Vec<BTreeSet<NodeKey>> = out
        .reach_per_commit
        .iter()
        .map(|r| r.clone().map(|v| v.into_iter().collect::<BTreeSet<_>>()))
        .collect::<Result<_, _>>()?;
    for (i, l) in out.stales.iter().enumerate() {
        for s in l {
            let keys = match s {
                Stale::Node(k) => vec![k.clone()],
                Stale::Subtree(k) => expand_subtree(&out.store, k),
            };
            for k in keys {
                for (j, r) in reach.iter().enumerate().skip(i) {
                    if r.contains(&k) {
                        return Err(format!("node v{}:{:?} reported stale by commit {} is reachable from the root of commit {}", k.0, k.1, i + 1, j + 1));
                    }
                }
            }
        }
    }
    Ok(())
}

pub fn count_ops(c: &Commit) -> (u64, u64, u64, u64) {
    let (mut sets, mut dels, mut resets, mut empties) = (0, 0, 0, 0);
    for (_, pus) in c {
        for (_, u) in pus {
            match u {
                PUpd::Delta(l) => {
                    if l.is_empty() {
                        empties += 1;
                    }
                    for (_, v) in l {
                        if v.is_some() {
                            sets += 1
                        } else {
                            dels += 1
                        }
                    }
                }
                PUpd::Reset(l) => {
                    resets += 1;
                    sets += l.len() as u64;
                }
            }
        }
    }
    (sets, dels, resets, empties)
}

// ------------------------------------------------------------------------------------------------
// deterministic boundary family (identical for every seed; generated before the random stream)
// ------------------------------------------------------------------------------------------------

/// what the substate-tier root of (E1, partition 6) must look like at the end (checked on the
/// implementation's store, so that a boundary case that stops reaching its branch is noticed)
#[derive(Clone, Debug, PartialEq)]
pub enum Shape {
    Any,
    Leaf,
    Internal(usize),
    Absent,
}

pub struct Boundary {
    pub class: &'static str,
    pub commits: Vec<Commit>,
    pub shape: Shape,
}

pub const E1: [u8; 2] = [0x12, 0x34];
pub const E2: [u8; 2] = [0x12, 0x35]; // shares all but the last nibble with E1
pub const E3: [u8; 2] = [0xf2, 0x34]; // differs in the first nibble (0x1 vs 0xf)

fn k(x: u16) -> Vec<u8> {
    x.to_be_bytes().to_vec()
}
fn v(x: u8) -> Vec<u8> {
    vec![x, x ^ 0x5a, 7]
}
fn set(x: u16, val: u8) -> (Vec<u8>, Option<Vec<u8>>) {
    (k(x), Some(v(val)))
}
fn del(x: u16) -> (Vec<u8>, Option<Vec<u8>>) {
    (k(x), None)
}
/// one commit touching partition 6 of E1 with a delta
fn d1(l: Vec<(Vec<u8>, Option<Vec<u8>>)>) -> Commit {
    vec![(E1.to_vec(), vec![(6, PUpd::Delta(l))])]
}
fn dn(e: &[u8], p: u8, l: Vec<(Vec<u8>, Option<Vec<u8>>)>) -> Commit {
    vec![(e.to_vec(), vec![(p, PUpd::Delta(l))])]
}
fn rs(e: &[u8], p: u8, l: Vec<(u16, u8)>) -> Commit {
    vec![(e.to_vec(), vec![(p, PUpd::Reset(l.into_iter().map(|(x, y)| (k(x), v(y))).collect()))])]
}

pub fn boundary_family() -> Vec<Boundary> {
    let mut f: Vec<Boundary> = vec![];
    let mut add = |class: &'static str, commits: Vec<Commit>, shape: Shape| f.push(Boundary { class, commits, shape });

    // --- a single leaf: create, overwrite, rewrite same value, delete
    add("single_leaf_overwrite_delete", vec![d1(vec![set(0x0000, 1)]), d1(vec![set(0x0000, 2)]), d1(vec![set(0x0000, 2)]), d1(vec![del(0x0000)])], Shape::Absent);
    add("single_leaf_root", vec![d1(vec![set(0xabcd, 1)])], Shape::Leaf);

    // --- second key sharing 0,1,2,3 leading nibbles (nibble 0 against nibble 15), in two commits
    //     (existing-leaf path) and in one commit (fresh-subtree path); then delete either key so that
    //     the remaining leaf moves up that many levels
    for (cls2, cls1, other) in [
        ("split_share0_two_commits", "split_share0_one_commit", 0xf000u16),
        ("split_share1_two_commits", "split_share1_one_commit", 0x0f00),
        ("split_share2_two_commits", "split_share2_one_commit", 0x00f0),
        ("split_share3_two_commits", "split_share3_one_commit", 0x000f),
    ] {
        add(cls2, vec![d1(vec![set(0x0000, 1)]), d1(vec![set(other, 2)])], Shape::Internal(if other == 0xf000 { 2 } else { 1 }));
        add(cls1, vec![d1(vec![set(0x0000, 1), set(other, 2)])], Shape::Internal(if other == 0xf000 { 2 } else { 1 }));
    }
    for (cls_a, cls_b, other) in [
        ("collapse_up1_delete_new", "collapse_up1_delete_old", 0xf000u16),
        ("collapse_up2_delete_new", "collapse_up2_delete_old", 0x0f00),
        ("collapse_up3_delete_new", "collapse_up3_delete_old", 0x00f0),
        ("collapse_up4_delete_new", "collapse_up4_delete_old", 0x000f),
    ] {
        add(cls_a, vec![d1(vec![set(0x0000, 1)]), d1(vec![set(other, 2)]), d1(vec![del(other)])], Shape::Leaf);
        add(cls_b, vec![d1(vec![set(0x0000, 1), set(other, 2)]), d1(vec![del(0x0000)])], Shape::Leaf);
    }
    // collapse where the moved leaf is replaced in the same commit / a sibling is added in the same commit
    add("collapse_and_overwrite_survivor", vec![d1(vec![set(0x0000, 1), set(0x000f, 2)]), d1(vec![del(0x0000), set(0x000f, 3)])], Shape::Leaf);
    add("delete_one_add_other_same_bucket", vec![d1(vec![set(0x0000, 1), set(0x000f, 2)]), d1(vec![del(0x0000), set(0x0007, 3)])], Shape::Internal(1));
    add("delete_existing_leaf_add_same_bucket", vec![d1(vec![set(0x0000, 1)]), d1(vec![del(0x0000), set(0x000f, 3)])], Shape::Leaf);
    add("delete_existing_leaf_add_two", vec![d1(vec![set(0x0000, 1)]), d1(vec![del(0x0000), set(0x000f, 3), set(0x00ff, 4)])], Shape::Internal(1));

    // --- three keys: a deep pair and a sibling at various levels
    add("three_keys_delete_deep_one", vec![d1(vec![set(0x0000, 1), set(0x000f, 2), set(0x00f0, 3)]), d1(vec![del(0x000f)])], Shape::Internal(1));
    add("three_keys_delete_sibling_keeps_chain", vec![d1(vec![set(0x0000, 1), set(0x0001, 2), set(0xf000, 3)]), d1(vec![del(0xf000)])], Shape::Internal(1));
    add("chain_collapses_to_root", vec![d1(vec![set(0x0000, 1), set(0x0001, 2), set(0xf000, 3)]), d1(vec![del(0xf000)]), d1(vec![del(0x0001)])], Shape::Leaf);
    add("chain_child_collapses_next_to_sibling", vec![d1(vec![set(0x0000, 1), set(0x0001, 2), set(0xf000, 3)]), d1(vec![del(0x0001)])], Shape::Internal(2));
    add("internal_child_replaced_by_leaf_and_sibling_deleted", vec![d1(vec![set(0x0000, 1), set(0x0001, 2), set(0xf000, 3)]), d1(vec![del(0x0001), del(0xf000)])], Shape::Leaf);

    // --- child positions: all 16 children, extreme pairs, the 7/8 boundary
    let all16: Vec<(Vec<u8>, Option<Vec<u8>>)> = (0..16u16).map(|n| set(n << 12, n as u8)).collect();
    add("sixteen_children", vec![d1(all16.clone())], Shape::Internal(16));
    add("sixteen_children_keep_last", vec![d1(all16.clone()), d1((0..15u16).map(|n| del(n << 12)).collect())], Shape::Leaf);
    add("sixteen_children_keep_first_and_last", vec![d1(all16.clone()), d1((1..15u16).map(|n| del(n << 12)).collect())], Shape::Internal(2));
    add("sixteen_children_delete_all", vec![d1(all16.clone()), d1((0..16u16).map(|n| del(n << 12)).collect())], Shape::Absent);
    for (cls, a, b) in [("children_0_1", 0x0000u16, 0x1000u16), ("children_7_8", 0x7000, 0x8000), ("children_14_15", 0xe000, 0xf000), ("children_3_4", 0x3000, 0x4000), ("children_11_12", 0xb000, 0xc000)] {
        add(cls, vec![d1(vec![set(a, 1), set(b, 2)])], Shape::Internal(2));
    }
    add("only_internal_child_at_15", vec![d1(vec![set(0xf000, 1), set(0xf00f, 2)])], Shape::Internal(1));
    add("only_internal_child_at_0_second_level_15", vec![d1(vec![set(0x0f00, 1), set(0x0f0f, 2)])], Shape::Internal(1));

    // --- replace the whole content in one commit
    add("delete_all_in_one_commit", vec![d1(vec![set(0x0000, 1), set(0xf000, 2)]), d1(vec![del(0x0000), del(0xf000)])], Shape::Absent);
    add("delete_all_add_one_leaf", vec![d1(vec![set(0x0000, 1), set(0xf000, 2)]), d1(vec![del(0x0000), del(0xf000), set(0x7000, 3)])], Shape::Leaf);
    add("delete_all_add_two_same_nibble", vec![d1(vec![set(0x0000, 1), set(0xf000, 2)]), d1(vec![del(0x0000), del(0xf000), set(0x7000, 3), set(0x7001, 4)])], Shape::Internal(1));
    add("delete_all_add_two_other_nibbles", vec![d1(vec![set(0x0000, 1), set(0xf000, 2)]), d1(vec![del(0x0000), del(0xf000), set(0x7000, 3), set(0x8000, 4)])], Shape::Internal(2));

    // --- deletes of keys that do not exist
    add("delete_missing_on_leaf_root_other_bucket", vec![d1(vec![set(0x0000, 1)]), d1(vec![del(0xf000)])], Shape::Leaf);
    add("delete_missing_on_leaf_root_same_bucket", vec![d1(vec![set(0x0000, 1)]), d1(vec![del(0x000f)])], Shape::Leaf);
    add("delete_missing_in_internal", vec![d1(vec![set(0x0000, 1), set(0xf000, 2)]), d1(vec![del(0x7000), del(0x0001)])], Shape::Internal(2));
    add("delete_missing_on_empty", vec![d1(vec![del(0x0000)])], Shape::Absent);

    // --- empty updates
    add("empty_delta_on_leaf_root", vec![d1(vec![set(0x0000, 1)]), d1(vec![])], Shape::Leaf);
    add("empty_delta_on_internal_root", vec![d1(vec![set(0x0000, 1), set(0xf000, 2)]), d1(vec![])], Shape::Internal(2));
    add("empty_delta_on_missing_partition", vec![d1(vec![set(0x0000, 1)]), dn(&E1, 7, vec![])], Shape::Leaf);
    add("empty_delta_first_commit", vec![d1(vec![]), d1(vec![set(0x0000, 1)])], Shape::Leaf);
    add("empty_commit_after_data", vec![d1(vec![set(0x0000, 1)]), vec![], vec![], d1(vec![set(0x0001, 2)])], Shape::Internal(1));
    add("entity_without_partitions", vec![d1(vec![set(0x0000, 1)]), vec![(E1.to_vec(), vec![])], vec![(E2.to_vec(), vec![])]], Shape::Leaf);

    // --- a tier becomes empty: the leaf above must go; and comes back
    add("last_substate_of_partition_other_partition_stays", vec![vec![(E1.to_vec(), vec![(6, PUpd::Delta(vec![set(0x0000, 1)])), (7, PUpd::Delta(vec![set(0x0000, 2)]))])], d1(vec![del(0x0000)])], Shape::Absent);
    add("last_substate_of_entity_other_entity_stays", vec![d1(vec![set(0x0000, 1)]), dn(&E2, 6, vec![set(0x0000, 2)]), d1(vec![del(0x0000)])], Shape::Absent);
    add("last_substate_of_database", vec![d1(vec![set(0x0000, 1)]), d1(vec![del(0x0000)])], Shape::Absent);
    add("database_emptied_then_refilled", vec![d1(vec![set(0x0000, 1)]), d1(vec![del(0x0000)]), d1(vec![set(0x0000, 3)]), dn(&E3, 6, vec![set(0x0001, 4)])], Shape::Leaf);
    add("partition_recreated_after_delete", vec![vec![(E1.to_vec(), vec![(6, PUpd::Delta(vec![set(0x0000, 1)])), (7, PUpd::Delta(vec![set(0x0000, 2)]))])], d1(vec![del(0x0000)]), d1(vec![set(0x000f, 5)])], Shape::Leaf);
    add("two_partitions_emptied_in_one_commit", vec![vec![(E1.to_vec(), vec![(6, PUpd::Delta(vec![set(0x0000, 1)])), (7, PUpd::Delta(vec![set(0x0000, 2)]))])], vec![(E1.to_vec(), vec![(6, PUpd::Delta(vec![del(0x0000)])), (7, PUpd::Delta(vec![del(0x0000)]))])]], Shape::Absent);
    add("one_partition_emptied_one_created_same_commit", vec![d1(vec![set(0x0000, 1)]), vec![(E1.to_vec(), vec![(6, PUpd::Delta(vec![del(0x0000)])), (7, PUpd::Delta(vec![set(0x0000, 2)]))])]], Shape::Absent);

    // --- partition reset
    add("reset_to_empty", vec![d1(vec![set(0x0000, 1), set(0xf000, 2)]), rs(&E1, 6, vec![])], Shape::Absent);
    add("reset_to_values", vec![d1(vec![set(0x0000, 1), set(0xf000, 2)]), rs(&E1, 6, vec![(0x0000, 9), (0x000f, 8)])], Shape::Internal(1));
    add("reset_to_same_values", vec![d1(vec![set(0x0000, 1), set(0xf000, 2)]), rs(&E1, 6, vec![(0x0000, 1), (0xf000, 2)])], Shape::Internal(2));
    add("reset_missing_partition_with_values", vec![rs(&E1, 6, vec![(0x0000, 1)])], Shape::Leaf);
    add("reset_missing_partition_empty", vec![rs(&E1, 6, vec![]), d1(vec![set(0x0000, 1)])], Shape::Leaf);
    add("reset_then_delta", vec![d1(vec![set(0x0000, 1), set(0xf000, 2)]), rs(&E1, 6, vec![(0x7000, 3)]), d1(vec![set(0x7001, 4), del(0x7000)])], Shape::Leaf);
    add("delta_then_reset_then_reset", vec![d1(vec![set(0x0000, 1)]), rs(&E1, 6, vec![(0x0000, 2), (0x0001, 3)]), rs(&E1, 6, vec![(0xf000, 4)])], Shape::Leaf);
    add("reset_deep_tree", vec![d1(vec![set(0x0000, 1), set(0x0001, 2), set(0x0010, 3), set(0x0100, 4), set(0x1000, 5)]), rs(&E1, 6, vec![(0x0000, 1)])], Shape::Leaf);
    add("reset_one_partition_delta_other", vec![vec![(E1.to_vec(), vec![(6, PUpd::Delta(vec![set(0x0000, 1)])), (7, PUpd::Delta(vec![set(0x0000, 2)]))])], vec![(E1.to_vec(), vec![(7, PUpd::Reset(vec![])), (6, PUpd::Delta(vec![set(0x0001, 3)]))])]], Shape::Internal(1));

    // --- the lower tier is found through an old payload version
    add("untouched_for_three_commits_then_touched", vec![d1(vec![set(0x0000, 1)]), dn(&E3, 6, vec![set(0x0000, 2)]), dn(&E3, 6, vec![set(0x0001, 3)]), dn(&E3, 7, vec![set(0x0001, 3)]), d1(vec![set(0x0001, 4)])], Shape::Internal(1));
    add("sibling_entity_sharing_all_but_last_nibble", vec![d1(vec![set(0x0000, 1)]), dn(&E2, 6, vec![set(0x0000, 2)]), d1(vec![set(0x000f, 3)]), dn(&E2, 6, vec![del(0x0000)])], Shape::Internal(1));
    add("entities_first_nibble_1_and_15", vec![d1(vec![set(0x0000, 1)]), dn(&E3, 6, vec![set(0x0000, 2)]), dn(&E3, 6, vec![del(0x0000)])], Shape::Leaf);

    // --- partition numbers at the corners of the 2-nibble partition tier
    add("partition_numbers_corners", vec![vec![(E1.to_vec(), vec![(0x00, PUpd::Delta(vec![set(0x0000, 1)])), (0xff, PUpd::Delta(vec![set(0x0000, 2)])), (0x0f, PUpd::Delta(vec![set(0x0000, 3)])), (0xf0, PUpd::Delta(vec![set(0x0000, 4)])), (6, PUpd::Delta(vec![set(0x0000, 5)]))])], vec![(E1.to_vec(), vec![(0xff, PUpd::Delta(vec![del(0x0000)])), (0x00, PUpd::Reset(vec![]))])]], Shape::Leaf);

    // --- value and key sizes (hash block boundaries; the 32-byte key is the length at which leaf and
    //     internal pre-images have the same size)
    let val = |n: usize| -> Vec<u8> { (0..n).map(|i| (i * 7 + 3) as u8).collect() };
    add("value_sizes", vec![d1(vec![(k(0x0000), Some(val(0))), (k(0x0001), Some(val(1))), (k(0x0002), Some(val(127))), (k(0x0003), Some(val(128))), (k(0x0004), Some(val(129))), (k(0x0005), Some(val(300)))])], Shape::Internal(1));
    add("sort_key_32_bytes", vec![dn(&E1, 6, vec![(val(32), Some(v(1)))]), dn(&E1, 6, vec![({ let mut x = val(32); x[31] ^= 1; x }, Some(v(2)))])], Shape::Internal(1));
    add("sort_key_1_byte_and_35_bytes_partitions", vec![vec![(E1.to_vec(), vec![(6, PUpd::Delta(vec![(vec![0x00], Some(v(1))), (vec![0xff], Some(v(2))), (vec![0x0f], Some(v(3)))])), (7, PUpd::Delta(vec![(val(35), Some(v(4)))]))])]], Shape::Internal(2));
    add("entity_key_50_bytes", vec![vec![(val(50), vec![(6, PUpd::Delta(vec![set(0x0000, 1)]))])], vec![({ let mut x = val(50); x[49] ^= 0x01; x }, vec![(6, PUpd::Delta(vec![set(0x0000, 2)]))])], vec![(val(50), vec![(6, PUpd::Delta(vec![del(0x0000)]))])]], Shape::Any);
    f
}

/// the substate-tier root of (E1, partition 6) among the reachable nodes
pub fn shape_of(reach: &[(NodeKey, TreeNode)]) -> Shape {
    let mut path = nibbles_of_bytes(&E1);
    path.extend_from_slice(&[5, 15, 0, 6, 5, 15]);
    for (key, node) in reach {
        if key.1 == path {
            return match node {
                TreeNodeV1::Leaf(_) => Shape::Leaf,
                TreeNodeV1::Internal(i) => Shape::Internal(i.children.len()),
                TreeNodeV1::Null => Shape::Absent,
            };
        }
    }
    Shape::Absent
}
