//! helpers shared by the vh-light harness binaries (repo-specific; generic ones are in vh-common)
pub mod dec;
