//! Shared by the c22 / c23 / gen_c22 harness binaries (included with #[path], after `mod sborir`):
//! Coq printers for real Scrypto schemas (terms of coq/Model/C22_Types.v), a random schema
//! generator, a type-directed value generator (values that are meant to be valid for a type of a
//! schema) and schema mutations.
#![allow(dead_code)]
use crate::sborir::*;
use radix_common::prelude::*;
use sbor::*;
use vh_common::*;

pub type SK = ScryptoLocalTypeKind;
pub type SV = TypeValidation<ScryptoCustomTypeValidation>;

// ------------------------------------------------------------------------------------------------
// Coq printers
// ------------------------------------------------------------------------------------------------
pub fn coq_tid(t: &LocalTypeId) -> String {
    match t {
        LocalTypeId::WellKnown(w) => format!("(WK {})", w.as_index()),
        LocalTypeId::SchemaLocalIndex(i) => format!("(Loc {})", i),
    }
}
pub fn coq_tids(ts: &[LocalTypeId]) -> String {
    coq_list(ts.iter().map(coq_tid))
}
pub fn coq_kind(k: &SK) -> String {
    match k {
        TypeKind::Any => "TAny".into(),
        TypeKind::Bool => "TBool".into(),
        TypeKind::I8 => "(TInt I8)".into(),
        TypeKind::I16 => "(TInt I16)".into(),
        TypeKind::I32 => "(TInt I32)".into(),
        TypeKind::I64 => "(TInt I64)".into(),
        TypeKind::I128 => "(TInt I128)".into(),
        TypeKind::U8 => "(TInt U8)".into(),
        TypeKind::U16 => "(TInt U16)".into(),
        TypeKind::U32 => "(TInt U32)".into(),
        TypeKind::U64 => "(TInt U64)".into(),
        TypeKind::U128 => "(TInt U128)".into(),
        TypeKind::String => "TString".into(),
        TypeKind::Array { element_type } => format!("(TArray {})", coq_tid(element_type)),
        TypeKind::Tuple { field_types } => format!("(TTuple {})", coq_tids(field_types)),
        TypeKind::Enum { variants } => format!(
            "(TEnum {})",
            coq_list(variants.iter().map(|(d, f)| format!("({}, {})", d, coq_tids(f))))
        ),
        TypeKind::Map { key_type, value_type } => {
            format!("(TMap {} {})", coq_tid(key_type), coq_tid(value_type))
        }
        TypeKind::Custom(c) => format!(
            "(TCustom {})",
            match c {
                ScryptoCustomTypeKind::Reference => "TRef",
                ScryptoCustomTypeKind::Own => "TOwn",
                ScryptoCustomTypeKind::Decimal => "TDec",
                ScryptoCustomTypeKind::PreciseDecimal => "TPDec",
                ScryptoCustomTypeKind::NonFungibleLocalId => "TNfid",
            }
        ),
    }
}
fn coq_nb<T: std::fmt::Display + sbor::NumericValidationBound>(i: &str, b: &NumericValidation<T>) -> String {
    format!(
        "(VNum {} {{| nb_min := {}; nb_max := {} |}})",
        i,
        coq_option(b.min.map(|x| coq_z(x))),
        coq_option(b.max.map(|x| coq_z(x)))
    )
}
fn coq_lb(b: &LengthValidation) -> String {
    format!(
        "{{| lb_min := {}; lb_max := {} |}}",
        coq_option(b.min.map(|x| format!("{}", x))),
        coq_option(b.max.map(|x| format!("{}", x)))
    )
}
fn typed_id(p: &Option<PackageAddress>, s: &str) -> String {
    coq_bytes(&scrypto_encode(&(p.clone(), s.to_string())).unwrap())
}
pub fn coq_val(v: &SV) -> String {
    match v {
        TypeValidation::None => "VNone".into(),
        TypeValidation::I8(b) => coq_nb("I8", b),
        TypeValidation::I16(b) => coq_nb("I16", b),
        TypeValidation::I32(b) => coq_nb("I32", b),
        TypeValidation::I64(b) => coq_nb("I64", b),
        TypeValidation::I128(b) => coq_nb("I128", b),
        TypeValidation::U8(b) => coq_nb("U8", b),
        TypeValidation::U16(b) => coq_nb("U16", b),
        TypeValidation::U32(b) => coq_nb("U32", b),
        TypeValidation::U64(b) => coq_nb("U64", b),
        TypeValidation::U128(b) => coq_nb("U128", b),
        TypeValidation::String(b) => format!("(VStr {})", coq_lb(b)),
        TypeValidation::Array(b) => format!("(VArr {})", coq_lb(b)),
        TypeValidation::Map(b) => format!("(VMapV {})", coq_lb(b)),
        TypeValidation::Custom(ScryptoCustomTypeValidation::Reference(r)) => format!(
            "(VCRef {})",
            match r {
                ReferenceValidation::IsGlobal => "RIsGlobal".to_string(),
                ReferenceValidation::IsGlobalPackage => "RIsGlobalPackage".to_string(),
                ReferenceValidation::IsGlobalComponent => "RIsGlobalComponent".to_string(),
                ReferenceValidation::IsGlobalResourceManager => "RIsGlobalResourceManager".to_string(),
                ReferenceValidation::IsGlobalTyped(p, s) => format!("(RIsGlobalTyped {})", typed_id(p, s)),
                ReferenceValidation::IsInternal => "RIsInternal".to_string(),
                ReferenceValidation::IsInternalTyped(p, s) => format!("(RIsInternalTyped {})", typed_id(p, s)),
            }
        ),
        TypeValidation::Custom(ScryptoCustomTypeValidation::Own(o)) => format!(
            "(VCOwn {})",
            match o {
                OwnValidation::IsBucket => "OIsBucket".to_string(),
                OwnValidation::IsProof => "OIsProof".to_string(),
                OwnValidation::IsVault => "OIsVault".to_string(),
                OwnValidation::IsKeyValueStore => "OIsKeyValueStore".to_string(),
                OwnValidation::IsGlobalAddressReservation => "OIsGlobalAddressReservation".to_string(),
                OwnValidation::IsTypedObject(p, s) => format!("(OIsTypedObject {})", typed_id(p, s)),
            }
        ),
    }
}
pub fn coq_name(n: &Option<std::borrow::Cow<'static, str>>) -> String {
    coq_option(n.as_ref().map(|s| coq_bytes(s.as_bytes())))
}
pub fn coq_meta(m: &TypeMetadata) -> String {
    let ch = match &m.child_names {
        None => "None".to_string(),
        Some(ChildNames::NamedFields(f)) => format!(
            "(Some (NamedFields {}))",
            coq_list(f.iter().map(|s| coq_bytes(s.as_bytes())))
        ),
        Some(ChildNames::EnumVariants(vs)) => format!(
            "(Some (EnumVariants {}))",
            coq_list(vs.iter().map(|(d, m)| format!("({}, {})", d, coq_meta(m))))
        ),
    };
    format!("(TMeta {} {})", coq_name(&m.type_name), ch)
}
pub fn coq_schema(s: &ScryptoSchema) -> String {
    format!(
        "{{| s_kinds := {}; s_metas := {}; s_vals := {} |}}",
        coq_list(s.type_kinds.iter().map(coq_kind)),
        coq_list(s.type_metadata.iter().map(coq_meta)),
        coq_list(s.type_validations.iter().map(coq_val))
    )
}

// ------------------------------------------------------------------------------------------------
// random schemas
// ------------------------------------------------------------------------------------------------
pub const ANY: u8 = 0x40;
pub fn wk(i: u8) -> LocalTypeId {
    LocalTypeId::WellKnown(WellKnownTypeId::of(i))
}
pub fn well_known_ids() -> Vec<u8> {
    (0u16..=255)
        .map(|i| i as u8)
        .filter(|i| ScryptoCustomSchema::resolve_well_known_type(WellKnownTypeId::of(*i)).is_some())
        .collect()
}

pub struct SchemaCfg {
    pub n_types: usize,
    pub allow_invalid: bool, // dangling ids, kind/validation mismatches
}

fn gen_child_id(rng: &mut Rng, n: usize, wks: &[u8], allow_invalid: bool) -> LocalTypeId {
    if allow_invalid && rng.chance(1, 40) {
        return if rng.bool() {
            LocalTypeId::SchemaLocalIndex(n + rng.usize_below(3))
        } else {
            // a well-known index that does not resolve
            let free: Vec<u8> = (0u16..=255).map(|i| i as u8).filter(|i| !wks.contains(i)).collect();
            wk(*rng.pick(&free))
        };
    }
    match rng.below(10) {
        0..=4 if n > 0 => LocalTypeId::SchemaLocalIndex(rng.usize_below(n)),
        5 => wk(ANY),
        6 => wk(*rng.pick(wks)),
        // the simple well-known types (bool, ints, string, bytes, unit)
        _ => wk(*rng.pick(&[1u8, 2, 3, 4, 5, 6, 7, 7, 8, 9, 10, 11, 12, 12, 0x41, 0x42])),
    }
}

fn ident(rng: &mut Rng) -> String {
    const NAMES: [&str; 8] = ["Alpha", "Beta", "Gamma", "Delta", "x", "y", "count", "Inner"];
    format!("{}{}", rng.pick(&NAMES), rng.below(4))
}

pub fn gen_len_bounds(rng: &mut Rng) -> LengthValidation {
    let a = *rng.pick(&[0u32, 1, 2, 3, 5]);
    let b = a + *rng.pick(&[0u32, 1, 2, 10, 300]);
    match rng.below(5) {
        0 => LengthValidation { min: None, max: None },
        1 => LengthValidation { min: Some(a), max: None },
        2 => LengthValidation { min: None, max: Some(b) },
        3 => LengthValidation { min: Some(a), max: Some(b) },
        _ => LengthValidation { min: Some(0), max: Some(u32::MAX) },
    }
}
fn nb<T: sbor::NumericValidationBound + TryFrom<i128>>(rng: &mut Rng) -> NumericValidation<T> {
    let lo_c: [i128; 5] = [-130, -1, 0, 1, 100];
    let lo = *rng.pick(&lo_c);
    let hi = lo + *rng.pick(&[0i128, 1, 27, 200, 70000]);
    let c = |x: i128| T::try_from(x).ok();
    match rng.below(5) {
        0 => NumericValidation { min: None, max: None },
        1 => NumericValidation { min: c(lo), max: None },
        2 => NumericValidation { min: None, max: c(hi) },
        3 => NumericValidation { min: c(lo), max: c(hi) },
        _ => NumericValidation { min: Some(T::MIN_VALUE), max: Some(T::MAX_VALUE) },
    }
}
pub fn gen_ref_validation(rng: &mut Rng) -> ReferenceValidation {
    match rng.below(7) {
        0 => ReferenceValidation::IsGlobal,
        1 => ReferenceValidation::IsGlobalPackage,
        2 => ReferenceValidation::IsGlobalComponent,
        3 => ReferenceValidation::IsGlobalResourceManager,
        4 => ReferenceValidation::IsGlobalTyped(if rng.bool() { Some(RESOURCE_PACKAGE) } else { None }, ident(rng)),
        5 => ReferenceValidation::IsInternal,
        _ => ReferenceValidation::IsInternalTyped(if rng.bool() { Some(RESOURCE_PACKAGE) } else { None }, ident(rng)),
    }
}
pub fn gen_own_validation(rng: &mut Rng) -> OwnValidation {
    match rng.below(6) {
        0 => OwnValidation::IsBucket,
        1 => OwnValidation::IsProof,
        2 => OwnValidation::IsVault,
        3 => OwnValidation::IsKeyValueStore,
        4 => OwnValidation::IsGlobalAddressReservation,
        _ => OwnValidation::IsTypedObject(if rng.bool() { Some(RESOURCE_PACKAGE) } else { None }, ident(rng)),
    }
}
/// the validation that belongs to kind `k` (schema-valid), or None
pub fn gen_validation_for(rng: &mut Rng, k: &SK) -> SV {
    if rng.chance(1, 2) {
        return TypeValidation::None;
    }
    match k {
        TypeKind::I8 => TypeValidation::I8(nb(rng)),
        TypeKind::I16 => TypeValidation::I16(nb(rng)),
        TypeKind::I32 => TypeValidation::I32(nb(rng)),
        TypeKind::I64 => TypeValidation::I64(nb(rng)),
        TypeKind::I128 => TypeValidation::I128(nb(rng)),
        TypeKind::U8 => TypeValidation::U8(nb(rng)),
        TypeKind::U16 => TypeValidation::U16(nb(rng)),
        TypeKind::U32 => TypeValidation::U32(nb(rng)),
        TypeKind::U64 => TypeValidation::U64(nb(rng)),
        TypeKind::U128 => TypeValidation::U128(nb(rng)),
        TypeKind::String => TypeValidation::String(gen_len_bounds(rng)),
        TypeKind::Array { .. } => TypeValidation::Array(gen_len_bounds(rng)),
        TypeKind::Map { .. } => TypeValidation::Map(gen_len_bounds(rng)),
        TypeKind::Custom(ScryptoCustomTypeKind::Reference) => {
            TypeValidation::Custom(ScryptoCustomTypeValidation::Reference(gen_ref_validation(rng)))
        }
        TypeKind::Custom(ScryptoCustomTypeKind::Own) => {
            TypeValidation::Custom(ScryptoCustomTypeValidation::Own(gen_own_validation(rng)))
        }
        _ => TypeValidation::None,
    }
}
pub fn gen_any_validation(rng: &mut Rng) -> SV {
    let ks: [SK; 8] = [
        TypeKind::I8,
        TypeKind::U8,
        TypeKind::U64,
        TypeKind::String,
        TypeKind::Array { element_type: wk(ANY) },
        TypeKind::Map { key_type: wk(ANY), value_type: wk(ANY) },
        TypeKind::Custom(ScryptoCustomTypeKind::Reference),
        TypeKind::Custom(ScryptoCustomTypeKind::Own),
    ];
    loop {
        let k = rng.pick(&ks).clone();
        let v = gen_validation_for(rng, &k);
        if v != TypeValidation::None {
            return v;
        }
    }
}

pub fn gen_leaf_kind(rng: &mut Rng) -> SK {
    match rng.below(20) {
        0 => TypeKind::Any,
        1 => TypeKind::Bool,
        2 => TypeKind::I8,
        3 => TypeKind::I16,
        4 => TypeKind::I32,
        5 => TypeKind::I64,
        6 => TypeKind::I128,
        7 | 8 => TypeKind::U8,
        9 => TypeKind::U16,
        10 => TypeKind::U32,
        11 => TypeKind::U64,
        12 => TypeKind::U128,
        13 | 14 => TypeKind::String,
        15 => TypeKind::Custom(ScryptoCustomTypeKind::Reference),
        16 => TypeKind::Custom(ScryptoCustomTypeKind::Own),
        17 => TypeKind::Custom(ScryptoCustomTypeKind::Decimal),
        18 => TypeKind::Custom(ScryptoCustomTypeKind::PreciseDecimal),
        _ => TypeKind::Custom(ScryptoCustomTypeKind::NonFungibleLocalId),
    }
}

fn field_names(rng: &mut Rng, n: usize) -> Option<ChildNames> {
    if rng.bool() {
        None
    } else {
        Some(ChildNames::NamedFields((0..n).map(|i| format!("f{}_{}", i, rng.below(3)).into()).collect()))
    }
}

/// metadata consistent with the kind (schema-valid)
pub fn gen_meta_for(rng: &mut Rng, k: &SK) -> TypeMetadata {
    match k {
        TypeKind::Tuple { field_types } => TypeMetadata {
            type_name: if rng.bool() { Some(ident(rng).into()) } else { None },
            child_names: field_names(rng, field_types.len()),
        },
        TypeKind::Enum { variants } => TypeMetadata {
            type_name: Some(ident(rng).into()),
            child_names: Some(ChildNames::EnumVariants(
                variants
                    .iter()
                    .map(|(d, f)| {
                        (
                            *d,
                            TypeMetadata {
                                type_name: Some(format!("V{}", d).into()),
                                child_names: field_names(rng, f.len()),
                            },
                        )
                    })
                    .collect(),
            )),
        },
        _ => TypeMetadata {
            type_name: if rng.chance(1, 3) { Some(ident(rng).into()) } else { None },
            child_names: None,
        },
    }
}

pub fn gen_kind(rng: &mut Rng, n: usize, wks: &[u8], allow_invalid: bool) -> SK {
    match rng.below(12) {
        0..=3 => gen_leaf_kind(rng),
        4 | 5 => TypeKind::Array { element_type: gen_child_id(rng, n, wks, allow_invalid) },
        6 | 7 | 8 => {
            let m = *rng.pick(&[0usize, 1, 1, 2, 2, 3, 5]);
            TypeKind::Tuple { field_types: (0..m).map(|_| gen_child_id(rng, n, wks, allow_invalid)).collect() }
        }
        9 | 10 => {
            let nv = *rng.pick(&[0usize, 1, 2, 2, 3, 4]);
            let mut variants = IndexMap::new();
            for _ in 0..nv {
                let r = rng.next_u64() as u8;
                let d = *rng.pick(&[0u8, 1, 2, 3, 255, r]);
                let m = *rng.pick(&[0usize, 0, 1, 1, 2, 3]);
                variants.insert(d, (0..m).map(|_| gen_child_id(rng, n, wks, allow_invalid)).collect::<Vec<_>>());
            }
            TypeKind::Enum { variants }
        }
        _ => TypeKind::Map {
            key_type: gen_child_id(rng, n, wks, allow_invalid),
            value_type: gen_child_id(rng, n, wks, allow_invalid),
        },
    }
}

pub fn gen_schema(rng: &mut Rng, cfg: &SchemaCfg) -> ScryptoSchema {
    let wks = well_known_ids();
    let n = cfg.n_types;
    let mut kinds = vec![];
    let mut metas = vec![];
    let mut vals = vec![];
    for _ in 0..n {
        let k = gen_kind(rng, n, &wks, cfg.allow_invalid);
        let v = if cfg.allow_invalid && rng.chance(1, 12) { gen_any_validation(rng) } else { gen_validation_for(rng, &k) };
        metas.push(gen_meta_for(rng, &k));
        vals.push(v);
        kinds.push(k);
    }
    if cfg.allow_invalid && n > 0 && rng.chance(1, 30) {
        vals.pop(); // validations vector shorter than kinds (SchemaInconsistency path)
    }
    ScryptoSchema { type_kinds: kinds, type_metadata: metas, type_validations: vals }
}

// ------------------------------------------------------------------------------------------------
// type-directed value generation
// ------------------------------------------------------------------------------------------------
pub fn kind_to_k(k: &SK) -> Option<K> {
    Some(match k {
        TypeKind::Any => return None,
        TypeKind::Bool => K::Bool,
        TypeKind::I8 => K::Int(IK::I8),
        TypeKind::I16 => K::Int(IK::I16),
        TypeKind::I32 => K::Int(IK::I32),
        TypeKind::I64 => K::Int(IK::I64),
        TypeKind::I128 => K::Int(IK::I128),
        TypeKind::U8 => K::Int(IK::U8),
        TypeKind::U16 => K::Int(IK::U16),
        TypeKind::U32 => K::Int(IK::U32),
        TypeKind::U64 => K::Int(IK::U64),
        TypeKind::U128 => K::Int(IK::U128),
        TypeKind::String => K::String,
        TypeKind::Array { .. } => K::Array,
        TypeKind::Tuple { .. } => K::Tuple,
        TypeKind::Enum { .. } => K::Enum,
        TypeKind::Map { .. } => K::Map,
        TypeKind::Custom(c) => K::Custom(match c {
            ScryptoCustomTypeKind::Reference => CK::SReference,
            ScryptoCustomTypeKind::Own => CK::SOwn,
            ScryptoCustomTypeKind::Decimal => CK::SDecimal,
            ScryptoCustomTypeKind::PreciseDecimal => CK::SPreciseDecimal,
            ScryptoCustomTypeKind::NonFungibleLocalId => CK::SNf,
        }),
    })
}

pub struct VGen<'a> {
    pub schema: &'a ScryptoSchema,
    pub budget: usize,
    /// probability (1/n) of deliberately violating the type at a node (0 = never)
    pub deviate: u64,
}

fn any_cfg(budget: usize) -> GenCfg {
    GenCfg { fl: Fl::Scrypto, max_depth: 4, budget, allow_invalid_custom: false, allow_kind_mismatch: false }
}

fn entity_bytes() -> Vec<u8> {
    (0u16..=255).map(|b| b as u8).filter(|b| EntityType::from_repr(*b).is_some()).collect()
}

fn gen_len_in(rng: &mut Rng, b: Option<&LengthValidation>, budget: usize, deviate: bool) -> usize {
    let (lo, hi) = match b {
        Some(b) => (b.min.unwrap_or(0) as usize, b.max.unwrap_or(u32::MAX) as usize),
        None => (0, usize::MAX),
    };
    if deviate {
        return if lo > 0 && rng.bool() { lo - 1 } else { hi.saturating_add(1).min(40) };
    }
    let want = match rng.below(8) {
        0 | 1 => lo,
        2 | 3 => if hi <= 45 { hi } else { lo + 6 },
        4 => 0,
        _ => rng.range(0, 4) as usize,
    };
    let w = want.max(lo).min(hi);
    if w > budget.max(lo) { lo.max(budget.min(hi)) } else { w }
}

impl<'a> VGen<'a> {
    fn dev(&self, rng: &mut Rng) -> bool {
        self.deviate > 0 && rng.chance(1, self.deviate)
    }
    /// a value intended to have type `t` (depth-limited by d)
    pub fn gen(&mut self, rng: &mut Rng, t: LocalTypeId, d: usize) -> V {
        let exhausted = self.budget == 0 || d == 0;
        self.budget = self.budget.saturating_sub(1);
        let data = self.schema.resolve_type_data(t);
        if exhausted {
            // out of budget: the smallest value of the right shape (may be invalid; still a case)
            return match data.map(|x| x.0) {
                Some(TypeKind::Tuple { .. }) => V::Tuple(vec![]),
                Some(TypeKind::Enum { variants }) => V::Enum(variants.keys().next().copied().unwrap_or(0), vec![]),
                Some(TypeKind::Array { element_type }) => V::Array(self.schema.resolve_type_kind(*element_type).and_then(kind_to_k).unwrap_or(K::Bool), vec![]),
                Some(TypeKind::Map { key_type, value_type }) => V::Map(
                    self.schema.resolve_type_kind(*key_type).and_then(kind_to_k).unwrap_or(K::Bool),
                    self.schema.resolve_type_kind(*value_type).and_then(kind_to_k).unwrap_or(K::Bool),
                    vec![],
                ),
                Some(k) => match kind_to_k(k) {
                    Some(kk) => { let mut c = any_cfg(1); gen_of_kind(rng, &mut c, kk, 1) }
                    None => V::Bool(false),
                },
                None => V::Bool(true),
            };
        }
        let Some((kind, _, val)) = data else {
            // dangling id: anything
            let mut c = any_cfg(3);
            return gen_value(rng, &mut c);
        };
        if self.dev(rng) {
            // a value of an unrelated shape
            let mut c = any_cfg(4);
            return gen_value(rng, &mut c);
        }
        match kind {
            TypeKind::Any => {
                let mut c = any_cfg(self.budget.min(12));
                c.max_depth = d.max(1).min(3);
                gen_value(rng, &mut c)
            }
            TypeKind::Bool => V::Bool(rng.bool()),
            TypeKind::I8 | TypeKind::I16 | TypeKind::I32 | TypeKind::I64 | TypeKind::I128
            | TypeKind::U8 | TypeKind::U16 | TypeKind::U32 | TypeKind::U64 | TypeKind::U128 => {
                let Some(K::Int(ik)) = kind_to_k(kind) else { unreachable!() };
                self.gen_int_in(rng, ik, val)
            }
            TypeKind::String => {
                let b = if let TypeValidation::String(b) = val { Some(b) } else { None };
                let dv = self.dev(rng);
                let n = gen_len_in(rng, b, 40, dv);
                // ASCII so that byte length = n; sometimes multi-byte
                let mut s: String = (0..n).map(|_| rng.range(0x61, 0x7a) as u8 as char).collect();
                if b.is_none() && rng.chance(1, 4) {
                    s = gen_string(rng);
                }
                V::Str(s)
            }
            TypeKind::Custom(c) => {
                let ck = match kind_to_k(kind) { Some(K::Custom(ck)) => ck, _ => unreachable!() };
                let mut cv = gen_custom(rng, ck, false);
                // choose the entity byte so that the static validation mostly passes
                let ents = entity_bytes();
                match (&mut cv, c) {
                    (C::SReference(b), _) | (C::SOwn(b), _) => {
                        if rng.chance(3, 4) {
                            b[0] = *rng.pick(&ents);
                        }
                        if let TypeValidation::Custom(cvl) = val {
                            // try a few entity bytes until the real predicate accepts (generator
                            // side only: uses the public NodeId predicates, not the validator)
                            for _ in 0..40 {
                                let n = NodeId(*b);
                                let ok = match cvl {
                                    ScryptoCustomTypeValidation::Reference(r) => match r {
                                        ReferenceValidation::IsGlobal | ReferenceValidation::IsGlobalTyped(..) => n.is_global(),
                                        ReferenceValidation::IsGlobalPackage => n.is_global_package(),
                                        ReferenceValidation::IsGlobalComponent => n.is_global_component(),
                                        ReferenceValidation::IsGlobalResourceManager => n.is_global_resource_manager(),
                                        ReferenceValidation::IsInternal | ReferenceValidation::IsInternalTyped(..) => n.is_internal(),
                                    },
                                    ScryptoCustomTypeValidation::Own(o) => match o {
                                        OwnValidation::IsBucket | OwnValidation::IsProof => n.is_internal(),
                                        OwnValidation::IsVault => n.is_internal_vault(),
                                        OwnValidation::IsKeyValueStore => n.is_internal_kv_store(),
                                        _ => true,
                                    },
                                };
                                if ok != self.dev(rng) {
                                    break;
                                }
                                b[0] = *rng.pick(&ents);
                            }
                        }
                    }
                    _ => {}
                }
                V::Custom(cv)
            }
            TypeKind::Tuple { field_types } => {
                let mut fts = field_types.clone();
                if self.dev(rng) {
                    if rng.bool() && !fts.is_empty() { fts.pop(); } else { fts.push(wk(ANY)); }
                }
                if d <= 1 && !fts.is_empty() {
                    return V::Tuple(vec![]); // depth exhausted: (probably) invalid, still a case
                }
                V::Tuple(fts.iter().map(|f| self.gen(rng, *f, d - 1)).collect())
            }
            TypeKind::Enum { variants } => {
                if variants.is_empty() || self.dev(rng) {
                    return V::Enum(rng.next_u64() as u8, vec![]);
                }
                let i = rng.usize_below(variants.len());
                let (disc, fts) = variants.get_index(i).unwrap();
                let mut fts = fts.clone();
                if self.dev(rng) {
                    if rng.bool() && !fts.is_empty() { fts.pop(); } else { fts.push(wk(ANY)); }
                }
                if d <= 1 && !fts.is_empty() {
                    return V::Enum(*disc, vec![]);
                }
                V::Enum(*disc, fts.iter().map(|f| self.gen(rng, *f, d - 1)).collect())
            }
            TypeKind::Array { element_type } => {
                let b = if let TypeValidation::Array(b) = val { Some(b) } else { None };
                let ek = self.elem_kind(rng, *element_type);
                let dv = self.dev(rng);
                let mut n = gen_len_in(rng, b, self.budget, dv);
                if d <= 1 { n = 0; }
                let es: Vec<V> = (0..n).map(|_| self.gen_of_kind(rng, *element_type, ek, d - 1)).collect();
                V::Array(ek, es)
            }
            TypeKind::Map { key_type, value_type } => {
                let b = if let TypeValidation::Map(b) = val { Some(b) } else { None };
                let kk = self.elem_kind(rng, *key_type);
                let vk = self.elem_kind(rng, *value_type);
                let dv = self.dev(rng);
                let mut n = gen_len_in(rng, b, self.budget / 2, dv);
                if d <= 1 { n = 0; }
                let es: Vec<(V, V)> = (0..n)
                    .map(|_| (self.gen_of_kind(rng, *key_type, kk, d - 1), self.gen_of_kind(rng, *value_type, vk, d - 1)))
                    .collect();
                V::Map(kk, vk, es)
            }
        }
    }
    /// the value kind an element of type `t` has (Any: a random kind)
    fn elem_kind(&mut self, rng: &mut Rng, t: LocalTypeId) -> K {
        let k = self.schema.resolve_type_kind(t).and_then(kind_to_k);
        if self.dev(rng) {
            return crate::sborir::gen_kind(rng, Fl::Scrypto, false);
        }
        match k {
            Some(k) => k,
            None => {
                let leaf = rng.chance(2, 3);
                crate::sborir::gen_kind(rng, Fl::Scrypto, leaf)
            }
        }
    }
    /// element of type `t` whose value kind must be exactly `k` (array/map homogeneity)
    fn gen_of_kind(&mut self, rng: &mut Rng, t: LocalTypeId, k: K, d: usize) -> V {
        for _ in 0..2 {
            if self.budget == 0 { break; }
            let v = self.gen(rng, t, d.max(1));
            if v.kind() == k {
                return v;
            }
        }
        let mut c = any_cfg(self.budget.min(6));
        gen_of_kind(rng, &mut c, k, d.max(1).min(2))
    }
    fn gen_int_in(&mut self, rng: &mut Rng, ik: IK, val: &SV) -> V {
        fn pick<T: Copy + Into<i128>>(rng: &mut Rng, b: &NumericValidation<T>, dv: bool) -> Option<i128>
        where T: sbor::NumericValidationBound {
            let lo: i128 = b.effective_min().into();
            let hi: i128 = b.effective_max().into();
            if dv {
                return Some(if rng.bool() { lo.wrapping_sub(1) } else { hi.wrapping_add(1) });
            }
            Some(match rng.below(3) {
                0 => lo,
                1 => hi,
                _ => lo + (rng.below(((hi - lo).min(1000) + 1) as u64) as i128),
            })
        }
        let dv = self.dev(rng);
        let chosen: Option<i128> = match val {
            TypeValidation::I8(b) => pick(rng, b, dv),
            TypeValidation::I16(b) => pick(rng, b, dv),
            TypeValidation::I32(b) => pick(rng, b, dv),
            TypeValidation::I64(b) => pick(rng, b, dv),
            TypeValidation::U8(b) => pick(rng, b, dv),
            TypeValidation::U16(b) => pick(rng, b, dv),
            TypeValidation::U32(b) => pick(rng, b, dv),
            TypeValidation::U64(b) => pick(rng, b, dv),
            TypeValidation::I128(b) => {
                let lo = b.effective_min();
                let hi = b.effective_max();
                Some(if dv { if rng.bool() { lo.wrapping_sub(1) } else { hi.wrapping_add(1) } } else if rng.bool() { lo } else { hi })
            }
            TypeValidation::U128(b) => {
                let lo = b.effective_min();
                let hi = b.effective_max();
                let x = if dv { if rng.bool() { lo.wrapping_sub(1) } else { hi.wrapping_add(1) } } else if rng.bool() { lo } else { hi };
                return V::Int(ik, Z::U(x));
            }
            _ => None,
        };
        match chosen {
            None => gen_int(rng, ik),
            Some(x) => {
                let bits = ik.bits();
                if ik.signed() {
                    // wrap into the kind's range
                    let m = if bits == 128 { x } else {
                        let sh = 128 - bits;
                        (x << sh) >> sh
                    };
                    V::Int(ik, Z::S(m))
                } else {
                    let mask = if bits == 128 { u128::MAX } else { (1u128 << bits) - 1 };
                    V::Int(ik, Z::U((x as u128) & mask))
                }
            }
        }
    }
}

// ------------------------------------------------------------------------------------------------
// helpers of the deterministic boundary families (c22 / c23)
// ------------------------------------------------------------------------------------------------
pub fn ik_kind(ik: IK) -> SK {
    match ik {
        IK::I8 => TypeKind::I8, IK::I16 => TypeKind::I16, IK::I32 => TypeKind::I32, IK::I64 => TypeKind::I64, IK::I128 => TypeKind::I128,
        IK::U8 => TypeKind::U8, IK::U16 => TypeKind::U16, IK::U32 => TypeKind::U32, IK::U64 => TypeKind::U64, IK::U128 => TypeKind::U128,
    }
}
pub fn tmin(ik: IK) -> Z {
    if ik.signed() { Z::S(if ik.bits() == 128 { i128::MIN } else { -(1i128 << (ik.bits() - 1)) }) } else { Z::U(0) }
}
pub fn tmax(ik: IK) -> Z {
    if ik.signed() { Z::S(if ik.bits() == 128 { i128::MAX } else { (1i128 << (ik.bits() - 1)) - 1 }) }
    else { Z::U(if ik.bits() == 128 { u128::MAX } else { (1u128 << ik.bits()) - 1 }) }
}
pub fn zadd(z: Z, d: i128) -> Z {
    match z {
        Z::S(x) => Z::S(x + d),
        Z::U(x) => Z::U(if d >= 0 { x + d as u128 } else { x - (-d) as u128 }),
    }
}
pub fn zle(a: Z, b: Z) -> bool {
    match (a, b) {
        (Z::S(x), Z::S(y)) => x <= y,
        (Z::U(x), Z::U(y)) => x <= y,
        _ => unreachable!(),
    }
}
pub fn num_val(ik: IK, min: Option<Z>, max: Option<Z>) -> SV {
    macro_rules! nv { ($t:ty, $v:ident) => {{
        let c = |z: Z| -> $t { match z { Z::S(x) => x as $t, Z::U(x) => x as $t } };
        TypeValidation::$v(NumericValidation { min: min.map(c), max: max.map(c) })
    }}; }
    match ik {
        IK::I8 => nv!(i8, I8), IK::I16 => nv!(i16, I16), IK::I32 => nv!(i32, I32), IK::I64 => nv!(i64, I64), IK::I128 => nv!(i128, I128),
        IK::U8 => nv!(u8, U8), IK::U16 => nv!(u16, U16), IK::U32 => nv!(u32, U32), IK::U64 => nv!(u64, U64), IK::U128 => nv!(u128, U128),
    }
}
pub fn lenv(min: Option<u32>, max: Option<u32>) -> LengthValidation {
    LengthValidation { min, max }
}
pub fn node(b: u8) -> [u8; 30] {
    let mut n = [0x11u8; 30];
    n[0] = b;
    n
}
/// representative entity bytes: one per class of the static custom validation predicates
pub fn rep_entity_bytes() -> Vec<u8> {
    let all: Vec<u8> = (0u16..=255).map(|b| b as u8).collect();
    let f = |p: &dyn Fn(&NodeId) -> bool| all.iter().copied().find(|b| p(&NodeId(node(*b))));
    let mut v = vec![];
    v.extend(f(&|n| n.is_global_package()));
    v.extend(f(&|n| n.is_global_component() && !n.is_global_package()));
    v.extend(f(&|n| n.is_global_resource_manager()));
    v.extend(f(&|n| n.is_global() && !n.is_global_package() && !n.is_global_component() && !n.is_global_resource_manager()));
    v.extend(f(&|n| n.is_internal_vault()));
    v.extend(f(&|n| n.is_internal_kv_store()));
    v.extend(f(&|n| n.is_internal() && !n.is_internal_vault() && !n.is_internal_kv_store()));
    v.extend(f(&|n| n.entity_type().is_none()));
    v
}
