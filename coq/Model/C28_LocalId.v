(* C28 — executable model of NonFungibleLocalId text form
   (radix-common/src/data/scrypto/model/non_fungible_local_id.rs). Model only: no proofs here.

   Code modelled (as written): impl FromStr (the four bracket forms, in the code's order),
   is_canonically_formatted_integer, StringNonFungibleLocalId::validate_slice,
   BytesNonFungibleLocalId::validate, impl Display; crate hex 0.4.3 decode / encode (lower case);
   core::num u64::from_str; Display for u64.
   NonFungibleGlobalId text form: `split(':')` into exactly two parts, address then local id.

   Strings are byte lists (valid UTF-8, guaranteed by &str). `&s[1..s.len() - 1]` is a byte slice:
   an end point that is not a char boundary is the explicit outcome Panic. `chars()` groups a lead
   byte with its continuation bytes. *)
From Coq Require Import List NArith Bool.
Import ListNotations.
Require Import RV.Model.C28_Bech32.
Open Scope N_scope.

Definition MAX_LENGTH : nat := 64.

Inductive local_id :=
| LString (s : list N)      (* [_0-9a-zA-Z]{1,64} *)
| LInteger (n : N)          (* u64 *)
| LBytes (b : list N)       (* 1..64 bytes *)
| LRuid (b : list N).       (* 32 bytes *)

Inductive content_error := TooLong | Empty | ContainsBadCharacter.
Inductive parse_error :=
  UnknownType | InvalidInteger | InvalidBytes | InvalidRUID | ContentValidationError (e : content_error).

(* ---------------------------------------------------------------------------------------------- *)
(* UTF-8 helpers *)

Definition is_cont (b : N) : bool := (128 <=? b) && (b <? 192).

Fixpoint chars_aux (s : list N) : list N * list (list N) :=
  match s with
  | [] => ([], [])
  | b :: tl =>
    let '(conts, cs) := chars_aux tl in
    if is_cont b then (b :: conts, cs) else ([], (b :: conts) :: cs)
  end.
Definition chars (s : list N) : list (list N) := snd (chars_aux s).

Definition is_char_boundary (s : list N) (i : nat) : bool :=
  match i with
  | O => true
  | _ => match nth_error s i with
         | Some b => negb (is_cont b)
         | None => Nat.eqb i (length s)
         end
  end.

Definition slice {E} (s : list N) (a b : nat) : res E (list N) :=
  if Nat.leb a b && Nat.leb b (length s) && is_char_boundary s a && is_char_boundary s b
  then Ok (firstn (b - a) (skipn a s)) else Panic.

(* UTF-8 validity (what &str guarantees); used only as a hypothesis of the totality theorem *)
Fixpoint utf8_valid (s : list N) : bool :=
  match s with
  | [] => true
  | b :: tl =>
    if b <? 128 then utf8_valid tl
    else if (0xC2 <=? b) && (b <=? 0xDF) then
      match tl with c1 :: tl' => is_cont c1 && utf8_valid tl' | _ => false end
    else if (0xE0 <=? b) && (b <=? 0xEF) then
      match tl with
      | c1 :: c2 :: tl' =>
        is_cont c1 && is_cont c2
        && (if b =? 0xE0 then 0xA0 <=? c1 else true) && (if b =? 0xED then c1 <=? 0x9F else true)
        && utf8_valid tl'
      | _ => false
      end
    else if (0xF0 <=? b) && (b <=? 0xF4) then
      match tl with
      | c1 :: c2 :: c3 :: tl' =>
        is_cont c1 && is_cont c2 && is_cont c3
        && (if b =? 0xF0 then 0x90 <=? c1 else true) && (if b =? 0xF4 then c1 <=? 0x8F else true)
        && utf8_valid tl'
      | _ => false
      end
    else false
  end.

(* s.starts_with(c) / s.ends_with(c) for an ASCII char c *)
Definition starts_with (s : list N) (c : N) : bool :=
  match s with b :: _ => b =? c | [] => false end.
Definition ends_with (s : list N) (c : N) : bool :=
  match rev s with b :: _ => b =? c | [] => false end.

(* ---------------------------------------------------------------------------------------------- *)
(* content validation *)

Definition is_id_char (b : N) : bool :=
  ((97 <=? b) && (b <=? 122)) || ((65 <=? b) && (b <=? 90)) || ((48 <=? b) && (b <=? 57)) || (b =? 95).

Definition validate_string (s : list N) : option content_error :=
  if Nat.eqb (length s) 0 then Some Empty
  else if Nat.ltb MAX_LENGTH (length s) then Some TooLong
  else if forallb is_id_char s then None else Some ContainsBadCharacter.

Definition validate_bytes (s : list N) : option content_error :=
  if Nat.eqb (length s) 0 then Some Empty
  else if Nat.ltb MAX_LENGTH (length s) then Some TooLong
  else None.

(* ---------------------------------------------------------------------------------------------- *)
(* hex 0.4.3 *)

Definition hex_val (c : N) : option N :=
  if (65 <=? c) && (c <=? 70) then Some (c - 65 + 10)
  else if (97 <=? c) && (c <=? 102) then Some (c - 97 + 10)
  else if (48 <=? c) && (c <=? 57) then Some (c - 48)
  else None.

Fixpoint hex_decode_pairs (l : list N) : option (list N) :=
  match l with
  | [] => Some []
  | [_] => None
  | a :: b :: tl =>
    match hex_val a, hex_val b with
    | Some x, Some y =>
      match hex_decode_pairs tl with
      | Some r => Some (N.lor (N.shiftl x 4) y :: r)
      | None => None
      end
    | _, _ => None
    end
  end.
Definition hex_decode (l : list N) : option (list N) :=
  if Nat.eqb (Nat.modulo (length l) 2) 0 then hex_decode_pairs l else None.

Definition hex_digit (v : N) : N := if v <? 10 then 48 + v else 97 + (v - 10).
Definition hex_encode (l : list N) : list N :=
  flat_map (fun b => [hex_digit (N.shiftr b 4); hex_digit (N.land b 15)]) l.

(* ---------------------------------------------------------------------------------------------- *)
(* decimal u64 *)

Definition U64_MAX : N := 18446744073709551615.

Definition is_digit (c : N) : bool := (48 <=? c) && (c <=? 57).

(* core::num: checked accumulate *)
Fixpoint parse_digits (max acc : N) (l : list N) : option N :=
  match l with
  | [] => Some acc
  | c :: tl =>
    if is_digit c then
      let acc' := acc * 10 + (c - 48) in
      if max <? acc' then None else parse_digits max acc' tl
    else None
  end.
Definition parse_u64 (l : list N) : option N :=
  match l with
  | [] => None
  | [c] => if (c =? 43) || (c =? 45) then None else parse_digits U64_MAX 0 l
  | c :: tl => if c =? 43 then parse_digits U64_MAX 0 tl else parse_digits U64_MAX 0 l
  end.

Definition is_canonically_formatted_integer (digits : list N) : bool :=
  match digits with
  | [48] => true
  | [] => false
  | c :: tl => (49 <=? c) && (c <=? 57) && forallb is_digit tl
  end.

(* Display for u64: decimal digits, most significant first *)
Fixpoint digits_rev (fuel : nat) (n : N) : list N :=
  match fuel with
  | O => []
  | S f => if n <? 10 then [48 + n] else (48 + n mod 10) :: digits_rev f (n / 10)
  end.
Definition dec_digits (n : N) : list N := rev (digits_rev 20 n).

(* ---------------------------------------------------------------------------------------------- *)
(* FromStr / Display *)

(* `c == '-'` on a char *)
Definition is_hyphen (c : list N) : bool := match c with [45] => true | _ => false end.

Definition inner {E} (s : list N) : res E (list N) := slice s 1 (length s - 1).

Definition from_str (s : list N) : res parse_error local_id :=
  if starts_with s 60 && ends_with s 62 then
    i <- inner s ;;
    match validate_string i with
    | Some e => Err (ContentValidationError e)
    | None => Ok (LString i)
    end
  else if Nat.ltb 1 (length s) && starts_with s 35 && ends_with s 35 then
    digits <- inner s ;;
    if negb (is_canonically_formatted_integer digits) then Err InvalidInteger else
    digits2 <- inner s ;;
    match parse_u64 digits2 with
    | Some n => Ok (LInteger n)
    | None => Err InvalidInteger
    end
  else if starts_with s 91 && ends_with s 93 then
    i <- inner s ;;
    match hex_decode i with
    | None => Err InvalidBytes
    | Some b =>
      match validate_bytes b with
      | Some e => Err (ContentValidationError e)
      | None => Ok (LBytes b)
      end
    end
  else if starts_with s 123 && ends_with s 125 then
    i <- inner s ;;
    let cs := chars i in
    if Nat.eqb (length cs) 67 && is_hyphen (nth 16 cs []) && is_hyphen (nth 33 cs [])
       && is_hyphen (nth 50 cs [])
    then
      let hyphen_stripped := concat (filter (fun c => negb (is_hyphen c)) cs) in
      if Nat.eqb (length hyphen_stripped) 64 then
        match hex_decode hyphen_stripped with
        | None => Err InvalidRUID
        | Some b => if Nat.eqb (length b) 32 then Ok (LRuid b) else Panic (* try_into().unwrap() *)
        end
      else Err InvalidRUID
    else Err InvalidRUID
  else Err UnknownType.

Definition print (id : local_id) : list N :=
  match id with
  | LString s => [60] ++ s ++ [62]
  | LInteger n => [35] ++ dec_digits n ++ [35]
  | LBytes b => [91] ++ hex_encode b ++ [93]
  | LRuid b =>
    let h := hex_encode b in
    [123] ++ firstn 16 h ++ [45] ++ firstn 16 (skipn 16 h) ++ [45] ++ firstn 16 (skipn 32 h)
    ++ [45] ++ firstn 16 (skipn 48 h) ++ [125]
  end.

(* the values the constructors accept *)
Definition valid_id (id : local_id) : Prop :=
  match id with
  | LString s => validate_string s = None
  | LInteger n => n <= U64_MAX
  | LBytes b => validate_bytes b = None /\ Forall (fun x => x < 256) b
  | LRuid b => length b = 32%nat /\ Forall (fun x => x < 256) b
  end.
