(* C46 — the metered-block algorithm of the gas instrumenter (radix-wasm-instrument
   gas_metering::determine_metered_blocks + insert_metering_calls, driven by
   WasmModule::inject_instruction_metering) restated on the structured MiniWasm syntax.

   The implementation walks the flat instruction stream with a stack of control blocks; each control
   block has an *active metered block* (start position, cost) and `lowest_forward_br_target`:
     - an ordinary instruction adds its cost to the active metered block of the innermost control block;
     - `block` adds its cost, then opens a control block whose active metered block has the SAME start
       position as the enclosing one: when it is first closed its cost is merged into the enclosing
       active block (no charge of its own);
     - `if` / `loop` add their cost and open a control block with a fresh metered block (start = next
       instruction); `else` closes the active metered block and starts a fresh one;
     - `br`, `br_if`, `return` add their cost and close the active metered block; for every target that
       is NOT a loop they lower `lowest_forward_br_target` of the innermost control block;
     - `end` closes the active metered block and pops the control block, propagates
       `lowest_forward_br_target` to the enclosing control block, and — only if the popped block may
       branch further out (lowest target < its own index) — also closes the enclosing active block;
     - every closed metered block with cost > 0 gets `i64.const cost; call $gas` at its start position;
     - the function body is a control block whose first metered block also carries
       call_per_local_cost * (number of declared locals).
   Structured restatement: a list of instructions is cut into *segments*; `meter_i ctx i (h, r)`
   takes the result for the rest of the list (h = cost of the rest's first segment, r = rest with the
   charges of its later segments) and returns the same for `i :: rest`.  `ctx` lists, innermost
   first, whether each enclosing label is a loop.  The output also carries the ghost `Tick (cost i)` in
   front of every instruction; `strip_ticks` removes them (that is what is compared with the real
   instrumenter output on every case, Corr/C46_run.v).  Executable definitions only. *)
From Coq Require Import List ZArith Bool.
Import ListNotations.
Require Import RV.Model.C46_MiniWasm.
Open Scope Z_scope.

(* labels, relative to the list containing i, that executing i may branch to *)
Definition preds (l : list nat) : list nat :=
  flat_map (fun k => match k with O => [] | S k' => [k'] end) l.
Fixpoint exits_i (i : instr) : list nat :=
  match i with
  | Br n | BrIf n => [n]
  | Block b | Loop b => preds (flat_map exits_i b)
  | If t e => preds (flat_map exits_i t ++ flat_map exits_i e)
  | _ => []
  end.
Definition exits_list (is : list instr) : list nat := flat_map exits_i is.
Fixpoint has_ret_i (i : instr) : bool :=
  match i with
  | Return => true
  | Block b | Loop b => existsb has_ret_i b
  | If t e => existsb has_ret_i t || existsb has_ret_i e
  | _ => false
  end.
Definition has_ret_list (is : list instr) : bool := existsb has_ret_i is.

Definition is_loop (ctx : list bool) (k : nat) : bool := nth k ctx false.
(* `lowest_forward_br_target < own index`: a return, or a branch to a non-loop label outside i *)
Definition escapes (ctx : list bool) (i : instr) : bool :=
  has_ret_i i || existsb (fun k => negb (is_loop ctx k)) (exits_i i).

Definition charge_then (hr : Z * list instr) : list instr :=
  if 0 <? fst hr then Charge (fst hr) :: snd hr else snd hr.

Section WithCost.
Variable cost : instr -> Z.      (* cost of the instruction itself (for block/loop/if: the header) *)

Fixpoint meter_i (ctx : list bool) (i : instr) (hr : Z * list instr) {struct i} : Z * list instr :=
  let (h, r) := hr in
  let tk := Tick (cost i) in
  match i with
  | Br _ | BrIf _ | Return => (cost i, tk :: i :: charge_then (h, r))
  | Block b =>
      let (hb, b') := fold_right (meter_i (false :: ctx)) (0, []) b in
      if escapes ctx i then (cost i + hb, tk :: Block b' :: charge_then (h, r))
      else (cost i + hb + h, tk :: Block b' :: r)
  | Loop b =>
      let body := charge_then (fold_right (meter_i (true :: ctx)) (0, []) b) in
      if escapes ctx i then (cost i, tk :: Loop body :: charge_then (h, r))
      else (cost i + h, tk :: Loop body :: r)
  | If t e =>
      let t' := charge_then (fold_right (meter_i (false :: ctx)) (0, []) t) in
      let e' := charge_then (fold_right (meter_i (false :: ctx)) (0, []) e) in
      if escapes ctx i then (cost i, tk :: If t' e' :: charge_then (h, r))
      else (cost i + h, tk :: If t' e' :: r)
  | _ => (cost i + h, tk :: i :: r)
  end.
Definition meter_list (ctx : list bool) (is : list instr) : Z * list instr :=
  fold_right (meter_i ctx) (0, []) is.

Variable per_local : Z.          (* call_per_local_cost *)
Variable extra_locals : nat.     (* locals the emitter declares beyond f_locals (the store scratch) *)
Definition locals_cost (f : func) : Z := per_local * Z.of_nat (f_locals f + extra_locals).
Definition meter_func (f : func) : func :=
  let (h, b') := meter_list [false] (f_body f) in
  mkFunc (f_params f) (f_locals f) (f_result f)
         (charge_then (locals_cost f + h, Tick (locals_cost f) :: b')).
Definition meter_prog (p : prog) : prog := map meter_func p.
End WithCost.

(* removing the ghost ticks: the program the instrumenter really produces *)
Fixpoint strip_i (i : instr) : list instr :=
  match i with
  | Tick _ => []
  | Block b => [Block (flat_map strip_i b)]
  | Loop b => [Loop (flat_map strip_i b)]
  | If t e => [If (flat_map strip_i t) (flat_map strip_i e)]
  | x => [x]
  end.
Definition strip_ticks (is : list instr) : list instr := flat_map strip_i is.
Definition strip_func (f : func) : func :=
  mkFunc (f_params f) (f_locals f) (f_result f) (strip_ticks (f_body f)).
Definition strip_prog (p : prog) : prog := map strip_func p.

(* the condition under which charging is exact: no branch leaves a nested block / loop / if towards
   a LOOP label outside it ("continue from inside a nested block"); such a branch does not close the
   enclosing metered block (the implementation ignores loop targets), so the instructions after the
   nested construct are charged but skipped *)
Fixpoint nc_i (ctx : list bool) (i : instr) : bool :=
  match i with
  | Block b => forallb (fun k => negb (is_loop ctx k)) (exits_i i) && forallb (nc_i (false :: ctx)) b
  | Loop b => forallb (fun k => negb (is_loop ctx k)) (exits_i i) && forallb (nc_i (true :: ctx)) b
  | If t e => forallb (fun k => negb (is_loop ctx k)) (exits_i i) &&
              forallb (nc_i (false :: ctx)) t && forallb (nc_i (false :: ctx)) e
  | Charge _ | Tick _ => false
  | _ => true
  end.
Definition nc_list (ctx : list bool) (is : list instr) : bool := forallb (nc_i ctx) is.
Definition nc_prog (p : prog) : bool := forallb (fun f => nc_list [false] (f_body f)) p.
(* input programs carry no instrumentation *)
Fixpoint plain_i (i : instr) : bool :=
  match i with
  | Charge _ | Tick _ => false
  | Block b | Loop b => forallb plain_i b
  | If t e => forallb plain_i t && forallb plain_i e
  | _ => true
  end.
Definition plain_prog (p : prog) : bool := forallb (fun f => forallb plain_i (f_body f)) p.
