(* C51 — executable model of the lock discipline of substates:
     radix-engine/src/system/system.rs
       actor_open_field / actor_open_key_value_entry / key_value_store_open_entry with
       LockFlags::MUTABLE: a Locked substate refuses the open (FieldLocked / KeyValueEntryLocked);
       field_write / key_value_entry_set / key_value_entry_remove need a write handle;
       field_lock / key_value_entry_lock set LockStatus::Locked through a write handle.
       There is no operation that sets LockStatus::Unlocked.
     radix-engine/src/object_modules/metadata/package.rs       set / remove / lock
     radix-engine/src/object_modules/royalty/package.rs        set_royalty / lock_royalty
     radix-engine/src/object_modules/role_assignment/package.rs set_owner_role / lock_owner_role and
       resolve_update_owner_role_method_permission (updater None => DenyAll)
   Model only, no proofs. One step = one transaction: a failing call changes nothing.
   The caller is represented by `auth : bool` = whether the auth module admitted this call (any
   badges, any roles): the theorems quantify over it. *)
From Coq Require Import List NArith Bool.
Import ListNotations.
Open Scope N_scope.

(* kinds of lockable substates *)
Inductive kind := KField | KKvEntry | KMetadata | KRoyalty.
Definition kind_eqb (a b : kind) : bool :=
  match a, b with KField, KField | KKvEntry, KKvEntry | KMetadata, KMetadata | KRoyalty, KRoyalty => true | _, _ => false end.
Definition cell_id := (kind * N)%type.       (* kind and key (field index / entry key / metadata key / method) *)
Definition cell_eqb (a b : cell_id) : bool := kind_eqb (fst a) (fst b) && N.eqb (snd a) (snd b).

(* a substate: Option<value> + LockStatus *)
Record cell := { c_val : option N; c_locked : bool }.
Definition empty_cell : cell := {| c_val := None; c_locked := false |}.

(* the owner role substate: rule, updater, and the lock status of its field *)
Inductive updater := UNone | UOwner | UObject.
Record owner := { o_rule : N; o_updater : updater; o_locked : bool }.

Record state := { s_cells : list (cell_id * cell); s_owner : owner }.

Fixpoint get (k : cell_id) (l : list (cell_id * cell)) : cell :=
  match l with [] => empty_cell | (k', c) :: l' => if cell_eqb k k' then c else get k l' end.
Fixpoint put (k : cell_id) (c : cell) (l : list (cell_id * cell)) : list (cell_id * cell) :=
  match l with
  | [] => [(k, c)]
  | (k', c') :: l' => if cell_eqb k k' then (k, c) :: l' else (k', c') :: put k c l'
  end.

Inductive err := ELocked | EUnauthorized | EOther.
Inductive outcome := Ok | Fail (e : err).

(* ---------- system layer ---------- *)
(* open with MUTABLE: refused on a locked substate *)
Definition open_mut (c : cell) : option cell := if c_locked c then None else Some c.
Inductive sysop := SWrite (v : N) | SRemove | SLock.
Definition sys_apply (c : cell) (o : sysop) : cell :=
  match o with
  | SWrite v => {| c_val := Some v; c_locked := c_locked c |}
  | SRemove => {| c_val := None; c_locked := c_locked c |}
  | SLock => {| c_val := c_val c; c_locked := true |}
  end.

(* ---------- operations ---------- *)
Inductive op :=
  (* any write-type access to a field / KV entry / metadata entry / royalty entry: the module method
     (metadata set/remove/lock, set_royalty/lock_royalty) or the owning blueprint's own code
     (field_write, field_lock, key_value_entry_set/remove/lock) *)
  | OCell (k : cell_id) (o : sysop)
  | OSetOwner (rule : N)
  | OLockOwner
  (* RoleAssignment.set on a reserved role key (_owner_ / _self_): resolve_update_role_method_permission
     returns the empty role list, so nobody is admitted: the owner role cannot be reached this way *)
  | OReservedRolePath (rule : N)
  (* a change of the auth configuration (e.g. set_role(Metadata, "metadata_setter", allow_all) by the
     owner): it changes who is admitted later (the `auth` inputs), never a substate modelled here *)
  | OAuthConfig.

(* `auth`: did the auth module admit the caller for this method (role check against the caller's
   badges)? For blueprint-internal accesses it is true. `owner_auth`: does the caller satisfy the
   CURRENT owner rule (used when the updater is Owner)? `is_object`: is the caller the object itself? *)
Record caller := { auth : bool; owner_auth : bool; is_object : bool }.

Definition set_cells (s : state) (l : list (cell_id * cell)) : state := {| s_cells := l; s_owner := s_owner s |}.
Definition set_owner (s : state) (o : owner) : state := {| s_cells := s_cells s; s_owner := o |}.

(* resolve_update_owner_role_method_permission *)
Definition owner_update_permitted (o : owner) (c : caller) : bool :=
  match o_updater o with UNone => false | UOwner => owner_auth c | UObject => is_object c end.

Definition step (s : state) (c : caller) (o : op) : state * outcome :=
  match o with
  | OCell k so =>
      if negb (auth c) then (s, Fail EUnauthorized)
      else match open_mut (get k (s_cells s)) with
           | None => (s, Fail ELocked)
           | Some cl => (set_cells s (put k (sys_apply cl so) (s_cells s)), Ok)
           end
  | OSetOwner r =>
      if negb (owner_update_permitted (s_owner s) c) then (s, Fail EUnauthorized)
      else if o_locked (s_owner s) then (s, Fail ELocked)            (* actor_open_field MUTABLE *)
      else (set_owner s {| o_rule := r; o_updater := o_updater (s_owner s); o_locked := false |}, Ok)
  | OLockOwner =>
      if negb (owner_update_permitted (s_owner s) c) then (s, Fail EUnauthorized)
      else if o_locked (s_owner s) then (s, Fail ELocked)
      else (set_owner s {| o_rule := o_rule (s_owner s); o_updater := UNone; o_locked := true |}, Ok)
  | OReservedRolePath _ => (s, Fail EUnauthorized)
  | OAuthConfig => if auth c then (s, Ok) else (s, Fail EUnauthorized)
  end.

Fixpoint run (s : state) (evs : list (caller * op)) : list (state * (caller * op) * state * outcome) :=
  match evs with
  | [] => []
  | e :: evs' => let r := step s (fst e) (snd e) in (s, e, fst r, snd r) :: run (fst r) evs'
  end.
Definition final (s : state) (evs : list (caller * op)) : state :=
  fold_left (fun s e => fst (step s (fst e) (snd e))) evs s.

(* an owner role created Fixed (updater None) is an immutable field from the start *)
Definition create_owner (rule : N) (u : updater) : owner :=
  {| o_rule := rule; o_updater := u; o_locked := match u with UNone => true | _ => false end |}.
