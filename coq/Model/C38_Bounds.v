(* C38 — executable model of the bound algebra used by the static resource movements analyser:
   LowerBound / UpperBound  cmp, add_from, take_amount, constrain_to
   (radix-common/src/data/manifest/model/manifest_resource_assertion.rs), as written.
   Decimals are attos (Z) in the I192 range; checked_add overflow = BoundAdjustmentError::DecimalOverflow,
   the unchecked `-` of take_amount panics on overflow (explicit BPanic). No proofs. *)
From Coq Require Import List ZArith Bool.
Import ListNotations.
Require Import RV.Model.C37_Constraint.
Open Scope Z_scope.

Inductive bres (A : Type) := BOk (a : A) | BOverflow | BTakeCannotBeSatisfied | BPanic.
Arguments BOk {A} a. Arguments BOverflow {A}. Arguments BTakeCannotBeSatisfied {A}. Arguments BPanic {A}.
Definition in_dec (a : Z) : bool := (DEC_MIN <=? a) && (a <=? DEC_MAX).

(* impl Ord for LowerBound: Inclusive(0 or less) < NonZero < Inclusive(positive) *)
Definition lower_cmp (a b : lower) : comparison :=
  match a, b with
  | LIncl x, LIncl y => x ?= y
  | LIncl x, LNonZero => if 0 <? x then Gt else Lt
  | LNonZero, LIncl y => if 0 <? y then Lt else Gt
  | LNonZero, LNonZero => Eq
  end.
Definition upper_cmp (a b : upper) : comparison :=
  match a, b with
  | UIncl x, UIncl y => x ?= y
  | UIncl _, UUnbounded => Lt
  | UUnbounded, UIncl _ => Gt
  | UUnbounded, UUnbounded => Eq
  end.
(* Ord::max(self, other) = if self > other then self else other; Ord::min = if other < self then other else self *)
Definition lower_constrain_to (a b : lower) : lower := match lower_cmp a b with Gt => a | _ => b end.
Definition upper_constrain_to (a b : upper) : upper := match upper_cmp b a with Lt => b | _ => a end.

Definition lower_add_from (a b : lower) : bres lower :=
  match a, b with
  | LIncl x, LIncl y => if in_dec (x + y) then BOk (LIncl (x + y)) else BOverflow
  | LIncl x, LNonZero | LNonZero, LIncl x => if x =? 0 then BOk LNonZero else BOk (LIncl x)
  | LNonZero, LNonZero => BOk LNonZero
  end.
Definition upper_add_from (a b : upper) : bres upper :=
  match a, b with
  | UIncl x, UIncl y => if in_dec (x + y) then BOk (UIncl (x + y)) else BOverflow
  | _, _ => BOk UUnbounded
  end.
Definition lower_take_amount (a : lower) (t : Z) : bres lower :=
  match a with
  | LIncl x => if t >? x then BOk (LIncl 0) else if in_dec (x - t) then BOk (LIncl (x - t)) else BPanic
  | LNonZero => if t =? 0 then BOk LNonZero else BOk (LIncl 0)
  end.
Definition upper_take_amount (a : upper) (t : Z) : bres upper :=
  match a with
  | UIncl x => if t >? x then BTakeCannotBeSatisfied else if in_dec (x - t) then BOk (UIncl (x - t)) else BPanic
  | UUnbounded => BOk UUnbounded
  end.
