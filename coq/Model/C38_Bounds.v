(* C38 — executable model of the bound algebra used by the static resource movements analyser:
   LowerBound / UpperBound  cmp, add_from, take_amount, constrain_to
   (radix-common/src/data/manifest/model/manifest_resource_assertion.rs), as written.
   Decimals are attos (Z) in the I192 range; checked_add overflow = BoundAdjustmentError::DecimalOverflow,
   the unchecked `-` of take_amount panics on overflow (explicit BPanic). No proofs. *)
From Coq Require Import List ZArith Bool.
Import ListNotations.
Require Import RV.Model.C37_Constraint.
Open Scope Z_scope.

Inductive bres (A : Type) := BOk (a : A) | BOverflow | BTakeCannotBeSatisfied | BPanic.
Arguments BOk {A} a. Arguments BOverflow {A}. Arguments BTakeCannotBeSatisfied {A}. Arguments BPanic {A}.
Definition in_dec (a : Z) : bool := (DEC_MIN <=? a) && (a <=? DEC_MAX).

(* impl Ord for LowerBound: Inclusive(0 or less) < NonZero < Inclusive(positive) *)
Definition lower_cmp (a b : lower) : comparison :=
  match a, b with
  | LIncl x, LIncl y => x ?= y
  | LIncl x, LNonZero => if 0 <? x then Gt else Lt
  | LNonZero, LIncl y => if 0 <? y then Lt else Gt
  | LNonZero, LNonZero => Eq
  end.
Definition upper_cmp (a b : upper) : comparison :=
  match a, b with
  | UIncl x, UIncl y => x ?= y
  | UIncl _, UUnbounded => Lt
  | UUnbounded, UIncl _ => Gt
  | UUnbounded, UUnbounded => Eq
  end.
(* Ord::max(self, other) = if self > other then self else other; Ord::min = if other < self then other else self *)
Definition lower_constrain_to (a b : lower) : lower := match lower_cmp a b with Gt => a | _ => b end.
Definition upper_constrain_to (a b : upper) : upper := match upper_cmp b a with Lt => b | _ => a end.

Definition lower_add_from (a b : lower) : bres lower :=
  match a, b with
  | LIncl x, LIncl y => if in_dec (x + y) then BOk (LIncl (x + y)) else BOverflow
  | LIncl x, LNonZero | LNonZero, LIncl x => if x =? 0 then BOk LNonZero else BOk (LIncl x)
  | LNonZero, LNonZero => BOk LNonZero
  end.
Definition upper_add_from (a b : upper) : bres upper :=
  match a, b with
  | UIncl x, UIncl y => if in_dec (x + y) then BOk (UIncl (x + y)) else BOverflow
  | _, _ => BOk UUnbounded
  end.
Definition lower_take_amount (a : lower) (t : Z) : bres lower :=
  match a with
  | LIncl x => if t >? x then BOk (LIncl 0) else if in_dec (x - t) then BOk (LIncl (x - t)) else BPanic
  | LNonZero => if t =? 0 then BOk LNonZero else BOk (LIncl 0)
  end.
Definition upper_take_amount (a : upper) (t : Z) : bres upper :=
  match a with
  | UIncl x => if t >? x then BTakeCannotBeSatisfied else if in_dec (x - t) then BOk (UIncl (x - t)) else BPanic
  | UUnbounded => BOk UUnbounded
  end.

(* ---- ResourceBounds (static_resource_movements/types.rs): the id-set part --------------------------------
   mut_add, mut_take(Amount / NonFungibles), mut_handle_assertion on a GeneralResourceConstraint, as
   written, each followed by normalize() (Model/C37_Constraint.v).  IndexSet insert/extend append new
   elements at the end; difference / intersection keep the order of the left operand. *)
Inductive gerr := GEOverflow | GEDuplicateId | GETakeCannotBeSatisfied | GENegativeAmount | GEAssertionCannotBeSatisfied.
Inductive gres := GOk (g : general) | GErr (e : gerr) | GPanic.

Definition minus_ids (a b : idset) : idset := filter (fun x => negb (mem x b)) a.     (* a.difference(b) *)
Definition inter_ids (a b : idset) : idset := filter (fun x => mem x b) a.            (* a.intersection(b) *)
Definition extend_ids (a b : idset) : idset := a ++ minus_ids b a.                    (* a.extend(b), b duplicate-free *)
Definition disjoint_ids (a b : idset) : bool := forallb (fun x => negb (mem x a)) b.

Definition bounds_add (this other : general) : gres :=
  match lower_add_from (lb this) (lb other) with
  | BOk l =>
      match upper_add_from (ub this) (ub other) with
      | BOk u =>
          if negb (disjoint_ids (required this) (required other)) then GErr GEDuplicateId
          else
            let al := match allowed_ids this, allowed_ids other with
                      | AnyIds, _ => AnyIds
                      | _, AnyIds => AnyIds
                      | Allowlist a, Allowlist b => Allowlist (extend_ids a b)
                      end in
            GOk (normalize (mkGeneral (required this ++ required other) l u al))
      | _ => GErr GEOverflow
      end
  | _ => GErr GEOverflow
  end.

Definition bounds_take_amount (this : general) (t : Z) : gres :=
  if t <? 0 then GErr GENegativeAmount
  else match lower_take_amount (lb this) t with
       | BOk l =>
           match upper_take_amount (ub this) t with
           | BOk u => GOk (normalize (mkGeneral (if 0 <? t then [] else required this) l u (allowed_ids this)))
           | BTakeCannotBeSatisfied => GErr GETakeCannotBeSatisfied
           | _ => GPanic
           end
       | _ => GPanic
       end.

Definition bounds_take_ids (this : general) (taken : idset) : gres :=
  let t := dec_of_len taken in
  match lower_take_amount (lb this) t with
  | BOk l =>
      match upper_take_amount (ub this) t with
      | BOk u =>
          let req := minus_ids (required this) taken in
          let check_al :=
            match allowed_ids this with
            | Allowlist a => if negb (is_subset taken a) then None else Some (Allowlist (minus_ids a taken))
            | AnyIds => Some AnyIds
            end in
          match check_al with
          | None => GErr GETakeCannotBeSatisfied
          | Some al =>
              if dec_of_len req >? lower_eq l then GErr GETakeCannotBeSatisfied
              else GOk (normalize (mkGeneral req l u al))
          end
      | BTakeCannotBeSatisfied => GErr GETakeCannotBeSatisfied
      | _ => GPanic
      end
  | _ => GPanic
  end.

Definition bounds_assert (this a : general) : gres :=
  let l := lower_constrain_to (lb this) (lb a) in
  let u := upper_constrain_to (ub this) (ub a) in
  let al_res :=
    match allowed_ids a with
    | Allowlist aal =>
        if negb (is_subset (required this) aal) then None
        else Some (match allowed_ids this with
                   | AnyIds => Allowlist aal
                   | Allowlist x => Allowlist (inter_ids x aal)
                   end)
    | AnyIds => Some (allowed_ids this)
    end in
  match al_res with
  | None => GErr GEAssertionCannotBeSatisfied
  | Some al =>
      let req := extend_ids (required this) (required a) in
      if lower_eq l >? upper_eq u then GErr GEAssertionCannotBeSatisfied
      else match al with
           | Allowlist x => if upper_eq u >? dec_of_len x then GErr GEAssertionCannotBeSatisfied
                            else GOk (normalize (mkGeneral req l u al))
           | AnyIds => GOk (normalize (mkGeneral req l u al))
           end
  end.
