(* C09 — executable model of the worktop and of the transaction-processor instructions that move
   buckets and proofs, over one account.  Model only: no proofs here.  (Also drives C10.)

   Code modelled (as written):
     radix-engine/src/blueprints/resource/worktop.rs
        WorktopBlueprint::{put, take, take_non_fungibles, take_all, assert_contains,
        assert_contains_amount, assert_contains_non_fungibles, drain, drop}
     radix-engine/src/system/transaction/instructions.rs  (TxnNormalInstruction::execute of
        TakeFromWorktop, TakeNonFungiblesFromWorktop, TakeAllFromWorktop, ReturnToWorktop,
        AssertWorktopContains{,Any,NonFungibles}, PopFromAuthZone, PushToAuthZone,
        CreateProofFromBucketOf{Amount,NonFungibles,All}, BurnResource, CloneProof, DropProof,
        DropNamedProofs, DropAllProofs, DropAuthZoneProofs, CallMethod, CallDirectVaultMethod)
     radix-engine/src/system/transaction/intent_processor.rs
        IntentProcessorObjects::{get_bucket, take_bucket, get_proof, take_proof,
        create_manifest_bucket, create_manifest_proof, handle_call_return_data}, resume (worktop
        drop at the end), TransformHandler::{replace_bucket, replace_expression(EntireWorktop)}
     radix-engine/src/blueprints/resource/bucket_common.rs  drop_fungible_bucket / drop_non_fungible_bucket
     radix-engine/src/blueprints/resource/{fungible,non_fungible}_resource_manager.rs  drop_empty_bucket, burn
     radix-engine/src/blueprints/account/blueprint.rs  withdraw, withdraw_non_fungibles, burn,
        burn_non_fungibles, create_proof_of_amount, create_proof_of_non_fungibles, deposit, deposit_batch
     radix-engine/src/system/system_callback.rs  auto_drop (proofs only), kernel orphan check
   Abstractions:
     - node ids are a counter; the account has one vault per resource (they exist up front);
     - `worktop.resources` (IndexMap) is an association list, swap_remove = plain removal: its order
       only decides the order of deposits in deposit_batch, which is not observable in balances;
     - bucket/proof name tables: `bucket_mapping` NonIterMap, `proof_mapping` IndexMap (drop order
       of DROP_NAMED_PROOFS = list order; unlock effects commute);
     - the account owner role is "the transaction carries the signature proof": a flag cleared by
       DROP_ALL_PROOFS / DROP_AUTH_ZONE_PROOFS (drop_signature_proofs);
     - proofs composed from the auth zone (multi-container evidence) are not modelled;
     - events, fees, costing are not modelled. *)
From Coq Require Import List ZArith NArith Bool.
Import ListNotations.
Require Import RV.Model.C10_ProofLock.
Open Scope N_scope.

Inductive kind := KF (div : Z) | KN.
Inductive cont := CF (c : fcont) | CN (c : ncont).

Inductive cref := CVault (r : N) | CBucket (node : N).
Inductive proof := PF (c : cref) (amt : Z) | PN (c : cref) (ids : list N).

Record st := {
  rtab : list kind;                 (* resource index -> kind *)
  vaults : list (N * cont);         (* resource -> account vault *)
  buckets : list (N * (N * cont));  (* bucket node -> (resource, content) *)
  worktop : list (N * N);           (* resource -> bucket node *)
  named : list (N * N);             (* manifest bucket id -> node *)
  pnamed : list (N * proof);        (* manifest proof id -> proof *)
  azone : list proof;               (* auth zone proofs, last = top *)
  signed : bool;                    (* signature proofs still in the auth zone *)
  next_b : N; next_p : N; next_node : N;
  burnedf : list (N * Z);           (* ghost: burned amount per fungible resource *)
  burnedn : list (N * list N)       (* ghost: burned ids per non-fungible resource *)
}.

Inductive op :=
| OWithdraw (r : N) (a : Z) | OWithdrawNF (r : N) (ids : list N)
| OAcctBurn (r : N) (a : Z) | OAcctBurnNF (r : N) (ids : list N)
| OAcctProofAmount (r : N) (a : Z) | OAcctProofNF (r : N) (ids : list N)
| ORecall (r : N) (a : Z) | ORecallNF (r : N) (ids : list N)
| OPopAuthZone | OPushAuthZone (p : N) | OCloneProof (p : N) | ODropProof (p : N)
| ODropAllProofs | ODropNamedProofs | ODropAuthZoneProofs
| OTakeFromWorktop (r : N) (a : Z) | OTakeNFFromWorktop (r : N) (ids : list N) | OTakeAllFromWorktop (r : N)
| OReturnToWorktop (b : N)
| OBucketProofAmount (b : N) (a : Z) | OBucketProofNF (b : N) (ids : list N) | OBucketProofAll (b : N)
| OBurnBucket (b : N) | ODeposit (b : N) | ODepositBatch
| OAssertContains (r : N) (a : Z) | OAssertContainsAny (r : N) | OAssertContainsNF (r : N) (ids : list N).

(* --- association lists keyed by N --- *)
Section Assoc.
  Context {V : Type}.
  Fixpoint afind (k : N) (l : list (N * V)) : option V :=
    match l with [] => None | (k', v) :: t => if k' =? k then Some v else afind k t end.
  Fixpoint aremove (k : N) (l : list (N * V)) : list (N * V) :=
    match l with [] => [] | (k', v) :: t => if k' =? k then t else (k', v) :: aremove k t end.
  Fixpoint aset (k : N) (v : V) (l : list (N * V)) : list (N * V) :=
    match l with
    | [] => [(k, v)]
    | (k', v') :: t => if k' =? k then (k, v) :: t else (k', v') :: aset k v t
    end.
End Assoc.

(* --- record updates --- *)
Definition set_vaults (s : st) v := {| rtab := rtab s; vaults := v; buckets := buckets s; worktop := worktop s; named := named s; pnamed := pnamed s; azone := azone s; signed := signed s; next_b := next_b s; next_p := next_p s; next_node := next_node s; burnedf := burnedf s; burnedn := burnedn s |}.
Definition set_buckets (s : st) v := {| rtab := rtab s; vaults := vaults s; buckets := v; worktop := worktop s; named := named s; pnamed := pnamed s; azone := azone s; signed := signed s; next_b := next_b s; next_p := next_p s; next_node := next_node s; burnedf := burnedf s; burnedn := burnedn s |}.
Definition set_worktop (s : st) v := {| rtab := rtab s; vaults := vaults s; buckets := buckets s; worktop := v; named := named s; pnamed := pnamed s; azone := azone s; signed := signed s; next_b := next_b s; next_p := next_p s; next_node := next_node s; burnedf := burnedf s; burnedn := burnedn s |}.
Definition set_named (s : st) v := {| rtab := rtab s; vaults := vaults s; buckets := buckets s; worktop := worktop s; named := v; pnamed := pnamed s; azone := azone s; signed := signed s; next_b := next_b s; next_p := next_p s; next_node := next_node s; burnedf := burnedf s; burnedn := burnedn s |}.
Definition set_pnamed (s : st) v := {| rtab := rtab s; vaults := vaults s; buckets := buckets s; worktop := worktop s; named := named s; pnamed := v; azone := azone s; signed := signed s; next_b := next_b s; next_p := next_p s; next_node := next_node s; burnedf := burnedf s; burnedn := burnedn s |}.
Definition set_azone (s : st) v := {| rtab := rtab s; vaults := vaults s; buckets := buckets s; worktop := worktop s; named := named s; pnamed := pnamed s; azone := v; signed := signed s; next_b := next_b s; next_p := next_p s; next_node := next_node s; burnedf := burnedf s; burnedn := burnedn s |}.
Definition set_signed (s : st) v := {| rtab := rtab s; vaults := vaults s; buckets := buckets s; worktop := worktop s; named := named s; pnamed := pnamed s; azone := azone s; signed := v; next_b := next_b s; next_p := next_p s; next_node := next_node s; burnedf := burnedf s; burnedn := burnedn s |}.
Definition set_next_b (s : st) v := {| rtab := rtab s; vaults := vaults s; buckets := buckets s; worktop := worktop s; named := named s; pnamed := pnamed s; azone := azone s; signed := signed s; next_b := v; next_p := next_p s; next_node := next_node s; burnedf := burnedf s; burnedn := burnedn s |}.
Definition set_next_p (s : st) v := {| rtab := rtab s; vaults := vaults s; buckets := buckets s; worktop := worktop s; named := named s; pnamed := pnamed s; azone := azone s; signed := signed s; next_b := next_b s; next_p := v; next_node := next_node s; burnedf := burnedf s; burnedn := burnedn s |}.
Definition set_next_node (s : st) v := {| rtab := rtab s; vaults := vaults s; buckets := buckets s; worktop := worktop s; named := named s; pnamed := pnamed s; azone := azone s; signed := signed s; next_b := next_b s; next_p := next_p s; next_node := v; burnedf := burnedf s; burnedn := burnedn s |}.
Definition set_burnedf (s : st) v := {| rtab := rtab s; vaults := vaults s; buckets := buckets s; worktop := worktop s; named := named s; pnamed := pnamed s; azone := azone s; signed := signed s; next_b := next_b s; next_p := next_p s; next_node := next_node s; burnedf := v; burnedn := burnedn s |}.
Definition set_burnedn (s : st) v := {| rtab := rtab s; vaults := vaults s; buckets := buckets s; worktop := worktop s; named := named s; pnamed := pnamed s; azone := azone s; signed := signed s; next_b := next_b s; next_p := next_p s; next_node := next_node s; burnedf := burnedf s; burnedn := v |}.

Definition kind_of (s : st) (r : N) : option kind := nth_error (rtab s) (N.to_nat r).

(* --- containers by reference --- *)
Definition get_cont (s : st) (c : cref) : option (N * cont) :=
  match c with
  | CVault r => match afind r (vaults s) with Some v => Some (r, v) | None => None end
  | CBucket n => afind n (buckets s)
  end.
Definition put_cont (s : st) (c : cref) (v : cont) : st :=
  match c with
  | CVault r => set_vaults s (aset r v (vaults s))
  | CBucket n => match afind n (buckets s) with
                 | Some (r, _) => set_buckets s (aset n (r, v) (buckets s))
                 | None => s
                 end
  end.

(* a new bucket node *)
Definition new_bucket (s : st) (r : N) (v : cont) : st * N :=
  let n := next_node s in
  (set_next_node (set_buckets s (buckets s ++ [(n, (r, v))])) (n + 1), n).

Definition div_of (s : st) (r : N) : Z := match kind_of s r with Some (KF d) => d | _ => 0%Z end.

(* Bucket::amount (get_amount) in attos *)
Definition cont_amount (v : cont) : result Z :=
  match v with
  | CF c => f_amount c
  | CN c => Ok (Z.of_N (n_amount c) * ONE)%Z
  end.
Definition cont_is_locked (v : cont) : bool :=
  match v with CF c => f_is_locked c | CN c => n_is_locked c end.
Definition cont_liquid_zero (v : cont) : bool :=
  match v with CF c => (fliq c =? 0)%Z | CN c => match nliq c with [] => true | _ => false end end.

(* drop_fungible_bucket / drop_non_fungible_bucket: remove the node, fail if locked.  (The kernel
   refuses to drop a node that a live proof references: same outcome class.) *)
Definition drop_bucket (s : st) (n : N) : result (st * (N * cont)) :=
  match afind n (buckets s) with
  | None => Err EOther
  | Some (r, v) =>
    if cont_is_locked v then Err ELocked
    else Ok (set_buckets s (aremove n (buckets s)), (r, v))
  end.

(* drop_empty_bucket *)
Definition drop_empty (s : st) (n : N) : result st :=
  let! (s', (_, v)) := drop_bucket s n in
  if cont_liquid_zero v then Ok s' else Err EDropNonEmpty.

(* Bucket::put(other) on bucket node `own`: drop `other`, add its liquid content *)
Definition bucket_put (s : st) (own other : N) : result st :=
  let! (s1, (ro, vo)) := drop_bucket s other in
  match afind own (buckets s1), vo with
  | Some (r, CF c), CF co =>
      if negb (ro =? r) then Err EOther        (* "not an inner object of the current resource" *)
      else
      let! l := liq_put (fliq c) (fliq co) in
      Ok (set_buckets s1 (aset own (r, CF {| fliq := l; flocked := flocked c |}) (buckets s1)))
  | Some (r, CN c), CN co =>
      if negb (ro =? r) then Err EOther
      else Ok (set_buckets s1 (aset own (r, CN (n_put (nliq co) c)) (buckets s1)))
  | _, _ => Err EOther
  end.

(* WorktopBlueprint::put *)
Definition worktop_put (s : st) (n : N) : result st :=
  match afind n (buckets s) with
  | None => Err EOther
  | Some (r, v) =>
    let! amt := cont_amount v in
    if (amt =? 0)%Z then drop_empty s n
    else match afind r (worktop s) with
         | Some own => bucket_put s own n
         | None => Ok (set_worktop s (worktop s ++ [(r, n)]))
         end
  end.

(* create_manifest_bucket / create_manifest_proof *)
Definition name_bucket (s : st) (n : N) : st :=
  set_next_b (set_named s (named s ++ [(next_b s, n)])) (next_b s + 1).
Definition name_proof (s : st) (p : proof) : st :=
  set_next_p (set_pnamed s (pnamed s ++ [(next_p s, p)])) (next_p s + 1).

Definition empty_cont (k : kind) : cont :=
  match k with KF _ => CF (f_new 0) | KN => CN (n_new []) end.

(* ResourceManager::new_empty_bucket *)
Definition new_empty_bucket (s : st) (r : N) : result (st * N) :=
  match kind_of s r with
  | None => Err EOther
  | Some k => Ok (new_bucket s r (empty_cont k))
  end.

(* Bucket::take(amount) on a bucket node: returns the new bucket node *)
Definition bucket_take (s : st) (n : N) (a : Z) : result (st * N) :=
  match afind n (buckets s) with
  | None => Err EOther
  | Some (r, CF c) =>
      let! (c', amt) := f_take (div_of s r) a c in
      Ok (new_bucket (set_buckets s (aset n (r, CF c') (buckets s))) r (CF (f_new amt)))
  | Some (r, CN c) =>
      let! (c', ids) := n_take_amount a c in
      Ok (new_bucket (set_buckets s (aset n (r, CN c') (buckets s))) r (CN (n_new ids)))
  end.
Definition bucket_take_ids (s : st) (n : N) (ids : list N) : result (st * N) :=
  match afind n (buckets s) with
  | Some (r, CN c) =>
      let! (c', ids') := n_take_ids ids c in
      Ok (new_bucket (set_buckets s (aset n (r, CN c') (buckets s))) r (CN (n_new ids')))
  | _ => Err EOther
  end.

Definition subset (a b : list N) : bool := forallb (fun x => mem x b) a.
Definition len (l : list N) : N := N.of_nat (length l).

(* WorktopBlueprint::take *)
Definition worktop_take (s : st) (r : N) (a : Z) : result (st * N) :=
  if (a =? 0)%Z then new_empty_bucket s r
  else match afind r (worktop s) with
       | None => Err EWorktopInsufficient
       | Some n =>
         match afind n (buckets s) with
         | None => Err EOther
         | Some (_, v) =>
           let! existing := cont_amount v in
           if (existing <? a)%Z then Err EWorktopInsufficient
           else if (existing =? a)%Z then Ok (set_worktop s (aremove r (worktop s)), n)
           else bucket_take s n a
         end
       end.

(* WorktopBlueprint::take_non_fungibles *)
Definition worktop_take_ids (s : st) (r : N) (ids : list N) : result (st * N) :=
  match ids with
  | [] => new_empty_bucket s r
  | _ =>
    match afind r (worktop s) with
    | None => Err EWorktopInsufficient
    | Some n =>
      match afind n (buckets s) with
      | Some (_, CN c) =>
        let existing := n_ids c in
        if negb (subset ids existing) then Err EWorktopInsufficient
        else if len existing =? len ids then Ok (set_worktop s (aremove r (worktop s)), n)
        else bucket_take_ids s n ids
      | _ => Err EOther
      end
    end
  end.

(* WorktopBlueprint::take_all *)
Definition worktop_take_all (s : st) (r : N) : result (st * N) :=
  match afind r (worktop s) with
  | Some n => Ok (set_worktop s (aremove r (worktop s)), n)
  | None => new_empty_bucket s r
  end.

Definition worktop_amount (s : st) (r : N) : result Z :=
  match afind r (worktop s) with
  | None => Ok 0%Z
  | Some n => match afind n (buckets s) with Some (_, v) => cont_amount v | None => Err EOther end
  end.

(* --- proofs --- *)
Definition lock_proof (s : st) (p : proof) : result st :=       (* clone_proof *)
  match p with
  | PF c a => match get_cont s c with
              | Some (_, CF fc) => let! fc' := f_lock a fc in Ok (put_cont s c (CF fc'))
              | _ => Err EOther
              end
  | PN c ids => match get_cont s c with
                | Some (_, CN nc) => let! nc' := n_lock ids nc in Ok (put_cont s c (CN nc'))
                | _ => Err EOther
                end
  end.
Definition drop_proof (s : st) (p : proof) : result st :=       (* on_drop -> teardown *)
  match p with
  | PF c a => match get_cont s c with
              | Some (_, CF fc) => let! fc' := f_unlock a fc in Ok (put_cont s c (CF fc'))
              | _ => Err EOther
              end
  | PN c ids => match get_cont s c with
                | Some (_, CN nc) => let! nc' := n_unlock ids nc in Ok (put_cont s c (CN nc'))
                | _ => Err EOther
                end
  end.
Fixpoint drop_proofs (s : st) (ps : list proof) : result st :=
  match ps with
  | [] => Ok s
  | p :: t => let! s' := drop_proof s p in drop_proofs s' t
  end.

(* create a proof on container `c` *)
Definition create_proof_amount (s : st) (c : cref) (a : Z) : result (st * proof) :=
  match get_cont s c with
  | Some (r, CF fc) =>
      let! fc' := f_create_proof (div_of s r) a fc in Ok (put_cont s c (CF fc'), PF c a)
  | _ => Err EOther
  end.
Definition create_proof_ids (s : st) (c : cref) (ids : list N) : result (st * proof) :=
  match get_cont s c with
  | Some (_, CN nc) =>
      let! nc' := n_create_proof ids nc in Ok (put_cont s c (CN nc'), PN c ids)
  | _ => Err EOther
  end.
Definition create_proof_all (s : st) (c : cref) : result (st * proof) :=
  match get_cont s c with
  | Some (_, CF fc) => let! a := f_amount fc in create_proof_amount s c a
  | Some (_, CN nc) => create_proof_ids s c (n_ids nc)
  | None => Err EOther
  end.

(* --- burn: drop the bucket (Locked check), decrease supply --- *)
Fixpoint addf (r : N) (a : Z) (l : list (N * Z)) : list (N * Z) :=
  match l with [] => [(r, a)] | (k, v) :: t => if k =? r then (k, (v + a)%Z) :: t else (k, v) :: addf r a t end.
Fixpoint addn (r : N) (ids : list N) (l : list (N * list N)) : list (N * list N) :=
  match l with [] => [(r, ids)] | (k, v) :: t => if k =? r then (k, v ++ ids) :: t else (k, v) :: addn r ids t end.
Definition burn_bucket (s : st) (n : N) : result st :=
  let! (s', (r, v)) := drop_bucket s n in
  match v with
  | CF c => Ok (set_burnedf s' (addf r (fliq c) (burnedf s')))
  | CN c => Ok (set_burnedn s' (addn r (nliq c) (burnedn s')))
  end.

(* Vault::put(bucket) *)
Definition vault_put (s : st) (n : N) : result st :=
  let! (s1, (r, vo)) := drop_bucket s n in
  match afind r (vaults s1), vo with
  | Some (CF c), CF co => let! c' := f_put (fliq co) c in Ok (set_vaults s1 (aset r (CF c') (vaults s1)))
  | Some (CN c), CN co => Ok (set_vaults s1 (aset r (CN (n_put (nliq co) c)) (vaults s1)))
  | _, _ => Err EOther
  end.
Fixpoint vault_put_all (s : st) (ns : list N) : result st :=
  match ns with [] => Ok s | n :: t => let! s' := vault_put s n in vault_put_all s' t end.

Definition need_owner (s : st) : result unit := if signed s then Ok tt else Err EUnauthorized.

(* vault take -> bucket *)
Definition vault_take (s : st) (r : N) (a : Z) : result (st * N) :=
  match afind r (vaults s) with
  | Some (CF c) =>
      let! (c', amt) := f_take (div_of s r) a c in
      Ok (new_bucket (set_vaults s (aset r (CF c') (vaults s))) r (CF (f_new amt)))
  | _ => Err EOther                 (* take-by-amount on a non-fungible vault: not modelled *)
  end.
Definition vault_take_ids (s : st) (r : N) (ids : list N) : result (st * N) :=
  match afind r (vaults s) with
  | Some (CN c) =>
      let! (c', ids') := n_take_ids ids c in
      Ok (new_bucket (set_vaults s (aset r (CN c') (vaults s))) r (CN (n_new ids')))
  | _ => Err EOther
  end.

Definition take_named (s : st) (b : N) : result (st * N) :=
  match afind b (named s) with
  | None => Err EBucketNotFound
  | Some n => Ok (set_named s (aremove b (named s)), n)
  end.
Definition get_named (s : st) (b : N) : result N :=
  match afind b (named s) with None => Err EBucketNotFound | Some n => Ok n end.

Definition diff (a b : list N) : list N := filter (fun x => negb (mem x b)) a.

Definition step (s : st) (o : op) : result st :=
  match o with
  | OWithdraw r a =>
      let! _ := need_owner s in
      let! (s1, n) := vault_take s r a in worktop_put s1 n
  | OWithdrawNF r ids =>
      let! _ := need_owner s in
      let! (s1, n) := vault_take_ids s r ids in worktop_put s1 n
  | ORecall r a => let! (s1, n) := vault_take s r a in worktop_put s1 n
  | ORecallNF r ids => let! (s1, n) := vault_take_ids s r ids in worktop_put s1 n
  | OAcctBurn r a =>
      let! _ := need_owner s in
      let! (s1, n) := vault_take s r a in burn_bucket s1 n
  | OAcctBurnNF r ids =>
      let! _ := need_owner s in
      let! (s1, n) := vault_take_ids s r ids in burn_bucket s1 n
  | OAcctProofAmount r a =>
      let! _ := need_owner s in
      let! (s1, p) := create_proof_amount s (CVault r) a in Ok (set_azone s1 (azone s1 ++ [p]))
  | OAcctProofNF r ids =>
      let! _ := need_owner s in
      let! (s1, p) := create_proof_ids s (CVault r) ids in Ok (set_azone s1 (azone s1 ++ [p]))
  | OPopAuthZone =>
      match rev (azone s) with
      | [] => Err EAuthZoneEmpty
      | p :: rest => Ok (name_proof (set_azone s (rev rest)) p)
      end
  | OPushAuthZone p =>
      match afind p (pnamed s) with
      | None => Err EProofNotFound
      | Some pr => Ok (set_azone (set_pnamed s (aremove p (pnamed s))) (azone s ++ [pr]))
      end
  | OCloneProof p =>
      match afind p (pnamed s) with
      | None => Err EProofNotFound
      | Some pr => let! s1 := lock_proof s pr in Ok (name_proof s1 pr)
      end
  | ODropProof p =>
      match afind p (pnamed s) with
      | None => Err EProofNotFound
      | Some pr => drop_proof (set_pnamed s (aremove p (pnamed s))) pr
      end
  | ODropNamedProofs => drop_proofs (set_pnamed s []) (map snd (pnamed s))
  | ODropAuthZoneProofs => drop_proofs (set_signed (set_azone s []) false) (azone s)
  | ODropAllProofs =>
      let! s1 := drop_proofs (set_pnamed s []) (map snd (pnamed s)) in
      drop_proofs (set_signed (set_azone s1 []) false) (azone s1)
  | OTakeFromWorktop r a => let! (s1, n) := worktop_take s r a in Ok (name_bucket s1 n)
  | OTakeNFFromWorktop r ids => let! (s1, n) := worktop_take_ids s r ids in Ok (name_bucket s1 n)
  | OTakeAllFromWorktop r => let! (s1, n) := worktop_take_all s r in Ok (name_bucket s1 n)
  | OReturnToWorktop b => let! (s1, n) := take_named s b in worktop_put s1 n
  | OBucketProofAmount b a =>
      let! n := get_named s b in
      let! (s1, p) := create_proof_amount s (CBucket n) a in Ok (name_proof s1 p)
  | OBucketProofNF b ids =>
      let! n := get_named s b in
      let! (s1, p) := create_proof_ids s (CBucket n) ids in Ok (name_proof s1 p)
  | OBucketProofAll b =>
      let! n := get_named s b in
      let! (s1, p) := create_proof_all s (CBucket n) in Ok (name_proof s1 p)
  | OBurnBucket b => let! (s1, n) := take_named s b in burn_bucket s1 n
  | ODeposit b =>
      let! (s1, n) := take_named s b in
      let! _ := need_owner s1 in vault_put s1 n
  | ODepositBatch =>
      let ns := map snd (worktop s) in
      let s1 := set_worktop s [] in
      let! _ := need_owner s1 in vault_put_all s1 ns
  | OAssertContains r a =>
      let! amt := worktop_amount s r in if (amt <? a)%Z then Err EAssertion else Ok s
  | OAssertContainsAny r =>
      let! amt := worktop_amount s r in if (amt =? 0)%Z then Err EAssertion else Ok s
  | OAssertContainsNF r ids =>
      let have := match afind r (worktop s) with
                  | Some n => match afind n (buckets s) with Some (_, CN c) => n_ids c | _ => [] end
                  | None => [] end in
      match diff ids have with [] => Ok s | _ => Err EAssertion end
  end.

(* end of transaction: worktop.drop (drop_empty every bucket), then proofs are auto-dropped, then
   any bucket still owned by the frame is an orphan *)
Fixpoint drop_empty_all (s : st) (ns : list N) : result st :=
  match ns with [] => Ok s | n :: t => let! s' := drop_empty s n in drop_empty_all s' t end.
Definition finish (s : st) : result st :=
  let! s1 := drop_empty_all (set_worktop s []) (map snd (worktop s)) in
  let! s2 := drop_proofs (set_pnamed s1 []) (map snd (pnamed s1)) in
  let! s3 := drop_proofs (set_azone s2 []) (azone s2) in
  match buckets s3 with [] => Ok s3 | _ => Err EOrphan end.

(* run: index of the first failing op (length ops = failure at the end) *)
Inductive outcome := Done (s : st) | Failed (i : N) (e : err) | Panicked (i : N).
Fixpoint run_from (i : N) (s : st) (ops : list op) : outcome :=
  match ops with
  | [] => match finish s with Ok s' => Done s' | Err e => Failed i e | Panic => Panicked i end
  | o :: t => match step s o with
              | Ok s' => run_from (i + 1) s' t
              | Err e => Failed i e
              | Panic => Panicked i
              end
  end.
Definition run (s : st) (ops : list op) : outcome := run_from 0 s ops.

(* the harness's ledger: resources 0 (divisibility 18), 1 (divisibility 2), 2 (non-fungible) *)
Definition init (f0 f1 : Z) (ids : list N) : st :=
  {| rtab := [KF 18; KF 2; KN];
     vaults := [(0, CF (f_new f0)); (1, CF (f_new f1)); (2, CN (n_new ids))];
     buckets := []; worktop := []; named := []; pnamed := []; azone := []; signed := true;
     next_b := 0; next_p := 0; next_node := 0; burnedf := []; burnedn := [] |}.
