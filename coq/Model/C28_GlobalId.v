(* C28 — executable model of the NonFungibleGlobalId text form
   (radix-common/src/types/non_fungible_global_id.rs: try_from_canonical_string,
   ContextualDisplay / to_canonical_string; ResourceAddress::try_from_bech32, TryFrom<&[u8]>).
   Model only: no proofs here. *)
From Coq Require Import List NArith Bool.
Import ListNotations.
Require Import RV.Model.C28_Bech32 RV.Model.C28_LocalId.
Open Scope N_scope.

Inductive global_error :=
  GInvalidResourceAddress | GInvalidLocalId (e : parse_error) | GRequiresTwoParts.

(* `s.split(':').collect::<Vec<&str>>()` (':' is ASCII: byte-level splitting = char-level) *)
Fixpoint split_colon (s : list N) : list (list N) :=
  match s with
  | [] => [[]]
  | c :: tl =>
    if c =? 58 then [] :: split_colon tl
    else match split_colon tl with
         | p :: ps => (c :: p) :: ps
         | [] => [[c]]
         end
  end.

(* ResourceAddress::try_from(&[u8]): NodeId::LENGTH = 30 bytes and the entity type is
   GlobalFungibleResourceManager (93) or GlobalNonFungibleResourceManager (154) *)
Definition is_resource_node (data : list N) : bool :=
  Nat.eqb (length data) 30
  && match data with b :: _ => (b =? 93) || (b =? 154) | [] => false end.

(* NonFungibleGlobalId::try_from_canonical_string(decoder, s): (resource node id, local id) *)
Definition global_from_str (suffix s : list N) : res global_error (list N * local_id) :=
  match split_colon s with
  | [a; l] =>
    match decode_address suffix a with
    | Panic => Panic
    | Err _ => Err GInvalidResourceAddress
    | Ok (_, data) =>
      if is_resource_node data then
        match from_str l with
        | Ok id => Ok (data, id)
        | Err e => Err (GInvalidLocalId e)
        | Panic => Panic
        end
      else Err GInvalidResourceAddress
    end
  | _ => Err GRequiresTwoParts
  end.

(* to_canonical_string(encoder): "{}:{}"; an address the encoder rejects makes Display return
   fmt::Error, on which `format!` panics *)
Definition global_print (suffix data : list N) (id : local_id) : res global_error (list N) :=
  match encode_address suffix data with
  | Ok a => Ok (a ++ [58] ++ print id)
  | _ => Panic
  end.
