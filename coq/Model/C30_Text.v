(* C30/C31 — value layer of the manifest text format, executable model, no proofs.
   * `escape`  : ManifestCustomCharEscaper (radix-transactions/src/data/formatter.rs) +
                 radix_rust::unicode::format_custom_escaped / format_json_utf16_escaped_char:
                 how the decompiler prints a string value.  The set of characters that get a unicode
                 escape (rust_1_81_should_unicode_escape_in_debug_str) is a parameter.
   * `lex_string` : Lexer::tokenize_string + read_utf16_unit (radix-transactions/src/manifest/lexer.rs)
                 as written, over a list of code points, with the error kinds and span indices.
   * `snippet_range` : the index arithmetic of create_snippet (diagnostic_snippets.rs, after the fix
                 that splits lines on LF only): the annotation range handed to the renderer.
   Characters are code points (N). u32 arithmetic of the surrogate computation is checked: an
   underflow would be SPanic. *)
From Coq Require Import List NArith Bool.
Import ListNotations.
Open Scope N_scope.

Definition is_scalar (c : N) : bool := (c <? 55296) || ((57343 <? c) && (c <? 1114112)).

Inductive xexp := XExact (c : N) | XOneOf | XHexDigit | XDLQP.
Inductive lkind :=
| LUnexpectedEof | LUnexpectedChar (c : N) (x : xexp) | LInvalidIntegerLiteral | LInvalidIntegerType
| LInvalidInteger | LInvalidUnicode (v : N) | LMissingSurrogate (v : N).
Inductive sres := SOk (s : list N) (end_ : N) | SErr (k : lkind) (start end_ : N) | SPanic.

(* char::to_digit(16) on an ascii hex digit *)
Definition hexval (c : N) : option N :=
  if (48 <=? c) && (c <=? 57) then Some (c - 48)
  else if (97 <=? c) && (c <=? 102) then Some (c - 87)
  else if (65 <=? c) && (c <=? 70) then Some (c - 55)
  else None.
(* the error of read_utf16_unit when the next (up to 4) chars are not 4 hex digits *)
Fixpoint hex_err (n : nat) (l : list N) (pos : N) : sres :=
  match n with
  | O => SPanic
  | S n' =>
      match l with
      | [] => SErr LUnexpectedEof pos pos
      | c :: t => match hexval c with
                  | None => SErr (LUnexpectedChar c XHexDigit) pos (pos + 1)
                  | Some _ => hex_err n' t (pos + 1)
                  end
      end
  end.
Definition hex4val (a b c d : N) : option N :=
  match hexval a, hexval b, hexval c, hexval d with
  | Some x, Some y, Some z, Some w => Some (((x * 16 + y) * 16 + z) * 16 + w)
  | _, _, _, _ => None
  end.

(* pos = full_index of the next char; start = index of the opening quote; acc = reversed content *)
Fixpoint lex_string (l : list N) (pos : N) (start : N) (acc : list N) : sres :=
  match l with
  | [] => SErr LUnexpectedEof pos pos                                  (* self.peek()? *)
  | 34 :: _ => SOk (rev acc) (pos + 1)                                  (* closing quote *)
  | 92 :: t =>                                                          (* backslash; token_start = pos+1 *)
      let ts := pos + 1 in
      match t with
      | [] => SErr LUnexpectedEof ts ts
      | 34 :: r => lex_string r (pos + 2) start (34 :: acc)
      | 92 :: r => lex_string r (pos + 2) start (92 :: acc)
      | 47 :: r => lex_string r (pos + 2) start (47 :: acc)
      | 98 :: r => lex_string r (pos + 2) start (8 :: acc)
      | 102 :: r => lex_string r (pos + 2) start (12 :: acc)
      | 110 :: r => lex_string r (pos + 2) start (10 :: acc)
      | 114 :: r => lex_string r (pos + 2) start (13 :: acc)
      | 116 :: r => lex_string r (pos + 2) start (9 :: acc)
      | 117 :: u =>                                                     (* \u *)
          match u with
          | a :: b :: c :: d :: r =>
              match hex4val a b c d with
              | None => hex_err 4 u (pos + 2)
              | Some unit1 =>
                  let position := pos + 6 in
                  if (55296 <=? unit1) && (unit1 <=? 57343) then
                    (* surrogate: self.advance()? == '\\' && self.advance()? == 'u' *)
                    match r with
                    | [] => SErr LUnexpectedEof position position
                    | 92 :: r1 =>
                        match r1 with
                        | [] => SErr LUnexpectedEof (position + 1) (position + 1)
                        | 117 :: u2 =>
                            match u2 with
                            | a2 :: b2 :: c2 :: d2 :: r2 =>
                                match hex4val a2 b2 c2 d2 with
                                | None => hex_err 4 u2 (position + 2)
                                | Some unit2 =>
                                    let sum := 65536 + (unit1 - 55296) * 1024 + unit2 in
                                    if sum <? 56320 then SPanic       (* u32 underflow of `- 0xDC00` *)
                                    else
                                      let unicode := sum - 56320 in
                                      if is_scalar unicode then lex_string r2 (position + 6) start (unicode :: acc)
                                      else SErr (LInvalidUnicode unicode) ts (position + 6)
                                end
                            | _ => hex_err 4 u2 (position + 2)
                            end
                        | _ :: _ => SErr (LMissingSurrogate unit1) ts position
                        end
                    | _ :: _ => SErr (LMissingSurrogate unit1) ts position
                    end
                  else if is_scalar unit1 then lex_string r position start (unit1 :: acc)
                  else SErr (LInvalidUnicode unit1) ts position
              end
          | _ => hex_err 4 u (pos + 2)
          end
      | c :: _ => SErr (LUnexpectedChar c XOneOf) ts (ts + 1)
      end
  | c :: t => lex_string t (pos + 1) start (c :: acc)
  end.
(* tokenize of a text that starts with a quote *)
Definition lex_string_literal (text : list N) : sres :=
  match text with
  | 34 :: t => lex_string t 1 0 []
  | _ => SPanic
  end.

(* ---- printing ------------------------------------------------------------------------------------- *)
Definition hexdigit (v : N) : N := if v <? 10 then 48 + v else 87 + v.
Definition hex4 (v : N) : list N :=
  [hexdigit (v / 4096); hexdigit ((v / 256) mod 16); hexdigit ((v / 16) mod 16); hexdigit (v mod 16)].
Definition esc_char (should_escape : N -> bool) (c : N) : list N :=
  if c =? 92 then [92; 92]
  else if c =? 10 then [92; 110]
  else if c =? 13 then [92; 114]
  else if c =? 9 then [92; 116]
  else if c =? 8 then [92; 98]
  else if c =? 12 then [92; 102]
  else if c =? 34 then [92; 34]
  else if should_escape c then
    if c <? 65536 then 92 :: 117 :: hex4 c
    else let v := c - 65536 in
         (92 :: 117 :: hex4 (55296 + v / 1024)) ++ (92 :: 117 :: hex4 (56320 + v mod 1024))
  else [c].
Definition escape (should_escape : N -> bool) (s : list N) : list N :=
  34 :: flat_map (esc_char should_escape) s ++ [34].

(* ---- create_snippet index arithmetic (fixed version) -------------------------------------------------- *)
(* lines = text split on LF (a final empty piece dropped); returns (skipped_chars, source_len,
   range_start, range_end) for a span given by char indices and 0-based line indices *)
Fixpoint split_lf (l : list N) (cur : list N) : list (list N) :=
  match l with
  | [] => [rev cur]
  | 10 :: t => rev cur :: split_lf t []
  | c :: t => split_lf t (c :: cur)
  end.
Definition lines_of (text : list N) : list (list N) :=
  let p := split_lf text [] in
  match rev p with [] :: r => rev r | _ => p end.
Definition lenN {A} (l : list A) : N := N.of_nat (length l).
Fixpoint sum_lens (ls : list (list N)) : N :=
  match ls with [] => 0 | l :: t => lenN l + 1 + sum_lens t end.
Definition snippet_range (text : list N) (start_idx start_line end_idx end_line : N) : option (N * N * N) :=
  let lines := lines_of text in
  let cnt := lenN lines in
  let line_start := if 5 <? start_line + 1 then start_line + 1 - 5 else 1 in
  let line_end := N.min (end_line + 1 + 5) cnt in
  let skipped := sum_lens (firstn (N.to_nat (line_start - 1)) lines) in
  let source_len := sum_lens (firstn (N.to_nat (line_end + 1 - line_start)) (skipn (N.to_nat (line_start - 1)) lines)) in
  let a0 := N.min start_idx (lenN text) in       (* s.len() is in bytes >= chars; min never bites *)
  let b0 := N.min end_idx (lenN text) in
  let b1 := if a0 =? b0 then b0 + 1 else b0 in
  if a0 <? skipped then None                      (* usize underflow = panic *)
  else Some (a0 - skipped, b1 - skipped, source_len).
