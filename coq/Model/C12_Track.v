(* C12 / C02 — executable model of radix-engine/src/track/{track.rs,state_updates.rs} (MappedTrack),
   radix-rust/src/iterators/overlaying_result_iterator.rs and the part of
   radix-common/src/state/state_updates.rs used by TrackedSubstates::to_state_updates.
   Model only: no proofs here.

   Code modelled (as written):
     TrackedSubstateValue::{size,get,set,take,revert_writes}, TrackedPartition/TrackedNode::revert_writes
     MappedTrack::{get_tracked_substate, create_node, get_tracked_substate_info, get_substate,
       set_substate, force_write, remove_substate, scan_keys, drain_substates,
       scan_sorted_substates, delete_partition, revert_non_force_write_changes, finalize}
     OverlayingResultIterator::next (+ Peekable look-ahead, + Iterator::take)
     TrackedSubstates::to_state_updates, StateUpdates::of_node, NodeStateUpdates::of_partition,
     PartitionStateUpdates::{delete, mut_update_substates}, BatchPartitionStateUpdate::mut_update_substate
   Abstractions (all listed in spec/C12.json):
     - NodeId, PartitionNumber are N.  A substate key is the N *rank* of its DbSortKey among the
       keys the harness uses in that partition: BTreeMap<DbSortKey,_> order = N order; SubstateKey <->
       DbSortKey is a bijection (that is property C16), so one N stands for both.
     - a value (IndexedScryptoValue) is a pair (id, len): the code only moves values and takes len().
     - the base database is a function node -> partition -> sorted association list.
     - IndexMap / IndexSet = insertion-ordered association lists (order is observable in
       finalize() and in StateUpdates and is modelled); BTreeMap = key-sorted association list.
     - the on_io_access callback always returns Ok; the IOAccess values it receives are the emitted
       event list (a failing callback aborts the transaction; what the Track does afterwards is
       revert, covered for *every* well-formed track state by the C02 theorems).
     - transient substates (mark_as_transient) are not used: `transient_substates` stays empty.
     - `items.len() == limit` is carried as a count-down `rem = limit - items.len()`.
   Panics (force_write on an untracked substate = expect() on the Err of the always-failing
   callback; the three unwrap()s of revert; the assert! of create_node) are the outcome RPanic. *)
From Coq Require Import List NArith Bool.
Import ListNotations.
Open Scope N_scope.

Definition key := N.
Definition node := N.
Definition part := N.
Definition value := (N * N)%type.              (* id, len() *)
Definition vsize (v : value) : N := snd v.

(* ---------- association lists ---------- *)
Fixpoint al_get {A} (k : N) (l : list (N * A)) : option A :=
  match l with
  | [] => None
  | (k', a) :: r => if k =? k' then Some a else al_get k r
  end.
(* IndexMap::insert — replace in place, else append at the end *)
Fixpoint im_set {A} (k : N) (a : A) (l : list (N * A)) : list (N * A) :=
  match l with
  | [] => [(k, a)]
  | (k', a') :: r => if k =? k' then (k, a) :: r else (k', a') :: im_set k a r
  end.
(* BTreeMap::insert on a key-sorted list *)
Fixpoint sm_put {A} (k : N) (a : A) (l : list (N * A)) : list (N * A) :=
  match l with
  | [] => [(k, a)]
  | (k', a') :: r =>
      if k <? k' then (k, a) :: l
      else if k =? k' then (k, a) :: r
      else (k', a') :: sm_put k a r
  end.
(* IndexMap::swap_remove — the last entry takes the place of the removed one *)
Fixpoint remove_last {A} (l : list A) : list A :=
  match l with
  | [] => []
  | [_] => []
  | x :: r => x :: remove_last r
  end.
Fixpoint replace_entry {A} (k : N) (e : N * A) (l : list (N * A)) : list (N * A) :=
  match l with
  | [] => []
  | (k', a') :: r => if k =? k' then e :: r else (k', a') :: replace_entry k e r
  end.
Definition im_swap_remove {A} (k : N) (l : list (N * A)) : list (N * A) :=
  match al_get k l with
  | None => l
  | Some _ =>
      match rev l with
      | [] => l
      | (kl, al) :: _ => if kl =? k then remove_last l else replace_entry k (kl, al) (remove_last l)
      end
  end.
(* IndexSet<(NodeId,PartitionNumber)>::insert *)
Fixpoint iset_add (x : N * N) (l : list (N * N)) : list (N * N) :=
  match l with
  | [] => [x]
  | y :: r => if (fst x =? fst y) && (snd x =? snd y) then l else y :: iset_add x r
  end.
Definition iset_mem (x : N * N) (l : list (N * N)) : bool :=
  existsb (fun y => (fst x =? fst y) && (snd x =? snd y)) l.

(* ---------- TrackedSubstateValue ---------- *)
Inductive write := WUpdate (v : value) | WDelete.
Inductive tsv :=
| TNew (v : value)
| TRoNone                                   (* ReadOnly(NonExistent) *)
| TRoSome (v : value)                       (* ReadOnly(Existent) *)
| TRExW (old : value) (w : write)           (* ReadExistAndWrite *)
| TRNexW (v : value)                        (* ReadNonExistAndWrite *)
| TWo (w : write)                           (* WriteOnly *)
| TGarbage.

Definition write_value (w : write) : option value :=
  match w with WUpdate v => Some v | WDelete => None end.
Definition write_size (w : write) : N :=
  match w with WUpdate v => vsize v | WDelete => 0 end.

Definition tsv_size (t : tsv) : N :=
  match t with
  | TNew v => vsize v
  | TRoNone => 0
  | TRoSome v => vsize v
  | TRExW e w => vsize e + write_size w
  | TRNexW v => vsize v
  | TWo w => write_size w
  | TGarbage => 0
  end.
Definition tsv_get (t : tsv) : option value :=
  match t with
  | TNew v | TRoSome v | TRNexW v => Some v
  | TWo w | TRExW _ w => write_value w
  | TRoNone | TGarbage => None
  end.
Definition tsv_set (t : tsv) (v : value) : tsv :=
  match t with
  | TGarbage => TWo (WUpdate v)
  | TNew _ => TNew v
  | TWo _ => TWo (WUpdate v)
  | TRExW e _ => TRExW e (WUpdate v)
  | TRNexW _ => TRNexW v
  | TRoNone => TRNexW v
  | TRoSome old => TRExW old (WUpdate v)
  end.
Definition tsv_take (t : tsv) : tsv * option value :=
  match t with
  | TGarbage => (TGarbage, None)
  | TNew v => (TGarbage, Some v)
  | TWo w => (TWo WDelete, write_value w)
  | TRExW e w => (TRExW e WDelete, write_value w)
  | TRNexW v => (TRoNone, Some v)
  | TRoSome v => (TRExW v WDelete, Some v)
  | TRoNone => (TRoNone, None)
  end.
Definition tsv_revert (t : tsv) : tsv :=
  match t with
  | TRoNone | TRoSome _ | TGarbage => t
  | TNew _ | TWo _ => TGarbage
  | TRExW e _ => TRoSome e
  | TRNexW _ => TRoNone
  end.
(* TrackedSubstateInfo: 0 = New, 1 = Updated, 2 = Unmodified *)
Definition tsv_info (t : tsv) : N :=
  match t with
  | TNew _ | TGarbage => 0
  | TWo _ | TRExW _ _ | TRNexW _ => 1
  | TRoNone | TRoSome _ => 2
  end.

(* ---------- track state ---------- *)
Record tpart := mk_tpart { ps_subs : list (key * tsv); ps_rr : N }.
Record tnode := mk_tnode { tn_parts : list (part * tpart); tn_new : bool }.
Definition nodes := list (node * tnode).
Record track := mk_track { t_nodes : nodes; t_fw : nodes; t_del : list (node * part) }.
Definition track_new : track := mk_track [] [] [].
Definition dbfun := node -> part -> list (key * value).

Inductive event :=
| EvReadDb (n p k sz : N)
| EvReadDbNotFound (n p k : N)
| EvTrackUpd (n p k : N) (old new : option N).

Definition empty_part : tpart := mk_tpart [] 0.
Definition node_or_default (ns : nodes) (n : node) : tnode :=
  match al_get n ns with Some nd => nd | None => mk_tnode [] false end.
Definition part_or_default (nd : tnode) (p : part) : tpart :=
  match al_get p (tn_parts nd) with Some ps => ps | None => empty_part end.
(* entry(n).or_insert(TrackedNode::new(false)).tracked_partitions.entry(p).or_default() *)
Definition cur_part (ns : nodes) (n : node) (p : part) : tpart :=
  part_or_default (node_or_default ns n) p.
(* ... and the partition as left behind by the caller *)
Definition put_part (ns : nodes) (n : node) (p : part) (ps : tpart) : nodes :=
  let nd := node_or_default ns n in
  im_set n (mk_tnode (im_set p ps (tn_parts nd)) (tn_new nd)) ns.
Definition find_part (ns : nodes) (n : node) (p : part) : option tpart :=
  match al_get n ns with Some nd => al_get p (tn_parts nd) | None => None end.
Definition node_is_new (ns : nodes) (n : node) : bool :=
  match al_get n ns with Some nd => tn_new nd | None => false end.
Definition set_nodes (t : track) (ns : nodes) : track := mk_track ns (t_fw t) (t_del t).
Definition with_subs (ps : tpart) (s : list (key * tsv)) : tpart := mk_tpart s (ps_rr ps).

(* get_tracked_substate with a succeeding callback *)
Definition get_tracked (db : dbfun) (t : track) (n p k : N) : track * tsv * list event :=
  let ps := cur_part (t_nodes t) n p in
  match al_get k (ps_subs ps) with
  | Some tv => (set_nodes t (put_part (t_nodes t) n p ps), tv, [])
  | None =>
      let '(tv, ev) :=
        match al_get k (db n p) with
        | Some v => (TRoSome v, EvReadDb n p k (vsize v))
        | None => (TRoNone, EvReadDbNotFound n p k)
        end in
      (set_nodes t (put_part (t_nodes t) n p (with_subs ps (sm_put k tv (ps_subs ps)))), tv,
       [ev; EvTrackUpd n p k None (Some (tsv_size tv))])
  end.

Definition get_substate (db : dbfun) (t : track) (n p k : N) : track * option value * list event :=
  let '(t', tv, evs) := get_tracked db t n p k in (t', tsv_get tv, evs).

Definition set_substate (t : track) (n p k : N) (v : value) : track * list event :=
  let ps := cur_part (t_nodes t) n p in
  match al_get k (ps_subs ps) with
  | None =>
      let tv := TWo (WUpdate v) in
      (set_nodes t (put_part (t_nodes t) n p (with_subs ps (sm_put k tv (ps_subs ps)))),
       [EvTrackUpd n p k None (Some (tsv_size tv))])
  | Some tv =>
      let tv' := tsv_set tv v in
      (set_nodes t (put_part (t_nodes t) n p (with_subs ps (sm_put k tv' (ps_subs ps)))),
       [EvTrackUpd n p k (Some (tsv_size tv)) (Some (tsv_size tv'))])
  end.

Definition remove_substate (db : dbfun) (t : track) (n p k : N) : track * option value * list event :=
  let '(t1, tv, evs) := get_tracked db t n p k in
  let '(tv', taken) := tsv_take tv in
  let ps := cur_part (t_nodes t1) n p in
  (set_nodes t1 (put_part (t_nodes t1) n p (with_subs ps (sm_put k tv' (ps_subs ps)))), taken,
   evs ++ [EvTrackUpd n p k (Some (tsv_size tv)) (Some (tsv_size tv'))]).

(* force_write: None = panic (the substate is not tracked, the Err callback is reached) *)
Definition force_write (t : track) (n p k : N) : option track :=
  let ps := cur_part (t_nodes t) n p in
  match al_get k (ps_subs ps) with
  | None => None
  | Some tv =>
      let fps := cur_part (t_fw t) n p in
      Some (mk_track (put_part (t_nodes t) n p ps)
                     (put_part (t_fw t) n p (with_subs fps (sm_put k tv (ps_subs fps))))
                     (t_del t))
  end.

Definition tracked_info (t : track) (n p k : N) : N :=
  match find_part (t_nodes t) n p with
  | Some ps => match al_get k (ps_subs ps) with Some tv => tsv_info tv | None => 2 end
  | None => 2
  end.

(* create_node: None = assert!(old_tracked.is_none()) fails *)
Fixpoint cn_subs (n p : N) (l : list (key * value)) (acc : list (key * tsv)) : option (list (key * tsv) * list event) :=
  match l with
  | [] => Some (acc, [])
  | (k, v) :: r =>
      match al_get k acc with
      | Some _ => None
      | None =>
          match cn_subs n p r (sm_put k (TNew v) acc) with
          | None => None
          | Some (s, evs) => Some (s, EvTrackUpd n p k None (Some (vsize v)) :: evs)
          end
      end
  end.
Fixpoint cn_parts (n : N) (l : list (part * list (key * value))) (acc : list (part * tpart)) : option (list (part * tpart) * list event) :=
  match l with
  | [] => Some (acc, [])
  | (p, subs) :: r =>
      match cn_subs n p subs [] with
      | None => None
      | Some (s, evs) =>
          match cn_parts n r (im_set p (mk_tpart s 0) acc) with
          | None => None
          | Some (ps, evs') => Some (ps, evs ++ evs')
          end
      end
  end.
Definition create_node (t : track) (n : N) (l : list (part * list (key * value))) : option (track * list event) :=
  match cn_parts n l [] with
  | None => None
  | Some (ps, evs) => Some (set_nodes t (im_set n (mk_tnode ps true) (t_nodes t)), evs)
  end.

(* scan_keys, first loop: tracked substates; returns the keys and what is left of the limit *)
Fixpoint scan_tracked (rem : N) (subs : list (key * tsv)) : list key * N :=
  match subs with
  | [] => ([], rem)
  | (k, tv) :: r =>
      if rem =? 0 then ([], 0)
      else match tsv_get tv with
           | Some _ => let '(ks, rem') := scan_tracked (rem - 1) r in (k :: ks, rem')
           | None => scan_tracked rem r
           end
  end.
(* second loop of scan_keys / drain_substates over the database iterator: collected entries,
   IterationCountedIter::num_iterations, and one ReadFromDb per entry pulled *)
Fixpoint db_collect (n p : N) (rem : N) (tracked : list (key * tsv)) (dbl : list (key * value))
  : list (key * value) * N * list event :=
  match dbl with
  | [] => ([], 1, [])
  | (k, v) :: r =>
      let ev := EvReadDb n p k (vsize v) in
      if rem =? 0 then ([], 1, [ev])
      else match al_get k tracked with
           | Some _ => let '(l, it, evs) := db_collect n p rem tracked r in (l, it + 1, ev :: evs)
           | None => let '(l, it, evs) := db_collect n p (rem - 1) tracked r in ((k, v) :: l, it + 1, ev :: evs)
           end
  end.

Definition scan_keys (db : dbfun) (t : track) (n p : N) (limit : N) : track * list key * list event :=
  let is_new := node_is_new (t_nodes t) n in
  let tracked := match find_part (t_nodes t) n p with Some ps => ps_subs ps | None => [] end in
  let '(ks, rem) := scan_tracked limit tracked in
  if (rem =? 0) || is_new then (t, ks, [])
  else
    let '(l, it, evs) := db_collect n p rem tracked (db n p) in
    let ps := cur_part (t_nodes t) n p in
    (set_nodes t (put_part (t_nodes t) n p (mk_tpart (ps_subs ps) (N.max (ps_rr ps) it))),
     ks ++ map fst l, evs).

(* drain_substates, first loop *)
Fixpoint drain_tracked (n p : N) (rem : N) (subs : list (key * tsv))
  : list (key * tsv) * list (key * value) * N * list event :=
  match subs with
  | [] => ([], [], rem, [])
  | (k, tv) :: r =>
      if rem =? 0 then (subs, [], 0, [])
      else
        let '(tv', taken) := tsv_take tv in
        let ev := EvTrackUpd n p k (Some (tsv_size tv)) (Some (tsv_size tv')) in
        match taken with
        | Some v => let '(s, items, rem', evs) := drain_tracked n p (rem - 1) r in
                    ((k, tv') :: s, (k, v) :: items, rem', ev :: evs)
        | None => let '(s, items, rem', evs) := drain_tracked n p rem r in
                  ((k, tv') :: s, items, rem', ev :: evs)
        end
  end.
(* drain_substates, "Update track" loop *)
Fixpoint drain_insert (n p : N) (news : list (key * value)) (subs : list (key * tsv)) : list (key * tsv) * list event :=
  match news with
  | [] => (subs, [])
  | (k, v) :: r =>
      let tv := TRExW v WDelete in
      let old := option_map tsv_size (al_get k subs) in
      let '(s, evs) := drain_insert n p r (sm_put k tv subs) in
      (s, EvTrackUpd n p k old (Some (tsv_size tv)) :: evs)
  end.

Definition drain_substates (db : dbfun) (t : track) (n p : N) (limit : N) : track * list (key * value) * list event :=
  let is_new := node_is_new (t_nodes t) n in
  let '(t1, tracked, items, rem, evs1) :=
    match find_part (t_nodes t) n p with
    | Some ps =>
        let '(s, items, rem, evs) := drain_tracked n p limit (ps_subs ps) in
        (set_nodes t (put_part (t_nodes t) n p (with_subs ps s)), s, items, rem, evs)
    | None => (t, [], [], limit, [])
    end in
  if (rem =? 0) || is_new then (t1, items, evs1)
  else
    let '(l, it, evs2) := db_collect n p rem tracked (db n p) in
    let ps := cur_part (t_nodes t1) n p in
    let '(s, evs3) := drain_insert n p l (ps_subs ps) in
    (set_nodes t1 (put_part (t_nodes t1) n p (mk_tpart s (N.max (ps_rr ps) it))),
     items ++ l, evs1 ++ evs2 ++ evs3).

(* OverlayingResultIterator::next iterated under Iterator::take(limit).
   o = the overlaying iterator (track entries: Some = upsert, None = delete), u = what is left of
   the underlying (database) iterator, pk = "the head of u is already pulled into the Peekable".
   Result: the items and the number of database entries pulled (look-ahead included).
   Outer recursion on o, inner on u: every step consumes from one of them. *)
Fixpoint ov_merge (o : list (key * option value)) : N -> bool -> list (key * value) -> list (key * value) * N :=
  fix mu (limit : N) (pk : bool) (u : list (key * value)) {struct u} : list (key * value) * N :=
    if limit =? 0 then ([], 0)
    else
      match o with
      | [] =>
          match u with
          | [] => ([], 0)
          | e :: r => let '(l, c) := mu (limit - 1) false r in (e :: l, (if pk then 0 else 1) + c)
          end
      | (ok, ch) :: o' =>
          match u with
          | [] =>
              match ch with
              | Some v => let '(l, c) := ov_merge o' (limit - 1) false [] in ((ok, v) :: l, c)
              | None => ov_merge o' limit false []
              end
          | (uk, uv) :: r =>
              let pulled := if pk then 0 else 1 in
              if uk <? ok then
                let '(l, c) := mu (limit - 1) false r in ((uk, uv) :: l, pulled + c)
              else if uk =? ok then
                match ch with
                | Some v => let '(l, c) := ov_merge o' (limit - 1) false r in ((ok, v) :: l, pulled + c)
                | None => let '(l, c) := ov_merge o' limit false r in (l, pulled + c)
                end
              else
                match ch with
                | Some v => let '(l, c) := ov_merge o' (limit - 1) true u in ((ok, v) :: l, pulled + c)
                | None => let '(l, c) := ov_merge o' limit true u in (l, pulled + c)
                end
          end
      end.

Definition scan_sorted (db : dbfun) (t : track) (n p : N) (limit : N) : track * list (key * value) * list event :=
  let ps := cur_part (t_nodes t) n p in
  let ns1 := put_part (t_nodes t) n p ps in
  let is_new := node_is_new ns1 n in
  let dbl := if is_new then [] else db n p in
  let o := map (fun e => (fst e, tsv_get (snd e))) (ps_subs ps) in
  let '(items, c) := ov_merge o limit false dbl in
  (set_nodes t (put_part ns1 n p (mk_tpart (ps_subs ps) (N.max (ps_rr ps) c))), items,
   map (fun e => EvReadDb n p (fst e) (vsize (snd e))) (firstn (N.to_nat c) dbl)).

Definition delete_partition (t : track) (n p : N) : track :=
  mk_track (t_nodes t) (t_fw t) (iset_add (n, p) (t_del t)).

(* revert_non_force_write_changes: None = one of the three unwrap()s fails *)
Definition revert_part (ps : tpart) : tpart :=
  mk_tpart (map (fun e => (fst e, tsv_revert (snd e))) (ps_subs ps)) (ps_rr ps).
Definition revert_node (nd : tnode) : tnode :=
  mk_tnode (map (fun e => (fst e, revert_part (snd e))) (tn_parts nd)) (tn_new nd).
Definition restore_one (ns : nodes) (n p k : N) (tv : tsv) : option nodes :=
  match al_get n ns with
  | None => None
  | Some nd =>
      match al_get p (tn_parts nd) with
      | None => None
      | Some ps =>
          match al_get k (ps_subs ps) with
          | None => None
          | Some _ => Some (im_set n (mk_tnode (im_set p (with_subs ps (sm_put k tv (ps_subs ps))) (tn_parts nd)) (tn_new nd)) ns)
          end
      end
  end.
Fixpoint restore_subs (ns : nodes) (n p : N) (l : list (key * tsv)) : option nodes :=
  match l with
  | [] => Some ns
  | (k, tv) :: r => match restore_one ns n p k tv with None => None | Some ns' => restore_subs ns' n p r end
  end.
Fixpoint restore_parts (ns : nodes) (n : N) (l : list (part * tpart)) : option nodes :=
  match l with
  | [] => Some ns
  | (p, ps) :: r => match restore_subs ns n p (ps_subs ps) with None => None | Some ns' => restore_parts ns' n r end
  end.
Fixpoint restore_nodes (ns : nodes) (l : nodes) : option nodes :=
  match l with
  | [] => Some ns
  | (n, nd) :: r => match restore_parts ns n (tn_parts nd) with None => None | Some ns' => restore_nodes ns' r end
  end.
Definition revert (t : track) : option track :=
  let ns1 := filter (fun e => negb (tn_new (snd e))) (t_nodes t) in
  let ns2 := map (fun e => (fst e, revert_node (snd e))) ns1 in
  match restore_nodes ns2 (t_fw t) with
  | None => None
  | Some ns3 => Some (mk_track ns3 [] (t_del t))
  end.

(* ---------- StateUpdates ---------- *)
Inductive dbupd := USet (v : value) | UDelete.
Inductive pupd := PDelta (l : list (key * dbupd)) | PReset (l : list (key * value)).
Definition supd := list (node * list (part * pupd)).

(* of_node(n).of_partition(p) followed by a modification f of the partition updates *)
Definition su_update (s : supd) (n p : N) (f : pupd -> pupd) : supd :=
  let nd := match al_get n s with Some x => x | None => [] end in
  let pu := match al_get p nd with Some x => x | None => PDelta [] end in
  im_set n (im_set p (f pu) nd) s.
Definition batch_update (l : list (key * value)) (e : key * dbupd) : list (key * value) :=
  match snd e with
  | USet v => im_set (fst e) v l
  | UDelete => im_swap_remove (fst e) l
  end.
Definition mut_update_substates (ups : list (key * dbupd)) (pu : pupd) : pupd :=
  match pu with
  | PDelta l => PDelta (fold_left (fun acc e => im_set (fst e) (snd e) acc) ups l)
  | PReset l => PReset (fold_left batch_update ups l)
  end.
Definition tsv_update (t : tsv) : option dbupd :=
  match t with
  | TRoNone | TRoSome _ | TGarbage => None
  | TRNexW v | TNew v => Some (USet v)
  | TRExW _ w | TWo w => Some (match w with WDelete => UDelete | WUpdate v => USet v end)
  end.
Fixpoint part_updates (subs : list (key * tsv)) : list (key * dbupd) :=
  match subs with
  | [] => []
  | (k, tv) :: r => match tsv_update tv with Some u => (k, u) :: part_updates r | None => part_updates r end
  end.
(* .collect::<IndexMap<_,_>>() *)
Definition im_collect {A} (l : list (N * A)) : list (N * A) :=
  fold_left (fun acc e => im_set (fst e) (snd e) acc) l [].
Fixpoint su_parts (s : supd) (n : N) (l : list (part * tpart)) : supd :=
  match l with
  | [] => s
  | (p, ps) :: r =>
      let ups := im_collect (part_updates (ps_subs ps)) in
      su_parts (match ups with [] => s | _ => su_update s n p (mut_update_substates ups) end) n r
  end.
Fixpoint su_nodes (s : supd) (l : nodes) : supd :=
  match l with
  | [] => s
  | (n, nd) :: r => su_nodes (su_parts s n (tn_parts nd)) r
  end.
Definition su_deleted (l : list (node * part)) : supd :=
  fold_left (fun s e => su_update s (fst e) (snd e) (fun _ => PReset [])) l [].
Fixpoint iset_add1 (x : N) (l : list N) : list N :=
  match l with [] => [x] | y :: r => if x =? y then l else y :: iset_add1 x r end.
Definition new_nodes (l : nodes) : list node :=
  fold_left (fun acc e => if tn_new (snd e) then iset_add1 (fst e) acc else acc) l [].
(* finalize() (no transient substates) followed by to_state_updates() *)
Definition to_state_updates (t : track) : list node * supd :=
  (new_nodes (t_nodes t), su_nodes (su_deleted (t_del t)) (t_nodes t)).

(* committing StateUpdates to a database, pointwise (the meaning of Delta / Reset updates) *)
Definition apply_su (s : supd) (db : dbfun) (n p k : N) : option value :=
  match al_get n s with
  | None => al_get k (db n p)
  | Some nd =>
      match al_get p nd with
      | None => al_get k (db n p)
      | Some (PDelta l) =>
          match al_get k l with
          | Some (USet v) => Some v
          | Some UDelete => None
          | None => al_get k (db n p)
          end
      | Some (PReset l) => al_get k l
      end
  end.

(* ---------- operations ---------- *)
Inductive op :=
| OCreateNode (n : N) (subs : list (part * list (key * value)))
| OGet (n p k : N)
| OSet (n p k : N) (v : value)
| ORemove (n p k : N)
| OForceWrite (n p k : N)
| OInfo (n p k : N)
| OScanKeys (n p limit : N)
| ODrain (n p limit : N)
| OScanSorted (n p limit : N)
| ODeletePartition (n p : N)
| ORevert.

Inductive res :=
| RUnit
| ROpt (o : option value)
| RInfo (i : N)
| RKeys (l : list key)
| RKVs (l : list (key * value))
| RPanic.

Definition step (db : dbfun) (t : track) (o : op) : track * res * list event :=
  match o with
  | OCreateNode n l =>
      match create_node t n l with Some (t', evs) => (t', RUnit, evs) | None => (t, RPanic, []) end
  | OGet n p k => let '(t', r, evs) := get_substate db t n p k in (t', ROpt r, evs)
  | OSet n p k v => let '(t', evs) := set_substate t n p k v in (t', RUnit, evs)
  | ORemove n p k => let '(t', r, evs) := remove_substate db t n p k in (t', ROpt r, evs)
  | OForceWrite n p k =>
      match force_write t n p k with Some t' => (t', RUnit, []) | None => (t, RPanic, []) end
  | OInfo n p k => (t, RInfo (tracked_info t n p k), [])
  | OScanKeys n p limit => let '(t', r, evs) := scan_keys db t n p limit in (t', RKeys r, evs)
  | ODrain n p limit => let '(t', r, evs) := drain_substates db t n p limit in (t', RKVs r, evs)
  | OScanSorted n p limit => let '(t', r, evs) := scan_sorted db t n p limit in (t', RKVs r, evs)
  | ODeletePartition n p => (delete_partition t n p, RUnit, [])
  | ORevert => match revert t with Some t' => (t', RUnit, []) | None => (t, RPanic, []) end
  end.

(* a run stops at the first panic *)
Fixpoint run (db : dbfun) (t : track) (ops : list op) : track * list (res * list event) :=
  match ops with
  | [] => (t, [])
  | o :: r =>
      let '(t', rs, evs) := step db t o in
      match rs with
      | RPanic => (t', [(RPanic, evs)])
      | _ => let '(t'', outs) := run db t' r in (t'', (rs, evs) :: outs)
      end
  end.

(* ---------- get_commit_info (no transient substates) ---------- *)
Inductive commit :=
| CInsert (n p k size : N)
| CUpdate (n p k size old_size : N)
| CDelete (n p k old_size : N).

Definition commit_of (db : dbfun) (n p k : N) (tv : tsv) : option commit :=
  match tv with
  | TNew v => Some (CInsert n p k (vsize v))
  | TRoNone | TRoSome _ | TGarbage => None
  | TRExW old (WUpdate x) => Some (CUpdate n p k (vsize x) (vsize old))
  | TRExW old WDelete => Some (CDelete n p k (vsize old))
  | TRNexW v => Some (CInsert n p k (vsize v))
  | TWo w =>
      (* the only place where the database is consulted: the old size of a blind write *)
      match al_get k (db n p), w with
      | Some o, WUpdate x => Some (CUpdate n p k (vsize x) (vsize o))
      | Some o, WDelete => Some (CDelete n p k (vsize o))
      | None, WUpdate x => Some (CInsert n p k (vsize x))
      | None, WDelete => None
      end
  end.
Fixpoint commit_subs (db : dbfun) (n p : N) (subs : list (key * tsv)) : list commit :=
  match subs with
  | [] => []
  | (k, tv) :: r => match commit_of db n p k tv with Some c => c :: commit_subs db n p r | None => commit_subs db n p r end
  end.
Definition get_commit_info (db : dbfun) (t : track) : list commit :=
  flat_map (fun e => flat_map (fun q => commit_subs db (fst e) (fst q) (ps_subs (snd q))) (tn_parts (snd e))) (t_nodes t).
