(* C35 — executable model of radix-transactions/src/validation/transaction_structure_validator.rs:
     TransactionValidator::validate_intent_relationships  (STEP 1, 2A, 2B, 3, 4 as written)
     and the yield-count loop at the end of TransactionValidator::validate_intents_and_structure.
   Model only: no proofs here.

   Abstractions:
     - a 32-byte hash is an N; IntentHash = Transaction(h) | Subintent(h) is `ihash`;
       PLACEHOLDER_PARENT = IntentHash::Transaction(0...0) is `ITx 0`;
     - `non_root_subintent_details : IndexMap<SubintentHash, SubintentRelationshipDetails>` is held as
       parallel lists in insertion order (hashes, parents, depths, children); `details.index` is the
       position (it is set to the enumeration index at insertion and never modified by the code);
       `get_mut(&hash)` = `index_of`, `get_index(i)` = `nth_error`;
     - `IntentStructure::validate_intent` is the source of the `ManifestYieldSummary` of each intent;
       it is an input here (the harness stub returns it), `child_yields : IndexMap<SubintentHash,usize>`
       is an association list;
     - `yield_summaries : IndexMap<IntentHash, ManifestYieldSummary>` is an association list with
       IndexMap::insert semantics (replace in place when the key exists);
     - usize arithmetic: `depth + 1` cannot overflow below `max_depth + 1` (N, unbounded);
       `max_subintent_depth - 1` underflow (root is a subintent, configured depth 0; overflow checks on)
       is the explicit outcome Panic;
     - every `unwrap()` is an explicit Panic branch; the `loop` of STEP 3 takes fuel = number of
       subintents (the bound argued in the code's comment) with the explicit outcome OutOfFuel. *)
From Coq Require Import List NArith Bool.
Import ListNotations.
Open Scope N_scope.

Inductive ihash := ITx (h : N) | ISub (h : N).
Definition ihash_eqb (a b : ihash) : bool :=
  match a, b with ITx x, ITx y => x =? y | ISub x, ISub y => x =? y | _, _ => false end.
Definition PLACEHOLDER : ihash := ITx 0.
Definition is_for_subintent (h : ihash) : bool := match h with ISub _ => true | ITx _ => false end.

Record summary := { parent_yields : N; child_yields : list (N * N) }.
Record intent := { i_children : list N; i_summary : summary }.
Record sub := { s_hash : N; s_intent : intent }.
Record tree := {
  t_root_hash : ihash;
  t_root : intent;
  t_subs : list sub;
  t_max_subintent_depth : N       (* config.max_subintent_depth *)
}.

Inductive err :=
| DuplicateSubintent | SubintentHasMultipleParents | ChildSubintentNotIncluded (c : N)
| SubintentExceedsMaxDepth | SubintentIsNotReachable | MismatchingYield.
Inductive loc := NonRoot (i : nat) (h : N) | Unlocatable.
Inductive outcome :=
| Accept (root_children : list nat) (parents : list ihash) (depths : list N) (children : list (list nat))
| Reject (e : err) (l : loc)
| Panic
| OutOfFuel.

(* ---- small list helpers ---- *)
Fixpoint upd {A} (i : nat) (x : A) (l : list A) : list A :=
  match l, i with
  | [], _ => []
  | _ :: r, O => x :: r
  | y :: r, S i' => y :: upd i' x r
  end.
Fixpoint index_of (h : N) (l : list N) : option nat :=
  match l with
  | [] => None
  | x :: r => if h =? x then Some O else option_map S (index_of h r)
  end.
Definition mem (h : N) (l : list N) : bool := existsb (N.eqb h) l.
Fixpoint assoc (h : N) (l : list (N * N)) : option N :=
  match l with [] => None | (k, v) :: r => if h =? k then Some v else assoc h r end.

(* ---- STEP 1: IndexMap::insert(..).is_some() => DuplicateSubintent at the enumeration index ---- *)
Fixpoint first_dup (hs : list N) (i : nat) (seen : list N) : option (nat * N) :=
  match hs with
  | [] => None
  | h :: r => if mem h seen then Some (i, h) else first_dup r (S i) (h :: seen)
  end.

(* ---- STEP 2: one child of one parent ---- *)
Definition assign (hashes : list N) (parent : ihash) (c : N) (s : list ihash * list nat)
  : outcome + (list ihash * list nat) :=
  let '(ps, acc) := s in
  match index_of c hashes with
  | None => inl (Reject (ChildSubintentNotIncluded c) Unlocatable)
  | Some i =>
    match nth_error ps i with
    | None => inl Panic
    | Some p =>
      if ihash_eqb p PLACEHOLDER then inr (upd i parent ps, acc ++ [i])
      else inl (Reject SubintentHasMultipleParents (NonRoot i c))
    end
  end.
Fixpoint assign_all (hashes : list N) (parent : ihash) (cs : list N) (s : list ihash * list nat)
  : outcome + (list ihash * list nat) :=
  match cs with
  | [] => inr s
  | c :: r => match assign hashes parent c s with
              | inl e => inl e
              | inr s' => assign_all hashes parent r s'
              end
  end.
(* STEP 2B: for every subintent, its children; then `get_mut(&subintent_hash).unwrap().children = ..` *)
Fixpoint step2b (hashes : list N) (subs : list sub) (ps : list ihash) (chs : list (list nat))
  : outcome + (list ihash * list (list nat)) :=
  match subs with
  | [] => inr (ps, chs)
  | s :: r =>
    match assign_all hashes (ISub (s_hash s)) (i_children (s_intent s)) (ps, []) with
    | inl e => inl e
    | inr (ps', acc) =>
      match index_of (s_hash s) hashes with
      | None => inl Panic
      | Some k => step2b hashes r ps' (upd k acc chs)
      end
    end
  end.

(* ---- STEP 3: work list (head = top of the Vec used as a stack) ---- *)
Definition push_children (cs : list nat) (d : N) (wl : list (nat * N)) : list (nat * N) :=
  rev (map (fun c => (c, d)) cs) ++ wl.
Fixpoint dfs (fuel : nat) (hashes : list N) (maxd : N) (chs : list (list nat))
             (wl : list (nat * N)) (ds : list N) : outcome + list N :=
  match wl with
  | [] => inr ds
  | (i, d) :: wl' =>
    match fuel with
    | O => inl OutOfFuel
    | S f =>
      if maxd <? d then
        match nth_error hashes i with
        | None => inl Panic
        | Some h => inl (Reject SubintentExceedsMaxDepth (NonRoot i h))
        end
      else
        match nth_error chs i with
        | None => inl Panic
        | Some cs => dfs f hashes maxd chs (push_children cs (d + 1) wl') (upd i d ds)
        end
    end
  end.
Definition effective_max (t : tree) : option N :=
  if is_for_subintent (t_root_hash t)
  then (if t_max_subintent_depth t =? 0 then None else Some (t_max_subintent_depth t - 1))
  else Some (t_max_subintent_depth t).

(* ---- STEP 4 ---- *)
Fixpoint first_unmarked (hs : list N) (ds : list N) (i : nat) : option (nat * N) :=
  match hs, ds with
  | h :: hr, d :: dr => if d =? 0 then Some (i, h) else first_unmarked hr dr (S i)
  | _, _ => None
  end.

(* ---- yield counts (validate_intents_and_structure) ---- *)
Definition ysmap := list (ihash * summary).
Fixpoint ys_insert (k : ihash) (v : summary) (m : ysmap) : ysmap :=
  match m with
  | [] => [(k, v)]
  | (k', v') :: r => if ihash_eqb k k' then (k', v) :: r else (k', v') :: ys_insert k v r
  end.
Fixpoint ys_get (k : ihash) (m : ysmap) : option summary :=
  match m with [] => None | (k', v) :: r => if ihash_eqb k k' then Some v else ys_get k r end.
Definition yield_summaries (t : tree) : ysmap :=
  fold_left (fun m s => ys_insert (ISub (s_hash s)) (i_summary (s_intent s)) m) (t_subs t)
            (ys_insert (t_root_hash t) (i_summary (t_root t)) []).
Fixpoint yield_check (ys : ysmap) (hs : list N) (ps : list ihash) (i : nat) : option outcome :=
  match hs, ps with
  | h :: hr, p :: pr =>
    match ys_get p ys with
    | None => Some Panic
    | Some psum =>
      match assoc h (child_yields psum) with
      | None => Some Panic
      | Some pc =>
        match ys_get (ISub h) ys with
        | None => Some Panic
        | Some csum =>
          if pc =? parent_yields csum then yield_check ys hr pr (S i)
          else Some (Reject MismatchingYield (NonRoot i h))
        end
      end
    end
  | _, _ => None
  end.

Definition hashes_of (t : tree) : list N := map s_hash (t_subs t).

(* validate_intent_relationships: Reject/Panic/OutOfFuel, or (root children, parents, depths, children).
   `fuel` bounds the iterations of the STEP 3 loop. *)
Definition relationships_with (fuel : nat) (t : tree)
  : outcome + (list nat * list ihash * list N * list (list nat)) :=
  let hs := hashes_of t in
  match first_dup hs O [] with
  | Some (i, h) => inl (Reject DuplicateSubintent (NonRoot i h))
  | None =>
    let n := length hs in
    match assign_all hs (t_root_hash t) (i_children (t_root t)) (repeat PLACEHOLDER n, []) with
    | inl e => inl e
    | inr (ps1, rootch) =>
      match step2b hs (t_subs t) ps1 (repeat [] n) with
      | inl e => inl e
      | inr (ps, chs) =>
        match effective_max t with
        | None => inl Panic
        | Some maxd =>
          match dfs fuel hs maxd chs (push_children rootch 1 []) (repeat 0 n) with
          | inl e => inl e
          | inr ds =>
            match first_unmarked hs ds O with
            | Some (i, h) => inl (Reject SubintentIsNotReachable (NonRoot i h))
            | None => inr (rootch, ps, ds, chs)
            end
          end
        end
      end
    end
  end.

(* validate_intents_and_structure with intents whose own validation succeeds *)
Definition validate_with (fuel : nat) (t : tree) : outcome :=
  match relationships_with fuel t with
  | inl e => e
  | inr (rootch, ps, ds, chs) =>
    match yield_check (yield_summaries t) (hashes_of t) ps O with
    | Some e => e
    | None => Accept rootch ps ds chs
    end
  end.

(* the model proper: fuel = number of subintents, the iteration bound argued in the code's comment
   (theorem C35_worklist_terminates: it is never exhausted when the root hash is not the placeholder;
   theorem C35_fuel_irrelevant: more fuel never changes a result other than OutOfFuel) *)
Definition relationships (t : tree) := relationships_with (length (hashes_of t)) t.
Definition validate (t : tree) : outcome := validate_with (length (hashes_of t)) t.

(* ================================================================================================
   Specification (what "well-formed tree" means, stated on hashes and the declared-children lists,
   independent of the algorithm above).  Definitions only. *)

(* every child declaration of every intent, in order, with multiplicity *)
Definition declared (t : tree) : list N :=
  i_children (t_root t) ++ flat_map (fun s => i_children (s_intent s)) (t_subs t).

(* `depth_of t h d`: the subintent hash h is reached from the root by a chain of d child declarations *)
Inductive depth_of (t : tree) : N -> nat -> Prop :=
| depth_root : forall c, In c (i_children (t_root t)) -> depth_of t c 1
| depth_step : forall s c d, In s (t_subs t) -> depth_of t (s_hash s) d ->
               In c (i_children (s_intent s)) -> depth_of t c (S d).

(* the parent intent p yields to each declared child exactly as often as that child yields to its parent *)
Definition yields_match (t : tree) (p : intent) : Prop :=
  forall c s, In c (i_children p) -> In s (t_subs t) -> s_hash s = c ->
    assoc c (child_yields (i_summary p)) = Some (parent_yields (i_summary (s_intent s))).

Definition WellFormed (t : tree) (maxd : N) : Prop :=
  (* pairwise distinct *)
  NoDup (hashes_of t) /\
  (* every declared child is present *)
  (forall c, In c (declared t) -> In c (hashes_of t)) /\
  (* every subintent is declared as a child exactly once over all intents: exactly one parent *)
  (forall h, In h (hashes_of t) -> count_occ N.eq_dec (declared t) h = 1%nat) /\
  (* every subintent is reachable from the root, within the maximum depth *)
  (forall h, In h (hashes_of t) -> exists d, depth_of t h d /\ N.of_nat d <= maxd) /\
  (* yield counts match along every parent/child declaration *)
  (yields_match t (t_root t) /\ forall s, In s (t_subs t) -> yields_match t (s_intent s)).

(* hypotheses on hashes (hold for real transactions unless Blake2b-256 is broken: the root
   transaction-intent hash is not 0^32, and the root subintent's hash is not the hash of one of its
   own descendants) *)
Definition root_not_placeholder (t : tree) : Prop := t_root_hash t <> PLACEHOLDER.
Definition root_fresh (t : tree) : Prop := forall h, In h (hashes_of t) -> t_root_hash t <> ISub h.
(* what `ManifestYieldSummary::new_with_children(children)` guarantees for real intents *)
Definition summary_covers (p : intent) : Prop :=
  forall c, In c (i_children p) -> assoc c (child_yields (i_summary p)) <> None.
Definition summaries_cover (t : tree) : Prop :=
  summary_covers (t_root t) /\ forall s, In s (t_subs t) -> summary_covers (s_intent s).

Definition accepted (t : tree) : Prop := exists r p d c, validate t = Accept r p d c.

(* ================================================================================================
   Extension: validate_intents_and_structure with intents whose own validation can fail.
   `IntentStructure::validate_intent(validator, &mut aggregation)` of each intent is summarised by what it
   does to the aggregation and what it returns (the harness stub does exactly this):
     aggregation.record_reference_count(v_refs, config)?     -- Err(TooManyReferences{total: v_refs, limit})
                                                                when v_refs > max_references_per_intent,
                                                                else total = total.saturating_add(v_refs)
     if let Some(code) = v_fail { return Err(error(code)) }  -- any other IntentValidationError
     Ok(yield summary)
   The order in the code: relationships (STEP 1-4) first, then the root intent, then the non-root
   subintents in list order (error location = enumeration index + hash), then
   AcrossIntentAggregation::finalize (total > max_total_references), then the yield loop. *)
Definition USIZE_MAX : N := 18446744073709551615.
Definition sat_add (a b : N) : N := N.min (a + b) USIZE_MAX.      (* usize::saturating_add *)

Record iverdict := { v_refs : N; v_fail : option N }.
Record full := {
  f_tree : tree;
  f_root_v : iverdict;
  f_sub_vs : list iverdict;              (* one per non-root subintent, same order *)
  f_max_references_per_intent : N;
  f_max_total_references : N
}.
Inductive ierr := IntentFailed (code : N) | TooManyReferences (total limit : N).
Inductive floc := FRoot | FNonRoot (i : nat) (h : N) | FAcross.
Inductive foutcome :=
| FStructure (o : outcome)            (* verdict of the structure / yield checks (Accept, Reject, Panic, OutOfFuel) *)
| FIntent (l : floc) (e : ierr).      (* TransactionValidationError::IntentValidationError(location, error) *)

Definition run_intent (per total : N) (v : iverdict) : ierr + N :=
  if per <? v_refs v then inl (TooManyReferences (v_refs v) per)
  else match v_fail v with
       | Some c => inl (IntentFailed c)
       | None => inr (sat_add total (v_refs v))
       end.
Fixpoint run_subs (per : N) (i : nat) (hs : list N) (vs : list iverdict) (total : N) : (floc * ierr) + N :=
  match hs, vs with
  | h :: hr, v :: vr =>
    match run_intent per total v with
    | inl e => inl (FNonRoot i h, e)
    | inr t' => run_subs per (S i) hr vr t'
    end
  | _, _ => inr total
  end.
Definition validate_full_with (fuel : nat) (f : full) : foutcome :=
  let t := f_tree f in
  match relationships_with fuel t with
  | inl e => FStructure e
  | inr (rootch, ps, ds, chs) =>
    match run_intent (f_max_references_per_intent f) 0 (f_root_v f) with
    | inl e => FIntent FRoot e
    | inr t1 =>
      match run_subs (f_max_references_per_intent f) O (hashes_of t) (f_sub_vs f) t1 with
      | inl (l, e) => FIntent l e
      | inr total =>
        if f_max_total_references f <? total
        then FIntent FAcross (TooManyReferences total (f_max_total_references f))
        else match yield_check (yield_summaries t) (hashes_of t) ps O with
             | Some e => FStructure e
             | None => FStructure (Accept rootch ps ds chs)
             end
      end
    end
  end.
Definition validate_full (f : full) : foutcome := validate_full_with (length (hashes_of (f_tree f))) f.

(* specification side *)
Definition intent_ok (per : N) (v : iverdict) : Prop := v_refs v <= per /\ v_fail v = None.
Definition total_references (f : full) : N :=
  fold_left sat_add (map v_refs (f_root_v f :: f_sub_vs f)) 0.
Definition full_accepted (f : full) : Prop := exists r p d c, validate_full f = FStructure (Accept r p d c).
