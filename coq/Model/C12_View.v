(* C12 / C02 — the abstract specification the Track model is proved to refine: `view` = the base
   database overlaid with the transaction's own creations, writes and removals, as a plain map
   (node -> partition -> key-sorted association list). No proofs here. *)
From Coq Require Import List NArith Bool.
Import ListNotations.
Require Import RV.Model.C12_Track.
Open Scope N_scope.

Fixpoint sm_del {A} (k : N) (l : list (N * A)) : list (N * A) :=
  match l with
  | [] => []
  | (k', a) :: r => if k =? k' then r else (k', a) :: sm_del k r
  end.

(* strictly increasing keys *)
Fixpoint sorted_from {A} (lo : N) (l : list (N * A)) : Prop :=
  match l with
  | [] => True
  | (k, _) :: r => lo < k /\ sorted_from k r
  end.
Definition sorted {A} (l : list (N * A)) : Prop :=
  match l with
  | [] => True
  | (k, _) :: r => sorted_from k r
  end.

Record vstate := mk_vstate {
  v_view : node -> part -> list (key * value);   (* what a read must return *)
  v_new : node -> bool;                          (* nodes created in this transaction *)
  v_fw : list (N * N * N * option value);        (* force-written keys with the value they held, newest first *)
  v_del : list (node * part)                     (* partitions marked for deletion *)
}.

Definition vinit (db : dbfun) : vstate := mk_vstate db (fun _ => false) [] [].

Definition upd2 {A} (f : N -> N -> A) (n p : N) (a : A) : N -> N -> A :=
  fun n' p' => if (n' =? n) && (p' =? p) then a else f n' p'.

Definition sm_of_list (l : list (key * value)) : list (key * value) :=
  fold_left (fun acc e => sm_put (fst e) (snd e) acc) l [].

Fixpoint fw_get (l : list (N * N * N * option value)) (n p k : N) : option (option value) :=
  match l with
  | [] => None
  | (n', p', k', x) :: r => if (n =? n') && (p =? p') && (k =? k') then Some x else fw_get r n p k
  end.

(* the database overlaid with the force-written snapshots only: what survives a revert *)
Definition fw_view (db : dbfun) (fw : list (N * N * N * option value)) (n p : N) : list (key * value) :=
  fold_right (fun e acc =>
      let '(n', p', k', x) := e in
      if (n =? n') && (p =? p') then match x with Some v => sm_put k' v acc | None => sm_del k' acc end
      else acc)
    (db n p) fw.

(* a limited key scan / drain: distinct present keys, and either the limit is reached or every
   present key is returned *)
Definition scan_spec (limit : N) (pv : list (key * value)) (ks : list key) : Prop :=
  NoDup ks /\ (forall k, In k ks -> al_get k pv <> None) /\ N.of_nat (length ks) <= limit
  /\ (N.of_nat (length ks) < limit -> forall k, al_get k pv <> None -> In k ks).

(* is result r allowed for operation o in abstract state s *)
Definition spec_ok (s : vstate) (o : op) (r : res) : Prop :=
  match o with
  | OCreateNode _ _ | OSet _ _ _ _ | ODeletePartition _ _ | ORevert => r = RUnit
  | OGet n p k | ORemove n p k => r = ROpt (al_get k (v_view s n p))
  | OForceWrite _ _ _ => r = RUnit \/ r = RPanic     (* panics iff the substate is not loaded: C12_force_write_panics_iff *)
  | OInfo _ _ _ => exists i, r = RInfo i
  | OScanKeys n p limit => exists ks, r = RKeys ks /\ scan_spec limit (v_view s n p) ks
  | ODrain n p limit =>
      exists kvs, r = RKVs kvs /\ scan_spec limit (v_view s n p) (map fst kvs)
                  /\ forall k v, In (k, v) kvs -> al_get k (v_view s n p) = Some v
  | OScanSorted n p limit => r = RKVs (firstn (N.to_nat limit) (v_view s n p))
  end.

(* the abstract state after operation o returned r *)
Definition spec_next (db : dbfun) (s : vstate) (o : op) (r : res) : vstate :=
  match o with
  | OCreateNode n l =>
      mk_vstate (fun n' p' => if n' =? n then sm_of_list (match al_get p' l with Some x => x | None => [] end)
                              else v_view s n' p')
                (fun n' => if n' =? n then true else v_new s n') (v_fw s) (v_del s)
  | OSet n p k v => mk_vstate (upd2 (v_view s) n p (sm_put k v (v_view s n p))) (v_new s) (v_fw s) (v_del s)
  | ORemove n p k => mk_vstate (upd2 (v_view s) n p (sm_del k (v_view s n p))) (v_new s) (v_fw s) (v_del s)
  | ODrain n p _ =>
      match r with
      | RKVs kvs => mk_vstate (upd2 (v_view s) n p (fold_left (fun acc e => sm_del (fst e) acc) kvs (v_view s n p)))
                              (v_new s) (v_fw s) (v_del s)
      | _ => s
      end
  | OForceWrite n p k =>
      match r with
      | RUnit => mk_vstate (v_view s) (v_new s) ((n, p, k, al_get k (v_view s n p)) :: v_fw s) (v_del s)
      | _ => s
      end
  | ODeletePartition n p => mk_vstate (v_view s) (v_new s) (v_fw s) (iset_add (n, p) (v_del s))
  | ORevert => mk_vstate (fw_view db (v_fw s)) (fun _ => false) [] (v_del s)
  | OGet _ _ _ | OInfo _ _ _ | OScanKeys _ _ _ | OScanSorted _ _ _ => s
  end.

(* client obligations of the Track API (documented in interface.rs / enforced by the kernel):
   - create_node only with a node id that holds nothing in the database ("must be new and unique"),
     well-formed NodeSubstates (it is a BTreeMap of BTreeMaps), and not over a force-written node;
   - force_write only on a node that was not created in this transaction (system.rs admits
     FORCE_WRITE only with UNMODIFIED_BASE on a fungible vault).
   The track-level condition for ORevert (no blind write over a database value) delimits the known
   finding `garbage-after-revert`. *)
Definition no_blind_overwrite (db : dbfun) (t : track) : Prop :=
  forall n p ps k w, find_part (t_nodes t) n p = Some ps -> al_get k (ps_subs ps) = Some (TWo w) ->
                     al_get k (db n p) = None.
Definition adm (db : dbfun) (t : track) (s : vstate) (o : op) : Prop :=
  match o with
  | OCreateNode n l =>
      (forall p, db n p = []) /\ NoDup (map fst l) /\ (forall p subs, In (p, subs) l -> NoDup (map fst subs))
      /\ (forall p k, fw_get (v_fw s) n p k = None)
  | OForceWrite n _ _ => v_new s n = false
  | ORevert => no_blind_overwrite db t
  | _ => True
  end.

(* an implementation run checked against the specification: every result is allowed, as long as the
   operations are admissible in the states reached *)
Fixpoint conforms (db : dbfun) (t : track) (s : vstate) (ops : list op) : Prop :=
  match ops with
  | [] => True
  | o :: r =>
      adm db t s o ->
      let '(t', rs, _) := step db t o in
      spec_ok s o rs /\ match rs with RPanic => True | _ => conforms db t' (spec_next db s o rs) r end
  end.

Definition db_wf (db : dbfun) : Prop := forall n p, sorted (db n p).

(* states reachable by admissible, non-panicking operations, paired with the abstract state *)
Inductive reach (db : dbfun) : track -> vstate -> Prop :=
| reach_init : reach db track_new (vinit db)
| reach_step : forall t s o t' r evs,
    reach db t s -> adm db t s o -> step db t o = (t', r, evs) -> r <> RPanic ->
    reach db t' (spec_next db s o r).
