(* C28 — executable model of the Bech32m address text form.
   Model only: no proofs here.

   Code modelled (as written):
     crate bech32 0.9.1 (~/.cargo/registry): polymod, hrp_expand, verify_checksum, check_hrp,
       split_and_decode, decode, convert_bits (5 -> 8, pad = false, as used by
       Vec<u8>::from_base32), ToBase32 for [u8] (the buffer/buffer_bits loop), u5::to_char,
       Bech32Writer::{new, polymod_step, write_u5, write_checksum}, CHARSET, CHARSET_REV, GEN
     radix-common/src/address/encoder.rs: AddressBech32Encoder::encode, bech32_encode_to_fmt,
       bech32_check_hrp (a copy of check_hrp)
     radix-common/src/address/decoder.rs: validate_and_decode_ignore_hrp, validate_and_decode
     radix-common/src/address/hrpset.rs: HrpSet::get_entity_hrp, From<&NetworkDefinition>
       (hrp = entity prefix ++ network suffix; the prefix table per entity-type byte is GENERATED
        from the code into RV.Gen.C28_entity_types by harness bin gen_c28)

   Conventions: bytes, u5 values and u32 words are N. Strings are byte lists (valid UTF-8 is
   guaranteed by &str; '1' and every charset character are ASCII, so byte-level search/splitting
   coincides with the char-level operations of the code). Array indexing out of bounds and
   `expect` are the explicit outcome Panic. Errors carry no payload (the harness canonicalises
   them the same way). *)
From Coq Require Import List NArith Bool.
Import ListNotations.
Require Import RV.Gen.C28_entity_types.
Open Scope N_scope.

Inductive b32_error :=
  MissingSeparator | InvalidChecksum | InvalidLength | InvalidChar | InvalidData | InvalidPadding
| MixedCase.

Inductive res (E A : Type) : Type := Ok (a : A) | Err (e : E) | Panic.
Arguments Ok {E A} a.
Arguments Err {E A} e.
Arguments Panic {E A}.
Definition bind {E A B} (r : res E A) (k : A -> res E B) : res E B :=
  match r with Ok a => k a | Err e => Err e | Panic => Panic end.
Notation "x <- r ;; k" := (bind r (fun x => k)) (at level 61, r at next level, right associativity).
Notation "' p <- r ;; k" := (bind r (fun p => k))
  (at level 61, p pattern, r at next level, right associativity).

(* ---------------------------------------------------------------------------------------------- *)
(* constants *)

Definition SEP : N := 49.  (* '1' *)
Definition CHECKSUM_LENGTH : nat := 6.
Definition BECH32_CONST : N := 1.
Definition BECH32M_CONST : N := 0x2bc830a3.
Definition G0 : N := 0x3b6a57b2.
Definition G1 : N := 0x26508e6d.
Definition G2 : N := 0x1ea119fa.
Definition G3 : N := 0x3d4233dd.
Definition G4 : N := 0x2a1462b3.

(* "qpzry9x8gf2tvdw0s3jn54khce6mua7l" *)
Definition CHARSET : list N :=
  [113; 112; 122; 114; 121; 57; 120; 56; 103; 102; 50; 116; 118; 100; 119; 48;
   115; 51; 106; 110; 53; 52; 107; 104; 99; 101; 54; 109; 117; 97; 55; 108].

(* CHARSET_REV: [i8; 128]; the entry -1 is written 255 here (only `0..=31` is ever accepted) *)
Definition CHARSET_REV : list N :=
  [255; 255; 255; 255; 255; 255; 255; 255; 255; 255; 255; 255; 255; 255; 255; 255;
   255; 255; 255; 255; 255; 255; 255; 255; 255; 255; 255; 255; 255; 255; 255; 255;
   255; 255; 255; 255; 255; 255; 255; 255; 255; 255; 255; 255; 255; 255; 255; 255;
   15; 255; 10; 17; 21; 20; 26; 30; 7; 5; 255; 255; 255; 255; 255; 255;
   255; 29; 255; 24; 13; 25; 9; 8; 23; 255; 18; 22; 31; 27; 19; 255;
   1; 0; 3; 16; 11; 28; 12; 14; 6; 4; 2; 255; 255; 255; 255; 255;
   255; 29; 255; 24; 13; 25; 9; 8; 23; 255; 18; 22; 31; 27; 19; 255;
   1; 0; 3; 16; 11; 28; 12; 14; 6; 4; 2; 255; 255; 255; 255; 255].

(* ---------------------------------------------------------------------------------------------- *)
(* checksum *)

(* polymod_step: b = (chk >> 25) as u8; chk = (chk & 0x1ffffff) << 5 ^ v; for i in 0..5 { if (b >> i) & 1 == 1 { chk ^= GEN[i] } } *)
Definition polymod_step (chk v : N) : N :=
  let b := N.shiftr chk 25 in
  let c := N.lxor (N.shiftl (N.land chk 0x1ffffff) 5) v in
  let c := if N.testbit b 0 then N.lxor c G0 else c in
  let c := if N.testbit b 1 then N.lxor c G1 else c in
  let c := if N.testbit b 2 then N.lxor c G2 else c in
  let c := if N.testbit b 3 then N.lxor c G3 else c in
  let c := if N.testbit b 4 then N.lxor c G4 else c in
  c.

Definition polymod_from (chk : N) (values : list N) : N := fold_left polymod_step values chk.
Definition polymod (values : list N) : N := polymod_from 1 values.

Definition hrp_expand (hrp : list N) : list N :=
  map (fun b => N.shiftr b 5) hrp ++ [0] ++ map (fun b => N.land b 0x1f) hrp.

(* Bech32Writer::write_checksum: six zero steps, xor the variant constant, six 5-bit groups, high first *)
Definition checksum_of (chk_after_data : N) (variant_const : N) : list N :=
  let chk := polymod_from chk_after_data [0; 0; 0; 0; 0; 0] in
  let plm := N.lxor chk variant_const in
  map (fun p => N.land (N.shiftr plm (5 * (5 - p))) 0x1f) [0; 1; 2; 3; 4; 5].

(* Variant::from_remainder: Some true = Bech32m, Some false = Bech32 *)
Definition variant_from_remainder (c : N) : option bool :=
  if c =? BECH32_CONST then Some false else if c =? BECH32M_CONST then Some true else None.

Definition verify_checksum (hrp data : list N) : option bool :=
  variant_from_remainder (polymod (hrp_expand hrp ++ data)).

(* ---------------------------------------------------------------------------------------------- *)
(* 8 -> 5 bits: ToBase32 for [u8]  (u8 arithmetic: `<<` drops the bits shifted out) *)

Definition u8 (x : N) : N := N.land x 0xff.

Fixpoint to_base32_loop (bytes : list N) (buffer_bits buffer : N) : list N :=
  match bytes with
  | [] =>
    (* after the loop *)
    let '(out1, buffer, buffer_bits) :=
      if 5 <=? buffer_bits
      then ([N.shiftr (N.land buffer 0xf8) 3], u8 (N.shiftl buffer 5), buffer_bits - 5)
      else ([], buffer, buffer_bits) in
    if negb (buffer_bits =? 0) then out1 ++ [N.shiftr buffer 3] else out1
  | b :: tl =>
    let '(out1, buffer, buffer_bits) :=
      if 5 <=? buffer_bits
      then ([N.shiftr (N.land buffer 0xf8) 3], u8 (N.shiftl buffer 5), buffer_bits - 5)
      else ([], buffer, buffer_bits) in
    let from_buffer := N.shiftr buffer 3 in
    let from_byte := N.shiftr b (3 + buffer_bits) in
    out1 ++ [N.lor from_buffer from_byte]
      ++ to_base32_loop tl (buffer_bits + 3) (u8 (N.shiftl b (5 - buffer_bits)))
  end.
Definition to_base32 (bytes : list N) : list N := to_base32_loop bytes 0 0.

(* 5 -> 8 bits: convert_bits(data, 5, 8, false); acc is a u32 (`<<` drops the bits shifted out) *)
Definition u32 (x : N) : N := N.land x 0xffffffff.

(* `while bits >= 8 { bits -= 8; ret.push((acc >> bits) & 0xff) }`: at most one iteration is
   possible when 5 is added to bits < 8, two are allowed for by the fuel *)
Fixpoint drain (fuel : nat) (acc bits : N) : list N * N :=
  match fuel with
  | O => ([], bits)
  | S f =>
    if 8 <=? bits then
      let bits' := bits - 8 in
      let '(out, bits'') := drain f acc bits' in
      (N.land (N.shiftr acc bits') 0xff :: out, bits'')
    else ([], bits)
  end.

Fixpoint from_base32_loop (data : list N) (acc bits : N) : res b32_error (list N) :=
  match data with
  | [] =>
    if (5 <=? bits) || negb (N.land (u32 (N.shiftl acc (8 - bits))) 0xff =? 0)
    then Err InvalidPadding else Ok []
  | v :: tl =>
    if negb (N.shiftr v 5 =? 0) then Err InvalidData else
    let acc := N.lor (u32 (N.shiftl acc 5)) v in
    let bits := bits + 5 in
    let '(out, bits) := drain 2 acc bits in
    rest <- from_base32_loop tl acc bits ;;
    Ok (out ++ rest)
  end.
Definition from_base32 (data : list N) : res b32_error (list N) := from_base32_loop data 0 0.

(* ---------------------------------------------------------------------------------------------- *)
(* HRP checks (check_hrp in the crate = bech32_check_hrp in encoder.rs) *)

Inductive bcase := CUpper | CLower | CNone.

Definition is_lower (b : N) : bool := (97 <=? b) && (b <=? 122).
Definition is_upper (b : N) : bool := (65 <=? b) && (b <=? 90).

Fixpoint check_hrp_loop (l : list N) (has_lower has_upper : bool) : res b32_error bcase :=
  match l with
  | [] =>
    match has_upper, has_lower with
    | true, false => Ok CUpper
    | false, true => Ok CLower
    | false, false => Ok CNone
    | true, true => Panic (* unreachable!() *)
    end
  | b :: tl =>
    if negb ((33 <=? b) && (b <=? 126)) then Err InvalidChar else
    let has_lower := if is_lower b then true else has_lower in
    let has_upper := if is_lower b then has_upper else if is_upper b then true else has_upper in
    if has_lower && has_upper then Err MixedCase else check_hrp_loop tl has_lower has_upper
  end.

Definition check_hrp (hrp : list N) : res b32_error bcase :=
  if (Nat.eqb (length hrp) 0) || Nat.ltb 83 (length hrp) then Err InvalidLength
  else check_hrp_loop hrp false false.

(* str::to_lowercase on a string whose bytes are all in 33..=126 *)
Definition to_lower (b : N) : N := if is_upper b then b + 32 else b.

(* ---------------------------------------------------------------------------------------------- *)
(* encoding *)

Definition to_char {E} (v : N) : res E N :=
  match nth_error CHARSET (N.to_nat v) with Some c => Ok c | None => Panic end.

Fixpoint map_res {E A B} (f : A -> res E B) (l : list A) : res E (list B) :=
  match l with
  | [] => Ok []
  | x :: tl => y <- f x ;; ys <- map_res f tl ;; Ok (y :: ys)
  end.

(* bech32_encode_to_fmt(fmt, hrp, data, Bech32m) writing into a String (no fmt errors) *)
Definition bech32m_encode (hrp data5 : list N) : res b32_error (list N) :=
  c <- check_hrp hrp ;;
  let hrp_lower := match c with CUpper => map to_lower hrp | _ => hrp end in
  let chk := polymod_from 1 (hrp_expand hrp_lower) in
  let chk := polymod_from chk data5 in
  dchars <- map_res to_char data5 ;;
  cchars <- map_res to_char (checksum_of chk BECH32M_CONST) ;;
  Ok (hrp_lower ++ [SEP] ++ dchars ++ cchars).

Inductive enc_error := EncBech32 (e : b32_error) | EncMissingEntityTypeByte | EncInvalidEntityTypeId.

(* EntityType::from_repr + HrpSet::get_entity_hrp with an empty network suffix: generated table *)
Fixpoint lookup (t : list (N * list N)) (b : N) : option (list N) :=
  match t with
  | [] => None
  | (k, v) :: tl => if k =? b then Some v else lookup tl b
  end.
Definition entity_prefix (b : N) : option (list N) := lookup entity_table b.
(* hrp_set.get_entity_hrp(entity) for the network with hrp_suffix `suffix` *)
Definition entity_hrp (suffix : list N) (b : N) : option (list N) :=
  match entity_prefix b with Some p => Some (p ++ suffix) | None => None end.

(* AddressBech32Encoder::new(network).encode(full_data) *)
Definition encode_address (suffix full_data : list N) : res enc_error (list N) :=
  match full_data with
  | [] => Err EncMissingEntityTypeByte
  | b :: _ =>
    match entity_hrp suffix b with
    | None => Err EncInvalidEntityTypeId
    | Some hrp =>
      match bech32m_encode hrp (to_base32 full_data) with
      | Ok s => Ok s
      | Err e => Err (EncBech32 e)
      | Panic => Panic
      end
    end
  end.

(* ---------------------------------------------------------------------------------------------- *)
(* decoding *)

(* s.rfind('1'): index of the last occurrence *)
Fixpoint rfind (c : N) (s : list N) : option nat :=
  match s with
  | [] => None
  | b :: tl =>
    match rfind c tl with
    | Some i => Some (S i)
    | None => if b =? c then Some O else None
    end
  end.

(* the data-part loop of split_and_decode: chars -> u5 with case tracking *)
Fixpoint decode_chars (l : list N) (case : bcase) : res b32_error (list N) :=
  match l with
  | [] => Ok []
  | c :: tl =>
    if negb (c <? 128) then Err InvalidChar else
    let step :=
      if is_lower c then
        match case with CUpper => Err MixedCase | CNone => Ok CLower | CLower => Ok CLower end
      else if is_upper c then
        match case with CLower => Err MixedCase | CNone => Ok CUpper | CUpper => Ok CUpper end
      else Ok case in
    case' <- step ;;
    match nth_error CHARSET_REV (N.to_nat c) with
    | None => Panic
    | Some num_value =>
      if negb (num_value <=? 31) then Err InvalidChar else
      rest <- decode_chars tl case' ;;
      Ok (num_value :: rest)
    end
  end.

Definition split_and_decode (s : list N) : res b32_error (list N * list N) :=
  match rfind SEP s with
  | None => Err MissingSeparator
  | Some sep =>
    let raw_hrp := firstn sep s in
    let raw_data := skipn (S sep) s in
    case <- check_hrp raw_hrp ;;
    let hrp_lower := match case with CUpper => map to_lower raw_hrp | _ => raw_hrp end in
    data <- decode_chars raw_data case ;;
    Ok (hrp_lower, data)
  end.

(* bech32::decode: (hrp_lower, data without checksum, is_bech32m) *)
Definition bech32_decode (s : list N) : res b32_error (list N * list N * bool) :=
  '(hrp_lower, data) <- split_and_decode s ;;
  if Nat.ltb (length data) CHECKSUM_LENGTH then Err InvalidLength else
  match verify_checksum hrp_lower data with
  | Some variant => Ok (hrp_lower, firstn (length data - CHECKSUM_LENGTH) data, variant)
  | None => Err InvalidChecksum
  end.

Inductive dec_error :=
  DecMissingEntityTypeByte | DecBech32 (e : b32_error) | DecInvalidVariant | DecInvalidEntityTypeId
| DecInvalidHrp.

Fixpoint bytes_eqb (a b : list N) : bool :=
  match a, b with
  | [], [] => true
  | x :: a', y :: b' => (x =? y) && bytes_eqb a' b'
  | _, _ => false
  end.

(* AddressBech32Decoder::validate_and_decode_ignore_hrp: (hrp, entity byte, data) *)
Definition validate_and_decode_ignore_hrp (s : list N) : res dec_error (list N * N * list N) :=
  match bech32_decode s with
  | Panic => Panic
  | Err e => Err (DecBech32 e)
  | Ok (hrp, data5, variant) =>
    if negb variant then Err DecInvalidVariant else
    match from_base32 data5 with
    | Panic => Panic
    | Err e => Err (DecBech32 e)
    | Ok data =>
      match data with
      | [] => Err DecMissingEntityTypeByte
      | b :: _ =>
        match entity_prefix b with
        | None => Err DecInvalidEntityTypeId
        | Some _ => Ok (hrp, b, data)
        end
      end
    end
  end.

(* AddressBech32Decoder::new(network).validate_and_decode(s): (entity byte, data) *)
Definition decode_address (suffix s : list N) : res dec_error (N * list N) :=
  '(actual_hrp, b, data) <- validate_and_decode_ignore_hrp s ;;
  match entity_hrp suffix b with
  | None => Panic (* the entity byte was accepted above: not reachable *)
  | Some expected_hrp =>
    if negb (bytes_eqb actual_hrp expected_hrp) then Err DecInvalidHrp else Ok (b, data)
  end.
