(* C17/C18 — executable model of the 3-tier Jellyfish Merkle tree of
   radix-substate-store-impls/src/state_tree/{jellyfish.rs,types.rs,tier_framework.rs,
   entity_tier.rs,partition_tier.rs,substate_tier.rs,mod.rs,tree_store.rs}.   NO PROOFS HERE.

   Representation choices (everything else follows the code branch by branch):
   * keys are nibble lists (a byte = two nibbles, high first).  A node of the model is the *stored*
     node of tree_store.rs (`TreeNodeV1`: leaf = key suffix below the node's path + value hash +
     payload version; internal = sorted child entries nibble/version/cached hash/is_leaf) with, in
     addition, the child / lower-tier node it refers to embedded in place of the store look-up
     (`reader.get_node(child key)` = follow the embedded pointer).  The explicit versioned store with
     insertions, stale parts and pruning is produced as a log (new nodes, stale parts) by the same
     functions and is replayed on an explicit store in Model/C18_Store.v.
   * the JMT `Node::Leaf` of the code carries the full key; the stored form carries the suffix and
     the code converts on every read/write (`into_jmt_node`/`from_jmt_node`).  The model keeps the
     suffix, so a leaf that moves one level up/down gets its nibble consed/removed (`lift`, `tl`).
     Key comparisons `kvs[0].0 == existing_leaf_key` are comparisons of suffixes (same path).
   * `u16` existence/leaf bitmaps of `InternalNode::merkle_hash` are the list of child entries
     restricted to the range (bit i set = an entry with nibble i is in the list); `count_ones`,
     `trailing_zeros`, `!= 0` are read off that list.
   * `NibbleRangeIterator` (binary search for the end of the run of equal nibbles in a *sorted*
     slice) = consecutive runs of equal nibbles (`groups`).  `get_nibble` past the end of a key is a
     Rust slice-index panic = `Panic`.
   * recursion over depth uses fuel; `OutOfFuel` is excluded in the theorems (fuel > key length).
   * the hash function is a parameter `H` (instantiated with Lib/Blake2b only in Corr). *)
From Coq Require Import List NArith Bool.
Import ListNotations.
Open Scope N_scope.

Inductive res (X : Type) : Type := Ok (x : X) | Panic | OutOfFuel.
Arguments Ok {X} x. Arguments Panic {X}. Arguments OutOfFuel {X}.

Fixpoint leqb (a b : list N) : bool :=
  match a, b with
  | [], [] => true
  | x :: a', y :: b' => (x =? y) && leqb a' b'
  | _, _ => false
  end.

(* lexicographic order on nibble (or byte) lists: Ord of Vec<u8> *)
Fixpoint lltb (a b : list N) : bool :=
  match a, b with
  | [], [] => false
  | [], _ :: _ => true
  | _ :: _, [] => false
  | x :: a', y :: b' => if x <? y then true else if y <? x then false else lltb a' b'
  end.

Definition ZERO_HASH : list N := repeat 0 32.   (* SPARSE_MERKLE_PLACEHOLDER_HASH *)

(* nibbles <-> bytes *)
Fixpoint pack (l : list N) : list N :=
  match l with
  | a :: b :: r => (16 * a + b) :: pack r
  | [a] => [16 * a]
  | [] => []
  end.
Definition nibbles_of_bytes (bs : list N) : list N := flat_map (fun b => [b / 16; b mod 16]) bs.

Record child_of (T : Type) : Type := mkChild
  { c_nib : N; c_ver : N; c_hash : list N; c_leaf : bool; c_sub : T }.
Arguments mkChild {T}. Arguments c_nib {T}. Arguments c_ver {T}. Arguments c_hash {T}.
Arguments c_leaf {T}. Arguments c_sub {T}.

(* A = what a leaf of this tier points to (lower-tier root node; unit for the substate tier) *)
Inductive node (A : Type) : Type :=
| Null
| Leaf (suffix : list N) (vh : list N) (payload : N) (sub : A)
| Internal (cs : list (child_of (node A))).
Arguments Null {A}. Arguments Leaf {A}. Arguments Internal {A}.

Definition in_range (start w n : N) : bool := (start <=? n) && (n <? start + w).

Section JMT.
  Variable H : list N -> list N.
  Variable A : Type.
  Notation nodeA := (node A).
  Notation child := (child_of (node A)).

  (* leaf data of an update: value hash, payload, embedded lower tier *)
  Definition ldata := (list N * N * A)%type.
  Definition kv := (list N * option ldata)%type.
  (* leaf-hash function of the current position: suffix -> value hash -> hash *)
  Definition lhT := list N -> list N -> list N.
  Definition lh_root : lhT := fun s vh => H (pack s ++ vh).            (* LeafNode::leaf_hash *)
  Definition lh_down (lh : lhT) (n : N) : lhT := fun s => lh (n :: s).

  Definition is_leaf (t : nodeA) : bool := match t with Leaf _ _ _ _ => true | _ => false end.

  (* InternalNode::merkle_hash(start, width = 2^lvl, range bitmaps = cs restricted) *)
  Fixpoint merkle_hash (lvl : nat) (start : N) (cs : list child) : list N :=
    let rc := filter (fun c => in_range start (2 ^ N.of_nat lvl) (c_nib c)) cs in
    match rc with
    | [] => ZERO_HASH
    | c :: rest =>
      match lvl with
      | O => c_hash c
      | S l =>
        if (match rest with [] => c_leaf c | _ => false end) then c_hash c
        else H (merkle_hash l start rc ++ merkle_hash l (start + 2 ^ N.of_nat l) rc)
      end
    end.

  (* Node::hash *)
  Definition node_hash (lh : lhT) (t : nodeA) : list N :=
    match t with
    | Null => ZERO_HASH
    | Leaf s vh _ _ => lh s vh
    | Internal cs => merkle_hash 4 0 cs
    end.

  (* ---- update log: TreeUpdateBatch.node_batch / stale_node_index_batch (local paths) ---- *)
  Record log : Type := mkLog { l_new : list (list N * nodeA); l_stale : list (N * list N) }.
  Definition nolog : log := mkLog [] [].
  Definition lapp (a b : log) : log := mkLog (l_new a ++ l_new b) (l_stale a ++ l_stale b).
  Definition log_new (p : list N) (t : nodeA) : log := mkLog [(p, t)] [].
  Definition log_stale (v : N) (p : list N) : log := mkLog [] [(v, p)].

  (* NibbleRangeIterator: consecutive runs of equal first nibble, first nibble stripped *)
  Fixpoint groups (kvs : list kv) : option (list (N * list kv)) :=
    match kvs with
    | [] => Some []
    | (k, u) :: rest =>
      match k, groups rest with
      | n :: k', Some gs =>
        match gs with
        | (m, g) :: gs' =>
          if n =? m then Some ((m, (k', u) :: g) :: gs') else Some ((n, [(k', u)]) :: gs)
        | [] => Some [(n, [(k', u)])]
        end
      | _, _ => None
      end
    end.

  Fixpoint run_groups (f : N -> list kv -> res (option nodeA * log)) (gs : list (N * list kv))
    : res (list (N * option nodeA) * log) :=
    match gs with
    | [] => Ok ([], nolog)
    | (n, g) :: gs' =>
      match f n g with
      | Ok (r, lg) =>
        match run_groups f gs' with
        | Ok (rs, lg') => Ok ((n, r) :: rs, lapp lg lg')
        | Panic => Panic | OutOfFuel => OutOfFuel
        end
      | Panic => Panic | OutOfFuel => OutOfFuel
      end
    end.

  Fixpoint somes (rs : list (N * option nodeA)) : list (N * nodeA) :=
    match rs with
    | [] => []
    | (n, Some t) :: r => (n, t) :: somes r
    | (_, None) :: r => somes r
    end.

  (* a leaf returned to the level above: its suffix regains the nibble *)
  Definition lift (n : N) (t : nodeA) : nodeA :=
    match t with Leaf s vh p a => Leaf (n :: s) vh p a | _ => t end.

  Definition mk_child (lh : lhT) (ver : N) (nt : N * nodeA) : child :=
    let '(n, t) := nt in mkChild n ver (node_hash (lh_down lh n) t) (is_leaf t) t.

  (* children map: association list sorted by nibble *)
  Fixpoint cs_insert (c : child) (cs : list child) : list child :=
    match cs with
    | [] => [c]
    | d :: r => if c_nib c <? c_nib d then c :: cs
                else if c_nib c =? c_nib d then c :: r else d :: cs_insert c r
    end.
  Definition cs_remove (n : N) (cs : list child) : list child :=
    filter (fun c => negb (c_nib c =? n)) cs.
  Definition cs_find (n : N) (cs : list child) : option child :=
    find (fun c => c_nib c =? n) cs.

  (* the common tail of batch_update_subtree / ..._with_existing_leaf: build the node from the
     created children, logging put_node for each of them *)
  Definition finish_children (lh : lhT) (path : list N) (ver : N) (children : list (N * nodeA))
    : option nodeA * log :=
    match children with
    | [] => (None, nolog)
    | [(n, t)] =>
      if is_leaf t then (Some (lift n t), nolog)
      else (Some (Internal [mk_child lh ver (n, t)]), log_new (path ++ [n]) t)
    | _ =>
      (Some (Internal (fold_right (fun nt acc => cs_insert (mk_child lh ver nt) acc) [] children)),
       fold_right (fun nt acc => lapp (log_new (path ++ [fst nt]) (snd nt)) acc) nolog children)
    end.

  (* batch_update_subtree *)
  Fixpoint bus (fuel : nat) (lh : lhT) (path : list N) (ver : N) (kvs : list kv)
    : res (option nodeA * log) :=
    match kvs with
    | [(k, u)] =>
      match u with
      | Some (vh, p, a) => Ok (Some (Leaf k vh p a), nolog)
      | None => Ok (None, nolog)
      end
    | _ =>
      match fuel with
      | O => OutOfFuel
      | S f =>
        match groups kvs with
        | None => Panic
        | Some gs =>
          match run_groups (fun n g => bus f (lh_down lh n) (path ++ [n]) ver g) gs with
          | Ok (rs, lg) =>
            let '(r, lg') := finish_children lh path ver (somes rs) in Ok (r, lapp lg lg')
          | Panic => Panic | OutOfFuel => OutOfFuel
          end
        end
      end
    end.

  (* batch_update_subtree_with_existing_leaf; the existing leaf is (s, vh, p, a) *)
  Fixpoint buswel (fuel : nat) (lh : lhT) (path : list N) (ver : N)
           (s : list N) (vh : list N) (p : N) (a : A) (kvs : list kv)
    : res (option nodeA * log) :=
    let general :=
      match fuel with
      | O => OutOfFuel
      | S f =>
        match s with
        | [] => Panic                                  (* existing_leaf_key.get_nibble(depth) *)
        | bucket :: s' =>
          match groups kvs with
          | None => Panic
          | Some gs =>
            match run_groups (fun n g =>
                     if n =? bucket then buswel f (lh_down lh n) (path ++ [n]) ver s' vh p a g
                     else bus f (lh_down lh n) (path ++ [n]) ver g) gs with
            | Ok (rs, lg) =>
              let isolated := negb (existsb (fun ng => fst ng =? bucket) gs) in
              let children := somes rs ++ (if isolated then [(bucket, Leaf s' vh p a)] else []) in
              let '(r, lg') := finish_children lh path ver children in Ok (r, lapp lg lg')
            | Panic => Panic | OutOfFuel => OutOfFuel
            end
          end
        end
      end in
    match kvs with
    | [(k, u)] =>
      if leqb k s then
        match u with
        | Some (vh', p', a') => Ok (Some (Leaf k vh' p' a'), nolog)
        | None => Ok (None, nolog)
        end
      else general
    | _ => general
    end.

  (* batch_insert_at (with insert_at_child inlined as the function given to run_groups);
     nver = version of the node key being read, depth0 = (depth == 0) *)
  Fixpoint bia (fuel : nat) (lh : lhT) (path : list N) (ver : N) (nver : N) (t : nodeA)
           (kvs : list kv) : res (option nodeA * log) :=
    let st := log_stale nver path in
    match t with
    | Internal cs =>
      match fuel with
      | O => OutOfFuel
      | S f =>
        match groups kvs with
        | None => Panic
        | Some gs =>
          match run_groups (fun n g =>
                   match cs_find n cs with
                   | Some c => bia f (lh_down lh n) (path ++ [n]) ver (c_ver c) (c_sub c) g
                   | None => bus f (lh_down lh n) (path ++ [n]) ver g
                   end) gs with
          | Ok (rs, lg) =>
            let old := fold_left (fun acc nr => match snd nr with
                                                | None => cs_remove (fst nr) acc
                                                | Some _ => acc end) rs cs in
            let new := somes rs in
            let build :=
              (Some (Internal (fold_left (fun acc nt => cs_insert (mk_child lh ver nt) acc) new old)),
               fold_right (fun nt acc => lapp (log_new (path ++ [fst nt]) (snd nt)) acc) nolog new) in
            let '(r, lg') :=
              match old, new with
              | [], [] => (None, nolog)
              | [], [(nn, nc)] => if is_leaf nc then (Some (lift nn nc), nolog) else build
              | [oc], [(nn, nc)] =>
                if (c_nib oc =? nn) && is_leaf nc then (Some (lift nn nc), nolog) else build
              | [oc], [] =>
                if c_leaf oc
                then (Some (lift (c_nib oc) (c_sub oc)), log_stale (c_ver oc) (path ++ [c_nib oc]))
                else build
              | _, _ => build
              end in
            Ok (r, lapp st (lapp lg lg'))
          | Panic => Panic | OutOfFuel => OutOfFuel
          end
        end
      end
    | Leaf s vh p a =>
      match buswel fuel lh path ver s vh p a kvs with
      | Ok (r, lg) => Ok (r, lapp st lg)
      | Panic => Panic | OutOfFuel => OutOfFuel
      end
    | Null =>
      match path with
      | [] =>
        match bus fuel lh path ver kvs with
        | Ok (r, lg) => Ok (r, lapp st lg)
        | Panic => Panic | OutOfFuel => OutOfFuel
        end
      | _ => Panic                                    (* assert_eq!(depth, 0) *)
      end
    end.

  (* value_set: BTreeMap<LeafKey, _> collected from the update iterator: sorted by key, a later
     duplicate replaces an earlier one *)
  Fixpoint kv_insert (x : kv) (l : list kv) : list kv :=
    match l with
    | [] => [x]
    | y :: r => if lltb (fst x) (fst y) then x :: l
                else if leqb (fst x) (fst y) then x :: r else y :: kv_insert x r
    end.
  Definition value_set (ups : list kv) : list kv := fold_left (fun acc x => kv_insert x acc) ups [].

  (* batch_put_value_set + generate_tier_update_batch: tier root = option (version, root node).
     Result: new root hash option (None = placeholder), the node put at the new root key, log. *)
  Definition tier_put (fuel : nat) (root : option (N * nodeA)) (ver : N) (ups : list kv)
    : res (option (list N) * nodeA * log) :=
    let kvs := value_set ups in
    match (match root with
           | Some (v0, t) => bia fuel lh_root [] ver v0 t kvs
           | None => bus fuel lh_root [] ver kvs
           end) with
    | Ok (Some r, lg) =>
      let h := node_hash lh_root r in
      Ok ((if leqb h ZERO_HASH then None else Some h), r, lapp lg (log_new [] r))
    | Ok (None, lg) => Ok (None, Null, lapp lg (log_new [] Null))
    | Panic => Panic | OutOfFuel => OutOfFuel
    end.

  (* get_persisted_leaf_payload -> get_with_proof: walk down by the key's nibbles. (The code walks
     through get_child_with_siblings, which may also settle on the only leaf of a sibling range and
     then finds its key different; both give None.) *)
  Fixpoint lookup (fuel : nat) (t : nodeA) (k : list N) : option ldata :=
    match t with
    | Null => None
    | Leaf s vh p a => if leqb s k then Some (vh, p, a) else None
    | Internal cs =>
      match fuel, k with
      | S f, n :: k' => match cs_find n cs with Some c => lookup f (c_sub c) k' | None => None end
      | _, _ => None
      end
    end.

  (* all leaves below a node, in key order: (suffix, data) *)
  Fixpoint leaves (fuel : nat) (t : nodeA) : list (list N * ldata) :=
    match t with
    | Null => []
    | Leaf s vh p a => [(s, (vh, p, a))]
    | Internal cs =>
      match fuel with
      | O => []
      | S f => flat_map (fun c => map (fun kd => (c_nib c :: fst kd, snd kd)) (leaves f (c_sub c))) cs
      end
    end.
End JMT.

Arguments nolog {A}.
Arguments mkLog {A}.
Arguments l_new {A}. Arguments l_stale {A}.

(* ================================================================================================
   Stored form of nodes and the global update record of one commit
   ================================================================================================ *)
Inductive snode : Type :=
| SNull
| SLeaf (suffix : list N) (vh : list N) (payload : N)
| SInternal (cs : list (N * N * list N * bool)).     (* nibble, version, hash, is_leaf *)

Definition stored {A} (t : node A) : snode :=
  match t with
  | Null => SNull
  | Leaf s vh p _ => SLeaf s vh p
  | Internal cs => SInternal (map (fun c => (c_nib c, c_ver c, c_hash c, c_leaf c)) cs)
  end.

Inductive stale_part : Type :=
| StaleNode (ver : N) (path : list N)
| StaleSubtree (ver : N) (path : list N).

(* global log of a commit, in the order of the calls on the store *)
Inductive store_op : Type :=
| OpInsert (ver : N) (path : list N) (n : snode)
| OpStale (p : stale_part).

Definition TIER_SEP : list N := [5; 15].   (* b'_' = 0x5f *)

(* apply_tier_update_batch: inserts first, then stale nodes *)
Definition ops_of_log {A} (prefix : list N) (ver : N) (lg : log A) : list store_op :=
  map (fun pn => OpInsert ver (prefix ++ fst pn) (stored (snd pn))) (l_new lg) ++
  map (fun vp => OpStale (StaleNode (fst vp) (prefix ++ snd vp))) (l_stale lg).

(* ================================================================================================
   The three tiers
   ================================================================================================ *)
Section TIERS.
  Variable H : list N -> list N.
  Variable fuel : nat.

  Definition snodeT := node unit.          (* substate tier *)
  Definition pnodeT := node snodeT.        (* partition tier: leaves point to substate-tier roots *)
  Definition enodeT := node pnodeT.        (* entity tier *)

  Inductive pupdate : Type :=
  | Delta (l : list (list N * option (list N)))      (* sort key nibbles -> Set value | Delete *)
  | Reset (l : list (list N * list N)).

  Fixpoint seqM {X Y} (f : X -> res Y) (l : list X) : res (list Y) :=
    match l with
    | [] => Ok []
    | x :: r => match f x with
                | Ok y => match seqM f r with Ok ys => Ok (y :: ys) | Panic => Panic | OutOfFuel => OutOfFuel end
                | Panic => Panic | OutOfFuel => OutOfFuel
                end
    end.

  (* SubstateTier::apply_partition_updates; root = (root version, root node) of this partition *)
  Definition substate_tier_put (prefix : list N) (root : option (N * snodeT)) (ver : N) (u : pupdate)
    : res (option (list N) * snodeT * list store_op) :=
    let '(root', pre, ups) :=
      match u with
      | Delta l =>
        (root, [],
         map (fun ku => (fst ku, match snd ku with Some v => Some (H v, ver, tt) | None => None end)) l)
      | Reset l =>
        (None,
         match root with Some (v0, _) => [OpStale (StaleSubtree v0 prefix)] | None => [] end,
         map (fun kv => (fst kv, Some (H (snd kv), ver, tt))) l)
      end in
    match tier_put H unit fuel root' ver ups with
    | Ok (h, r, lg) => Ok (h, r, pre ++ ops_of_log prefix ver lg)
    | Panic => Panic | OutOfFuel => OutOfFuel
    end.

  (* PartitionTier::apply_entity_updates; pus = [(partition number as 2 nibbles, update)] *)
  Definition partition_tier_put (ekey : list N) (root : option (N * pnodeT)) (ver : N)
             (pus : list (list N * pupdate)) : res (option (list N) * pnodeT * list store_op) :=
    let prefix := ekey ++ TIER_SEP in
    match seqM (fun pu =>
             let sroot := match root with
                          | Some (_, t) => match lookup snodeT fuel t (fst pu) with
                                           | Some (_, pv, st) => Some (pv, st) | None => None end
                          | None => None end in
             match substate_tier_put (prefix ++ fst pu ++ TIER_SEP) sroot ver (snd pu) with
             | Ok (h, r, ops) =>
               Ok ((fst pu, match h with Some h' => Some (h', ver, r) | None => None end), ops)
             | Panic => Panic | OutOfFuel => OutOfFuel
             end) pus with
    | Ok l =>
      match tier_put H snodeT fuel root ver (map fst l) with
      | Ok (h, r, lg) => Ok (h, r, flat_map snd l ++ ops_of_log prefix ver lg)
      | Panic => Panic | OutOfFuel => OutOfFuel
      end
    | Panic => Panic | OutOfFuel => OutOfFuel
    end.

  (* EntityTier::put_entity_updates; eus = [(entity key nibbles, partition updates)] *)
  Definition entity_tier_put (root : option (N * enodeT)) (ver : N)
             (eus : list (list N * list (list N * pupdate)))
    : res (option (list N) * enodeT * list store_op) :=
    match seqM (fun eu =>
             let proot := match root with
                          | Some (_, t) => match lookup pnodeT fuel t (fst eu) with
                                           | Some (_, pv, pt) => Some (pv, pt) | None => None end
                          | None => None end in
             match partition_tier_put (fst eu) proot ver (snd eu) with
             | Ok (h, r, ops) =>
               Ok ((fst eu, match h with Some h' => Some (h', ver, r) | None => None end), ops)
             | Panic => Panic | OutOfFuel => OutOfFuel
             end) eus with
    | Ok l =>
      match tier_put H pnodeT fuel root ver (map fst l) with
      | Ok (h, r, lg) => Ok (h, r, flat_map snd l ++ ops_of_log [] ver lg)
      | Panic => Panic | OutOfFuel => OutOfFuel
      end
    | Panic => Panic | OutOfFuel => OutOfFuel
    end.

  (* put_at_next_version: state = None | Some (current version, entity-tier root node) *)
  Definition db_updates := list (list N * list (list N * pupdate)).
  Definition tree_state := option (N * enodeT).

  Definition put_at_next_version (st : tree_state) (u : db_updates)
    : res (list N * tree_state * list store_op) :=
    let ver := match st with Some (v, _) => v + 1 | None => 1 end in
    match entity_tier_put st ver u with
    | Ok (h, r, ops) => Ok (match h with Some h' => h' | None => ZERO_HASH end, Some (ver, r), ops)
    | Panic => Panic | OutOfFuel => OutOfFuel
    end.

  (* list_substate_hashes_at_version: ((entity key, partition key), [(sort key, value hash)]) *)
  Definition list_substate_hashes (st : tree_state)
    : list (list N * list N * list (list N * list N)) :=
    match st with
    | None => []
    | Some (_, t) =>
      flat_map (fun e =>
        let '(ek, (_, _, pt)) := e in
        map (fun p => let '(pk, (_, _, stt)) := p in
                      (ek, pk, map (fun s => (fst s, fst (fst (snd s)))) (leaves unit fuel stt)))
            (leaves snodeT fuel pt))
        (leaves pnodeT fuel t)
    end.
End TIERS.
