(* Model/C25_Round.v — executable model of checked_round / checked_floor / checked_ceiling /
   for_withdrawal (decimal.rs, precise_decimal.rs, rounding_mode.rs,
   radix-engine-interface/src/blueprints/resource/mod.rs) and the independent specification of
   the seven rounding modes.  No proofs here. *)
From Coq Require Import ZArith List Bool.
Import ListNotations.
Require Import RV.Lib.DecCore.
Open Scope Z_scope.

Inductive rmode :=
| ToPositiveInfinity | ToNegativeInfinity | ToZero | AwayFromZero
| ToNearestMidpointTowardZero | ToNearestMidpointAwayFromZero | ToNearestMidpointToEven.

Definition all_modes : list rmode :=
  [ToPositiveInfinity; ToNegativeInfinity; ToZero; AwayFromZero;
   ToNearestMidpointTowardZero; ToNearestMidpointAwayFromZero; ToNearestMidpointToEven].

(* rounding_mode.rs: ResolvedRoundingStrategy *)
Inductive strategy := RoundUp | RoundDown | RoundToEven.
Definition towards_zero (is_positive : bool) := if is_positive then RoundDown else RoundUp.
Definition away_from_zero (is_positive : bool) := if is_positive then RoundUp else RoundDown.
Definition from_midpoint_ordering (o : comparison) (equal_strategy : strategy) : strategy :=
  match o with Lt => RoundDown | Eq => equal_strategy | Gt => RoundUp end.
Definition from_mode (m : rmode) (is_positive : bool) (cmp_mid : comparison) : strategy :=
  match m with
  | ToPositiveInfinity => RoundUp
  | ToNegativeInfinity => RoundDown
  | ToZero => towards_zero is_positive
  | AwayFromZero => away_from_zero is_positive
  | ToNearestMidpointTowardZero => from_midpoint_ordering cmp_mid (towards_zero is_positive)
  | ToNearestMidpointAwayFromZero => from_midpoint_ordering cmp_mid (away_from_zero is_positive)
  | ToNearestMidpointToEven => from_midpoint_ordering cmp_mid RoundToEven
  end.

(* checked_round, line by line.  `dp` is the i32 obtained from `decimal_places.into()`. *)
Definition checked_round (f : fmt) (x : Z) (dp : Z) (m : rmode) : res Z :=
  let t := fty f in
  if negb (dp <=? scale f) then Panic else          (* assert!(decimal_places <= SCALE) *)
  if negb (0 <=? dp) then Panic else                 (* assert!(decimal_places >= 0) *)
  let n := scale f - dp in
  let* divisor := ppow t 10 n in                      (* I192::TEN.pow(n) *)
  let* remainder := prem t x divisor in               (* self.0 % divisor *)
  if remainder =? 0 then Ok x else
  let* positive_remainder :=
     (if remainder <? 0 then padd t divisor remainder else Ok remainder) in
  let is_positive := 0 <? x in
  let midpoint := Z.shiftr divisor 1 in               (* divisor >> 1 *)
  let st := from_mode m is_positive (positive_remainder ?= midpoint) in
  match st with
  | RoundUp =>
      let* to_add := unwrap (csub t divisor positive_remainder) in   (* .expect("Always safe") *)
      cadd t x to_add
  | RoundDown => csub t x positive_remainder
  | RoundToEven =>
      let double_divisor := cast t (Z.shiftl divisor 1) in           (* divisor << 1 *)
      if is_positive then
        let* rounded_down := csub t x positive_remainder in
        let* r := prem t rounded_down double_divisor in
        if r =? 0 then Ok rounded_down else cadd t rounded_down divisor
      else
        let* to_add := unwrap (csub t divisor positive_remainder) in
        let* rounded_up := cadd t x to_add in
        let* r := prem t rounded_up double_divisor in
        if r =? 0 then Ok rounded_up else csub t rounded_up divisor
  end.

Definition checked_floor f x := checked_round f x 0 ToNegativeInfinity.
Definition checked_ceiling f x := checked_round f x 0 ToPositiveInfinity.

(* ForWithdrawal for Decimal: divisibility is a u8 *)
Inductive withdraw_strategy := WExact | WRounded (m : rmode).
Definition for_withdrawal (x : Z) (divisibility : Z) (w : withdraw_strategy) : res Z :=
  match w with WExact => Ok x | WRounded m => checked_round DEC x divisibility m end.

(* ---------------------------------------------------------------------------------------------- *)
(* Specification, independent of the code: the value x (an integer number of subunits) rounded to a
   multiple of the step d > 0.  lo = largest multiple <= x, hi = smallest multiple >= x. *)
Definition r_lo (d x : Z) : Z := d * (x / d).                 (* Z./ is floor division *)
Definition r_hi (d x : Z) : Z := if x mod d =? 0 then x else d * (x / d) + d.
Definition r_toward_zero d x := if 0 <=? x then r_lo d x else r_hi d x.
Definition r_away d x := if 0 <=? x then r_hi d x else r_lo d x.
Definition r_even d x := if Z.even (x / d) then r_lo d x else r_hi d x.
Definition r_nearest (tie : Z -> Z -> Z) d x :=
  match 2 * (x - r_lo d x) ?= d with
  | Lt => r_lo d x
  | Gt => r_hi d x
  | Eq => tie d x
  end.
Definition round_spec (m : rmode) (d x : Z) : Z :=
  match m with
  | ToPositiveInfinity => r_hi d x
  | ToNegativeInfinity => r_lo d x
  | ToZero => r_toward_zero d x
  | AwayFromZero => r_away d x
  | ToNearestMidpointTowardZero => r_nearest r_toward_zero d x
  | ToNearestMidpointAwayFromZero => r_nearest r_away d x
  | ToNearestMidpointToEven => r_nearest r_even d x
  end.
(* the step for `dp` decimal places *)
Definition step (f : fmt) (dp : Z) : Z := 10 ^ (scale f - dp).
