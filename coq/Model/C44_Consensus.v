(* C44 — executable model of the consensus manager's clock and round/epoch progression.
   Model only: no proofs here.

   Code modelled (as written):
     radix-engine/src/blueprints/consensus_manager/consensus_manager.rs
        next_round, check_non_decreasing_and_update_timestamps, milli_to_minute,
        get_current_time_v1/v2, compare_current_time_v1/v2, epoch_minute_to_instant,
        epoch_milli_to_instant
     radix-common/src/types/consensus.rs                     Round::calculate_progress
     radix-common/src/time/instant.rs                        Instant::compare
     radix-engine-interface/.../consensus_manager/invocations.rs
        EpochChangeCondition::{should_epoch_change, is_change_criterion_met,
        is_actual_duration_close_to_target}
   Abstractions:
     - a failing next_round is a failed transaction: the state is unchanged (atomicity of the
       transaction; checked by the correspondence run);
     - update_proposal_statistics is reduced to its two error checks (gap count; validator indices),
       the statistics themselves are not part of this property;
     - epoch_change (validator set, emissions, rewards: property C42) is assumed to succeed;
     - i64 timestamps and the i32 minute are Z with the range checks of the code written explicitly;
       u64 epoch/round are N. *)
From Coq Require Import List NArith ZArith Bool.
Import ListNotations.
Open Scope Z_scope.

Definition I32_MIN : Z := -2147483648.
Definition I32_MAX : Z := 2147483647.
Definition I64_MIN : Z := -9223372036854775808.
Definition I64_MAX : Z := 9223372036854775807.
Definition U64_MAX : N := 18446744073709551615%N.
Definition in_i32 (x : Z) : bool := (I32_MIN <=? x) && (x <=? I32_MAX).
Definition in_i64 (x : Z) : bool := (I64_MIN <=? x) && (x <=? I64_MAX).

Definition MILLIS_IN_SECOND : Z := 1000.
Definition SECONDS_IN_MINUTE : Z := 60.
Definition MILLIS_IN_MINUTE : Z := 60000.

(* EpochChangeCondition *)
Record cfg := mkCfg { min_round : N; max_round : N; target_ms : N }.

(* ConsensusManagerSubstate + the two timestamp substates *)
Record cm := mkCm {
  epoch : N; round : N;
  milli : Z;            (* ProposerMilliTimestampSubstate.epoch_milli : i64 *)
  minute : Z;           (* ProposerMinuteTimestampSubstate.epoch_minute : i32 *)
  eff_start : Z;        (* effective_epoch_start_milli *)
  act_start : Z         (* actual_epoch_start_milli *)
}.

Inductive err :=
| InvalidProposerTimestampUpdate | InvalidConsensusTime | InvalidRoundUpdate
| InconsistentGapRounds | InvalidValidatorIndex | EpochMathOverflow.

Inductive res (A : Type) := Ok (a : A) | Err (e : err).
Arguments Ok {A} a.
Arguments Err {A} e.

(* i32::try_from(epoch_milli / MILLIS_IN_MINUTE).ok()   — `/` on i64 truncates toward zero *)
Definition milli_to_minute (ms : Z) : option Z :=
  let q := Z.quot ms MILLIS_IN_MINUTE in if in_i32 q then Some q else None.

Definition check_timestamps (s : cm) (ts : Z) : res cm :=
  if ts <? milli s then Err InvalidProposerTimestampUpdate
  else
    let s1 := if milli s <? ts
              then mkCm (epoch s) (round s) ts (minute s) (eff_start s) (act_start s) else s in
    match milli_to_minute ts with
    | None => Err InvalidConsensusTime
    | Some m =>
        Ok (if minute s1 <? m
            then mkCm (epoch s1) (round s1) (milli s1) m (eff_start s1) (act_start s1) else s1)
    end.

(* Round::calculate_progress *)
Definition calculate_progress (from to : N) : option N :=
  if (to <=? from)%N then None else Some (to - from)%N.

(* one next_round call: target round, proposer timestamp, number of gap-round leaders supplied,
   whether every supplied validator index exists *)
Record round_input := mkIn { r_round : N; r_ts : Z; r_gaps : N; r_leaders_ok : bool }.

Definition duration (eff ts : Z) : N :=
  if (0 <=? ts) && (0 <=? eff) && (eff <? ts) then Z.to_N (ts - eff) else 0%N.

Definition criterion_met (c : cfg) (d : N) (rnd : N) : bool :=
  if (max_round c <=? rnd)%N then true
  else if (rnd <? min_round c)%N then false
  else (target_ms c <=? d)%N.

(* (Decimal::from(actual) - target) / target <= 0.1 with Decimal's truncating division *)
Definition close_to_target (c : cfg) (d : N) : bool :=
  if (1000 <=? d)%N && (1000 <=? target_ms c)%N then
    Z.quot ((Z.of_N d - Z.of_N (target_ms c)) * 10 ^ 18) (Z.of_N (target_ms c)) <=? 10 ^ 17
  else false.

(* i64::saturating_add_unsigned *)
Definition sat_add_unsigned (a : Z) (b : N) : Z :=
  if I64_MAX <? a + Z.of_N b then I64_MAX else a + Z.of_N b.

(* None = NoChange; Some next_epoch_effective_start_millis *)
Definition should_epoch_change (c : cfg) (eff ts : Z) (rnd : N) : option Z :=
  let d := duration eff ts in
  if criterion_met c d rnd then
    Some (if close_to_target c d then sat_add_unsigned eff (target_ms c) else ts)
  else None.

Definition next_round (c : cfg) (s : cm) (i : round_input) : res cm :=
  match check_timestamps s (r_ts i) with
  | Err e => Err e
  | Ok s1 =>
      match calculate_progress (round s1) (r_round i) with
      | None => Err InvalidRoundUpdate
      | Some progressed =>
          (* update_proposal_statistics *)
          if negb (r_gaps i =? progressed - 1)%N then Err InconsistentGapRounds
          else if negb (r_leaders_ok i) then Err InvalidValidatorIndex
          else
            match should_epoch_change c (eff_start s1) (r_ts i) (r_round i) with
            | None => Ok (mkCm (epoch s1) (r_round i) (milli s1) (minute s1) (eff_start s1) (act_start s1))
            | Some next_eff =>
                if (U64_MAX <=? epoch s1)%N then Err EpochMathOverflow
                else Ok (mkCm (epoch s1 + 1)%N 0%N (milli s1) (minute s1) next_eff (r_ts i))
            end
      end
  end.

(* a history of round-update transactions: a failing one leaves the state unchanged *)
Definition step (c : cfg) (s : cm) (i : round_input) : cm :=
  match next_round c s i with Ok s' => s' | Err _ => s end.
Fixpoint exec (c : cfg) (s : cm) (is : list round_input) : cm :=
  match is with [] => s | i :: is' => exec c (step c s i) is' end.

(* ---- time queries --------------------------------------------------------------------------------- *)
Inductive cmpop := OpEq | OpLt | OpLte | OpGt | OpGte.
Definition compare (a b : Z) (o : cmpop) : bool :=
  match o with
  | OpEq => a =? b | OpLt => a <? b | OpLte => a <=? b | OpGt => b <? a | OpGte => b <=? a
  end.

(* seconds since unix epoch *)
Definition get_time_minute (s : cm) : Z := minute s * SECONDS_IN_MINUTE.
Definition get_time_second (s : cm) : Z := Z.quot (milli s) MILLIS_IN_SECOND.

(* the minute the comparison argument is reduced to (checked_mul, milli_to_minute, saturation) *)
Definition other_epoch_minute (inst : Z) : Z :=
  let m := inst * MILLIS_IN_SECOND in
  match (if in_i64 m then milli_to_minute m else None) with
  | Some x => x
  | None => if inst <? 0 then I32_MIN else I32_MAX
  end.

Definition compare_minute (s : cm) (inst : Z) (o : cmpop) : bool :=
  compare (minute s * SECONDS_IN_MINUTE) (other_epoch_minute inst * SECONDS_IN_MINUTE) o.
Definition compare_second (s : cm) (inst : Z) (o : cmpop) : bool :=
  compare (Z.quot (milli s) MILLIS_IN_SECOND) inst o.
