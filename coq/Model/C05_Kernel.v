(* C05 — ownership model of the kernel's node store (no proofs here).
   Code: radix-engine/src/kernel/call_frame.rs (create_node, process_substate_diff: every newly
   owned node must be owned by the current frame = on the heap here, and is taken exactly once;
   drop_node only for frame-owned nodes), substate_io.rs (move_node_from_heap_to_store: the node
   and, recursively, what it owns leave the heap and become stored; globalisation stores a node
   without owner).  Nodes are N; a stored node records its owner (None = global root). References
   are outside this model (the engine-level checkers cover "stored values reference only global
   entities"). *)
From Coq Require Import List NArith Bool.
Import ListNotations.
Open Scope N_scope.

Fixpoint memn (x : N) (l : list N) : bool := match l with [] => false | y :: t => N.eqb x y || memn x t end.
Fixpoint remn (x : N) (l : list N) : list N := match l with [] => [] | y :: t => if N.eqb x y then t else y :: remn x t end.
Fixpoint stored (x : N) (s : list (N * option N)) : bool :=
  match s with [] => false | (y, _) :: t => N.eqb x y || stored x t end.

Record kst := mkK { k_heap : list N; k_store : list (N * option N) }.
Definition k_empty := mkK [] [].

Inductive kop :=
| KCreate (n : N)              (* allocate + create_node: the node is owned by the current frame *)
| KGlobalize (n : N)           (* move to store as a global root *)
| KStoreOwned (n p : N)        (* a substate write of stored node p now owns n *)
| KDrop (n : N).               (* drop_node *)

Inductive kerr := KNodeExists | KOwnNotFound | KOwnerNotStored | KDropNotOwned.
Inductive kres := KOk (s : kst) | KErr (e : kerr).

Definition kstep (s : kst) (o : kop) : kres :=
  match o with
  | KCreate n => if memn n (k_heap s) || stored n (k_store s) then KErr KNodeExists
                 else KOk (mkK (n :: k_heap s) (k_store s))
  | KGlobalize n => if memn n (k_heap s) then KOk (mkK (remn n (k_heap s)) ((n, None) :: k_store s))
                    else KErr KOwnNotFound
  | KStoreOwned n p =>
      if negb (memn n (k_heap s)) then KErr KOwnNotFound       (* TakeNodeError::OwnNotFound *)
      else if negb (stored p (k_store s)) then KErr KOwnerNotStored
      else KOk (mkK (remn n (k_heap s)) ((n, Some p) :: k_store s))
  | KDrop n => if memn n (k_heap s) then KOk (mkK (remn n (k_heap s)) (k_store s)) else KErr KDropNotOwned
  end.

(* rejected operations leave the state unchanged (the transaction fails; nothing is committed) *)
Fixpoint krun (s : kst) (ops : list kop) : kst :=
  match ops with
  | [] => s
  | o :: t => match kstep s o with KOk s' => krun s' t | KErr _ => krun s t end
  end.

(* owner chain: number of owners above a stored node, following the recorded owners *)
Fixpoint owners_of (x : N) (s : list (N * option N)) : list (option N) :=
  match s with
  | [] => []
  | (y, p) :: t => (if N.eqb x y then [p] else []) ++ owners_of x t
  end.
(* the root reached from x by following owners; the store list is searched from the entry of x
   downwards (owners are always older entries), so this is structurally recursive *)
Fixpoint root_of (x : N) (s : list (N * option N)) : option N :=
  match s with
  | [] => None
  | (y, p) :: t =>
      if N.eqb x y then match p with None => Some y | Some q => root_of q t end
      else root_of x t
  end.
