(* C20/C21 — executable model of the SBOR `Value` codec (sbor/src/{encoder,decoder,value}.rs,
   codec/{boolean,integer,string}.rs) for the three flavours (basic / Scrypto / manifest custom
   value kinds: radix-common/src/data/{scrypto,manifest}/{custom_value.rs,model/*}).
   Model only, no proofs.  Conventions:
   - bytes are `N` (a real byte is < 256: `bytes_ok`); byte strings are `list N`;
   - `usize` values (sizes, depths) are unbounded `N` (inputs are far below 2^64);
   - a Rust `String` is its UTF-8 byte list (validity = `utf8_valid`, part of `wf_value`);
   - integers carry their kind and a `Z` (range = `wf_value`); Decimal/PreciseDecimal/NodeId/blob
     hashes are their fixed-length byte images (`to_vec()`), which is how the codec sees them;
   - encoder/decoder depth counters are passed down functionally (the code increments before a
     body and decrements after it, always balanced, so the decrement can never underflow);
   - results: `Ok | Err e | Panic | OutOfFuel`; loops of the code that are not structural are
     driven by fuel, `OutOfFuel` is excluded by theorem (C21_total).                              *)
From Coq Require Import List NArith ZArith Bool.
Import ListNotations.
Require Import RV.Lib.Utf8.
Require RV.Gen.C20_consts.
Open Scope N_scope.

Definition bytes := list N.
Definition byte_ok (b : N) : bool := b <? 256.
Definition bytes_ok (l : bytes) : bool := forallb byte_ok l.

Inductive result (E A : Type) : Type :=
| Ok (a : A) | Err (e : E) | Panic | OutOfFuel.
Arguments Ok {E A} a. Arguments Err {E A} e. Arguments Panic {E A}. Arguments OutOfFuel {E A}.

Definition bind {E A B} (r : result E A) (f : A -> result E B) : result E B :=
  match r with Ok a => f a | Err e => Err e | Panic => Panic | OutOfFuel => OutOfFuel end.
Notation "' p <- r ;; k" := (bind r (fun p => k)) (at level 60, p pattern, right associativity).
Notation "x <- r ;; k" := (bind r (fun x => k)) (at level 60, right associativity).

(* ------------------------------------------------------------------------------------------ *)
(* lengths as N (Vec::len / str::len)                                                         *)
Fixpoint nlen_acc {A} (l : list A) (acc : N) : N :=
  match l with [] => acc | _ :: t => nlen_acc t (N.succ acc) end.
Definition nlen {A} (l : list A) : N := nlen_acc l 0.

(* first n bytes and the rest, None if fewer than n are present (structural on the list) *)
Fixpoint take (n : N) (l : bytes) {struct l} : option (bytes * bytes) :=
  if n =? 0 then Some ([], l) else
  match l with
  | [] => None
  | b :: t => match take (n - 1) t with Some (a, r) => Some (b :: a, r) | None => None end
  end.

(* ------------------------------------------------------------------------------------------ *)
(* flavours, value kinds (sbor/src/value_kind.rs, custom_value_kind.rs)                        *)
Inductive flavour := Basic | Scrypto | Manifest.
Definition flavour_eqb (a b : flavour) : bool :=
  match a, b with Basic, Basic | Scrypto, Scrypto | Manifest, Manifest => true | _, _ => false end.

Definition payload_prefix (fl : flavour) : N :=
  match fl with Basic => 91 (*0x5b*) | Scrypto => 92 (*0x5c*) | Manifest => 77 (*0x4d*) end.

Inductive ikind := I8 | I16 | I32 | I64 | I128 | U8 | U16 | U32 | U64 | U128.
Inductive ckind :=
| CSReference | CSOwn | CSDecimal | CSPreciseDecimal | CSNonFungibleLocalId
| CMAddress | CMBucket | CMProof | CMExpression | CMBlob | CMDecimal | CMPreciseDecimal
| CMNonFungibleLocalId | CMAddressReservation.
Inductive vkind :=
| KBool | KInt (i : ikind) | KString | KEnum | KArray | KTuple | KMap | KCustom (c : ckind).

Definition ckind_flavour (c : ckind) : flavour :=
  match c with
  | CSReference | CSOwn | CSDecimal | CSPreciseDecimal | CSNonFungibleLocalId => Scrypto
  | _ => Manifest
  end.
(* a ValueKind<X> of flavour fl can only hold custom kinds of X *)
Definition kind_ok (fl : flavour) (k : vkind) : bool :=
  match k with KCustom c => flavour_eqb (ckind_flavour c) fl | _ => true end.

Definition ikind_u8 (i : ikind) : N :=
  match i with I8 => 2 | I16 => 3 | I32 => 4 | I64 => 5 | I128 => 6
             | U8 => 7 | U16 => 8 | U32 => 9 | U64 => 10 | U128 => 11 end.
Definition ckind_u8 (c : ckind) : N :=
  match c with
  | CSReference => 128 | CSOwn => 144 | CSDecimal => 160 | CSPreciseDecimal => 176
  | CSNonFungibleLocalId => 192
  | CMAddress => 128 | CMBucket => 129 | CMProof => 130 | CMExpression => 131 | CMBlob => 132
  | CMDecimal => 133 | CMPreciseDecimal => 134 | CMNonFungibleLocalId => 135
  | CMAddressReservation => 136
  end.
Definition kind_u8 (k : vkind) : N :=
  match k with
  | KBool => 1 | KInt i => ikind_u8 i | KString => 12
  | KArray => 32 | KTuple => 33 | KEnum => 34 | KMap => 35
  | KCustom c => ckind_u8 c
  end.

Definition ckind_from_u8 (fl : flavour) (b : N) : option ckind :=
  match fl with
  | Basic => None
  | Scrypto =>
    if b =? 128 then Some CSReference else if b =? 144 then Some CSOwn
    else if b =? 160 then Some CSDecimal else if b =? 176 then Some CSPreciseDecimal
    else if b =? 192 then Some CSNonFungibleLocalId else None
  | Manifest =>
    if b =? 128 then Some CMAddress else if b =? 129 then Some CMBucket
    else if b =? 130 then Some CMProof else if b =? 131 then Some CMExpression
    else if b =? 132 then Some CMBlob else if b =? 133 then Some CMDecimal
    else if b =? 134 then Some CMPreciseDecimal else if b =? 135 then Some CMNonFungibleLocalId
    else if b =? 136 then Some CMAddressReservation else None
  end.
(* ValueKind::from_u8 *)
Definition kind_from_u8 (fl : flavour) (b : N) : option vkind :=
  if b =? 1 then Some KBool
  else if b =? 2 then Some (KInt I8) else if b =? 3 then Some (KInt I16)
  else if b =? 4 then Some (KInt I32) else if b =? 5 then Some (KInt I64)
  else if b =? 6 then Some (KInt I128) else if b =? 7 then Some (KInt U8)
  else if b =? 8 then Some (KInt U16) else if b =? 9 then Some (KInt U32)
  else if b =? 10 then Some (KInt U64) else if b =? 11 then Some (KInt U128)
  else if b =? 12 then Some KString
  else if b =? 33 then Some KTuple else if b =? 34 then Some KEnum
  else if b =? 32 then Some KArray else if b =? 35 then Some KMap
  else if 128 <=? b then option_map KCustom (ckind_from_u8 fl b)
  else None.

Definition ikind_eqb (a b : ikind) : bool := ikind_u8 a =? ikind_u8 b.
Definition ckind_eqb (a b : ckind) : bool :=
  flavour_eqb (ckind_flavour a) (ckind_flavour b) && (ckind_u8 a =? ckind_u8 b).
Definition kind_eqb (a b : vkind) : bool :=
  match a, b with
  | KBool, KBool | KString, KString | KEnum, KEnum | KArray, KArray | KTuple, KTuple
  | KMap, KMap => true
  | KInt i, KInt j => ikind_eqb i j
  | KCustom c, KCustom d => ckind_eqb c d
  | _, _ => false
  end.

(* ------------------------------------------------------------------------------------------ *)
(* values                                                                                      *)
Inductive nfid :=                       (* (Manifest)NonFungibleLocalId *)
| NfString (s : bytes) | NfInteger (n : N) | NfBytes (b : bytes) | NfRuid (b : bytes).

Inductive cvalue :=
| SReference (node : bytes)             (* Reference(NodeId([u8;30])) *)
| SOwn (node : bytes)
| SDecimal (le : bytes)                 (* Decimal(I192): to_le_bytes, 24 bytes *)
| SPreciseDecimal (le : bytes)          (* 32 bytes *)
| SNonFungibleLocalId (id : nfid)
| MAddressStatic (node : bytes)         (* ManifestAddress::Static(NodeId) *)
| MAddressNamed (id : N)                (* ManifestAddress::Named(ManifestNamedAddress(u32)) *)
| MBucket (id : N) | MProof (id : N)
| MExpression (auth_zone : bool)        (* EntireWorktop = false, EntireAuthZone = true *)
| MBlob (hash : bytes)
| MDecimal (le : bytes) | MPreciseDecimal (le : bytes)
| MNonFungibleLocalId (id : nfid)
| MAddressReservation (id : N).

Inductive value :=
| VBool (b : bool)
| VInt (i : ikind) (z : Z)
| VString (s : bytes)
| VEnum (disc : N) (fields : list value)
| VArray (ek : vkind) (elems : list value)
| VTuple (fields : list value)
| VMap (kk vk : vkind) (entries : list (value * value))
| VCustom (c : cvalue).

Definition cvalue_kind (c : cvalue) : ckind :=
  match c with
  | SReference _ => CSReference | SOwn _ => CSOwn | SDecimal _ => CSDecimal
  | SPreciseDecimal _ => CSPreciseDecimal | SNonFungibleLocalId _ => CSNonFungibleLocalId
  | MAddressStatic _ | MAddressNamed _ => CMAddress
  | MBucket _ => CMBucket | MProof _ => CMProof | MExpression _ => CMExpression
  | MBlob _ => CMBlob | MDecimal _ => CMDecimal | MPreciseDecimal _ => CMPreciseDecimal
  | MNonFungibleLocalId _ => CMNonFungibleLocalId | MAddressReservation _ => CMAddressReservation
  end.
(* Value::get_value_kind *)
Definition value_kind (v : value) : vkind :=
  match v with
  | VBool _ => KBool | VInt i _ => KInt i | VString _ => KString | VEnum _ _ => KEnum
  | VArray _ _ => KArray | VTuple _ => KTuple | VMap _ _ _ => KMap
  | VCustom c => KCustom (cvalue_kind c)
  end.

(* ------------------------------------------------------------------------------------------ *)
(* what the Rust types guarantee (`wf_*`) and what only the validating constructors guarantee
   (`*_valid`).  Scrypto's NonFungibleLocalId has private fields: validity is part of the type.
   Manifest's ManifestAddress::Static / ManifestNonFungibleLocalId are public enum variants:
   validity is NOT part of the type (finding manifest_custom_value_invalid_by_construction).   *)
Definition fixed_ok (n : N) (b : bytes) : bool := (nlen b =? n) && bytes_ok b.

Definition nf_char_ok (b : N) : bool :=
  in_range 97 122 b || in_range 65 90 b || in_range 48 57 b || (b =? 95).
Definition nfid_wf (id : nfid) : bool :=     (* representable in the Rust type *)
  match id with
  | NfString s => bytes_ok s && utf8_valid s
  | NfInteger n => n <? 18446744073709551616
  | NfBytes b => bytes_ok b
  | NfRuid b => fixed_ok 32 b
  end.
Definition nfid_valid (id : nfid) : bool :=  (* accepted by ::string / ::bytes constructors *)
  match id with
  | NfString s => negb (nlen s =? 0) && (nlen s <=? 64) && forallb nf_char_ok s
  | NfBytes b => negb (nlen b =? 0) && (nlen b <=? 64)
  | _ => true
  end.
Definition entity_type_ok (b : N) : bool := existsb (N.eqb b) RV.Gen.C20_consts.entity_type_bytes.

Definition u32_ok (n : N) : bool := n <? 4294967296.
Definition cvalue_wf (c : cvalue) : bool :=
  match c with
  | SReference b | SOwn b | MAddressStatic b => fixed_ok 30 b
  | SDecimal b | MDecimal b => fixed_ok 24 b
  | SPreciseDecimal b | MPreciseDecimal b | MBlob b => fixed_ok 32 b
  | SNonFungibleLocalId id => nfid_wf id && nfid_valid id
  | MNonFungibleLocalId id => nfid_wf id
  | MAddressNamed n | MBucket n | MProof n | MAddressReservation n => u32_ok n
  | MExpression _ => true
  end.
Definition cvalue_valid (c : cvalue) : bool :=
  match c with
  | MAddressStatic b => match b with e :: _ => entity_type_ok e | [] => false end
  | MNonFungibleLocalId id => nfid_valid id
  | _ => true
  end.

Definition ikind_bytes (i : ikind) : N :=
  match i with I8 | U8 => 1 | I16 | U16 => 2 | I32 | U32 => 4 | I64 | U64 => 8 | I128 | U128 => 16 end.
Definition ikind_signed (i : ikind) : bool :=
  match i with I8 | I16 | I32 | I64 | I128 => true | _ => false end.
Definition int_ok (i : ikind) (z : Z) : bool :=
  let bits := Z.of_N (8 * ikind_bytes i) in
  if ikind_signed i then (- 2 ^ (bits - 1) <=? z)%Z && (z <? 2 ^ (bits - 1))%Z
  else (0 <=? z)%Z && (z <? 2 ^ bits)%Z.

Section WithFlavour.
Variable fl : flavour.

Fixpoint wf_value (v : value) : bool :=
  match v with
  | VBool _ => true
  | VInt i z => int_ok i z
  | VString s => bytes_ok s && utf8_valid s
  | VEnum d fs => byte_ok d && forallb wf_value fs
  | VArray ek es => kind_ok fl ek && forallb wf_value es
  | VTuple fs => forallb wf_value fs
  | VMap kk vk es =>
    kind_ok fl kk && kind_ok fl vk &&
    (fix go (es : list (value * value)) : bool :=
       match es with [] => true | (k, x) :: t => wf_value k && wf_value x && go t end) es
  | VCustom c => flavour_eqb (ckind_flavour (cvalue_kind c)) fl && cvalue_wf c
  end.

Fixpoint valid_value (v : value) : bool :=
  match v with
  | VEnum _ fs | VArray _ fs | VTuple fs => forallb valid_value fs
  | VMap _ _ es =>
    (fix go (es : list (value * value)) : bool :=
       match es with [] => true | (k, x) :: t => valid_value k && valid_value x && go t end) es
  | VCustom c => cvalue_valid c
  | _ => true
  end.

(* depth of a value: a leaf is 1 *)
Fixpoint vdepth (v : value) : N :=
  match v with
  | VEnum _ fs | VArray _ fs | VTuple fs => 1 + fold_right (fun x m => N.max (vdepth x) m) 0 fs
  | VMap _ _ es =>
    1 + (fix go (es : list (value * value)) : N :=
           match es with [] => 0 | (k, x) :: t => N.max (N.max (vdepth k) (vdepth x)) (go t) end) es
  | _ => 1
  end.

(* ------------------------------------------------------------------------------------------ *)
(* errors                                                                                      *)
Inductive enc_err :=
| EMaxDepthExceeded (max : N)
| ESizeTooLarge (actual max_allowed : N)
| EMismatchingArrayElementValueKind (element actual : N)
| EMismatchingMapKeyValueKind (key actual : N)
| EMismatchingMapValueValueKind (val actual : N).

Inductive dec_err :=
| ExtraTrailingBytes (n : N)
| BufferUnderflow (required remaining : N)
| UnexpectedPayloadPrefix (expected actual : N)
| UnexpectedValueKind (expected actual : N)
| UnexpectedCustomValueKind (actual : N)
| UnexpectedSize (expected actual : N)
| UnexpectedDiscriminator (expected actual : N)
| UnknownValueKind (b : N)
| UnknownDiscriminator (b : N)
| InvalidBool (b : N)
| InvalidUtf8
| InvalidSize
| MaxDepthExceeded (max : N)
| DuplicateKey
| InvalidCustomValue.

Definition eres := result enc_err.
Definition dres := result dec_err.

(* ------------------------------------------------------------------------------------------ *)
(* Encoder                                                                                     *)
Definition MAX_SIZE : N := 268435455.   (* 0x0FFFFFFF *)

(* Encoder::write_size loop: at most 4 rounds once size <= MAX_SIZE *)
Fixpoint write_size_loop (fuel : nat) (size : N) : eres bytes :=
  match fuel with
  | O => OutOfFuel
  | S f =>
    let seven_bits := N.land size 127 in
    let size' := N.shiftr size 7 in
    if size' =? 0 then Ok [seven_bits]
    else r <- write_size_loop f size' ;; Ok (N.lor seven_bits 128 :: r)
  end.
Definition write_size (size : N) : eres bytes :=
  if MAX_SIZE <? size then Err (ESizeTooLarge size MAX_SIZE) else write_size_loop 4 size.

(* little/big endian images of unsigned n-byte integers *)
Fixpoint le_bytes (n : nat) (x : N) : bytes :=
  match n with O => [] | S n' => x mod 256 :: le_bytes n' (x / 256) end.
Fixpoint le_to_N (l : bytes) : N :=
  match l with [] => 0 | b :: t => b + 256 * le_to_N t end.
Definition be_bytes (n : nat) (x : N) : bytes := rev (le_bytes n x).
Definition be_to_N (l : bytes) : N := le_to_N (rev l).

(* iN::to_le_bytes / `as u8`: two's complement image *)
Definition enc_int (i : ikind) (z : Z) : bytes :=
  let n := ikind_bytes i in
  le_bytes (N.to_nat n) (Z.to_N (z mod 2 ^ Z.of_N (8 * n))%Z).
Definition dec_int (i : ikind) (b : bytes) : Z :=
  let n := ikind_bytes i in
  let u := Z.of_N (le_to_N b) in
  if ikind_signed i && (2 ^ (Z.of_N (8 * n) - 1) <=? u)%Z then (u - 2 ^ Z.of_N (8 * n))%Z else u.

Definition enc_nfid (id : nfid) : eres bytes :=
  match id with
  | NfString s => sz <- write_size (nlen s) ;; Ok (0 :: sz ++ s)
  | NfInteger n => Ok (1 :: be_bytes 8 n)
  | NfBytes b => sz <- write_size (nlen b) ;; Ok (2 :: sz ++ b)
  | NfRuid b => Ok (3 :: b)
  end.
(* custom value bodies: `encoder.write_slice(&self.to_vec())` and the hand-written ones *)
Definition enc_custom (c : cvalue) : eres bytes :=
  match c with
  | SReference b | SOwn b | SDecimal b | SPreciseDecimal b
  | MBlob b | MDecimal b | MPreciseDecimal b => Ok b
  | SNonFungibleLocalId id | MNonFungibleLocalId id => enc_nfid id
  | MAddressStatic b => Ok (0 :: b)
  | MAddressNamed n => Ok (1 :: le_bytes 4 n)
  | MBucket n | MProof n | MAddressReservation n => Ok (le_bytes 4 n)
  | MExpression az => Ok [if az then 1 else 0]
  end.

(* Value::encode_body, at stack depth d (already incremented for this value) with limit md.
   `encode_deeper_body x` = depth check then body; `encode x` = kind byte then deeper body.  *)
Fixpoint enc_body (md d : N) (v : value) {struct v} : eres bytes :=
  let deeper := fun (x : value) =>
    if md <? d + 1 then Err (EMaxDepthExceeded md) else enc_body md (d + 1) x in
  let full := fun (x : value) => b <- deeper x ;; Ok (kind_u8 (value_kind x) :: b) in
  let fields := fix go (l : list value) : eres bytes :=
    match l with [] => Ok [] | x :: t => a <- full x ;; r <- go t ;; Ok (a ++ r) end in
  match v with
  | VBool b => Ok [if b then 1 else 0]
  | VInt i z => Ok (enc_int i z)
  | VString s => sz <- write_size (nlen s) ;; Ok (sz ++ s)
  | VEnum disc fs =>
    sz <- write_size (nlen fs) ;; r <- fields fs ;; Ok (disc :: sz ++ r)
  | VTuple fs =>
    sz <- write_size (nlen fs) ;; r <- fields fs ;; Ok (sz ++ r)
  | VArray ek es =>
    sz <- write_size (nlen es) ;;
    r <- (fix go (l : list value) : eres bytes :=
            match l with
            | [] => Ok []
            | x :: t =>
              if negb (kind_eqb (value_kind x) ek)
              then Err (EMismatchingArrayElementValueKind (kind_u8 ek) (kind_u8 (value_kind x)))
              else a <- deeper x ;; r <- go t ;; Ok (a ++ r)
            end) es ;;
    Ok (kind_u8 ek :: sz ++ r)
  | VMap kk vk es =>
    sz <- write_size (nlen es) ;;
    r <- (fix go (l : list (value * value)) : eres bytes :=
            match l with
            | [] => Ok []
            | (k, x) :: t =>
              if negb (kind_eqb (value_kind k) kk)
              then Err (EMismatchingMapKeyValueKind (kind_u8 kk) (kind_u8 (value_kind k)))
              else a <- deeper k ;;
                if negb (kind_eqb (value_kind x) vk)
                then Err (EMismatchingMapValueValueKind (kind_u8 vk) (kind_u8 (value_kind x)))
                else b <- deeper x ;; r <- go t ;; Ok (a ++ b ++ r)
            end) es ;;
    Ok (kind_u8 kk :: kind_u8 vk :: sz ++ r)
  | VCustom c => enc_custom c
  end.

Definition enc_deeper (md d : N) (v : value) : eres bytes :=
  if md <? d + 1 then Err (EMaxDepthExceeded md) else enc_body md (d + 1) v.
Definition enc_value (md d : N) (v : value) : eres bytes :=
  b <- enc_deeper md d v ;; Ok (kind_u8 (value_kind v) :: b).
(* basic_encode_with_depth_limit & co: prefix byte, then the value at depth 0 *)
Definition encode_payload (md : N) (v : value) : eres bytes :=
  b <- enc_value md 0 v ;; Ok (payload_prefix fl :: b).

(* ------------------------------------------------------------------------------------------ *)
(* Decoder (state = remaining input)                                                           *)
Definition read_byte (st : bytes) : dres (N * bytes) :=
  match st with [] => Err (BufferUnderflow 1 0) | b :: r => Ok (b, r) end.
Definition read_slice (n : N) (st : bytes) : dres (bytes * bytes) :=
  match take n st with Some p => Ok p | None => Err (BufferUnderflow n (nlen st)) end.

(* Decoder::read_size *)
Fixpoint read_size_loop (fuel : nat) (size shift : N) (st : bytes) : dres (N * bytes) :=
  match fuel with
  | O => OutOfFuel
  | S f =>
    '(byte, st') <- read_byte st ;;
    let size' := N.lor size (N.shiftl (N.land byte 127) shift) in
    if byte <? 128 then
      (if (byte =? 0) && negb (shift =? 0) then Err InvalidSize else Ok (size', st'))
    else
      let shift' := shift + 7 in
      if 28 <=? shift' then Err InvalidSize else read_size_loop f size' shift' st'
  end.
Definition read_size (st : bytes) : dres (N * bytes) := read_size_loop 4 0 0 st.

Definition read_value_kind (st : bytes) : dres (vkind * bytes) :=
  '(b, st') <- read_byte st ;;
  match kind_from_u8 fl b with Some k => Ok (k, st') | None => Err (UnknownValueKind b) end.

Definition dec_nfid (st : bytes) : dres (nfid * bytes) :=
  '(d, st) <- read_byte st ;;
  if d =? 0 then
    '(n, st) <- read_size st ;; '(s, st) <- read_slice n st ;;
    if utf8_valid s && nfid_valid (NfString s) then Ok (NfString s, st) else Err InvalidCustomValue
  else if d =? 1 then
    '(s, st) <- read_slice 8 st ;; Ok (NfInteger (be_to_N s), st)
  else if d =? 2 then
    '(n, st) <- read_size st ;; '(s, st) <- read_slice n st ;;
    if nfid_valid (NfBytes s) then Ok (NfBytes s, st) else Err InvalidCustomValue
  else if d =? 3 then
    '(s, st) <- read_slice 32 st ;; Ok (NfRuid s, st)
  else Err InvalidCustomValue.

Definition dec_custom (c : ckind) (st : bytes) : dres (cvalue * bytes) :=
  match c with
  | CSReference => '(s, st) <- read_slice 30 st ;; Ok (SReference s, st)
  | CSOwn => '(s, st) <- read_slice 30 st ;; Ok (SOwn s, st)
  | CSDecimal => '(s, st) <- read_slice 24 st ;; Ok (SDecimal s, st)
  | CSPreciseDecimal => '(s, st) <- read_slice 32 st ;; Ok (SPreciseDecimal s, st)
  | CSNonFungibleLocalId => '(id, st) <- dec_nfid st ;; Ok (SNonFungibleLocalId id, st)
  | CMAddress =>
    '(d, st) <- read_byte st ;;
    if d =? 0 then
      '(s, st) <- read_slice 30 st ;;
      if cvalue_valid (MAddressStatic s) then Ok (MAddressStatic s, st) else Err InvalidCustomValue
    else if d =? 1 then
      '(s, st) <- read_slice 4 st ;; Ok (MAddressNamed (le_to_N s), st)
    else Err InvalidCustomValue
  | CMBucket => '(s, st) <- read_slice 4 st ;; Ok (MBucket (le_to_N s), st)
  | CMProof => '(s, st) <- read_slice 4 st ;; Ok (MProof (le_to_N s), st)
  | CMAddressReservation => '(s, st) <- read_slice 4 st ;; Ok (MAddressReservation (le_to_N s), st)
  | CMExpression =>
    '(s, st) <- read_slice 1 st ;;
    match s with
    | [b] => if b =? 0 then Ok (MExpression false, st)
             else if b =? 1 then Ok (MExpression true, st) else Err InvalidCustomValue
    | _ => Panic
    end
  | CMBlob => '(s, st) <- read_slice 32 st ;; Ok (MBlob s, st)
  | CMDecimal => '(s, st) <- read_slice 24 st ;; Ok (MDecimal s, st)
  | CMPreciseDecimal => '(s, st) <- read_slice 32 st ;; Ok (MPreciseDecimal s, st)
  | CMNonFungibleLocalId => '(id, st) <- dec_nfid st ;; Ok (MNonFungibleLocalId id, st)
  end.

(* Value::decode_body_with_value_kind at stack depth d (already incremented), limit md.
   dec_elems: the `for _ in 0..length` loops (ek = None: `decoder.decode()`, Some k:
   `decode_deeper_body_with_value_kind(k)`); dec_entries: the map loop.                        *)
Fixpoint dec_body (fuel : nat) (md d : N) (k : vkind) (st : bytes) {struct fuel}
  : dres (value * bytes) :=
  match fuel with
  | O => OutOfFuel
  | S f =>
    match k with
    | KBool =>
      '(b, st) <- read_byte st ;;
      if b =? 0 then Ok (VBool false, st) else if b =? 1 then Ok (VBool true, st)
      else Err (InvalidBool b)
    | KInt i => '(s, st) <- read_slice (ikind_bytes i) st ;; Ok (VInt i (dec_int i s), st)
    | KString =>
      '(n, st) <- read_size st ;; '(s, st) <- read_slice n st ;;
      if utf8_valid s then Ok (VString s, st) else Err InvalidUtf8
    | KTuple =>
      '(n, st) <- read_size st ;; '(fs, st) <- dec_elems f md d None n st ;; Ok (VTuple fs, st)
    | KEnum =>
      '(disc, st) <- read_byte st ;; '(n, st) <- read_size st ;;
      '(fs, st) <- dec_elems f md d None n st ;; Ok (VEnum disc fs, st)
    | KArray =>
      '(ek, st) <- read_value_kind st ;; '(n, st) <- read_size st ;;
      '(es, st) <- dec_elems f md d (Some ek) n st ;; Ok (VArray ek es, st)
    | KMap =>
      '(kk, st) <- read_value_kind st ;; '(vk, st) <- read_value_kind st ;;
      '(n, st) <- read_size st ;;
      '(es, st) <- dec_entries f md d kk vk n st ;; Ok (VMap kk vk es, st)
    | KCustom c =>
      if flavour_eqb (ckind_flavour c) fl
      then '(cv, st) <- dec_custom c st ;; Ok (VCustom cv, st)
      else Panic   (* NoCustomValue::decode_body_with_value_kind: panic!("No custom value") *)
    end
  end
with dec_elems (fuel : nat) (md d : N) (ek : option vkind) (n : N) (st : bytes) {struct fuel}
  : dres (list value * bytes) :=
  match fuel with
  | O => OutOfFuel
  | S f =>
    if n =? 0 then Ok ([], st) else
    '(v, st) <- match ek with
                | None =>
                  '(k, st) <- read_value_kind st ;;
                  if md <? d + 1 then Err (MaxDepthExceeded md) else dec_body f md (d + 1) k st
                | Some k =>
                  if md <? d + 1 then Err (MaxDepthExceeded md) else dec_body f md (d + 1) k st
                end ;;
    '(vs, st) <- dec_elems f md d ek (n - 1) st ;; Ok (v :: vs, st)
  end
with dec_entries (fuel : nat) (md d : N) (kk vk : vkind) (n : N) (st : bytes) {struct fuel}
  : dres (list (value * value) * bytes) :=
  match fuel with
  | O => OutOfFuel
  | S f =>
    if n =? 0 then Ok ([], st) else
    '(k, st) <- (if md <? d + 1 then Err (MaxDepthExceeded md) else dec_body f md (d + 1) kk st) ;;
    '(x, st) <- (if md <? d + 1 then Err (MaxDepthExceeded md) else dec_body f md (d + 1) vk st) ;;
    '(es, st) <- dec_entries f md d kk vk (n - 1) st ;; Ok ((k, x) :: es, st)
  end.

Definition dec_deeper (fuel : nat) (md d : N) (k : vkind) (st : bytes) : dres (value * bytes) :=
  if md <? d + 1 then Err (MaxDepthExceeded md) else dec_body fuel md (d + 1) k st.
Definition dec_value (fuel : nat) (md d : N) (st : bytes) : dres (value * bytes) :=
  '(k, st) <- read_value_kind st ;; dec_deeper fuel md d k st.

(* Decoder::decode_payload: prefix, value, check_end *)
Definition decode_payload_fuel (fuel : nat) (md : N) (input : bytes) : dres value :=
  '(p, st) <- read_byte input ;;
  if negb (p =? payload_prefix fl) then Err (UnexpectedPayloadPrefix (payload_prefix fl) p) else
  '(v, st) <- dec_value fuel md 0 st ;;
  match st with [] => Ok v | _ => Err (ExtraTrailingBytes (nlen st)) end.

Definition fuel_for (input : bytes) : nat := 2 * length input + 2.
Definition decode_payload (md : N) (input : bytes) : dres value :=
  decode_payload_fuel (fuel_for input) md input.

End WithFlavour.
