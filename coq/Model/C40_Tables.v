(* C40 — the admission tables of the two blueprint versions, assembled from the generated file. *)
From Coq Require Import List String ZArith.
Import ListNotations.
Require Import RV.Model.C40_AccessController RV.Gen.C40_ac_roles.

Definition table_v1 : table :=
  {| t_methods := c40_methods_v1; t_updaters := c40_role_updaters_v1; t_self := c40_self_role |}.
Definition table_v2 : table :=
  {| t_methods := c40_methods_v2; t_updaters := c40_role_updaters_v2; t_self := c40_self_role |}.

(* every method name the model knows (meth_name of each constructor) *)
Definition known_methods : list string :=
  let p := {| p_rules := deny_all_rules; p_delay := None |} in
  map meth_name
    [MCreateProof; MInitRec PPrimary p; MInitRec PRecovery p; MInitWd PPrimary; MInitWd PRecovery;
     MQuickRec PPrimary p; MQuickRec PRecovery p; MQuickWd PPrimary; MQuickWd PRecovery; MTimedConfirm p;
     MCancelRec PPrimary; MCancelRec PRecovery; MCancelWd PPrimary; MCancelWd PRecovery; MLock; MUnlock;
     MStopTimed p; MMint []; MLockFee 0%Z; MWithdrawFee 0%Z; MContributeFee 0%Z].
(* the code's tables mention only methods the model has, every exported method has an accessibility
   entry (and vice versa), `create` is the only function, and it is open to everyone *)
Definition tables_closed : bool :=
  forallb (fun e : string * (bool * list string) => mem_str (fst e) known_methods) c40_methods_v1
  && forallb (fun e : string * (bool * list string) => mem_str (fst e) known_methods) c40_methods_v2
  && forallb (fun e : string * bool => if snd e then mem_str (fst e) (map fst c40_methods_v1) else String.eqb (fst e) "create") c40_exports_v1
  && forallb (fun e : string * bool => if snd e then mem_str (fst e) (map fst c40_methods_v2) else String.eqb (fst e) "create") c40_exports_v2
  && forallb (fun e : string * (bool * list string) => mem_str (fst e) (map fst c40_exports_v1)) c40_methods_v1
  && forallb (fun e : string * (bool * list string) => mem_str (fst e) (map fst c40_exports_v2)) c40_methods_v2
  && String.eqb c40_function_auth_v1 "AllowAll" && String.eqb c40_function_auth_v2 "AllowAll".
