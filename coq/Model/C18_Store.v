(* C18 — the explicit versioned node store of tree_store.rs (TypedInMemoryTreeStore) on which the
   store operations produced by the C17 model (Model/C17_Jmt.v: `store_op`) are replayed:
   insert_node, record_stale_tree_part (pruning enabled: immediate removal, Subtree = BFS over the
   *stored* nodes; pruning disabled: push to stale_part_buffer).   NO PROOFS HERE. *)
From Coq Require Import List NArith Bool.
Import ListNotations.
Require Import RV.Model.C17_Jmt.
Open Scope N_scope.

Definition skey := (N * list N)%type.                 (* StoredTreeNodeKey: version, nibble path *)
Definition skey_eqb (a b : skey) : bool := (fst a =? fst b) && leqb (snd a) (snd b).
Definition skey_ltb (a b : skey) : bool :=
  if fst a <? fst b then true else if fst b <? fst a then false else lltb (snd a) (snd b).

(* tree_nodes: HashMap = association list kept sorted by key (canonical form for comparison) *)
Definition store := list (skey * snode).

Fixpoint st_get (k : skey) (s : store) : option snode :=
  match s with
  | [] => None
  | (k', n) :: r => if skey_eqb k k' then Some n else st_get k r
  end.
Fixpoint st_insert (k : skey) (n : snode) (s : store) : store :=
  match s with
  | [] => [(k, n)]
  | (k', n') :: r =>
    if skey_ltb k k' then (k, n) :: s
    else if skey_eqb k k' then (k, n) :: r else (k', n') :: st_insert k n r
  end.
Definition st_remove (k : skey) (s : store) : store :=
  filter (fun e => negb (skey_eqb k (fst e))) s.

Definition child_keys (k : skey) (n : snode) : list skey :=
  match n with
  | SInternal cs => map (fun c => let '(nib, ver, _, _) := c in (ver, snd k ++ [nib])) cs
  | _ => []
  end.

(* StaleTreePart::Subtree: queue-driven removal following the children recorded in the stored
   nodes that are still present *)
Fixpoint prune_subtree (fuel : nat) (queue : list skey) (s : store) : res store :=
  match queue with
  | [] => Ok s
  | k :: q =>
    match fuel with
    | O => OutOfFuel
    | S f =>
      match st_get k s with
      | Some n => prune_subtree f (q ++ child_keys k n) (st_remove k s)
      | None => prune_subtree f q s
      end
    end
  end.

Record tstore : Type := mkTStore
  { ts_nodes : store; ts_stale : list stale_part; ts_pruning : bool }.

Definition ts_new (pruning : bool) : tstore := mkTStore [] [] pruning.

(* enough fuel: every step either removes a stored node (which pays for the keys of its children it
   puts on the queue) or drops a queued key *)
Definition node_weight (n : snode) : nat :=
  S (match n with SInternal cs => length cs | _ => O end).
Definition store_weight (s : store) : nat := fold_right (fun e acc => (node_weight (snd e) + acc)%nat) O s.
Definition prune_fuel (s : store) : nat := S (store_weight s).

Definition apply_op (t : tstore) (op : store_op) : res tstore :=
  match op with
  | OpInsert v p n => Ok (mkTStore (st_insert (v, p) n (ts_nodes t)) (ts_stale t) (ts_pruning t))
  | OpStale part =>
    if ts_pruning t then
      match part with
      | StaleNode v p => Ok (mkTStore (st_remove (v, p) (ts_nodes t)) (ts_stale t) true)
      | StaleSubtree v p =>
        match prune_subtree (prune_fuel (ts_nodes t)) [(v, p)] (ts_nodes t) with
        | Ok s => Ok (mkTStore s (ts_stale t) true)
        | Panic => Panic | OutOfFuel => OutOfFuel
        end
      end
    else Ok (mkTStore (ts_nodes t) (ts_stale t ++ [part]) false)
  end.

Fixpoint apply_ops (t : tstore) (ops : list store_op) : res tstore :=
  match ops with
  | [] => Ok t
  | op :: r => match apply_op t op with
               | Ok t' => apply_ops t' r
               | Panic => Panic | OutOfFuel => OutOfFuel
               end
  end.

(* ---- the nodes a tree refers to (what a reader starting at the root key can reach) ---- *)
Section FLATTEN.
  Variable A : Type.
  (* nodes of the lower tier hanging under a leaf with full key `key`, payload version pv *)
  Variable sub_nodes : list N -> N -> A -> list (skey * snode).

  (* prefix = tier prefix in the store, path = local path of this node, ver = its version *)
  Fixpoint flatten (fuel : nat) (prefix path : list N) (ver : N) (t : node A) : list (skey * snode) :=
    ((ver, prefix ++ path), stored t) ::
    match t with
    | Null => []
    | Leaf s _ pv a => sub_nodes (path ++ s) pv a
    | Internal cs =>
      match fuel with
      | O => []
      | S f => flat_map (fun c => flatten f prefix (path ++ [c_nib c]) (c_ver c) (c_sub c)) cs
      end
    end.
End FLATTEN.

Definition flatten_s (fuel : nat) (prefix : list N) (ver : N) (t : snodeT) :=
  flatten unit (fun _ _ _ => []) fuel prefix [] ver t.
Definition flatten_p (fuel : nat) (ekey : list N) (ver : N) (t : pnodeT) :=
  flatten snodeT (fun pk pv st => flatten_s fuel (ekey ++ TIER_SEP ++ pk ++ TIER_SEP) pv st)
          fuel (ekey ++ TIER_SEP) [] ver t.
Definition flatten_e (fuel : nat) (ver : N) (t : enodeT) :=
  flatten pnodeT (fun ek pv pt => flatten_p fuel ek pv pt) fuel [] [] ver t.

Definition reachable (fuel : nat) (st : tree_state) : list (skey * snode) :=
  match st with None => [] | Some (v, t) => flatten_e fuel v t end.

(* reachability computed on the explicit store (what the harness BFS does): follow child entries
   and, for leaves of the two upper tiers, the lower-tier root named by the payload *)
(* tier: 0 entity, 1 partition, 2 substate *)
Fixpoint reach_store (fuel : nat) (s : store) (tier : N) (prefix path : list N) (ver : N)
  : option (list skey) :=
  match fuel with
  | O => None
  | S f =>
    match st_get (ver, prefix ++ path) s with
    | None => None                                   (* referenced but not found *)
    | Some n =>
      match n with
      | SNull => Some [(ver, prefix ++ path)]
      | SLeaf sfx _ pv =>
        if tier =? 2 then Some [(ver, prefix ++ path)]
        else match reach_store f s (tier + 1) (prefix ++ path ++ sfx ++ TIER_SEP) [] pv with
             | Some l => Some ((ver, prefix ++ path) :: l)
             | None => None
             end
      | SInternal cs =>
        let below :=
          (fix go (cs : list (N * N * list N * bool)) : option (list skey) :=
             match cs with
             | [] => Some []
             | (nib, cv, _, _) :: r =>
               match reach_store f s tier prefix (path ++ [nib]) cv, go r with
               | Some a, Some b => Some (a ++ b)
               | _, _ => None
               end
             end) cs in
        match below with Some l => Some ((ver, prefix ++ path) :: l) | None => None end
      end
    end
  end.
