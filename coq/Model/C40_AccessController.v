(* C40 — executable model of the access controller blueprint (v1 and v2):
     radix-engine/src/blueprints/access_controller/{v1,v2}/state_machine.rs   (the 18 transitions)
     radix-engine/src/blueprints/access_controller/{v1,v2}/blueprint.rs       (glue: role update, events)
     radix-engine/src/blueprints/access_controller/{v1,v2}/package.rs         (method -> roles; Gen table)
   Model only, no proofs.

   One step = one transaction calling one method of one controller: on any error everything is
   rolled back, so a failing step leaves the controller unchanged.
   Time: `now` is the consensus manager's `epoch_minute` (an i32 in the code) at the time of the call;
   instants are seconds since the epoch (i64), exactly as `Instant`. *)
From Coq Require Import List NArith ZArith Bool String.
Import ListNotations.
Open Scope Z_scope.

(* ---------- roles, rules, proposals ---------- *)
Inductive role := Primary | Recovery | Confirmation.
Definition role_name (r : role) : string :=
  match r with Primary => "primary" | Recovery => "recovery" | Confirmation => "confirmation" end%string.
Definition role_eqb (a b : role) : bool :=
  match a, b with Primary, Primary | Recovery, Recovery | Confirmation, Confirmation => true | _, _ => false end.
Definition all_roles := [Primary; Recovery; Confirmation].

Inductive proposer := PPrimary | PRecovery.
Definition role_of (p : proposer) : role := match p with PPrimary => Primary | PRecovery => Recovery end.

(* access rules occurring in rule sets: allow_all, deny_all, require(badge b); a caller is the set
   of badges it proves (auth zone) *)
Inductive rule := RAllow | RDeny | RReq (b : N).
Definition rule_eqb (a b : rule) : bool :=
  match a, b with
  | RAllow, RAllow | RDeny, RDeny => true
  | RReq x, RReq y => N.eqb x y
  | _, _ => false
  end.
Definition caller := list N.
Definition rule_sat (r : rule) (who : caller) : bool :=
  match r with RAllow => true | RDeny => false | RReq b => existsb (N.eqb b) who end.

Record ruleset := { rs_primary : rule; rs_recovery : rule; rs_confirmation : rule }.
Definition ruleset_eqb (a b : ruleset) : bool :=
  rule_eqb (rs_primary a) (rs_primary b) && rule_eqb (rs_recovery a) (rs_recovery b)
  && rule_eqb (rs_confirmation a) (rs_confirmation b).
Definition role_rule (rs : ruleset) (r : role) : rule :=
  match r with Primary => rs_primary rs | Recovery => rs_recovery rs | Confirmation => rs_confirmation rs end.
(* blueprint.rs locked_role_assignment() *)
Definition deny_all_rules := {| rs_primary := RDeny; rs_recovery := RDeny; rs_confirmation := RDeny |}.

Definition optN_eqb (a b : option N) : bool :=
  match a, b with Some x, Some y => N.eqb x y | None, None => true | _, _ => false end.
(* RecoveryProposal { rule_set, timed_recovery_delay_in_minutes } with derived PartialEq *)
Record proposal := { p_rules : ruleset; p_delay : option N }.
Definition proposal_eqb (a b : proposal) : bool :=
  ruleset_eqb (p_rules a) (p_rules b) && optN_eqb (p_delay a) (p_delay b).

(* ---------- state: the 5-tuple ---------- *)
Inductive rec_attempt :=
  | RecNone
  | RecUntimed (p : proposal)
  | RecTimed (p : proposal) (allowed_after : Z).   (* Instant: seconds *)
Record acstate := {
  s_locked : bool;                   (* PrimaryRoleLockingState *)
  s_prim_rec : option proposal;      (* PrimaryRoleRecoveryAttemptState *)
  s_prim_wd : bool;                  (* PrimaryRoleBadgeWithdrawAttemptState *)
  s_rec_rec : rec_attempt;           (* RecoveryRoleRecoveryAttemptState *)
  s_rec_wd : bool                    (* RecoveryRoleBadgeWithdrawAttemptState *)
}.
Definition st_default : acstate :=
  {| s_locked := false; s_prim_rec := None; s_prim_wd := false; s_rec_rec := RecNone; s_rec_wd := false |}.

(* the controller: substate + role assignment (Main module roles) + whether the controlled asset
   is still in the vault + ids minted on the recovery badge resource + the v2 XRD fee vault *)
Record controller := {
  c_st : acstate;
  c_delay : option N;                (* timed_recovery_delay_in_minutes : Option<u32> *)
  c_roles : ruleset;
  c_badge : bool;
  c_minted : list N;                 (* recovery-badge ids ever minted (ids are never reusable) *)
  c_burned : list N;                 (* recovery-badge ids burned by their holders *)
  c_fee : option Z
}.
Definition create (rs : ruleset) (delay : option N) : controller :=
  {| c_st := st_default; c_delay := delay; c_roles := rs; c_badge := true; c_minted := []; c_burned := []; c_fee := None |}.

Definition set_st (c : controller) (s : acstate) : controller :=
  {| c_st := s; c_delay := c_delay c; c_roles := c_roles c; c_badge := c_badge c; c_minted := c_minted c; c_burned := c_burned c; c_fee := c_fee c |}.
Definition set_roles (c : controller) (rs : ruleset) : controller :=
  {| c_st := c_st c; c_delay := c_delay c; c_roles := rs; c_badge := c_badge c; c_minted := c_minted c; c_burned := c_burned c; c_fee := c_fee c |}.
Definition set_badge (c : controller) (b : bool) : controller :=
  {| c_st := c_st c; c_delay := c_delay c; c_roles := c_roles c; c_badge := b; c_minted := c_minted c; c_burned := c_burned c; c_fee := c_fee c |}.
Definition set_minted (c : controller) (l : list N) : controller :=
  {| c_st := c_st c; c_delay := c_delay c; c_roles := c_roles c; c_badge := c_badge c; c_minted := l; c_burned := c_burned c; c_fee := c_fee c |}.
Definition set_burned (c : controller) (l : list N) : controller :=
  {| c_st := c_st c; c_delay := c_delay c; c_roles := c_roles c; c_badge := c_badge c; c_minted := c_minted c; c_burned := l; c_fee := c_fee c |}.
Definition set_fee (c : controller) (f : option Z) : controller :=
  {| c_st := c_st c; c_delay := c_delay c; c_roles := c_roles c; c_badge := c_badge c; c_minted := c_minted c; c_burned := c_burned c; c_fee := f |}.

(* ---------- methods ---------- *)
Inductive meth :=
  | MCreateProof
  | MInitRec (pr : proposer) (p : proposal)     (* initiate_recovery_as_{primary,recovery} *)
  | MInitWd (pr : proposer)                     (* initiate_badge_withdraw_attempt_as_* *)
  | MQuickRec (pr : proposer) (p : proposal)    (* quick_confirm_*_role_recovery_proposal *)
  | MQuickWd (pr : proposer)                    (* quick_confirm_*_role_badge_withdraw_attempt *)
  | MTimedConfirm (p : proposal)
  | MCancelRec (pr : proposer)
  | MCancelWd (pr : proposer)
  | MLock
  | MUnlock
  | MStopTimed (p : proposal)
  | MMint (ids : list N)
  | MLockFee (amt : Z)                          (* v2 *)
  | MWithdrawFee (amt : Z)                      (* v2 *)
  | MContributeFee (amt : Z)                    (* v2 *)
  (* not a blueprint method: a direct `set` on the attached role-assignment module for a Main-module role *)
  | MSetRoleDirect (r : role) (new : rule)
  (* not a blueprint method either: the holder of a recovery badge burns it (burner = allow_all on
     the recovery badge resource created by `create`) *)
  | MBurnBadge (id : N).

Definition meth_name (m : meth) : string :=
  match m with
  | MCreateProof => "create_proof"
  | MInitRec PPrimary _ => "initiate_recovery_as_primary"
  | MInitRec PRecovery _ => "initiate_recovery_as_recovery"
  | MInitWd PPrimary => "initiate_badge_withdraw_attempt_as_primary"
  | MInitWd PRecovery => "initiate_badge_withdraw_attempt_as_recovery"
  | MQuickRec PPrimary _ => "quick_confirm_primary_role_recovery_proposal"
  | MQuickRec PRecovery _ => "quick_confirm_recovery_role_recovery_proposal"
  | MQuickWd PPrimary => "quick_confirm_primary_role_badge_withdraw_attempt"
  | MQuickWd PRecovery => "quick_confirm_recovery_role_badge_withdraw_attempt"
  | MTimedConfirm _ => "timed_confirm_recovery"
  | MCancelRec PPrimary => "cancel_primary_role_recovery_proposal"
  | MCancelRec PRecovery => "cancel_recovery_role_recovery_proposal"
  | MCancelWd PPrimary => "cancel_primary_role_badge_withdraw_attempt"
  | MCancelWd PRecovery => "cancel_recovery_role_badge_withdraw_attempt"
  | MLock => "lock_primary_role"
  | MUnlock => "unlock_primary_role"
  | MStopTimed _ => "stop_timed_recovery"
  | MMint _ => "mint_recovery_badges"
  | MLockFee _ => "lock_recovery_fee"
  | MWithdrawFee _ => "withdraw_recovery_fee"
  | MContributeFee _ => "contribute_recovery_fee"
  | MSetRoleDirect _ _ => "<role_assignment.set>"
  | MBurnBadge _ => "<recovery_badge.burn>"
  end%string.

(* ---------- admission: the generated table ---------- *)
Record table := {
  t_methods : list (string * (bool * list string));   (* name -> (public?, roles) *)
  t_updaters : list (string * list string);           (* role -> updater roles *)
  t_self : string                                     (* SELF_ROLE *)
}.
Fixpoint lookup {A} (k : string) (l : list (string * A)) : option A :=
  match l with
  | [] => None
  | (k', v) :: l' => if String.eqb k k' then Some v else lookup k l'
  end.
Definition mem_str (s : string) (l : list string) : bool := existsb (String.eqb s) l.

(* the roles of `names` that exist on the controller and whose current rule the caller satisfies *)
Definition sat_roles (names : list string) (rs : ruleset) (who : caller) : list role :=
  filter (fun r => mem_str (role_name r) names && rule_sat (role_rule rs r) who) all_roles.
Definition admitted (acc : bool * list string) (rs : ruleset) (who : caller) : bool :=
  fst acc || match sat_roles (snd acc) rs who with [] => false | _ => true end.
(* update_role_assignment runs as the component itself: allowed iff SELF is an updater of all three *)
Definition self_can_update (t : table) : bool :=
  forallb (fun r => match lookup (role_name r) (t_updaters t) with
                    | Some ups => mem_str (t_self t) ups
                    | None => false end) all_roles.
(* an external caller updating role r directly: needs to satisfy one of r's updater roles; SELF (and
   the absent owner) is never satisfied by an external caller *)
Definition direct_update_admitted (t : table) (r : role) (rs : ruleset) (who : caller) : bool :=
  match lookup (role_name r) (t_updaters t) with
  | Some ups => match sat_roles ups rs who with [] => false | _ => true end
  | None => false
  end.

(* ---------- outcomes ---------- *)
Inductive err :=
  | EUnauthorized | ENoSuchMethod
  | EOpRequiresUnlocked | ETimeOverflow
  | ERecAlreadyExists (p : proposer) | ENoRecExists (p : proposer)
  | EWdAlreadyExists (p : proposer) | ENoWdExists (p : proposer)
  | ENoTimedFound | EDelayNotElapsed | EMismatch | ENoXrdFeeVault
  | EOther.
Inductive outcome := Ok | Fail (e : err).

(* ---------- time (radix-common Instant, consensus_manager compare_current_time) ---------- *)
Definition i64_min := -9223372036854775808.
Definition i64_max := 9223372036854775807.
Definition i32_min := -2147483648.
Definition i32_max := 2147483647.
Definition in_i64 (x : Z) : bool := (i64_min <=? x) && (x <=? i64_max).
Definition in_i32 (x : Z) : bool := (i32_min <=? x) && (x <=? i32_max).
(* get_current_time(Minute): epoch_minute_to_instant *)
Definition current_time (now : Z) : Z := now * 60.
(* Instant::add_minutes: checked_mul then checked_add on i64 *)
Definition add_minutes (s m : Z) : option Z :=
  if in_i64 (m * 60) then (if in_i64 (s + m * 60) then Some (s + m * 60) else None) else None.
(* compare_current_time(instant, Minute, Gte): the instant is converted to an i32 minute
   (seconds*1000 checked, `/ 60000` truncating, try_from i32), saturating to i32::MIN/MAX on overflow *)
Definition instant_to_minute (s : Z) : Z :=
  let clamp := if s <? 0 then i32_min else i32_max in
  if in_i64 (s * 1000) then
    (let m := Z.quot (s * 1000) 60000 in if in_i32 m then m else clamp)
  else clamp.
Definition time_elapsed (now allowed_after : Z) : bool := instant_to_minute allowed_after <=? now.

(* ---------- the transitions (state_machine.rs, in file order) + glue (blueprint.rs) ---------- *)
Definition upd_prim_rec (s : acstate) (x : option proposal) : acstate :=
  {| s_locked := s_locked s; s_prim_rec := x; s_prim_wd := s_prim_wd s; s_rec_rec := s_rec_rec s; s_rec_wd := s_rec_wd s |}.
Definition upd_prim_wd (s : acstate) (x : bool) : acstate :=
  {| s_locked := s_locked s; s_prim_rec := s_prim_rec s; s_prim_wd := x; s_rec_rec := s_rec_rec s; s_rec_wd := s_rec_wd s |}.
Definition upd_rec_rec (s : acstate) (x : rec_attempt) : acstate :=
  {| s_locked := s_locked s; s_prim_rec := s_prim_rec s; s_prim_wd := s_prim_wd s; s_rec_rec := x; s_rec_wd := s_rec_wd s |}.
Definition upd_rec_wd (s : acstate) (x : bool) : acstate :=
  {| s_locked := s_locked s; s_prim_rec := s_prim_rec s; s_prim_wd := s_prim_wd s; s_rec_rec := s_rec_rec s; s_rec_wd := x |}.
Definition upd_locked (s : acstate) (x : bool) : acstate :=
  {| s_locked := x; s_prim_rec := s_prim_rec s; s_prim_wd := s_prim_wd s; s_rec_rec := s_rec_rec s; s_rec_wd := s_rec_wd s |}.

Definition set_role (rs : ruleset) (r : role) (x : rule) : ruleset :=
  match r with
  | Primary => {| rs_primary := x; rs_recovery := rs_recovery rs; rs_confirmation := rs_confirmation rs |}
  | Recovery => {| rs_primary := rs_primary rs; rs_recovery := x; rs_confirmation := rs_confirmation rs |}
  | Confirmation => {| rs_primary := rs_primary rs; rs_recovery := rs_recovery rs; rs_confirmation := x |}
  end.

(* blueprint.rs update_role_assignment: three RoleAssignment.set calls made by the component itself,
   in the order primary, recovery, confirmation; each needs SELF among the updaters of that role
   (resolve_update_role_method_permission); the first refusal aborts the transaction *)
Definition self_updates (t : table) (r : role) : bool :=
  match lookup (role_name r) (t_updaters t) with Some ups => mem_str (t_self t) ups | None => false end.
Definition update_role_assignment (t : table) (cur new : ruleset) : option ruleset :=
  if self_updates t Primary then
    let r1 := set_role cur Primary (rs_primary new) in
    if self_updates t Recovery then
      let r2 := set_role r1 Recovery (rs_recovery new) in
      if self_updates t Confirmation then Some (set_role r2 Confirmation (rs_confirmation new)) else None
    else None
  else None.
(* confirmation glue: state machine reset (transition_mut) + update_role_assignment *)
Definition confirm_rules (t : table) (c : controller) (rs : ruleset) : controller * outcome :=
  match update_role_assignment t (c_roles c) rs with
  | Some rs' => (set_roles (set_st c st_default) rs', Ok)
  | None => (c, Fail EUnauthorized)
  end.
(* badge withdrawal glue: reset + controlled_asset.take_all + update_role_assignment(locked_role_assignment) *)
Definition confirm_withdraw (t : table) (c : controller) : controller * outcome :=
  match update_role_assignment t (c_roles c) deny_all_rules with
  | Some rs' => (set_badge (set_roles (set_st c st_default) rs') false, Ok)
  | None => (c, Fail EUnauthorized)
  end.

Fixpoint nodupb (l : list N) : bool :=
  match l with [] => true | x :: l' => negb (existsb (N.eqb x) l') && nodupb l' end.

Definition body (t : table) (c : controller) (now : Z) (m : meth) : controller * outcome :=
  let s := c_st c in
  match m with
  | MCreateProof =>
      if s_locked s then (c, Fail EOpRequiresUnlocked)
      else if c_badge c then (c, Ok) else (c, Fail EOther)   (* empty vault: no proof of nothing *)
  | MInitRec PPrimary p =>
      match s_prim_rec s with
      | None => (set_st c (upd_prim_rec s (Some p)), Ok)
      | Some _ => (c, Fail (ERecAlreadyExists PPrimary))
      end
  | MInitRec PRecovery p =>
      match s_rec_rec s with
      | RecNone =>
          match c_delay c with
          | Some d =>
              match add_minutes (current_time now) (Z.of_N d) with
              | Some after => (set_st c (upd_rec_rec s (RecTimed p after)), Ok)
              | None => (c, Fail ETimeOverflow)
              end
          | None => (set_st c (upd_rec_rec s (RecUntimed p)), Ok)
          end
      | _ => (c, Fail (ERecAlreadyExists PRecovery))
      end
  | MInitWd PPrimary =>
      if s_prim_wd s then (c, Fail (EWdAlreadyExists PPrimary))
      else (set_st c (upd_prim_wd s true), Ok)
  | MInitWd PRecovery =>
      (* as written: the error of the recovery variant is RecoveryAlreadyExistsForProposer *)
      if s_rec_wd s then (c, Fail (ERecAlreadyExists PRecovery))
      else (set_st c (upd_rec_wd s true), Ok)
  | MQuickRec PPrimary q =>
      match s_prim_rec s with
      | Some p => if proposal_eqb p q then confirm_rules t c (p_rules p) else (c, Fail EMismatch)
      | None => (c, Fail (ENoRecExists PPrimary))
      end
  | MQuickRec PRecovery q =>
      match s_rec_rec s with
      | RecUntimed p | RecTimed p _ =>
          if proposal_eqb p q then confirm_rules t c (p_rules p) else (c, Fail EMismatch)
      | RecNone => (c, Fail (ENoRecExists PRecovery))
      end
  | MQuickWd PPrimary =>
      if s_prim_wd s then confirm_withdraw t c else (c, Fail (ENoWdExists PPrimary))
  | MQuickWd PRecovery =>
      if s_rec_wd s then confirm_withdraw t c else (c, Fail (ENoWdExists PRecovery))
  | MTimedConfirm q =>
      match s_rec_rec s with
      | RecTimed p after =>
          if proposal_eqb p q then
            (if time_elapsed now after then confirm_rules t c (p_rules p) else (c, Fail EDelayNotElapsed))
          else (c, Fail EMismatch)
      | _ => (c, Fail ENoTimedFound)
      end
  | MCancelRec PPrimary =>
      match s_prim_rec s with
      | Some _ => (set_st c (upd_prim_rec s None), Ok)
      | None => (c, Fail (ENoRecExists PPrimary))
      end
  | MCancelRec PRecovery =>
      match s_rec_rec s with
      | RecNone => (c, Fail (ENoRecExists PRecovery))
      | _ => (set_st c (upd_rec_rec s RecNone), Ok)
      end
  | MCancelWd PPrimary =>
      if s_prim_wd s then (set_st c (upd_prim_wd s false), Ok) else (c, Fail (ENoWdExists PPrimary))
  | MCancelWd PRecovery =>
      if s_rec_wd s then (set_st c (upd_rec_wd s false), Ok) else (c, Fail (ENoWdExists PRecovery))
  | MLock => (set_st c (upd_locked s true), Ok)
  | MUnlock => (set_st c (upd_locked s false), Ok)
  | MStopTimed q =>
      match s_rec_rec s with
      | RecTimed p _ =>
          if proposal_eqb p q then (set_st c (upd_rec_rec s (RecUntimed p)), Ok) else (c, Fail EMismatch)
      | _ => (c, Fail ENoTimedFound)
      end
  | MMint ids =>
      (* recovery badge resource: integer ids, minter = this component; an id can be minted once *)
      if nodupb ids && negb (existsb (fun i => existsb (N.eqb i) (c_minted c)) ids)
      then (set_minted c (ids ++ c_minted c), Ok) else (c, Fail EOther)
  | MLockFee amt =>
      (* the amount actually consumed as fee is outside the model: the vault balance is kept *)
      match c_fee c with None => (c, Fail ENoXrdFeeVault) | Some _ => (c, Ok) end
  | MWithdrawFee amt =>
      match c_fee c with
      | None => (c, Fail ENoXrdFeeVault)
      | Some b => if (0 <=? amt) && (amt <=? b) then (set_fee c (Some (b - amt)), Ok) else (c, Fail EOther)
      end
  | MContributeFee amt =>
      if 0 <=? amt then
        (set_fee c (Some (match c_fee c with Some b => b + amt | None => amt end)), Ok)
      else (c, Fail EOther)
  | MSetRoleDirect _ _ => (c, Fail EOther)   (* never reached through `step` *)
  | MBurnBadge _ => (c, Fail EOther)         (* never reached through `step` *)
  end.

(* one call by `who` at minute `now`: the auth module checks the method's accessibility against the
   controller's CURRENT role assignment before the body runs *)
Definition step (t : table) (c : controller) (who : caller) (now : Z) (m : meth) : controller * outcome :=
  match m with
  | MSetRoleDirect r x =>
      if direct_update_admitted t r (c_roles c) who then (set_roles c (set_role (c_roles c) r x), Ok)
      else (c, Fail EUnauthorized)
  | MBurnBadge id =>
      (* only a live badge can be in the holder's bucket; the burned id stays unmintable (tombstone) *)
      if existsb (N.eqb id) (c_minted c) && negb (existsb (N.eqb id) (c_burned c))
      then (set_burned c (id :: c_burned c), Ok) else (c, Fail EOther)
  | _ =>
      match lookup (meth_name m) (t_methods t) with
      | None => (c, Fail ENoSuchMethod)
      | Some acc => if admitted acc (c_roles c) who then body t c now m else (c, Fail EUnauthorized)
      end
  end.

(* ---------- histories ---------- *)
Record event := { e_who : caller; e_now : Z; e_meth : meth }.
(* a history entry: controller before the call, the call, controller after, outcome *)
Record entry := { h_before : controller; h_ev : event; h_after : controller; h_out : outcome }.
Definition do_event (t : table) (c : controller) (e : event) : controller * outcome :=
  step t c (e_who e) (e_now e) (e_meth e).
Fixpoint run (t : table) (c : controller) (evs : list event) : list entry :=
  match evs with
  | [] => []
  | e :: evs' =>
      let r := do_event t c e in
      {| h_before := c; h_ev := e; h_after := fst r; h_out := snd r |} :: run t (fst r) evs'
  end.
Definition final (t : table) (c : controller) (evs : list event) : controller :=
  fold_left (fun c e => fst (do_event t c e)) evs c.
