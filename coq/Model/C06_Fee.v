(* C06 — executable model of the fee reserve and of fee finalisation.
   Model only: no proofs here.

   Code modelled (as written):
     radix-engine/src/system/system_modules/costing/fee_reserve.rs    SystemLoanFeeReserve (all of it)
     radix-engine/src/system/system_modules/costing/fee_summary.rs    FeeReserveFinalizationSummary
     radix-engine/src/system/system_callback.rs     determine_result_type (fee part),
                                                    finalize_fees_for_commit (amounts, the 3 asserts)
     radix-transactions/src/model/execution/executable_common.rs      TipSpecifier::{proportion, fee_multiplier}
   Abstractions:
     - a Decimal is its number of attos (Z) with the I192 range check; checked_mul goes through I256 as
       the code does; `+=`/`-=`/unwrap/expect/assert failures are panics (None / RPanic / DPanic);
     - vaults and royalty recipients are numbers; IndexMaps are insertion-ordered association lists;
     - vault substates are not modelled: a refund is the amount put back (locked - taken). *)
From Coq Require Import List ZArith Bool.
Import ListNotations.
Open Scope Z_scope.

Definition ONE : Z := 10 ^ 18.
Definition I192_MIN : Z := - 2 ^ 191.
Definition I192_MAX : Z := 2 ^ 191 - 1.
Definition I256_MIN : Z := - 2 ^ 255.
Definition I256_MAX : Z := 2 ^ 255 - 1.
Definition U32_MAX : Z := 4294967295.
Definition USIZE_MAX : Z := 18446744073709551615.
Definition in_i192 (z : Z) : bool := (I192_MIN <=? z) && (z <=? I192_MAX).
Definition in_i256 (z : Z) : bool := (I256_MIN <=? z) && (z <=? I256_MAX).

(* None = None of checked_* (and a panic where the code unwraps) *)
Definition dchk (z : Z) : option Z := if in_i192 z then Some z else None.
Definition dadd (a b : Z) : option Z := dchk (a + b).
Definition dsub (a b : Z) : option Z := dchk (a - b).
Definition dmul (a b : Z) : option Z :=
  if in_i256 (a * b) then dchk (Z.quot (a * b) ONE) else None.
(* Decimal::from(u8/u32/u64/usize) *)
Definition of_int (n : Z) : Z := n * ONE.

(* ---- parameters ----------------------------------------------------------------------------------- *)
Record params := mkParams {
  exec_price : Z; exec_limit : Z; exec_loan : Z;
  fin_price : Z; fin_limit : Z;
  usd_price : Z; state_price : Z; archive_price : Z
}.
Inductive tip := TipNone | TipPercentage (p : Z) | TipBasisPoints (b : Z).
(* TipSpecifier::proportion: I192 multiplication of a u16/u32 with 0.01 / 0.0001 *)
Definition proportion (t : tip) : Z :=
  match t with TipNone => 0 | TipPercentage p => p * 10 ^ 16 | TipBasisPoints b => b * 10 ^ 14 end.

Inductive storage_type := SState | SArchive.
Definition st_eqb (a b : storage_type) : bool :=
  match a, b with SState, SState => true | SArchive, SArchive => true | _, _ => false end.

Record reserve := mkReserve {
  cp : params; tp_tip : tip; free_credit : Z; abort_when_repaid : bool;
  eff_exec : Z; eff_fin : Z;
  balance : Z; owed : Z;
  exec_c : Z; exec_d : Z; fin_c : Z; fin_d : Z;
  royalty_c : Z; royalty_bd : list (Z * Z);
  storage_c : Z; storage_d : list (storage_type * Z);
  locked : list (Z * Z * bool)          (* vault, amount, contingent *)
}.

Definition set_balance (r : reserve) (b : Z) : reserve :=
  mkReserve (cp r) (tp_tip r) (free_credit r) (abort_when_repaid r) (eff_exec r) (eff_fin r) b (owed r)
    (exec_c r) (exec_d r) (fin_c r) (fin_d r) (royalty_c r) (royalty_bd r) (storage_c r) (storage_d r) (locked r).
Definition set_owed (r : reserve) (o : Z) : reserve :=
  mkReserve (cp r) (tp_tip r) (free_credit r) (abort_when_repaid r) (eff_exec r) (eff_fin r) (balance r) o
    (exec_c r) (exec_d r) (fin_c r) (fin_d r) (royalty_c r) (royalty_bd r) (storage_c r) (storage_d r) (locked r).
Definition set_exec (r : reserve) (c d : Z) : reserve :=
  mkReserve (cp r) (tp_tip r) (free_credit r) (abort_when_repaid r) (eff_exec r) (eff_fin r) (balance r) (owed r)
    c d (fin_c r) (fin_d r) (royalty_c r) (royalty_bd r) (storage_c r) (storage_d r) (locked r).
Definition set_fin (r : reserve) (c d : Z) : reserve :=
  mkReserve (cp r) (tp_tip r) (free_credit r) (abort_when_repaid r) (eff_exec r) (eff_fin r) (balance r) (owed r)
    (exec_c r) (exec_d r) c d (royalty_c r) (royalty_bd r) (storage_c r) (storage_d r) (locked r).
Definition set_royalty (r : reserve) (c : Z) (bd : list (Z * Z)) : reserve :=
  mkReserve (cp r) (tp_tip r) (free_credit r) (abort_when_repaid r) (eff_exec r) (eff_fin r) (balance r) (owed r)
    (exec_c r) (exec_d r) (fin_c r) (fin_d r) c bd (storage_c r) (storage_d r) (locked r).
Definition set_storage (r : reserve) (c : Z) (d : list (storage_type * Z)) : reserve :=
  mkReserve (cp r) (tp_tip r) (free_credit r) (abort_when_repaid r) (eff_exec r) (eff_fin r) (balance r) (owed r)
    (exec_c r) (exec_d r) (fin_c r) (fin_d r) (royalty_c r) (royalty_bd r) c d (locked r).
Definition set_locked (r : reserve) (l : list (Z * Z * bool)) : reserve :=
  mkReserve (cp r) (tp_tip r) (free_credit r) (abort_when_repaid r) (eff_exec r) (eff_fin r) (balance r) (owed r)
    (exec_c r) (exec_d r) (fin_c r) (fin_d r) (royalty_c r) (royalty_bd r) (storage_c r) (storage_d r) l.

(* SystemLoanFeeReserve::new; None = one of its asserts / unwraps / expect panics *)
Definition reserve_new (p : params) (t : tip) (free : Z) (abort : bool) : option reserve :=
  if (exec_price p <? 0) || (fin_price p <? 0) || (usd_price p <? 0) || (state_price p <? 0)
     || (archive_price p <? 0) || (free <? 0) then None else
  match dadd ONE (proportion t) with          (* fee_multiplier: Decimal::ONE + proportion *)
  | None => None
  | Some mult =>
    match dmul (exec_price p) mult, dmul (fin_price p) mult with
    | Some ee, Some ef =>
        match dmul ee (of_int (exec_loan p)) with
        | Some loan =>
            match dadd loan free with
            | Some start =>
                Some (mkReserve p t free abort ee ef start loan 0 0 0 0 0 [] 0 [] [])
            | None => None
            end
        | None => None
        end
    | _, _ => None
    end
  end.

Inductive ferr := InsufficientBalance | Overflow | LimitExceeded | LoanRepaymentFailed | Abort.
Inductive outcome := OOk | OErr (e : ferr) | OPanic.

(* consume_execution_internal *)
Definition consume_exec_internal (r : reserve) (u : Z) : outcome * reserve :=
  if U32_MAX <? exec_c r + u then (OErr Overflow, r)
  else if exec_limit (cp r) <? exec_c r + u then (OErr LimitExceeded, r)
  else match dmul (eff_exec r) (of_int u) with
       | None => (OErr Overflow, r)
       | Some amount =>
           if balance r <? amount then (OErr InsufficientBalance, r)
           else match dsub (balance r) amount with
                | None => (OPanic, r)
                | Some b => (OOk, set_exec (set_balance r b) (exec_c r + u) (exec_d r))
                end
       end.

Definition consume_fin_internal (r : reserve) (u : Z) : outcome * reserve :=
  if U32_MAX <? fin_c r + u then (OErr Overflow, r)
  else if fin_limit (cp r) <? fin_c r + u then (OErr LimitExceeded, r)
  else match dmul (eff_fin r) (of_int u) with
       | None => (OErr Overflow, r)
       | Some amount =>
           if balance r <? amount then (OErr InsufficientBalance, r)
           else match dsub (balance r) amount with
                | None => (OPanic, r)
                | Some b => (OOk, set_fin (set_balance r b) (fin_c r + u) (fin_d r))
                end
       end.

Definition consume_storage (r : reserve) (t : storage_type) (size : Z) : outcome * reserve :=
  let price := match t with SState => state_price (cp r) | SArchive => archive_price (cp r) end in
  match dmul price (of_int size) with
  | None => (OErr Overflow, r)
  | Some amount =>
      if balance r <? amount then (OErr InsufficientBalance, r)
      else match dsub (balance r) amount, dadd (storage_c r) amount with
           | Some b, Some sc => (OOk, set_storage (set_balance r b) sc (storage_d r))
           | _, _ => (OPanic, r)
           end
  end.

(* the loop of repay_all over the deferred storage entries (keys collected first) *)
Fixpoint repay_storage (r : reserve) (keys : list storage_type) : outcome * reserve :=
  match keys with
  | [] => (OOk, r)
  | t :: ks =>
      match find (fun e => st_eqb (fst e) t) (storage_d r) with
      | None => (OPanic, r)                                 (* .get(&t).cloned().unwrap() *)
      | Some e =>
          match consume_storage r t (snd e) with
          | (OOk, r1) =>
              repay_storage
                (set_storage r1 (storage_c r1) (filter (fun e => negb (st_eqb (fst e) t)) (storage_d r1))) ks
          | other => other
          end
      end
  end.

Definition repay_all (r : reserve) : outcome * reserve :=
  match consume_exec_internal r (exec_d r) with
  | (OOk, r1) =>
      let r1 := set_exec r1 (exec_c r1) 0 in
      match consume_fin_internal r1 (fin_d r1) with
      | (OOk, r2) =>
          let r2 := set_fin r2 (fin_c r2) 0 in
          match repay_storage r2 (map fst (storage_d r2)) with
          | (OOk, r3) =>
              let amount := Z.min (balance r3) (owed r3) in
              match dsub (owed r3) amount, dsub (balance r3) amount with
              | Some o, Some b =>
                  let r4 := set_balance (set_owed r3 o) b in
                  if negb (o =? 0) then (OErr LoanRepaymentFailed, r4)
                  else if abort_when_repaid r4 then (OErr Abort, r4)
                  else (OOk, r4)
              | _, _ => (OPanic, r3)
              end
          | other => other
          end
      | other => other
      end
  | other => other
  end.

Definition fully_repaid (r : reserve) : bool := owed r =? 0.

Inductive royalty_amount := RXrd (x : Z) | RUsd (x : Z) | RFree.

Fixpoint bd_add (bd : list (Z * Z)) (k a : Z) : option (list (Z * Z)) :=
  match bd with
  | [] => match dadd 0 a with Some v => Some [(k, v)] | None => None end
  | (k', v) :: bd' =>
      if k' =? k then match dadd v a with Some v' => Some ((k', v') :: bd') | None => None end
      else match bd_add bd' k a with Some x => Some ((k', v) :: x) | None => None end
  end.

Inductive fop :=
| DeferExec (u : Z) | DeferFin (u : Z) | DeferStorage (t : storage_type) (size : Z)
| ConsumeExec (u : Z) | ConsumeFin (u : Z) | ConsumeStorage (t : storage_type) (size : Z)
| ConsumeRoyalty (a : royalty_amount) (recipient : Z)
| LockFee (vault : Z) (amount : Z) (contingent : bool)
| RepayAll | RevertRoyalty.

Definition apply_op (r : reserve) (o : fop) : outcome * reserve :=
  match o with
  | DeferExec u =>
      if U32_MAX <? exec_d r + u then (OErr Overflow, r) else (OOk, set_exec r (exec_c r) (exec_d r + u))
  | DeferFin u =>
      if U32_MAX <? fin_d r + u then (OErr Overflow, r) else (OOk, set_fin r (fin_c r) (fin_d r + u))
  | DeferStorage t size =>
      let cur := match find (fun e => st_eqb (fst e) t) (storage_d r) with Some e => snd e | None => 0 end in
      if USIZE_MAX <? cur + size then (OPanic, r)
      else
        let d := if existsb (fun e => st_eqb (fst e) t) (storage_d r)
                 then map (fun e => if st_eqb (fst e) t then (fst e, cur + size) else e) (storage_d r)
                 else storage_d r ++ [(t, cur + size)] in
        (OOk, set_storage r (storage_c r) d)
  | ConsumeExec u =>
      if u =? 0 then (OOk, r) else
      match consume_exec_internal r u with
      | (OOk, r1) =>
          if negb (fully_repaid r1) && (exec_loan (cp r1) <=? exec_c r1) then repay_all r1 else (OOk, r1)
      | other => other
      end
  | ConsumeFin u => if u =? 0 then (OOk, r) else consume_fin_internal r u
  | ConsumeStorage t size => consume_storage r t size
  | ConsumeRoyalty a recipient =>
      let zero := match a with RXrd x => x =? 0 | RUsd x => x =? 0 | RFree => true end in
      let neg := match a with RXrd x => x <? 0 | RUsd x => x <? 0 | RFree => false end in
      if zero then (OOk, r) else if neg then (OPanic, r) else
      match (match a with RXrd x => Some x | RUsd x => dmul x (usd_price (cp r)) | RFree => Some 0 end) with
      | None => (OErr Overflow, r)
      | Some amount =>
          if balance r <? amount then (OErr InsufficientBalance, r)
          else match dsub (balance r) amount, bd_add (royalty_bd r) recipient amount, dadd (royalty_c r) amount with
               | Some b, Some bd, Some rc => (OOk, set_royalty (set_balance r b) rc bd)
               | _, _, _ => (OPanic, r)
               end
      end
  | LockFee v amount contingent =>
      if contingent then (OOk, set_locked r (locked r ++ [(v, amount, true)]))
      else match dadd (balance r) amount with
           | None => (OPanic, r)
           | Some b => (OOk, set_locked (set_balance r b) (locked r ++ [(v, amount, false)]))
           end
  | RepayAll => repay_all r
  | RevertRoyalty =>
      match dadd (balance r) (royalty_c r) with
      | None => (OPanic, r)
      | Some b => (OOk, set_royalty (set_balance r b) 0 [])
      end
  end.

(* a run: outcomes of every op; stops after a panic *)
Fixpoint run_ops (r : reserve) (os : list fop) : list outcome * reserve :=
  match os with
  | [] => ([], r)
  | o :: os' =>
      match apply_op r o with
      | (OPanic, r1) => ([OPanic], r1)
      | (x, r1) => let '(xs, r2) := run_ops r1 os' in (x :: xs, r2)
      end
  end.

(* ---- finalisation summary ------------------------------------------------------------------------- *)
Record summary := mkSummary {
  s_exec_units : Z; s_fin_units : Z;
  s_exec_xrd : Z; s_fin_xrd : Z; s_tip_xrd : Z; s_storage_xrd : Z; s_royalty_xrd : Z;
  s_bad_debt : Z;
  s_locked : list (Z * Z * bool);
  s_royalty_bd : list (Z * Z)
}.

(* FinalizingFeeReserve::finalize; None = an unwrap panics *)
Definition finalize (r : reserve) : option summary :=
  match dmul (exec_price (cp r)) (of_int (exec_c r)), dmul (fin_price (cp r)) (of_int (fin_c r)) with
  | Some ex, Some fx =>
      match dmul ex (proportion (tp_tip r)), dmul fx (proportion (tp_tip r)) with
      | Some te, Some tf =>
          match dadd te tf with
          | Some tipx =>
              Some (mkSummary (exec_c r) (fin_c r) ex fx tipx (storage_c r) (royalty_c r) (owed r)
                              (locked r) (royalty_bd r))
          | None => None
          end
      | _, _ => None
      end
  | _, _ => None
  end.

Definition obind {A B} (x : option A) (f : A -> option B) : option B :=
  match x with Some a => f a | None => None end.

Definition total_cost (s : summary) : option Z :=
  obind (dadd (s_exec_xrd s) (s_fin_xrd s)) (fun a =>
  obind (dadd a (s_tip_xrd s)) (fun b =>
  obind (dadd b (s_storage_xrd s)) (fun c => dadd c (s_royalty_xrd s)))).
Definition network_fees (s : summary) : option Z :=
  obind (dadd (s_exec_xrd s) (s_fin_xrd s)) (fun a => dadd a (s_storage_xrd s)).

(* share percentages (u8 constants of radix-common, generated into Gen/C06_consts.v) *)
Record shares := mkShares { tips_proposer : Z; tips_validator : Z; fees_proposer : Z; fees_validator : Z }.
Definition ONE_HUNDREDTH : Z := 10 ^ 16.

Definition share_of (x pct : Z) : option Z :=
  obind (dmul ONE_HUNDREDTH (of_int pct)) (fun f => dmul x f).
Definition to_proposer (sh : shares) (s : summary) : option Z :=
  obind (share_of (s_tip_xrd s) (tips_proposer sh)) (fun a =>
  obind (network_fees s) (fun nf => obind (share_of nf (fees_proposer sh)) (fun b => dadd a b))).
Definition to_validator_set (sh : shares) (s : summary) : option Z :=
  obind (share_of (s_tip_xrd s) (tips_validator sh)) (fun a =>
  obind (network_fees s) (fun nf => obind (share_of nf (fees_validator sh)) (fun b => dadd a b))).
Definition to_burn (sh : shares) (s : summary) : option Z :=
  obind (network_fees s) (fun nf =>
  obind (dadd (s_tip_xrd s) nf) (fun a =>
  obind (to_proposer sh s) (fun p =>
  obind (dsub a p) (fun b =>
  obind (to_validator_set sh s) (fun v => dsub b v))))).

(* ---- determine_result_type (fee part) and finalize_fees_for_commit ------------------------------------ *)
Inductive result_type := Commit (success : bool) | Reject | AbortTx | ResultPanic.

(* interpretation_ok: the manifest ran to completion; otherwise a (non-abort) runtime error *)
Definition determine_result (interpretation_ok : bool) (r : reserve) : result_type * reserve :=
  match repay_all r with
  | (OPanic, r1) => (ResultPanic, r1)
  | (o, r1) =>
      if interpretation_ok then
        match o with
        | OOk => (Commit true, r1)
        | OErr Abort => (AbortTx, r1)
        | _ => (Reject, r1)
        end
      else if fully_repaid r1 then (Commit false, r1) else (Reject, r1)
  end.

Inductive panic_kind := PkOverflow | PkTake | PkBadDebt | PkRequired | PkSplit.
Record dist_out := mkDist {
  d_payments : list (Z * Z);      (* fee_payments: vault -> amount taken (IndexMap, reverse lock order) *)
  d_refunds : list (Z * Z);       (* per lock entry, in loop order: vault, amount put back *)
  d_free_used : Z;
  d_collected : Z;
  d_proposer : Z; d_validator : Z; d_burn : Z;
  d_royalties : list (Z * Z)
}.
Inductive dres := DOk (o : dist_out) | DPanic (k : panic_kind).

(* the loop over locked fees (already reversed): returns required', collected', payments', refunds *)
Fixpoint take_fees (ls : list (Z * Z * bool)) (is_success : bool) (required collected : Z)
         (payments refunds : list (Z * Z)) : option (Z * Z * list (Z * Z) * list (Z * Z)) + panic_kind :=
  match ls with
  | [] => inl (Some (required, collected, payments, refunds))
  | (v, lk, contingent) :: ls' =>
      let amount := if contingent then (if is_success then Z.min lk required else 0) else Z.min lk required in
      if lk <? amount then inr PkTake else                          (* take_by_amount(..).unwrap() *)
      match dsub lk amount, dadd collected amount, dsub required amount with
      | Some rest, Some col, Some req =>
          match bd_add payments v amount with
          | Some pay => take_fees ls' is_success req col pay (refunds ++ [(v, rest)])
          | None => inr PkOverflow
          end
      | _, _, _ => inr PkOverflow
      end
  end.

Definition distribute (sh : shares) (s : summary) (free : Z) (is_success : bool) : dres :=
  match total_cost s with
  | None => DPanic PkOverflow
  | Some required =>
      match take_fees (rev (s_locked s)) is_success required 0 [] [] with
      | inr k => DPanic k
      | inl None => DPanic PkOverflow
      | inl (Some (req1, col1, pay, refunds)) =>
          let fc := if 0 <? free then Z.min free req1 else 0 in
          match dadd col1 fc, dsub req1 fc with
          | Some col2, Some req2 =>
              match to_proposer sh s, to_validator_set sh s, to_burn sh s with
              | Some p, Some v, Some b =>
                  if negb (s_bad_debt s =? 0) then DPanic PkBadDebt
                  else if negb (req2 =? 0) then DPanic PkRequired
                  else
                    match dsub col2 (s_royalty_xrd s), obind (dadd p v) (fun x => dadd x b) with
                    | Some remaining, Some to_dist =>
                        if negb (remaining =? to_dist) then DPanic PkSplit
                        else DOk (mkDist pay refunds fc col2 p v b (s_royalty_bd s))
                    | _, _ => DPanic PkOverflow
                    end
              | _, _, _ => DPanic PkOverflow
              end
          | _, _ => DPanic PkOverflow
          end
      end
  end.

(* create_commit_receipt, fee part: revert royalties on failure, then finalize and distribute *)
Definition commit_fees (sh : shares) (r : reserve) (is_success : bool) : dres :=
  match (if is_success then (OOk, r) else apply_op r RevertRoyalty) with
  | (OOk, r1) =>
      match finalize r1 with
      | Some s => distribute sh s (free_credit r1) is_success
      | None => DPanic PkOverflow
      end
  | _ => DPanic PkOverflow
  end.

(* ---- events and vault writes of finalize_fees_for_commit ------------------------------------------------ *)
(* vault ids: a fee-locking vault is the number used in `locked`; the royalty vault of a recipient is the
   recipient's number (RoyaltyRecipient::vault_id); REWARDS_VAULT is the consensus manager's rewards vault *)
Inductive event := EvDeposit (vault amount : Z) | EvPayFee (vault amount : Z) | EvBurn (amount : Z).
Definition REWARDS_VAULT : Z := -1.

(* per lock entry, in loop order: (vault, amount taken) where taken = locked - put back *)
Fixpoint paid_per_lock (ls : list (Z * Z * bool)) (refs : list (Z * Z)) : list (Z * Z) :=
  match ls, refs with
  | (v, lk, _) :: ls', (_, rest) :: refs' => (v, lk - rest) :: paid_per_lock ls' refs'
  | _, _ => []
  end.

(* `if !to_proposer.is_zero() || !to_validator_set.is_zero()` *)
Definition rewards_paid (o : dist_out) : bool := negb ((d_proposer o =? 0) && (d_validator o =? 0)).

(* the events pushed by finalize_fees_for_commit, in order: a DepositEvent per royalty recipient, a
   PayFeeEvent per locked fee (reverse lock order), the rewards-vault DepositEvent, the burn event *)
Definition fee_events (s : summary) (o : dist_out) : list event :=
  map (fun e => EvDeposit (fst e) (snd e)) (d_royalties o)
  ++ map (fun e => EvPayFee (fst e) (snd e)) (paid_per_lock (rev (s_locked s)) (d_refunds o))
  ++ (if rewards_paid o then [EvDeposit REWARDS_VAULT (d_proposer o + d_validator o)] else [])
  ++ (if 0 <? d_burn o then [EvBurn (d_burn o)] else []).

(* the vault balance writes: royalty vaults receive their royalties, every locking vault gets back
   locked - taken (the locked amount left the vault when the fee was locked), the rewards vault receives
   proposer + validator-set rewards *)
Definition vault_writes (o : dist_out) : list (Z * Z) :=
  d_royalties o ++ d_refunds o
  ++ (if rewards_paid o then [(REWARDS_VAULT, d_proposer o + d_validator o)] else []).

(* ValidatorRewardsSubstate.proposer_rewards[current_leader] += to_proposer (only inside the
   rewards_paid branch, only when there is a leader) *)
Definition proposer_reward (leader : option Z) (o : dist_out) : option (Z * Z) :=
  if rewards_paid o then match leader with Some l => Some (l, d_proposer o) | None => None end else None.
