(* C21 — executable model of the untyped streaming traverser
   (sbor/src/traversal/untyped/traverser.rs: VecTraverser::step, ActionHandler) on top of the
   decoder primitives of Model/C20_Sbor.v.  Model only, no proofs.
   The traverser is a stack machine: `tstate` = next action, ancestor stack (innermost first),
   remaining input.  Offsets are `total - |remaining|`.  Panics of the code (`next_event` after an
   End/Error event, the `expect`/`unreachable!` sites) are explicit `TPanic` outcomes.           *)
From Coq Require Import List NArith ZArith Bool.
Import ListNotations.
Require Import RV.Lib.Utf8 RV.Model.C20_Sbor.
Open Scope N_scope.

Inductive header :=
| HTuple (len : N) | HEnum (variant len : N) | HArray (ek : vkind) (len : N)
| HMap (kk vk : vkind) (len : N).

Definition child_count (h : header) : N :=
  match h with HTuple n | HEnum _ n | HArray _ n => n | HMap _ _ n => n * 2 end.
(* ContainerHeader::get_implicit_child_value_kind *)
Definition implicit_kind (h : header) (idx : N) : option vkind :=
  match h with
  | HTuple _ | HEnum _ _ => None
  | HArray ek _ => Some ek
  | HMap kk vk _ => if N.even idx then Some kk else Some vk
  end.

Record ancestor := { a_hdr : header; a_start : N; a_idx : N }.

Inductive action :=
| AReadPrefix (p : N) | AReadRootValue | AReadRootBody (k : vkind)
| AContainerStart (h : header) (start : N) | ANextChild | AErrored | AEnded.

Inductive tevent :=
| EvContainerStart (h : header) | EvContainerEnd (h : header)
| EvTerminal (v : value) | EvBatch (b : bytes) | EvEnd | EvError (e : dec_err).

(* event + location: start/end offset, ancestor path (outermost first) as (start, child index) *)
Record located := { l_ev : tevent; l_start : N; l_end : N; l_path : list (N * N) }.

Record tstate := { t_act : action; t_stack : list ancestor; t_in : bytes }.
Record tconfig := { c_md : N; c_check_end : bool; c_total : N }.

Inductive tout := TStep (e : located) (s : tstate) | TPanic.

Section WithFlavour.
Variable fl : flavour.
Variable cfg : tconfig.

Definition offset (st : bytes) : N := c_total cfg - nlen st.
Definition path_of (stack : list ancestor) : list (N * N) :=
  rev (map (fun a => (a_start a, a_idx a)) stack).

Definition complete (ev : tevent) (start : N) (stack : list ancestor) (st : bytes) (next : action) : tout :=
  TStep {| l_ev := ev; l_start := start; l_end := offset st; l_path := path_of stack |}
        {| t_act := next; t_stack := stack; t_in := st |}.
Definition complete_err (e : dec_err) (start : N) (stack : list ancestor) (st : bytes) : tout :=
  complete (EvError e) start stack st AErrored.

(* the decoder position after a failed read is not modelled byte-exactly: on error the remaining
   input reported is the input at the start of the failed primitive sequence (only l_end of error
   events depends on it; the correspondence ignores l_end of error events) *)
Definition is_container (k : vkind) : bool :=
  match k with KEnum | KArray | KTuple | KMap => true | _ => false end.

(* ActionHandler::read_value_body *)
Definition read_value_body (k : vkind) (start : N) (stack : list ancestor) (st : bytes) : tout :=
  match k with
  | KTuple =>
    match read_size st with
    | Ok (n, st') => complete (EvContainerStart (HTuple n)) start stack st' (AContainerStart (HTuple n) start)
    | Err e => complete_err e start stack st | _ => TPanic end
  | KEnum =>
    match ('(v, st1) <- read_byte st ;; '(n, st2) <- read_size st1 ;; Ok (v, n, st2)) with
    | Ok (v, n, st') => complete (EvContainerStart (HEnum v n)) start stack st' (AContainerStart (HEnum v n) start)
    | Err e => complete_err e start stack st | _ => TPanic end
  | KArray =>
    match ('(ek, st1) <- read_value_kind fl st ;; '(n, st2) <- read_size st1 ;; Ok (ek, n, st2)) with
    | Ok (ek, n, st') => complete (EvContainerStart (HArray ek n)) start stack st' (AContainerStart (HArray ek n) start)
    | Err e => complete_err e start stack st | _ => TPanic end
  | KMap =>
    match ('(kk, st1) <- read_value_kind fl st ;; '(vk, st2) <- read_value_kind fl st1 ;;
           '(n, st3) <- read_size st2 ;; Ok (kk, vk, n, st3)) with
    | Ok (kk, vk, n, st') => complete (EvContainerStart (HMap kk vk n)) start stack st' (AContainerStart (HMap kk vk n) start)
    | Err e => complete_err e start stack st | _ => TPanic end
  | _ =>
    (* terminal values: the same body decoders as the Value decoder (they do not recurse) *)
    match dec_body fl 1 0 0 k st with
    | Ok (v, st') => complete (EvTerminal v) start stack st' ANextChild
    | Err e => complete_err e start stack st
    | _ => TPanic
    end
  end.

(* ActionHandler::read_value *)
Definition read_value (implicit : option vkind) (stack : list ancestor) (st : bytes) : tout :=
  let start := offset st in
  match implicit with
  | Some k => read_value_body k start stack st
  | None =>
    match read_value_kind fl st with
    | Ok (k, st') => read_value_body k start stack st'
    | Err e => complete_err e start stack st
    | _ => TPanic
    end
  end.

Definition is_u8_array (h : header) : bool :=
  match h with HArray (KInt U8) _ => true | _ => false end.

(* VecTraverser::step *)
Definition step (s : tstate) : tout :=
  let stack := t_stack s in
  let st := t_in s in
  match t_act s with
  | AReadPrefix p =>
    let start := offset st in
    match read_byte st with
    | Ok (b, st') =>
      if negb (b =? p) then complete_err (UnexpectedPayloadPrefix p b) start stack st'
      else read_value None stack st'
    | Err e => complete_err e start stack st
    | _ => TPanic
    end
  | AReadRootValue => read_value None stack st
  | AReadRootBody k => read_value (Some k) stack st
  | AContainerStart h cstart =>
    let cnt := child_count h in
    if cnt =? 0 then complete (EvContainerEnd h) cstart stack st ANextChild
    else
      let stack1 := {| a_hdr := h; a_start := cstart; a_idx := 0 |} :: stack in
      if c_md cfg <=? nlen stack1 then complete_err (MaxDepthExceeded (c_md cfg)) (offset st) stack1 st
      else if is_u8_array h then
        let stack2 := {| a_hdr := h; a_start := cstart; a_idx := cnt - 1 |} :: stack in
        match read_slice cnt st with
        | Ok (b, st') => complete (EvBatch b) (offset st) stack2 st' ANextChild
        | Err e => complete_err e (offset st) stack2 st
        | _ => TPanic
        end
      else read_value (implicit_kind h 0) stack1 st
  | ANextChild =>
    match stack with
    | parent :: rest =>
      let next := a_idx parent + 1 in
      if child_count (a_hdr parent) <=? next
      then complete (EvContainerEnd (a_hdr parent)) (a_start parent) rest st ANextChild
      else
        let stack1 := {| a_hdr := a_hdr parent; a_start := a_start parent; a_idx := next |} :: rest in
        read_value (implicit_kind (a_hdr parent) next) stack1 st
    | [] =>
      if c_check_end cfg && negb (nlen st =? 0)
      then complete_err (ExtraTrailingBytes (nlen st)) (offset st) [] st
      else complete EvEnd (offset st) [] st AEnded
    end
  | AErrored | AEnded => TPanic
  end.

Definition is_final (e : tevent) : bool :=
  match e with EvEnd | EvError _ => true | _ => false end.

(* drive the traverser as its callers do: next_event until End or DecodeError *)
Inductive trun := RDone (evs : list located) | RPanic (evs : list located) | ROutOfFuel (evs : list located).
Fixpoint run (fuel : nat) (s : tstate) : trun :=
  match fuel with
  | O => ROutOfFuel []
  | S f =>
    match step s with
    | TPanic => RPanic []
    | TStep e s' =>
      if is_final (l_ev e) then RDone [e]
      else match run f s' with
           | RDone l => RDone (e :: l) | RPanic l => RPanic (e :: l) | ROutOfFuel l => ROutOfFuel (e :: l)
           end
    end
  end.
End WithFlavour.

(* a payload traverser as created by basic/scrypto/manifest payload traverser constructors *)
Definition traverse_payload (fl : flavour) (md : N) (check_end : bool) (input : bytes) : trun :=
  let cfg := {| c_md := md; c_check_end := check_end; c_total := nlen input |} in
  run fl cfg (2 * length input + 4)
      {| t_act := AReadPrefix (payload_prefix fl); t_stack := []; t_in := input |}.

Definition accepts (r : trun) : bool :=
  match r with
  | RDone evs => match rev evs with e :: _ => match l_ev e with EvEnd => true | _ => false end | [] => false end
  | _ => false
  end.

(* number of nodes of a value tree (every Value / element / map key / map value counts 1) *)
Fixpoint vnodes (v : value) : nat :=
  match v with
  | VEnum _ fs | VArray _ fs | VTuple fs => S (fold_right (fun x m => vnodes x + m)%nat O fs)
  | VMap _ _ es =>
    S ((fix go (es : list (value * value)) : nat :=
          match es with [] => O | (k, x) :: t => (vnodes k + vnodes x + go t)%nat end) es)
  | _ => 1%nat
  end.
