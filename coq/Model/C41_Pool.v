(* Model/C41_Pool.v — executable model of the native pool blueprints, version v1_1
   (radix-engine/src/blueprints/pool/v1/v1_1/{one,two,multi}_resource_pool_blueprint.rs):
   contribute, redeem, get_redemption_value, calculate_amount_owed, protected_deposit,
   protected_withdraw, together with the pieces of the resource layer they call (vault put / take /
   take_advanced, bucket take_advanced, mint with the 2^152 limit, burn).

   Amounts are integers: a Decimal is its number of attos (10^-18), a PreciseDecimal its number of
   10^-36 subunits.  Every checked_* operation that can return None is an [option]; the
   panicking paths of the code (vault `put` = `checked_add(..).expect("Overflow")`, the `assert!`s of
   `checked_round`, `PreciseDecimal::from(Decimal)` which multiplies with the panicking `*`) are the
   explicit outcome [PPanic].  No proofs here. *)
From Coq Require Import ZArith List Bool.
Import ListNotations.
Open Scope Z_scope.

(* Integer types and floor roots.  These few definitions are the same as in Lib/DecCore.v (the
   fixed-point core of C24-C27); they are repeated here so that this model does not have to be
   recompiled whenever that library is being extended. *)
Record ity := { ibits : Z; isigned : bool }.
Definition imin (t : ity) : Z := if isigned t then - 2 ^ (ibits t - 1) else 0.
Definition imax (t : ity) : Z := if isigned t then 2 ^ (ibits t - 1) - 1 else 2 ^ ibits t - 1.
Definition in_ity (t : ity) (z : Z) : bool := (imin t <=? z) && (z <=? imax t).
Definition SI (b : Z) : ity := {| ibits := b; isigned := true |}.
Definition I192 := SI 192.  Definition I256 := SI 256.  Definition I384 := SI 384.
(* floor n-th root of x >= 0 for n >= 1 by bisection; invariant lo^n <= x < hi^n *)
Fixpoint iroot_go (fuel : nat) (n x lo hi : Z) : Z :=
  match fuel with
  | O => lo
  | S k =>
    if hi - lo <=? 1 then lo else
    let mid := (lo + hi) / 2 in
    if mid ^ n <=? x then iroot_go k n x mid hi else iroot_go k n x lo mid
  end.
Definition iroot (n x : Z) : Z :=
  if x <=? 0 then 0 else
  iroot_go (S (S (Z.to_nat (Z.log2 x)))) n x 0 (2 ^ (Z.log2 x / n + 1)).
Definition troot (n x : Z) : Z := if x <? 0 then - iroot n (- x) else iroot n x.

Definition DD : Z := 10 ^ 18.        (* Decimal::ONE in attos = 10^(36-18) *)
Definition PP : Z := 10 ^ 36.        (* PreciseDecimal::ONE in subunits *)
Definition MAX_MINT : Z := 2 ^ 152.  (* fungible_resource_manager.rs MAX_MINT_AMOUNT, in attos *)

Definition in192 (z : Z) : bool := in_ity I192 z.
Definition in256 (z : Z) : bool := in_ity I256 z.
Definition in384 (z : Z) : bool := in_ity I384 z.

(* ---------------------------------------------------------------------------------------------- *)
(* outcomes *)

Inductive perr :=
| EEmptyBucket          (* ContributionOfEmptyBucketError (one-resource pool) *)
| EDecOverflow          (* DecimalOverflowError *)
| EZeroMinted           (* ZeroPoolUnitsMinted *)
| ERedeemedZero         (* RedeemedZeroTokens (one-resource pool) *)
| ESupplyNoReserves     (* NonZeroPoolUnitSupplyButZeroReserves *)
| ELargerContribution   (* LargerContributionRequiredToMeetRatio *)
| ENoMinRatio           (* NoMinimumRatio (multi-resource pool) *)
| EInvalidRedemption    (* InvalidGetRedemptionAmount *)
| EMaxMint              (* FungibleResourceManagerError::MaxMintAmountExceeded *)
| EResourceManager      (* any other FungibleResourceManagerError (invalid amount, supply overflow) *)
| EVault                (* VaultError (invalid amount / insufficient balance / overflow) *)
| EBucket               (* BucketError (take_advanced on a bucket) *)
| EDropNonEmpty.        (* dropping a non-empty bucket *)

Inductive pres (A : Type) :=
| POk (a : A)
| PErr (e : perr)
| PPanic.
Arguments POk {A} a.
Arguments PErr {A} e.
Arguments PPanic {A}.

Definition pbind {A B} (r : pres A) (f : A -> pres B) : pres B :=
  match r with POk a => f a | PErr e => PErr e | PPanic => PPanic end.
Notation "'let+' x ':=' r 'in' k" := (pbind r (fun x => k))
  (at level 200, x pattern, r at level 100, k at level 200, right associativity).
(* `.ok_or(e)?` on an Option *)
Definition orerr {A} (e : perr) (o : option A) : pres A :=
  match o with Some a => POk a | None => PErr e end.
Definition obind {A B} (o : option A) (f : A -> option B) : option B :=
  match o with Some a => f a | None => None end.

(* ---------------------------------------------------------------------------------------------- *)
(* Decimal / PreciseDecimal operations used by the pools (precise_decimal.rs, decimal.rs) *)

(* From<Decimal> for PreciseDecimal: Self(I256::from(attos) * I256::TEN.pow(18)); `*` panics *)
Definition pd_of_dec (a : Z) : pres Z := if in256 (a * DD) then POk (a * DD) else PPanic.

(* checked_add: I256 checked_add *)
Definition pd_add (a b : Z) : option Z := if in256 (a + b) then Some (a + b) else None.
(* checked_mul: I384 a*b (checked), / 10^36 (truncating), I256::try_from *)
Definition pd_mul (a b : Z) : option Z :=
  if in384 (a * b) then
    let c := Z.quot (a * b) PP in if in256 c then Some c else None
  else None.
(* checked_div: I384 a*10^36 (checked), / b (None on zero), I256::try_from *)
Definition pd_div (a b : Z) : option Z :=
  if in384 (a * PP) then
    if b =? 0 then None else
    let c := Z.quot (a * PP) b in if in256 c then Some c else None
  else None.

(* checked_round of a value stored in integer type [t] with [sc] decimal places, for the three
   modes the pools use.  [dp] = requested decimal places.  Returns PPanic for the two assert!s. *)
Inductive rdir := RDown (* ToNegativeInfinity *) | RUp (* ToPositiveInfinity *) | RZero (* ToZero *).
Definition round_to (t : ity) (sc dp : Z) (m : rdir) (x : Z) : pres (option Z) :=
  if negb (dp <=? sc) then PPanic else
  if negb (0 <=? dp) then PPanic else
  let divisor := 10 ^ (sc - dp) in
  let remainder := Z.rem x divisor in
  if remainder =? 0 then POk (Some x) else
  let positive_remainder := if remainder <? 0 then divisor + remainder else remainder in
  let up := match m with RDown => false | RUp => true | RZero => negb (0 <? x) end in
  POk (if up then (let y := x + (divisor - positive_remainder) in if in_ity t y then Some y else None)
       else (let y := x - positive_remainder in if in_ity t y then Some y else None)).

(* TryFrom<PreciseDecimal> for Decimal = checked_truncate(ToZero):
   checked_round(18, ToZero)?, checked_div(10^18)?, try_into I192 *)
Definition pd_to_dec (p : Z) : pres (option Z) :=
  let+ r := round_to I256 36 18 RZero p in
  POk (obind r (fun r => let a := Z.quot r DD in if in192 a then Some a else None)).

(* Decimal::checked_round(divisibility, mode) *)
Definition dec_round (dv : Z) (m : rdir) (a : Z) : pres (option Z) := round_to I192 18 dv m a.

(* PreciseDecimal::checked_sqrt: I384 x*10^36, integer sqrt, I256::try_from *)
Definition pd_sqrt (x : Z) : option Z :=
  if x <? 0 then None else if x =? 0 then Some 0 else
  let r := iroot 2 (x * PP) in if in256 r then Some r else None.
(* PreciseDecimal::checked_nth_root(n) for x >= 0 (BigInt x*10^(36(n-1)), nth_root, try_from.unwrap) *)
Definition pd_nth_root (n : Z) (x : Z) : pres (option Z) :=
  if ((x <? 0) && Z.even n) || (n =? 0) then POk None else
  if n =? 1 then POk (Some x) else
  if x =? 0 then POk (Some 0) else
  let r := troot n (x * PP ^ (n - 1)) in
  if in256 r then POk (Some r) else PPanic.

(* ---------------------------------------------------------------------------------------------- *)
(* resource layer *)

Definition step (dv : Z) : Z := 10 ^ (18 - dv).
(* check_fungible_amount *)
Definition amount_ok (dv a : Z) : bool := negb (a <? 0) && (Z.rem a (step dv) =? 0).

(* LiquidFungibleResource::put: checked_add(..).expect("Overflow") *)
Definition vault_put (r a : Z) : pres Z := if in192 (r + a) then POk (r + a) else PPanic.

Inductive wstrat := WExact | WDown | WUp.   (* Exact, Rounded(ToNegativeInfinity), Rounded(ToPositiveInfinity) *)
(* {vault,bucket}.take_advanced(amount, strategy): for_withdrawal, check_fungible_amount,
   take_by_amount; returns (taken, remaining).  [e] = EVault or EBucket. *)
Definition take_advanced (e : perr) (dv : Z) (bal a : Z) (w : wstrat) : pres (Z * Z) :=
  let+ a' := (match w with
              | WExact => POk (Some a)
              | WDown => dec_round dv RDown a
              | WUp => dec_round dv RUp a
              end) in
  match a' with
  | None => PErr e
  | Some a' =>
    if negb (amount_ok dv a') then PErr e else
    if bal <? a' then PErr e else POk (a', bal - a')
  end.

(* FungibleResourceManager::mint for the pool unit resource (divisibility 18, supply tracked) *)
Definition mint_units (s m : Z) : pres Z :=
  if m <? 0 then PErr EResourceManager else
  if MAX_MINT <? m then PErr EMaxMint else
  if in192 (s + m) then POk (s + m) else PErr EResourceManager.

(* ---------------------------------------------------------------------------------------------- *)
(* calculate_amount_owed (identical in the three blueprints, per resource) *)

Definition amount_owed (dv : Z) (units supply reserve : Z) : pres Z :=
  let+ u := pd_of_dec units in
  let+ s := pd_of_dec supply in
  let+ r := pd_of_dec reserve in
  let+ owed := orerr EDecOverflow (obind (pd_div u s) (fun d => pd_mul d r)) in
  let+ od := pd_to_dec owed in
  match od with
  | None => PErr EDecOverflow
  | Some v => let+ x := dec_round dv RDown v in orerr EDecOverflow x
  end.

Fixpoint amounts_owed (dvs : list Z) (units supply : Z) (rs : list Z) : pres (list Z) :=
  match dvs, rs with
  | dv :: dvs', r :: rs' =>
      let+ o := amount_owed dv units supply r in
      let+ os := amounts_owed dvs' units supply rs' in
      POk (o :: os)
  | _, _ => POk []
  end.

(* vault.take(amount) for every owed amount (Exact) *)
Fixpoint take_all (dvs rs owed : list Z) : pres (list Z) :=
  match dvs, rs, owed with
  | dv :: dvs', r :: rs', o :: owed' =>
      let+ (_, r') := take_advanced EVault dv r o WExact in
      let+ rest := take_all dvs' rs' owed' in
      POk (r' :: rest)
  | _, _, _ => POk []
  end.

(* ---------------------------------------------------------------------------------------------- *)
(* pool state and the three contribute functions *)

Record pool := { supply : Z; reserves : list Z }.

(* result of a contribution: new state, pool units minted, amount taken of each resource
   (change = provided - taken) *)
Definition contrib_out := (pool * Z * list Z)%type.

Definition to_dec_or_overflow (p : Z) : pres Z :=
  let+ d := pd_to_dec p in orerr EDecOverflow d.

(* --- OneResourcePool::contribute --- *)
Definition one_contribute (s r c : Z) : pres contrib_out :=
  if c =? 0 then PErr EEmptyBucket else
  let+ rp := pd_of_dec r in
  let+ sp := pd_of_dec s in
  let+ cp := pd_of_dec c in
  let+ mp := (match 0 <? sp, 0 <? rp with
              | false, false => POk cp
              | false, true => orerr EDecOverflow (pd_add cp rp)
              | true, false => PErr ESupplyNoReserves
              | true, true => orerr EDecOverflow (obind (pd_div cp rp) (fun d => pd_mul d sp))
              end) in
  let+ m := to_dec_or_overflow mp in
  if m =? 0 then PErr EZeroMinted else
  let+ r' := vault_put r c in
  let+ s' := mint_units s m in
  POk ({| supply := s'; reserves := [r'] |}, m, [c]).

(* --- TwoResourcePool::contribute; index 1 = the resource with the greater address --- *)
Definition two_candidate (sp r1p : Z) (c : option (Z * Z)) (c1p c2p : Z) : option (Z * Z * Z) :=
  match c with
  | Some (a1, a2) =>
      if (a1 <=? c1p) && (a2 <=? c2p) then
        match obind (pd_div a1 r1p) (fun d => pd_mul d sp) with
        | Some m => Some (a1, a2, m)
        | None => None
        end
      else None
  | None => None
  end.
(* Iterator::max_by returns the last of several maximal elements *)
Definition two_pick (a b : option (Z * Z * Z)) : option (Z * Z * Z) :=
  match a, b with
  | Some (x1, x2, mx), Some (y1, y2, my) => if my <? mx then a else b
  | Some _, None => a
  | None, _ => b
  end.

Definition two_contribute (dv1 dv2 : Z) (s r1 r2 c1 c2 : Z) : pres contrib_out :=
  let+ sp := pd_of_dec s in
  let+ r1p := pd_of_dec r1 in
  let+ r2p := pd_of_dec r2 in
  let+ c1p := pd_of_dec c1 in
  let+ c2p := pd_of_dec c2 in
  let+ (a1p, a2p, mp) :=
    (match 0 <? r1p, 0 <? r2p, 0 <? sp with
     | _, _, false =>
         let+ mp := (if (c1p =? 0) || (c2p =? 0) then POk (Z.max c1p c2p)
                     else
                       match obind (pd_sqrt c1p) (fun q1 => obind (pd_sqrt c2p) (fun q2 => pd_mul q1 q2)) with
                       | None => PErr EDecOverflow
                       | Some v => let+ x := round_to I256 36 18 RUp v in orerr EDecOverflow x
                       end) in
         POk (c1p, c2p, mp)
     | false, true, true =>
         let+ m := orerr EDecOverflow (obind (pd_div c2p r2p) (fun d => pd_mul d sp)) in
         POk (0, c2p, m)
     | true, false, true =>
         let+ m := orerr EDecOverflow (obind (pd_div c1p r1p) (fun d => pd_mul d sp)) in
         POk (c1p, 0, m)
     | true, true, true =>
         let ca := option_map (fun x => (c1p, x)) (obind (pd_div c1p r1p) (fun d => pd_mul d r2p)) in
         let cb := option_map (fun x => (x, c2p)) (obind (pd_div c2p r2p) (fun d => pd_mul d r1p)) in
         orerr EDecOverflow (two_pick (two_candidate sp r1p ca c1p c2p) (two_candidate sp r1p cb c1p c2p))
     | false, false, true => PErr ESupplyNoReserves
     end) in
  let+ a1 := to_dec_or_overflow a1p in
  let+ a2 := to_dec_or_overflow a2p in
  let+ m := to_dec_or_overflow mp in
  let+ (t1, rest1) := take_advanced EBucket dv1 c1 a1 WDown in
  let+ (t2, rest2) := take_advanced EBucket dv2 c2 a2 WDown in
  if ((t1 =? 0) && negb (r1 =? 0)) || ((t2 =? 0) && negb (r2 =? 0)) then PErr ELargerContribution else
  if m =? 0 then PErr EZeroMinted else
  let+ s' := mint_units s m in
  let+ r1' := vault_put r1 t1 in
  let+ r2' := vault_put r2 t2 in
  (* only one change bucket is returned; the other one is dropped and must be empty *)
  if negb (rest1 =? 0) && negb (rest2 =? 0) then PErr EDropNonEmpty else
  POk ({| supply := s'; reserves := [r1'; r2'] |}, m, [t1; t2]).

(* --- MultiResourcePool::contribute --- *)
(* fold of the geometric mean: accumulator starts at ONE; value.nth_root(n) * accumulator *)
Fixpoint geo_fold (n : Z) (cs : list Z) (acc : Z) : pres (option Z) :=
  match cs with
  | [] => POk (Some acc)
  | c :: cs' =>
      let+ r := pd_nth_root n c in
      match obind r (fun r => pd_mul r acc) with
      | None => POk None
      | Some acc' => geo_fold n cs' acc'
      end
  end.

Fixpoint put_all (rs cs : list Z) : pres (list Z) :=
  match rs, cs with
  | r :: rs', c :: cs' =>
      let+ r' := vault_put r c in
      let+ rest := put_all rs' cs' in
      POk (r' :: rest)
  | _, _ => POk []
  end.

(* the ratios contribution/reserves of the resources with non-zero reserves (None = skipped) *)
Fixpoint ratios (rps cps : list Z) : list Z :=
  match rps, cps with
  | rp :: rps', cp :: cps' =>
      if rp =? 0 then ratios rps' cps' else
      match pd_div cp rp with Some k => k :: ratios rps' cps' | None => ratios rps' cps' end
  | _, _ => []
  end.
Definition list_min (l : list Z) : option Z :=
  match l with [] => None | x :: l' => Some (fold_left Z.min l' x) end.

(* the per-resource loop of the "not a new pool" branch: returns new reserves and taken amounts *)
Fixpoint multi_take (dvs rs cs : list Z) (k : Z) : pres (list Z * list Z) :=
  match dvs, rs, cs with
  | dv :: dvs', r :: rs', c :: cs' =>
      let+ rp := pd_of_dec r in
      let+ ap := orerr EDecOverflow (pd_mul rp k) in
      let+ a := to_dec_or_overflow ap in
      let+ (t, _) := take_advanced EBucket dv c a WDown in
      if (t =? 0) && negb (rp =? 0) then PErr ELargerContribution else
      let+ r' := vault_put r t in
      let+ (rs'', ts) := multi_take dvs' rs' cs' k in
      POk (r' :: rs'', t :: ts)
  | _, _, _ => POk ([], [])
  end.

Fixpoint pd_of_decs (l : list Z) : pres (list Z) :=
  match l with
  | [] => POk []
  | a :: l' => let+ p := pd_of_dec a in let+ ps := pd_of_decs l' in POk (p :: ps)
  end.

Definition multi_contribute (dvs : list Z) (s : Z) (rs cs : list Z) : pres contrib_out :=
  let+ sp := pd_of_dec s in
  let+ rps := pd_of_decs rs in
  let+ cps := pd_of_decs cs in
  let+ (mp, rs', ts) :=
    (if sp =? 0 then
       let nz := filter (fun c => negb (c =? 0)) cps in
       let+ g := geo_fold (Z.of_nat (length nz)) nz PP in
       match g with
       | None => PErr EDecOverflow
       | Some g =>
           let+ x := round_to I256 36 18 RUp g in
           let+ mp := orerr EDecOverflow x in
           let+ rs' := put_all rs cs in
           POk (mp, rs', cs)
       end
     else
       let+ k := orerr ENoMinRatio (list_min (ratios rps cps)) in
       let+ (rs', ts) := multi_take dvs rs cs k in
       let+ mp := orerr EDecOverflow (pd_mul sp k) in
       POk (mp, rs', ts)) in
  let+ m := to_dec_or_overflow mp in
  if m =? 0 then PErr EZeroMinted else
  let+ s' := mint_units s m in
  POk ({| supply := s'; reserves := rs' |}, m, ts).

(* ---------------------------------------------------------------------------------------------- *)
(* operations on a pool *)

Inductive kind := KOne | KTwo | KMulti.

Inductive op :=
| OContribute (cs : list Z)               (* amount provided per resource, in vault order *)
| ORedeem (units : Z)
| ODeposit (i : Z) (a : Z)                (* protected_deposit of resource i *)
| OWithdraw (i : Z) (a : Z) (w : wstrat)  (* protected_withdraw *)
| OGetRedemption (units : Z).

Inductive out :=
| OutContrib (minted : Z) (taken : list Z)
| OutRedeem (owed : list Z)
| OutUnit
| OutWithdraw (a : Z)
| OutValue (owed : list Z)
| OutErr (e : perr)
| OutPanic.

Definition nthz (l : list Z) (i : Z) : Z := nth (Z.to_nat i) l 0.
Fixpoint setz (l : list Z) (i : nat) (v : Z) : list Z :=
  match l, i with
  | [], _ => []
  | _ :: l', O => v :: l'
  | x :: l', S j => x :: setz l' j v
  end.

Definition contribute (k : kind) (dvs : list Z) (p : pool) (cs : list Z) : pres contrib_out :=
  match k with
  | KOne => one_contribute (supply p) (nthz (reserves p) 0) (nthz cs 0)
  | KTwo => two_contribute (nthz dvs 0) (nthz dvs 1) (supply p) (nthz (reserves p) 0) (nthz (reserves p) 1)
                           (nthz cs 0) (nthz cs 1)
  | KMulti => multi_contribute dvs (supply p) (reserves p) cs
  end.

(* redeem: amounts owed, (one-resource pool: zero check), burn, vault.take *)
Definition redeem (k : kind) (dvs : list Z) (p : pool) (u : Z) : pres (pool * list Z) :=
  let+ owed := amounts_owed dvs u (supply p) (reserves p) in
  if (match k with KOne => nthz owed 0 =? 0 | _ => false end) then PErr ERedeemedZero else
  (* burn: total_supply.checked_sub; a bucket never holds more than the total supply *)
  if supply p <? u then PErr EResourceManager else
  let+ rs' := take_all dvs (reserves p) owed in
  POk ({| supply := supply p - u; reserves := rs' |}, owed).

Definition get_redemption (k : kind) (dvs : list Z) (p : pool) (u : Z) : pres (list Z) :=
  if (u <? 0) || (u =? 0) || (supply p <? u) then PErr EInvalidRedemption else
  amounts_owed dvs u (supply p) (reserves p).

Definition step_op (k : kind) (dvs : list Z) (p : pool) (o : op) : pool * out :=
  match o with
  | OContribute cs =>
      match contribute k dvs p cs with
      | POk (p', m, ts) => (p', OutContrib m ts)
      | PErr e => (p, OutErr e)
      | PPanic => (p, OutPanic)
      end
  | ORedeem u =>
      match redeem k dvs p u with
      | POk (p', owed) => (p', OutRedeem owed)
      | PErr e => (p, OutErr e)
      | PPanic => (p, OutPanic)
      end
  | ODeposit i a =>
      match vault_put (nthz (reserves p) i) a with
      | POk r' => ({| supply := supply p; reserves := setz (reserves p) (Z.to_nat i) r' |}, OutUnit)
      | PErr e => (p, OutErr e)
      | PPanic => (p, OutPanic)
      end
  | OWithdraw i a w =>
      match take_advanced EVault (nthz dvs i) (nthz (reserves p) i) a w with
      | POk (t, r') => ({| supply := supply p; reserves := setz (reserves p) (Z.to_nat i) r' |}, OutWithdraw t)
      | PErr e => (p, OutErr e)
      | PPanic => (p, OutPanic)
      end
  | OGetRedemption u =>
      match get_redemption k dvs p u with
      | POk owed => (p, OutValue owed)
      | PErr e => (p, OutErr e)
      | PPanic => (p, OutPanic)
      end
  end.

Fixpoint run (k : kind) (dvs : list Z) (p : pool) (ops : list op) : list (out * pool) :=
  match ops with
  | [] => []
  | o :: ops' => let '(p', x) := step_op k dvs p o in (x, p') :: run k dvs p' ops'
  end.

Definition pool_new (n : nat) : pool := {| supply := 0; reserves := repeat 0 n |}.
