(* C37 — executable model of radix-common/src/data/manifest/model/manifest_resource_assertion.rs
   (ManifestResourceConstraint, GeneralResourceConstraint, LowerBound, UpperBound, AllowedIds,
   ManifestResourceConstraints::validate).  Model only, no proofs.

   Conventions
   * Decimal = its I192 subunit count (attos) as Z; SCALE = 10^18; Decimal::MAX = 2^191-1.
   * NonFungibleLocalId = N (the harness uses integer ids).
   * IndexSet<NonFungibleLocalId> = list N in insertion order (the IndexSet invariant "no duplicates"
     is a hypothesis of the theorems that need cardinalities, never of the model functions).
     `a.difference(b).next()` = first element of a (in a's order) that is not in b.
   * Decimal::from(usize) = len * 10^18 (cannot overflow I192 for len < 2^64).
   * usize::MAX (AllowedIds::Any.allowlist_equivalent_length()) = 2^64-1. *)
From Coq Require Import List ZArith NArith Bool.
Import ListNotations.
Open Scope Z_scope.

Definition SCALE : Z := 1000000000000000000.
Definition DEC_MAX : Z := 2 ^ 191 - 1.
Definition DEC_MIN : Z := - 2 ^ 191.
Definition USIZE_MAX : Z := 2 ^ 64 - 1.

Definition idset := list N.

Definition mem (x : N) (s : idset) : bool := existsb (N.eqb x) s.
(* IndexSet::difference(a, b).next() *)
Definition first_not_in (a b : idset) : option N := find (fun x => negb (mem x b)) a.
(* IndexSet::is_subset *)
Definition is_subset (a b : idset) : bool := forallb (fun x => mem x b) a.
Definition len (s : idset) : Z := Z.of_nat (length s).
(* Decimal::from(s.len()) *)
Definition dec_of_len (s : idset) : Z := len s * SCALE.

(* Decimal::checked_round(0, ToNegativeInfinity) as written: C-style remainder, made positive,
   RoundDown = self.0.checked_sub(positive_remainder) *)
Definition checked_floor (a : Z) : option Z :=
  let r := Z.rem a SCALE in
  if r =? 0 then Some a
  else
    let pr := if r <? 0 then SCALE + r else r in
    let v := a - pr in
    if v <? DEC_MIN then None else Some v.
(* `!amount.is_negative() && amount.checked_floor() == Some(amount)` *)
Definition nonneg_integral (a : Z) : bool :=
  negb (a <? 0) && match checked_floor a with Some f => f =? a | None => false end.

Inductive lower := LNonZero | LIncl (d : Z).
Inductive upper := UIncl (d : Z) | UUnbounded.
Inductive allowed := Allowlist (l : idset) | AnyIds.
Record general := mkGeneral {
  required : idset; lb : lower; ub : upper; allowed_ids : allowed }.
Inductive constraint :=
| NonZeroAmount
| ExactAmount (d : Z)
| AtLeastAmount (d : Z)
| ExactNF (s : idset)
| AtLeastNF (s : idset)
| General (g : general).

Inductive cerr :=
| ENotValidForFungible
| EExpectedNonZero
| EExpectedExact (expected actual : Z)
| EExpectedAtLeast (expected actual : Z)
| EExpectedAtMost (expected actual : Z)
| EMissing (i : N)
| ENotAllowed (i : N).
Inductive vres := VOk | VErr (e : cerr).
(* the `?` operator *)
Definition andthen (r : vres) (k : vres) : vres := match r with VOk => k | VErr e => VErr e end.

(* ---- LowerBound / UpperBound / AllowedIds ---------------------------------------------------- *)
Definition lower_eq (l : lower) : Z := match l with LIncl d => d | LNonZero => 1 end.
Definition upper_eq (u : upper) : Z := match u with UIncl d => d | UUnbounded => DEC_MAX end.

Definition lower_validate_amount (l : lower) (a : Z) : vres :=
  match l with
  | LNonZero => if a =? 0 then VErr EExpectedNonZero else VOk
  | LIncl d => if a <? d then VErr (EExpectedAtLeast d a) else VOk
  end.
Definition upper_validate_amount (u : upper) (a : Z) : vres :=
  match u with
  | UIncl d => if a >? d then VErr (EExpectedAtMost d a) else VOk
  | UUnbounded => VOk
  end.
Definition lower_valid_f (l : lower) : bool :=
  match l with LNonZero => true | LIncl d => negb (d <? 0) end.
Definition lower_valid_nf (l : lower) : bool :=
  match l with LNonZero => true | LIncl d => nonneg_integral d end.
Definition upper_valid_f (u : upper) : bool :=
  match u with UIncl d => negb (d <? 0) | UUnbounded => true end.
Definition upper_valid_nf (u : upper) : bool :=
  match u with UIncl d => nonneg_integral d | UUnbounded => true end.

(* AllowedIds::validate_ids: first id of the balance (its order) that is not allowed *)
Definition allowed_validate_ids (al : allowed) (ids : idset) : vres :=
  match al with
  | Allowlist l => match first_not_in ids l with Some i => VErr (ENotAllowed i) | None => VOk end
  | AnyIds => VOk
  end.
Definition allowlist_equivalent_length (al : allowed) : Z :=
  match al with Allowlist l => len l | AnyIds => USIZE_MAX end.
Definition allowed_valid_f (al : allowed) : bool :=
  match al with Allowlist l => match l with [] => true | _ => false end | AnyIds => true end.

(* ---- GeneralResourceConstraint --------------------------------------------------------------- *)
Definition g_validate_amount (g : general) (a : Z) : vres :=
  andthen (lower_validate_amount (lb g) a) (upper_validate_amount (ub g) a).
Definition g_validate_fungible (g : general) (a : Z) : vres := g_validate_amount g a.
Definition g_validate_nf (g : general) (ids : idset) : vres :=
  andthen (g_validate_amount g (dec_of_len ids))
    (match first_not_in (required g) ids with
     | Some i => VErr (EMissing i)
     | None => allowed_validate_ids (allowed_ids g) ids
     end).

Definition g_valid_independent (g : general) : bool :=
  if lower_eq (lb g) >? upper_eq (ub g) then false
  else if dec_of_len (required g) >? upper_eq (ub g) then false
  else match allowed_ids g with
       | Allowlist l =>
           if lower_eq (lb g) >? dec_of_len l then false
           else if negb (is_subset (required g) l) then false
           else true
       | AnyIds => true
       end.
Definition g_valid_f (g : general) : bool :=
  match required g with [] => true | _ => false end
  && lower_valid_f (lb g) && upper_valid_f (ub g) && allowed_valid_f (allowed_ids g)
  && g_valid_independent g.
Definition g_valid_nf (g : general) : bool :=
  lower_valid_nf (lb g) && upper_valid_nf (ub g) && g_valid_independent g.

Definition normalize (g : general) : general :=
  let rl := dec_of_len (required g) in
  let lb1 := if lower_eq (lb g) <? rl then LIncl rl else lb g in
  let ub1 := match allowed_ids g with
             | Allowlist l => if dec_of_len l <? upper_eq (ub g) then UIncl (dec_of_len l) else ub g
             | AnyIds => ub g
             end in
  if allowlist_equivalent_length (allowed_ids g) >? len (required g) then
    if rl =? upper_eq ub1 then mkGeneral (required g) lb1 ub1 (Allowlist (required g))
    else match allowed_ids g with
         | Allowlist l =>
             if dec_of_len l =? lower_eq lb1 then mkGeneral l lb1 ub1 (allowed_ids g)
             else mkGeneral (required g) lb1 ub1 (allowed_ids g)
         | AnyIds => mkGeneral (required g) lb1 ub1 (allowed_ids g)
         end
  else mkGeneral (required g) lb1 ub1 (allowed_ids g).

(* ---- ManifestResourceConstraint -------------------------------------------------------------- *)
Definition valid_f (c : constraint) : bool :=
  match c with
  | NonZeroAmount => true
  | ExactAmount d | AtLeastAmount d => negb (d <? 0)
  | ExactNF _ | AtLeastNF _ => false
  | General g => g_valid_f g
  end.
Definition valid_nf (c : constraint) : bool :=
  match c with
  | NonZeroAmount => true
  | ExactAmount d | AtLeastAmount d => nonneg_integral d
  | ExactNF _ | AtLeastNF _ => true
  | General g => g_valid_nf g
  end.
Definition valid_for (fungible : bool) (c : constraint) : bool :=
  if fungible then valid_f c else valid_nf c.

Definition validate_nf (c : constraint) (ids : idset) : vres :=
  let amount := dec_of_len ids in
  match c with
  | NonZeroAmount => match ids with [] => VErr EExpectedNonZero | _ => VOk end
  | ExactAmount d => if negb (amount =? d) then VErr (EExpectedExact d amount) else VOk
  | AtLeastAmount d => if amount <? d then VErr (EExpectedAtLeast d amount) else VOk
  | ExactNF s =>
      match first_not_in s ids with
      | Some i => VErr (EMissing i)
      | None => match first_not_in ids s with Some i => VErr (ENotAllowed i) | None => VOk end
      end
  | AtLeastNF s => match first_not_in s ids with Some i => VErr (EMissing i) | None => VOk end
  | General g => g_validate_nf g ids
  end.
Definition validate_f (c : constraint) (a : Z) : vres :=
  match c with
  | NonZeroAmount => if a =? 0 then VErr EExpectedNonZero else VOk
  | ExactAmount d => if negb (a =? d) then VErr (EExpectedExact d a) else VOk
  | AtLeastAmount d => if a <? d then VErr (EExpectedAtLeast d a) else VOk
  | ExactNF _ | AtLeastNF _ => VErr ENotValidForFungible
  | General g => g_validate_fungible g a
  end.

(* ---- ManifestResourceConstraints::validate(balances, prevent_unspecified) --------------------- *)
(* a resource address: (number, is_fungible) *)
Definition raddr := (N * bool)%type.
Definition raddr_eqb (a b : raddr) : bool := N.eqb (fst a) (fst b) && Bool.eqb (snd a) (snd b).
Fixpoint lookup {A} (r : raddr) (m : list (raddr * A)) : option A :=
  match m with
  | [] => None
  | (k, v) :: m' => if raddr_eqb r k then Some v else lookup r m'
  end.
Definition contains_key {A} (r : raddr) (m : list (raddr * A)) : bool :=
  match lookup r m with Some _ => true | None => false end.

Inductive cserr := EUnexpected (r : raddr) | EFailed (r : raddr) (e : cerr).
Inductive csres := CsOk | CsErr (e : cserr).

Record balances := mkBalances {
  fungible_resources : list (raddr * Z);
  non_fungible_resources : list (raddr * idset) }.

Fixpoint validate_each (cs : list (raddr * constraint)) (b : balances) : csres :=
  match cs with
  | [] => CsOk
  | (r, c) :: cs' =>
      let res :=
        if snd r then
          validate_f c (match lookup r (fungible_resources b) with Some a => a | None => 0 end)
        else
          validate_nf c (match lookup r (non_fungible_resources b) with Some s => s | None => [] end) in
      match res with
      | VErr e => CsErr (EFailed r e)
      | VOk => validate_each cs' b
      end
  end.
Definition constraints_validate (cs : list (raddr * constraint)) (b : balances) (prevent : bool) : csres :=
  let unexpected :=
    if prevent then
      match find (fun ra => negb (contains_key (fst ra) cs) && (snd ra >? 0)) (fungible_resources b) with
      | Some ra => Some (fst ra)
      | None =>
          match find (fun rs => negb (contains_key (fst rs) cs)
                                && match snd rs with [] => false | _ => true end)
                     (non_fungible_resources b) with
          | Some rs => Some (fst rs)
          | None => None
          end
      end
    else None in
  match unexpected with
  | Some r => CsErr (EUnexpected r)
  | None => validate_each cs b
  end.
Definition constraints_is_valid (cs : list (raddr * constraint)) : bool :=
  forallb (fun rc => valid_for (snd (fst rc)) (snd rc)) cs.
